/-
C13, item 2: every prefilter strategy `Searcher::new` builds pays for itself.

`Prefilter::find` (the portable packed-pair prefilter with the dispatching `memchr`, the vector
`find_prefilter`, and `find_simple` for haystacks below `min_haystack_len`) costs at most
`4 * consumed + 1020` steps, where `consumed` is the candidate offset plus one, or the haystack
length when there is no candidate (`Fallback.scanned`).  The constant comes from the pair offsets
being `u8`s: a candidate at offset `x` is found by looking at bytes up to `x + 255`.
-/
import MemchrModel.Proofs.CostMemchr
import MemchrModel.Proofs.Searcher

namespace Memchr

open Memchr.Memmem
open Fallback (scanned)

namespace Cost

/-- the crate's top-level `memchr` (every configuration) satisfies the hypothesis of the portable
prefilter with `K = 2` -/
theorem memchrOk (cfg : Api.Cfg) : Fallback.MemchrOk (topMemchr cfg) 2 := by
  intro b s c hv
  obtain ⟨c', e⟩ := topMemchr_ok cfg b s hv c
  refine ⟨c', e, ?_⟩
  obtain ⟨k, ek, hk⟩ := Api.memchr_fwd_costs cfg ⟨b, []⟩ s hv c _ c' e
  simp only [Api.scannedFwd] at hk
  omega

/-- cost form of the top-level `memchr`, with the range of the answer -/
theorem topMemchr_costs (cfg : Api.Cfg) (b : UInt8) (s : Slice) (hv : s.Valid) :
    Costs (topMemchr cfg b s) (fun r k => k ≤ scanned r s.len + 2 ∧ ∀ i, r = some i → i < s.len) := by
  intro c r c' e
  obtain ⟨k, ek, hk⟩ := Api.memchr_fwd_costs cfg ⟨b, []⟩ s hv c r c' e
  obtain ⟨c1, e1⟩ := Api.memchr_correct cfg ⟨b, []⟩ false s hv c
  have e' : Api.memchr cfg ⟨b, []⟩ false s c = .ok r c' := e
  rw [e1] at e'
  simp only [Res.ok.injEq] at e'
  refine ⟨k, ek, hk, fun i hi => ?_⟩
  rw [← e'.1] at hi
  exact Api.specIdx_lt hi

/-! ### the portable packed-pair prefilter -/

theorem fallbackLoop_costs (cfg : Api.Cfg) (f : Fallback.Finder) (hay : Slice) (hv : hay.Valid)
    (index1 index2 i : Nat) :
    Costs (Fallback.findPrefilterLoop (topMemchr cfg) f hay index1 index2 i) (fun r k =>
      match r with
      | some a => a < hay.len ∧ k + 4 * i ≤ 4 * (a + index1 + 1)
      | none => k + 4 * i ≤ 4 * (hay.len + 1)) := by
  fun_induction Fallback.findPrefilterLoop (topMemchr cfg) f hay index1 index2 i with
  | case1 i hi ih =>
    cstep
    cstep
    rename_i hle
    have hvs : Slice.Valid ⟨hay.mem, hay.off + i, hay.len - i⟩ := Fallback.drop_valid hv hle
    apply Costs.bind (topMemchr_costs cfg f.byte1 _ hvs)
    intro r k1 ⟨hk, hlt⟩
    cases r with
    | none =>
      dsimp only
      apply Costs.pure
      simp only [scanned] at hk
      show 1 + (k1 + 0) + 4 * i ≤ 4 * (hay.len + 1)
      have : (⟨hay.mem, hay.off + i, hay.len - i⟩ : Slice).len = hay.len - i := rfl
      omega
    | some k =>
      have hkl := hlt k rfl
      have hlen : (⟨hay.mem, hay.off + i, hay.len - i⟩ : Slice).len = hay.len - i := rfl
      simp only [scanned] at hk
      have hrec : Costs (Fallback.findPrefilterLoop (topMemchr cfg) f hay index1 index2 (i + k + 1))
          (fun b k2 =>
            match b with
            | some a => a < hay.len ∧ 1 + (k1 + k2) + 4 * i ≤ 4 * (a + index1 + 1)
            | none => 1 + (k1 + k2) + 4 * i ≤ 4 * (hay.len + 1)) := by
        apply (ih k).mono
        intro r k2 h
        cases r with
        | none => dsimp only at h ⊢; omega
        | some a => dsimp only at h ⊢; omega
      dsimp only
      split
      · exact hrec
      · rename_i hge
        split
        · exact hrec
        · split
          · exact hrec
          · apply Costs.pure
            show i + k - index1 < hay.len ∧
              1 + (k1 + 0) + 4 * i ≤ 4 * (i + k - index1 + index1 + 1)
            omega
  | case2 i hgt => exact Costs.fail

theorem fallback_costs (cfg : Api.Cfg) (f : Fallback.Finder) (hay : Slice) (hv : hay.Valid) :
    Costs (Fallback.findPrefilter (topMemchr cfg) f hay)
      (fun r k => k ≤ 4 * scanned r hay.len + 1020 ∧ ∀ x, r = some x → x < hay.len) := by
  unfold Fallback.findPrefilter
  apply (fallbackLoop_costs cfg f hay hv _ _ 0).mono
  intro r k h
  have := f.pair.index1.toNat_lt
  cases r with
  | none => simp only [scanned] at h ⊢; exact ⟨by omega, nofun⟩
  | some a =>
    simp only [scanned] at h ⊢
    exact ⟨by omega, fun x hx => by cases hx; exact h.1⟩

/-! ### `find_simple` -/

theorem findSimple_costs (p : Prefilter) (hay : Slice) (hv : hay.Valid) :
    Costs (p.findSimple hay)
      (fun r k => k ≤ scanned r hay.len + 257 ∧ ∀ x, r = some x → x < hay.len) := by
  unfold Prefilter.findSimple
  have hval : ∀ c, ∃ a c', Api.searchSliceWithRaw hay (Swar.One.findRaw p.rarestByte hay.mem) c =
      .ok a c' ∧ ∀ i, a = some i → i < hay.len := by
    intro c
    obtain ⟨c', e⟩ := swarOneFind_ok p.rarestByte hay hv c
    refine ⟨_, c', e, fun i hi => ?_⟩
    have := (Spec.firstIdx_eq_some_iff.mp hi).1
    simpa using this
  apply Costs.bind
    ((Api.searchSlice_fwd_costs hay _ (Swar.One.findRaw_costs _ _ _ _)).of_val hval)
  intro r k ⟨h, hlt⟩
  apply Costs.pure
  have := p.rarestOffset.toNat_lt
  cases r with
  | none =>
    simp only [Api.scannedFwd, scanned, Option.map] at h ⊢
    exact ⟨by omega, nofun⟩
  | some i =>
    have := hlt i rfl
    simp only [Api.scannedFwd, scanned, Option.map] at h ⊢
    refine ⟨by omega, fun x hx => ?_⟩
    cases hx
    omega

/-! ### the vector prefilters -/

theorem vecPrefilter_costs {n : Slice} {vf : VecFinder} (hg : vf.GoodFor n) (hay : Slice)
    (hh : hay.Valid) (hn : n.Valid) (hlen : vf.minHaystackLen ≤ hay.len) :
    Costs (vf.findPrefilter hay)
      (fun r k => k ≤ scanned r hay.len + 2 ∧ ∀ x, r = some x → x < hay.len) := by
  obtain ⟨hp, hm⟩ := hg
  have key : ∀ (V : VecImpl) (L : Lawful V),
      (PackedPair.mkFinder V n vf.pair.index1.toNat vf.pair.index2.toNat).minHaystackLen ≤ hay.len →
      Costs (PackedPair.findPrefilter V
        (PackedPair.mkFinder V n vf.pair.index1.toNat vf.pair.index2.toNat) hay)
        (fun r k => k ≤ scanned r hay.len + 2 ∧ ∀ x, r = some x → x < hay.len) := by
    intro V L hl
    have hpos := V.bytes_pos
    apply (Costs.of_total_le (P := fun r => ∀ x, r = some x → x < hay.len)
      (B := PackedPair.preCost' V
        (PackedPair.mkFinder V n vf.pair.index1.toNat vf.pair.index2.toNat) hay) ?_).mono
    · intro r k ⟨hr, hk⟩
      refine ⟨?_, hr⟩
      cases r with
      | none =>
        simp only [PackedPair.preCost', scanned] at hk ⊢
        have : (hay.len - (PackedPair.mkFinder V n vf.pair.index1.toNat
            vf.pair.index2.toNat).minHaystackLen) / V.bytes ≤ hay.len :=
          Nat.le_trans (Nat.div_le_self _ _) (Nat.sub_le _ _)
        omega
      | some x =>
        simp only [PackedPair.preCost', scanned] at hk ⊢
        have : x / V.bytes ≤ x := Nat.div_le_self _ _
        omega
    · intro c
      obtain ⟨r, c', h, hx, _, _, hc⟩ := PackedPair.findPrefilter_sound L hay n hh hn _ _ (idx_ne hp)
        hp.lt1 hp.lt2 _ c c (PackedPair.new_ok n _ _ c hp.lt1 hp.lt2) hl c
      exact ⟨r, c', h, fun x hr => by have := (hx x hr).1; omega, hc⟩
  cases vf with
  | avx2 p s a =>
    obtain ⟨rfl, rfl⟩ := hm
    simp only [VecFinder.findPrefilter]
    split
    · exact key Sensible.sse2 Sensible.lawful_sse2 hlen
    · rename_i h
      exact key Sensible.avx2 Sensible.lawful_avx2 (Nat.le_of_not_lt h)
  | sse2 p f => subst hm; exact key Sensible.sse2 Sensible.lawful_sse2 hlen
  | neon p f => subst hm; exact key Neon.impl Neon.lawful hlen
  | simd128 p f => subst hm; exact key Sensible.simd128 Sensible.lawful_simd128 hlen

/-! ### `Prefilter::find` -/

/-- cost form: every strategy, at most `4 * consumed + 1020` steps -/
theorem prefilter_costs (cfg : Api.Cfg) {n : Slice} (hn : n.Valid) {p : Prefilter}
    (hg : p.GoodFor n) (hay : Slice) (hh : hay.Valid) :
    Costs (p.find cfg hay)
      (fun r k => k ≤ 4 * scanned r hay.len + 1020 ∧ ∀ x, r = some x → x < hay.len) := by
  obtain ⟨h1, h2, h3⟩ := hg
  obtain ⟨kind, rb, ro⟩ := p
  cases kind with
  | fallback f => exact fallback_costs cfg f hay hh
  | vec vf =>
    simp only [Prefilter.find]
    split
    · apply (findSimple_costs _ hay hh).mono
      intro r k h; exact ⟨by omega, h.2⟩
    · rename_i hlen
      apply (vecPrefilter_costs h3 hay hh hn (Nat.le_of_not_lt hlen)).mono
      intro r k h; exact ⟨by omega, h.2⟩

/-- **`Cost.prefilter`.**  Every prefilter strategy built by `Searcher::new` (`p.GoodFor n`: the
portable packed-pair prefilter, a vector `find_prefilter`, or `find_simple` below
`min_haystack_len`), for every configuration and every valid haystack: returns normally, is sound
(every occurrence `q` of the needle forces a candidate `a <= q`), a candidate is inside the
haystack, and costs at most
`4 * consumed + 1020` steps, `consumed` = candidate offset + 1, or the haystack length when there
is no candidate. -/
theorem prefilter (cfg : Api.Cfg) {n : Slice} (hn : n.Valid) {p : Prefilter} (hg : p.GoodFor n)
    (hay : Slice) (hh : hay.Valid) (c : Ctr) :
    ∃ r c', p.find cfg hay c = .ok r c' ∧
      (∀ q, Spec.OccAt hay.toArray n.toArray q → ∃ a, r = some a ∧ a ≤ q) ∧
      (∀ x, r = some x → x < hay.len) ∧
      c'.steps ≤ c.steps + 4 * scanned r hay.len + 1020 := by
  obtain ⟨r, c', e, hs⟩ := Prefilter.find_sound cfg hn hg hay hh c
  obtain ⟨k, ek, hk, hx⟩ := prefilter_costs cfg hn hg hay hh c r c' e
  exact ⟨r, c', e, hs, hx, by omega⟩

end Cost

end Memchr
