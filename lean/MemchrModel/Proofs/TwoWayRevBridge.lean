/-
Two-Way: the bridge between the reverse and the forward direction.

* array level: periods and local repetitions are invariant under reversal
  (`per_reverse_iff`, `lr_reverse_iff`), hence
  `certRev_iff_certFwd_reverse : CertRev x crit shift ↔
     crit ≤ |x| ∧ CertFwd x.reverse (|x| - crit) shift`.
* model level (lock-step simulation): `Suffix::reverse(x, kind)` runs through the same state
  sequence as `Suffix::forward(reverse x, kind)` under `pos ↦ |x| - pos`
  (`reverseLoop_sim`, `suffix_reverse_sim`: same result, same step count, same trace);
  `Shift::reverse(x, p, |x| - crit)` returns the same `Shift` as
  `Shift::forward(reverse x, p, crit)` (`shift_reverse_sim`; the counters differ because
  `is_prefix` / `is_suffix` load different addresses); hence `FinderRev::new(x)` and
  `Finder::new(reverse x)` store mirrored critical positions and equal shifts
  (`finderRev_new_sim`).
* consequence (`certRev_of_certFwd_revSlice`): if the values `Finder::new` computes for the
  reversed needle satisfy `CertFwd`, the values `FinderRev::new` computes for the needle
  satisfy `CertRev`.  With `cert_fwd` (`Proofs/TwoWayCert.lean`) this removes the certificate
  hypothesis from `new_rfind_eq_of_cert` (`Proofs/TwoWayRevCert.lean`).

The reversed needle is the slice `revSlice x`: a fresh region (same id and base) holding the
bytes of `x` in reverse order.
-/
import MemchrModel.Proofs.TwoWayRevNew
import MemchrModel.Proofs.IsEqual

namespace Memchr.TwoWay

open Memchr

/-! ### array level -/

theorem per_of_per_reverse {x : Array UInt8} {k : Nat} (h : Per x.reverse k) : Per x k := by
  refine ⟨h.1, fun t ht => ?_⟩
  have := h.2 (x.size - 1 - t - k) (by rw [Array.size_reverse]; omega)
  rw [Array.getElem?_reverse (by omega), Array.getElem?_reverse (by omega),
    show x.size - 1 - (x.size - 1 - t - k) = t + k by omega,
    show x.size - 1 - (x.size - 1 - t - k + k) = t by omega] at this
  exact this.symm

/-- periods are invariant under reversal -/
theorem per_reverse_iff (x : Array UInt8) (k : Nat) : Per x.reverse k ↔ Per x k :=
  ⟨per_of_per_reverse, fun h => per_of_per_reverse (by rwa [Array.reverse_reverse])⟩

theorem lr_of_lr_reverse {x : Array UInt8} {c k : Nat} (hc : c ≤ x.size)
    (h : LR x.reverse (x.size - c) k) : LR x c k := by
  intro t h1 h2 h3
  have := h (x.size - 1 - t - k) (by omega) (by omega) (by rw [Array.size_reverse]; omega)
  rw [Array.getElem?_reverse (by omega), Array.getElem?_reverse (by omega),
    show x.size - 1 - (x.size - 1 - t - k) = t + k by omega,
    show x.size - 1 - (x.size - 1 - t - k + k) = t by omega] at this
  exact this.symm

/-- local repetitions are invariant under reversal (position `c` becomes `|x| - c`) -/
theorem lr_reverse_iff (x : Array UInt8) {c : Nat} (k : Nat) (hc : c ≤ x.size) :
    LR x.reverse (x.size - c) k ↔ LR x c k := by
  refine ⟨lr_of_lr_reverse hc, fun h => ?_⟩
  have key := lr_of_lr_reverse (x := x.reverse) (c := x.size - c) (k := k)
    (by rw [Array.size_reverse]; omega)
  rw [Array.reverse_reverse, Array.size_reverse, show x.size - (x.size - c) = c by omega] at key
  exact key h

theorem coreRev_iff_core_reverse (x : Array UInt8) (crit : Nat) :
    CoreRev x crit ↔ crit ≤ x.size ∧ Core x.reverse (x.size - crit) := by
  unfold CoreRev Core
  constructor
  · rintro ⟨hc, h⟩
    refine ⟨hc, fun k h1 hlr => ?_⟩
    obtain ⟨hp, hk⟩ := h k h1 ((lr_reverse_iff x k hc).mp hlr)
    exact ⟨(per_reverse_iff x k).mpr hp, hk⟩
  · rintro ⟨hc, h⟩
    refine ⟨hc, fun k h1 hlr => ?_⟩
    obtain ⟨hp, hk⟩ := h k h1 ((lr_reverse_iff x k hc).mpr hlr)
    exact ⟨(per_reverse_iff x k).mp hp, hk⟩

/-- **The reverse certificate is the forward certificate of the reversed needle** at the
mirrored critical position. -/
theorem certRev_iff_certFwd_reverse (x : Array UInt8) (crit : Nat) (shift : Shift) :
    CertRev x crit shift ↔ crit ≤ x.size ∧ CertFwd x.reverse (x.size - crit) shift := by
  unfold CertRev CertFwd
  rw [coreRev_iff_core_reverse]
  cases shift <;> simp only [Array.size_reverse, per_reverse_iff, and_assoc]

/-! ### the reversed needle as a slice -/

/-- a fresh region (same id and base) holding the bytes of `n` in reverse order -/
def revSlice (n : Slice) : Slice := Slice.ofMem ⟨n.mem.region, n.mem.base, n.toArray.reverse⟩

theorem revSlice_len {n : Slice} (hnv : n.Valid) : (revSlice n).len = n.len := by
  simp [revSlice, Slice.ofMem, Slice.toArray_size hnv]

theorem revSlice_valid (n : Slice) : (revSlice n).Valid := by
  unfold Slice.Valid revSlice Slice.ofMem; simp

theorem revSlice_toArray (n : Slice) : (revSlice n).toArray = n.toArray.reverse := by
  simp [revSlice, Slice.ofMem, Slice.toArray]

theorem revSlice_getD {n : Slice} (hnv : n.Valid) (t : Nat) (ht : t < n.len) :
    (revSlice n).getD t = n.getD (n.len - 1 - t) := by
  simp only [revSlice, Slice.ofMem, Slice.getD, Nat.zero_add]
  rw [Array.getElem?_reverse (by rw [Slice.toArray_size hnv]; exact ht), Slice.toArray_size hnv,
    Slice.toArray_getElem? hnv _ (by omega)]
  rfl

/-! ### `Suffix::reverse` = `Suffix::forward` on the reversed needle

`y` is any slice holding the reversed bytes of `x`. -/

theorem reverseLoop_sim (x y : Slice) (hlen : y.len = x.len)
    (hget : ∀ t, t < x.len → y.getD t = x.getD (x.len - 1 - t))
    (kind : SuffixKind) (sf : Suffix) (jf k : Nat) (c : Ctr) (sr : Suffix) (jr : Nat)
    (hlt : sf.pos < jf) (hjn : jf + k ≤ x.len) (hpos : sr.pos = x.len - sf.pos)
    (hper : sr.period = sf.period) (hjr : jr = x.len - jf) :
    ∃ s' c', Suffix.forwardLoop y kind sf jf k c = .ok s' c' ∧
      Suffix.reverseLoop x kind sr jr k c = .ok ⟨x.len - s'.pos, s'.period⟩ c' ∧
      s'.pos < x.len := by
  fun_induction Suffix.forwardLoop y kind sf jf k generalizing c sr jr with
  | case1 sf jf k hlt' ih1 ih2 ih3 ih4 =>
    rw [hlen] at hlt'
    obtain ⟨rp, rper⟩ := sr
    simp only at hpos hper
    subst hpos hper hjr
    rw [Suffix.reverseLoop]
    simp only [show k < x.len - jf by omega, dite_true]
    rw [bind_ok (tick_run 1 c), bind_ok (tick_run 1 c)]
    have e1 : x.len - sf.pos - k - 1 = x.len - 1 - (sf.pos + k) := by omega
    have e2 : x.len - jf - k - 1 = x.len - 1 - (jf + k) := by omega
    simp only [get_ok y _ (show sf.pos + k < y.len by omega),
      get_ok y _ (show jf + k < y.len by omega), pure_bind',
      csub_of_le _ (show k ≤ x.len - sf.pos by omega),
      csub_of_le _ (show 1 ≤ x.len - sf.pos - k by omega),
      csub_of_le _ (show k ≤ x.len - jf by omega),
      csub_of_le _ (show 1 ≤ x.len - jf - k by omega),
      hget _ (show sf.pos + k < x.len by omega), hget _ hlt', e1, e2,
      get_ok x _ (show x.len - 1 - (sf.pos + k) < x.len by omega),
      get_ok x _ (show x.len - 1 - (jf + k) < x.len by omega)]
    cases hc : kind.cmp (x.getD (x.len - 1 - (sf.pos + k))) (x.getD (x.len - 1 - (jf + k))) with
    | accept =>
      simp only [csub_of_le _ (show 1 ≤ x.len - jf by omega), pure_bind']
      exact ih1 { c with steps := c.steps + 1 } ⟨x.len - jf, 1⟩ (x.len - jf - 1)
        (by simp only; omega) (by omega) rfl rfl (by omega)
    | skip =>
      simp only [csub_of_le _ (show sf.pos ≤ jf + (k + 1) by omega), pure_bind',
        csub_of_le _ (show k + 1 ≤ x.len - jf by omega),
        csub_of_le _ (show x.len - jf - (k + 1) ≤ x.len - sf.pos by omega)]
      exact ih2 (jf + (k + 1) - sf.pos) { c with steps := c.steps + 1 }
        ⟨x.len - sf.pos, x.len - sf.pos - (x.len - jf - (k + 1))⟩ (x.len - jf - (k + 1))
        (by simp only; omega) (by omega) rfl (by simp only; omega) (by omega)
    | push =>
      simp only []
      by_cases hp : k + 1 = sf.period
      · simp only [hp, dite_true, csub_of_le _ (show sf.period ≤ x.len - jf by omega), pure_bind']
        exact ih3 hp { c with steps := c.steps + 1 } ⟨x.len - sf.pos, sf.period⟩
          (x.len - jf - sf.period) (by omega) (by omega) rfl rfl (by omega)
      · simp only [hp, dite_false]
        exact ih4 { c with steps := c.steps + 1 } ⟨x.len - sf.pos, sf.period⟩ (x.len - jf)
          hlt (by omega) rfl rfl rfl
  | case2 sf jf k hlt' =>
    rw [hlen] at hlt'
    obtain ⟨rp, rper⟩ := sr
    simp only at hpos hper
    subst hpos hper hjr
    rw [Suffix.reverseLoop]
    simp only [show ¬ k < x.len - jf by omega, dite_false]
    exact ⟨sf, c, rfl, rfl, by omega⟩

/-- **`Suffix::reverse(x, kind)` is `Suffix::forward(reverse x, kind)`** with the position
mirrored: same period, same step count, same load trace (none). -/
theorem suffix_reverse_sim (x y : Slice) (hlen : y.len = x.len)
    (hget : ∀ t, t < x.len → y.getD t = x.getD (x.len - 1 - t))
    (kind : SuffixKind) (c : Ctr) :
    ∃ s' c', Suffix.forward y kind c = .ok s' c' ∧
      Suffix.reverse x kind c = .ok ⟨x.len - s'.pos, s'.period⟩ c' ∧ s'.pos ≤ x.len := by
  by_cases h0 : x.len = 0
  · refine ⟨_, c, suffix_forward_empty y kind c (by omega), ?_, by simp⟩
    rw [suffix_reverse_empty x kind c h0]
    simp [h0]
  · by_cases h1 : x.len = 1
    · refine ⟨⟨0, 1⟩, c, ?_, ?_, by simp⟩
      · unfold Suffix.forward
        rw [Suffix.forwardLoop]
        simp [hlen, h1]
      · unfold Suffix.reverse
        simp [h1]
    · unfold Suffix.forward Suffix.reverse
      simp only [h0, h1, if_false]
      obtain ⟨s', c', e1, e2, h3⟩ := reverseLoop_sim x y hlen hget kind ⟨0, 1⟩ 1 0 c
        ⟨x.len, 1⟩ (x.len - 1) (by simp) (by omega) (by simp) rfl rfl
      exact ⟨s', c', e1, e2, by omega⟩

/-! ### `Shift::reverse` = `Shift::forward` on the reversed needle -/

theorem toList_eq_reverse (a b : Slice) (hlen : a.len = b.len)
    (h : ∀ t, t < a.len → a.getD t = b.getD (b.len - 1 - t)) : a.toList = b.toList.reverse := by
  apply List.ext_getElem?
  intro i
  by_cases hi : i < a.len
  · rw [Slice.toList_getElem? a i hi, List.getElem?_reverse (by simp; omega),
      Slice.toList_length, Slice.toList_getElem? b _ (by omega), h i hi]
  · rw [List.getElem?_eq_none (by simp; omega), List.getElem?_eq_none (by simp; omega)]

/-- `Shift::reverse(x, p, |x| - crit)` and `Shift::forward(reverse x, p, crit)` return the same
value (the counters differ: `is_prefix` and `is_suffix` load different addresses) -/
theorem shift_reverse_sim (x y : Slice) (hxv : x.Valid) (hyv : y.Valid) (hlen : y.len = x.len)
    (hget : ∀ t, t < x.len → y.getD t = x.getD (x.len - 1 - t))
    (p critf : Nat) (cf cr : Ctr) (hp : critf + p ≤ x.len) :
    ∃ sh c1 c2, Shift.forward y p critf cf = .ok sh c1 ∧
      Shift.reverse x p (x.len - critf) cr = .ok sh c2 := by
  have hcf : critf ≤ x.len := by omega
  have ed : x.len - (x.len - critf) = critf := by omega
  unfold Shift.forward Shift.reverse
  simp only [hlen, csub_of_le _ hcf, csub_of_le _ (show x.len - critf ≤ x.len by omega),
    pure_bind', ed, Nat.max_comm (x.len - critf) critf]
  by_cases h2 : critf * 2 ≥ x.len
  · simp only [h2, if_true]
    exact ⟨_, cf, cr, rfl, rfl⟩
  · simp only [h2, if_false, Slice.take, Slice.drop, hlen, hcf, if_true, pure_bind',
      show p ≤ x.len - critf by omega, show x.len - critf ≤ x.len by omega,
      csub_of_le _ (show p ≤ x.len - critf by omega),
      show x.len - critf - p ≤ x.len - critf by omega]
    -- forward: `is_suffix(&v'[..p], u')`
    have hvu' : (⟨y.mem, y.off, critf⟩ : Slice).Valid := by
      unfold Slice.Valid at *; simp only; omega
    have hvvp : (⟨y.mem, y.off + critf, p⟩ : Slice).Valid := by
      unfold Slice.Valid at *; simp only; omega
    obtain ⟨c1, e1, _⟩ := IsEqual.isSuffix_correct ⟨y.mem, y.off + critf, p⟩ ⟨y.mem, y.off, critf⟩
      cf hvvp hvu'
    -- reverse: `is_prefix(&v[v.len() - p..], u)`
    have hvu : (⟨x.mem, x.off + (x.len - critf), x.len - (x.len - critf)⟩ : Slice).Valid := by
      unfold Slice.Valid at *; simp only; omega
    have hvvs : (⟨x.mem, x.off + (x.len - critf - p),
        x.len - critf - (x.len - critf - p)⟩ : Slice).Valid := by
      unfold Slice.Valid at *; simp only; omega
    obtain ⟨c2, e2, _⟩ := IsEqual.isPrefix_correct
      ⟨x.mem, x.off + (x.len - critf - p), x.len - critf - (x.len - critf - p)⟩
      ⟨x.mem, x.off + (x.len - critf), x.len - (x.len - critf)⟩ cr hvvs hvu
    rw [bind_ok e1, bind_ok e2]
    -- the two tests agree
    have hu : (⟨y.mem, y.off, critf⟩ : Slice).toList =
        (⟨x.mem, x.off + (x.len - critf), x.len - (x.len - critf)⟩ : Slice).toList.reverse := by
      apply toList_eq_reverse _ _ (by simp only; omega)
      intro t ht
      simp only at ht
      have := hget t (by omega)
      simp only [Slice.getD] at this ⊢
      rw [this]
      congr 2; omega
    have hv : (⟨y.mem, y.off + critf, p⟩ : Slice).toList =
        (⟨x.mem, x.off + (x.len - critf - p),
          x.len - critf - (x.len - critf - p)⟩ : Slice).toList.reverse := by
      apply toList_eq_reverse _ _ (by simp only; omega)
      intro t ht
      simp only at ht
      have := hget (critf + t) (by omega)
      simp only [Slice.getD] at this ⊢
      rw [← Nat.add_assoc] at this
      rw [this]
      congr 2; omega
    have hiff : decide ((⟨y.mem, y.off, critf⟩ : Slice).toList <:+
          (⟨y.mem, y.off + critf, p⟩ : Slice).toList) =
        decide ((⟨x.mem, x.off + (x.len - critf), x.len - (x.len - critf)⟩ : Slice).toList <+:
          (⟨x.mem, x.off + (x.len - critf - p),
            x.len - critf - (x.len - critf - p)⟩ : Slice).toList) := by
      apply decide_eq_decide.mpr
      rw [hu, hv, List.reverse_suffix]
    rw [hiff]
    split
    · exact ⟨_, c1, c2, rfl, rfl⟩
    · exact ⟨_, c1, c2, rfl, rfl⟩

/-! ### `FinderRev::new` = `Finder::new` on the reversed needle -/

/-- **`FinderRev::new(x)` and `Finder::new(reverse x)`** both return normally, with mirrored
critical positions and the same shift. -/
theorem finderRev_new_sim (x : Slice) (hxv : x.Valid) (c : Ctr) :
    ∃ twf cf twr cr, Finder.new (revSlice x) c = .ok twf cf ∧ FinderRev.new x c = .ok twr cr ∧
      twf.criticalPos ≤ x.len ∧ twr.criticalPos = x.len - twf.criticalPos ∧
      twr.shift = twf.shift := by
  have hlen := revSlice_len hxv
  have hyv := revSlice_valid x
  have hget := fun t ht => revSlice_getD hxv t ht
  obtain ⟨bsf, ebsf, _⟩ := byteset_new_spec (revSlice x) c
  obtain ⟨bsr, ebsr, _⟩ := byteset_new_spec x c
  rw [hlen] at ebsf
  unfold Finder.new FinderRev.new
  rw [bind_ok ebsf, bind_ok ebsr]
  by_cases h0 : x.len = 0
  · rw [bind_ok (suffix_forward_empty (revSlice x) _ _ (by omega)),
      bind_ok (suffix_forward_empty (revSlice x) _ _ (by omega)),
      bind_ok (suffix_reverse_empty x _ _ h0), bind_ok (suffix_reverse_empty x _ _ h0)]
    simp only [Nat.lt_irrefl, if_false, Shift.forward, Shift.reverse, h0, hlen,
      csub_of_le _ (Nat.le_refl 0), pure_bind', Nat.zero_mul, ge_iff_le, Nat.le_refl, if_true]
    exact ⟨_, _, _, _, rfl, rfl, by simp, by simp, rfl⟩
  · have hn : 0 < (revSlice x).len := by omega
    obtain ⟨s1, c1, ef1, er1, hs1⟩ := suffix_reverse_sim x (revSlice x) hlen hget .minimal
      { c with steps := c.steps + x.len }
    obtain ⟨s2, c2, ef2, er2, hs2⟩ := suffix_reverse_sim x (revSlice x) hlen hget .maximal c1
    obtain ⟨s1', c1', ef1', _, _, _, hl1, _⟩ := suffix_forward_spec (revSlice x) .minimal
      { c with steps := c.steps + x.len } hn
    obtain ⟨s2', c2', ef2', _, _, _, hl2, _⟩ := suffix_forward_spec (revSlice x) .maximal c1 hn
    rw [ef1] at ef1'; cases ef1'
    rw [ef2] at ef2'; cases ef2'
    rw [hlen] at hl1 hl2
    rw [bind_ok ef1, bind_ok ef2, bind_ok er1, bind_ok er2]
    by_cases hgt : s1.pos > s2.pos
    · simp only [hgt, if_true, show x.len - s1.pos < x.len - s2.pos by omega]
      obtain ⟨sh, cf, cr, e1, e2⟩ := shift_reverse_sim x (revSlice x) hxv hyv hlen hget
        s1.period s1.pos c2 c2 hl1
      rw [bind_ok e1, bind_ok e2]
      exact ⟨_, _, _, _, rfl, rfl, hs1, rfl, rfl⟩
    · simp only [hgt, if_false, show ¬ x.len - s1.pos < x.len - s2.pos by omega]
      obtain ⟨sh, cf, cr, e1, e2⟩ := shift_reverse_sim x (revSlice x) hxv hyv hlen hget
        s2.period s2.pos c2 c2 hl2
      rw [bind_ok e1, bind_ok e2]
      exact ⟨_, _, _, _, rfl, rfl, hs2, rfl, rfl⟩

/-- **The reverse certificate follows from the forward certificate of the reversed needle.**
The hypothesis is exactly the conclusion of `cert_fwd` (`Proofs/TwoWayCert.lean`) for the
slice `revSlice x`. -/
theorem certRev_of_certFwd_revSlice (x : Slice) (hxv : x.Valid) (c : Ctr)
    (hfwd : ∃ tw c', Finder.new (revSlice x) c = .ok tw c' ∧
      CertFwd (revSlice x).toArray tw.criticalPos tw.shift) :
    ∃ tw c', FinderRev.new x c = .ok tw c' ∧ CertRev x.toArray tw.criticalPos tw.shift := by
  obtain ⟨twf, cf, twr, cr, ef, er, hle, hcrit, hshift⟩ := finderRev_new_sim x hxv c
  obtain ⟨tw, c', e, hcert⟩ := hfwd
  rw [ef] at e; cases e
  refine ⟨twr, cr, er, ?_⟩
  rw [certRev_iff_certFwd_reverse, Slice.toArray_size hxv, hcrit, hshift,
    show x.len - (x.len - twf.criticalPos) = twf.criticalPos by omega, ← revSlice_toArray]
  exact ⟨by omega, hcert⟩

/-! ### non-vacuity: the bridge on a concrete needle -/

example : CertRev "abaab".toUTF8.data 4 (.small 3) ↔
    4 ≤ "abaab".toUTF8.data.size ∧ CertFwd "abaab".toUTF8.data.reverse (5 - 4) (.small 3) :=
  certRev_iff_certFwd_reverse _ _ _

#print axioms certRev_iff_certFwd_reverse
#print axioms suffix_reverse_sim
#print axioms finderRev_new_sim
#print axioms certRev_of_certFwd_revSlice

end Memchr.TwoWay
