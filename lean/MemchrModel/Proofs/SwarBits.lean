/-
Bit-level facts about the SWAR word tricks of `src/arch/all/memchr.rs`:
`splat`, `has_zero_byte`, `has_needle` and the little-endian word of an 8-byte window.

Only the direction needed for correctness is proved: *no false negatives* — if some byte of
the word is zero then `has_zero_byte` says so (`hasZeroByte_of_zero_byte`), hence if some byte
of an 8-byte window is a needle then `has_needle` is true (`hasNeedle_of_hit`). False positives
only cost time because the byte loop re-checks every byte.

All proofs are kernel-checked `Nat` arithmetic (`omega` per byte position); no `bv_decide`.
-/
import MemchrModel.Base.Lemmas
import MemchrModel.Model.Swar

namespace Memchr.Swar

open Memchr

theorem cases8 {i : Nat} (hi : i < 8) :
    i = 0 ∨ i = 1 ∨ i = 2 ∨ i = 3 ∨ i = 4 ∨ i = 5 ∨ i = 6 ∨ i = 7 := by omega

/-! ### `splat` -/

/-- `(b as usize) * (usize::MAX / 255)` does not overflow: it is the `Nat` product. -/
theorem splat_toNat (b : UInt8) : (splat b).toNat = b.toNat * 0x0101010101010101 := by
  have hb : b.toNat < 256 := b.toNat_lt
  have hc : ((0xFFFFFFFFFFFFFFFF : UInt64) / 255).toNat = 0x0101010101010101 := by decide
  unfold splat
  rw [UInt64.toNat_mul, UInt8.toNat_toUInt64, hc]
  omega

/-- the checked multiplication in `splat` cannot overflow -/
theorem splat_no_overflow (b : UInt8) : b.toNat * (0xFFFFFFFFFFFFFFFF / 255) < 2 ^ 64 := by
  have hb : b.toNat < 256 := b.toNat_lt
  omega

theorem LO_toNat : LO.toNat = 0x0101010101010101 := by
  unfold LO; rw [splat_toNat]; rfl

theorem HI_toNat : HI.toNat = 0x8080808080808080 := by
  unfold HI; rw [splat_toNat]; rfl

theorem div_mod_aux (r K a t : Nat) (hK : 0 < K) (hr : r < K) (ha : a < 256) :
    (r + K * (a + 256 * t)) / K % 256 = a := by
  rw [Nat.add_mul_div_left r _ hK, Nat.div_eq_of_lt hr, Nat.zero_add,
    Nat.add_mul_mod_self_left, Nat.mod_eq_of_lt ha]

theorem splat_byte_aux (a i : Nat) (ha : a < 256) (hi : i < 8) :
    a * 0x0101010101010101 / 256 ^ i % 256 = a := by
  have key : a * 0x0101010101010101 =
      a * (0x0101010101010101 % 256 ^ i) +
        256 ^ i * (a + 256 * (a * (0x0101010101010101 / 256 ^ (i + 1)))) := by
    rcases cases8 hi with rfl | rfl | rfl | rfl | rfl | rfl | rfl | rfl <;> omega
  rw [key]
  apply div_mod_aux _ _ _ _ (Nat.pow_pos (by omega)) _ ha
  rcases cases8 hi with rfl | rfl | rfl | rfl | rfl | rfl | rfl | rfl <;> omega

/-- every byte of `splat b` is `b` -/
theorem splat_byte (b : UInt8) (i : Nat) (hi : i < 8) :
    (splat b).toNat / 256 ^ i % 256 = b.toNat := by
  rw [splat_toNat]
  exact splat_byte_aux _ _ b.toNat_lt hi

/-! ### `has_zero_byte` -/

/-- Byte `i` of `x` is zero: whatever borrow arrives from below, byte `i` of
`x.wrapping_sub(LO)` is `0xFF` or `0xFE`, so its top bit is set. -/
theorem bit_sub (x i : Nat) (hi : i < 8) (h : x / 256 ^ i % 256 = 0) :
    (2 ^ 64 - 0x0101010101010101 + x) % 2 ^ 64 / 2 ^ (8 * i + 7) % 2 = 1 := by
  rcases cases8 hi with rfl | rfl | rfl | rfl | rfl | rfl | rfl | rfl <;> omega

/-- Byte `i` of `x` is zero: the top bit of byte `i` of `!x` is set. -/
theorem bit_not (x i : Nat) (hi : i < 8) (hx : x < 2 ^ 64) (h : x / 256 ^ i % 256 = 0) :
    (2 ^ 64 - 1 - x) / 2 ^ (8 * i + 7) % 2 = 1 := by
  rcases cases8 hi with rfl | rfl | rfl | rfl | rfl | rfl | rfl | rfl <;> omega

/-- The top bit of every byte of `HI` is set. -/
theorem bit_hi (i : Nat) (hi : i < 8) : 0x8080808080808080 / 2 ^ (8 * i + 7) % 2 = 1 := by
  rcases cases8 hi with rfl | rfl | rfl | rfl | rfl | rfl | rfl | rfl <;> rfl

/-- **No false negatives**: if byte `i` of `x` is zero then `has_zero_byte(x)`. -/
theorem hasZeroByte_of_zero_byte (x : UInt64) (i : Nat) (hi : i < 8)
    (h : x.toNat / 256 ^ i % 256 = 0) : hasZeroByte x = true := by
  have hx : x.toNat < 2 ^ 64 := x.toNat_lt
  have hb : ((x - LO) &&& ~~~x &&& HI).toNat.testBit (8 * i + 7) = true := by
    rw [UInt64.toNat_and, UInt64.toNat_and, Nat.testBit_and, Nat.testBit_and, UInt64.toNat_sub,
      UInt64.toNat_not, LO_toNat, HI_toNat]
    simp only [Nat.testBit_eq_decide_div_mod_eq, Bool.and_eq_true, decide_eq_true_eq]
    exact ⟨⟨bit_sub _ _ hi h, bit_not _ _ hi hx h⟩, bit_hi _ hi⟩
  unfold hasZeroByte
  rw [bne_iff_ne]
  intro h0
  rw [h0, UInt64.toNat_zero, Nat.zero_testBit] at hb
  cases hb

/-! ### bytes of a word -/

theorem xor_byte (a b i : Nat) :
    (a ^^^ b) / 256 ^ i % 256 = (a / 256 ^ i % 256) ^^^ (b / 256 ^ i % 256) := by
  have e1 : (256 : Nat) ^ i = 2 ^ (8 * i) := by rw [Nat.pow_mul]
  have e2 : (256 : Nat) = 2 ^ 8 := rfl
  rw [e1, Nat.xor_div_two_pow]
  conv => lhs; rw [e2, Nat.xor_mod_two_pow]

theorem window8 (m : Mem) (a : Nat) :
    m.window a 8 = [m.byteAt (a + 0), m.byteAt (a + 1), m.byteAt (a + 2), m.byteAt (a + 3),
      m.byteAt (a + 4), m.byteAt (a + 5), m.byteAt (a + 6), m.byteAt (a + 7)] := rfl

/-- byte `i` of the word loaded from address `a` is the byte at address `a + i`
(little-endian) -/
theorem word_byte (m : Mem) (a i : Nat) (hi : i < 8) :
    (wordOfBytes (m.window a 8)).toNat / 256 ^ i % 256 = (m.byteAt (a + i)).toNat := by
  have h0 := (m.byteAt (a + 0)).toNat_lt
  have h1 := (m.byteAt (a + 1)).toNat_lt
  have h2 := (m.byteAt (a + 2)).toNat_lt
  have h3 := (m.byteAt (a + 3)).toNat_lt
  have h4 := (m.byteAt (a + 4)).toNat_lt
  have h5 := (m.byteAt (a + 5)).toNat_lt
  have h6 := (m.byteAt (a + 6)).toNat_lt
  have h7 := (m.byteAt (a + 7)).toNat_lt
  unfold wordOfBytes
  rw [UInt64.toNat_ofNat', window8]
  simp only [leNat]
  rcases cases8 hi with rfl | rfl | rfl | rfl | rfl | rfl | rfl | rfl <;> omega

/-- if the byte at `a + i` is `n` then `has_zero_byte(splat(n) ^ chunk)` -/
theorem hasZeroByte_splat_xor (m : Mem) (a i : Nat) (hi : i < 8) (n : UInt8)
    (h : m.byteAt (a + i) = n) :
    hasZeroByte (splat n ^^^ wordOfBytes (m.window a 8)) = true := by
  apply hasZeroByte_of_zero_byte _ i hi
  rw [UInt64.toNat_xor, xor_byte, splat_byte n i hi, word_byte m a i hi, h, Nat.xor_self]

/-! ### `has_needle` -/

theorem foldl_or_eq_any {α : Type} (f : α → Bool) (l : List α) (init : Bool) :
    l.foldl (fun acc n => acc || f n) init = (init || l.any f) := by
  induction l generalizing init with
  | nil => simp
  | cons x xs ih => simp [ih, Bool.or_assoc]

theorem hasNeedle_eq_any (ns : Needles) (chunk : UInt64) :
    hasNeedle ns chunk = ns.toList.any (fun n => hasZeroByte (splat n ^^^ chunk)) := by
  unfold hasNeedle Needles.toList
  rw [foldl_or_eq_any (fun n => hasZeroByte (splat n ^^^ chunk))]
  simp

/-- **No false negatives** for `has_needle`: a needle byte anywhere in the 8-byte window at `a`
makes `has_needle(chunk)` true. -/
theorem hasNeedle_of_hit (ns : Needles) (m : Mem) (a x : Nat) (h1 : a ≤ x) (h2 : x < a + 8)
    (hp : ns.confirm (m.byteAt x) = true) :
    hasNeedle ns (wordOfBytes (m.window a 8)) = true := by
  rw [hasNeedle_eq_any, List.any_eq_true]
  unfold Needles.confirm at hp
  rw [List.contains_iff_mem] at hp
  refine ⟨m.byteAt x, hp, ?_⟩
  have e : a + (x - a) = x := by omega
  exact hasZeroByte_splat_xor m a (x - a) (by omega) _ (by rw [e])

end Memchr.Swar
