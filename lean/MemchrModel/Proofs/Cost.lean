/-
C13 (linear work): the step-count theorems, bottom-up.  This module only collects the
`Proofs/Cost*.lean` files.

* `CostBase`     partial-correctness step accounting (`Costs`, `Free`, the `cstep` tactic)
* `CostGeneric`  generic vector `find_raw` / `rfind_raw`, byte-by-byte helpers
* `CostMemchr`   SWAR, per-ISA wrappers, dispatch, slice forms: `Cost.memchr`, `Cost.memrchr`
* `CostPrefilter` `Cost.memchrOk`, `Cost.prefilter`: every prefilter strategy, `4 * consumed + 1020`
* `CostTwoWay`   Two-Way forward with a prefilter: `largeLoop_costs`, `smallLoop_costs` (under `GapOK`)
* `CostTwoWayGap` `gapOK` (word combinatorics), `findWithPrefilter_costs`, `Cost.twoway_pre`
-/
import MemchrModel.Proofs.CostBase
import MemchrModel.Proofs.CostGeneric
import MemchrModel.Proofs.CostMemchr
import MemchrModel.Proofs.CostPrefilter
import MemchrModel.Proofs.CostTwoWay
import MemchrModel.Proofs.CostTwoWayGap
