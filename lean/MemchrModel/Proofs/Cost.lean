/-
C13 (linear work): the step-count theorems, bottom-up.  This module only collects the
`Proofs/Cost*.lean` files; the master theorems are in namespace `Memchr.Cost`.

* `CostBase`       partial-correctness step accounting (`Costs`, `Free`, `Post`, the `cstep` tactic)
* `CostGeneric`    generic vector `find_raw` / `rfind_raw`, byte-by-byte helpers, `TickFree`
* `CostMemchr`     SWAR, per-ISA wrappers, dispatch, slice forms: `Cost.memchr`, `Cost.memrchr`
* `CostPrefilter`  `Cost.memchrOk`, `Cost.prefilter`: every prefilter strategy, `4 * consumed + 1020`
* `CostTwoWay`     Two-Way forward with a prefilter: `largeLoop_costs`, `smallLoop_costs` (under `GapOK`)
* `CostTwoWayGap`  `gapOK` (word combinatorics), `findWithPrefilter_costs`, `Cost.twoway_pre`
* `CostTwoWayRev`  Two-Way reverse in refined form: `rfind_costs`
* `CostPacked`     `is_equal_raw`, packed-pair `find` in refined form: `PackedPair.find_costs`
* `CostSearcher`   `Cost.searcher_new`, `Cost.searcher_find`, `Cost.searcher_rev_new`,
                   `Cost.searcher_rfind`, `Cost.finder_find`, `Cost.oneshot_find`, `Cost.oneshot_rfind`
* `CostIter`       `Cost.find_iter_total`, `Cost.rfind_iter_total`
-/
import MemchrModel.Proofs.CostBase
import MemchrModel.Proofs.CostGeneric
import MemchrModel.Proofs.CostMemchr
import MemchrModel.Proofs.CostPrefilter
import MemchrModel.Proofs.CostTwoWay
import MemchrModel.Proofs.CostTwoWayGap
import MemchrModel.Proofs.CostTwoWayRev
import MemchrModel.Proofs.CostPacked
import MemchrModel.Proofs.CostSearcher
import MemchrModel.Proofs.CostIter

#print axioms Memchr.Cost.memchr
#print axioms Memchr.Cost.memrchr
#print axioms Memchr.Cost.memchrOk
#print axioms Memchr.Cost.prefilter
#print axioms Memchr.Cost.twoway_pre
#print axioms Memchr.Cost.searcher_new
#print axioms Memchr.Cost.searcher_find
#print axioms Memchr.Cost.searcher_rev_new
#print axioms Memchr.Cost.searcher_rfind
#print axioms Memchr.Cost.finder_find
#print axioms Memchr.Cost.oneshot_find
#print axioms Memchr.Cost.oneshot_rfind
#print axioms Memchr.Cost.find_iter_total
#print axioms Memchr.Cost.rfind_iter_total
