/-
`find_raw`: loop lemmas and the master theorem.
-/
import MemchrModel.Proofs.MemchrGenericLemmas

namespace Memchr.Generic

open Memchr

variable {V : VecImpl}

theorem fwdLoop1_spec (L : Lawful V) (ns : Needles) (m : Mem) (lo end_ cur : Nat) (c : Ctr)
    (hb : m.base ≤ lo) (hlc : lo ≤ cur) (hce : cur ≤ end_) (hle : lo + V.bytes ≤ end_)
    (he : end_ ≤ m.base + m.bytes.size) (hno : NoHit m ns.confirm lo cur) :
    ∃ r c', fwdLoop1 V ns m end_ (end_ - V.bytes) cur c = .ok r c' ∧
      FirstRes m ns.confirm lo end_ r := by
  generalize hlim : end_ - V.bytes = lim
  fun_induction fwdLoop1 V ns m end_ lim cur generalizing c with
  | case1 cur h ih =>
    have hd := Mem.distance_ok m "find_raw: end.distance(cur)" end_ cur (by omega) (by omega) he
    have hda : decide (end_ - cur ≥ V.bytes) = true := by simp; omega
    obtain ⟨r, c1, hsc, hres⟩ := searchChunk_first L ns m cur c (by omega) (by omega)
    simp only [hd, pure_bind', dbgAssert_ok _ hda, bind_ok hsc]
    cases r with
    | some p => exact ⟨some p, c1, rfl, hres.extend hno (Nat.le_refl _) hlc (by omega)⟩
    | none =>
      have hpa := Mem.padd_ok m "find_raw: cur.add(V::BYTES)" cur V.bytes (by omega) (by omega)
      simp only [hpa, pure_bind']
      exact ih c1 (by omega) (by omega) (hno.union hres (Nat.le_refl _))
  | case2 cur h h2 =>
    have hd := Mem.distance_ok m "find_raw: end.distance(cur) (tail)" end_ cur
      (by omega) (by omega) he
    have hda : decide (end_ - cur < V.bytes) = true := by simp; omega
    have hcs := csub_of_le "find_raw: V::BYTES - end.distance(cur)"
      (a := V.bytes) (b := end_ - cur) (by omega)
    have hps := Mem.psub_ok m "find_raw: cur.sub(V::BYTES - end.distance(cur))" cur
      (V.bytes - (end_ - cur)) (by omega) (by omega)
    have hcur' : cur - (V.bytes - (end_ - cur)) = end_ - V.bytes := by omega
    have hd2 := Mem.distance_ok m "find_raw: end.distance(cur) (tail 2)" end_ (end_ - V.bytes)
      (by omega) (by omega) he
    have hda2 : (end_ - (end_ - V.bytes) == V.bytes) = true := by simp; omega
    obtain ⟨r, c1, hsc, hres⟩ := searchChunk_first L ns m (end_ - V.bytes) c (by omega) (by omega)
    simp only [hd, pure_bind', dbgAssert_ok _ hda, hcs, hps, hcur', hd2, dbgAssert_ok _ hda2]
    refine ⟨r, c1, hsc, ?_⟩
    have e : end_ - V.bytes + V.bytes = end_ := by omega
    rw [e] at hres
    cases r with
    | some p => exact hres.extend hno (by omega) (by omega) (Nat.le_refl _)
    | none => exact hno.union hres (by omega)
  | case3 cur h h2 =>
    have : cur = end_ := by omega
    subst this
    exact ⟨none, c, rfl, hno⟩

theorem fwdLoopN_spec (L : Lawful V) (ns : Needles) (u : Nat) (hu : 0 < u) (m : Mem)
    (lo end_ cur : Nat) (c : Ctr)
    (hb : m.base ≤ lo) (hlc : lo ≤ cur) (hce : cur ≤ end_) (hle : lo + V.bytes ≤ end_)
    (hue : u * V.bytes ≤ end_) (hal : cur % V.bytes = 0)
    (he : end_ ≤ m.base + m.bytes.size) (hno : NoHit m ns.confirm lo cur) :
    ∃ r c', fwdLoopN V ns u hu m end_ (end_ - u * V.bytes) (end_ - V.bytes) cur c = .ok r c' ∧
      FirstRes m ns.confirm lo end_ r := by
  generalize hlim : end_ - u * V.bytes = limN
  fun_induction fwdLoopN V ns u hu m end_ limN (end_ - V.bytes) cur generalizing c with
  | case1 cur h ih =>
    have hda : (cur % V.bytes == 0) = true := by simp [hal]
    obtain ⟨r, c1, hbl, hres⟩ := block_first L ns u m cur c (by omega) (by omega) (fun _ => hal)
    simp only [dbgAssert_ok _ hda, pure_bind', bind_ok hbl]
    cases r with
    | some p => exact ⟨some p, c1, rfl, hres.extend hno (Nat.le_refl _) hlc (by omega)⟩
    | none =>
      have hpa := Mem.padd_ok m "find_raw: cur.add(Self::LOOP_SIZE)" cur (u * V.bytes)
        (by omega) (by omega)
      simp only [hpa, pure_bind']
      exact ih c1 (by omega) (by omega) (by rw [Nat.add_mul_mod_self_right]; exact hal)
        (hno.union hres (Nat.le_refl _))
  | case2 cur h =>
    exact fwdLoop1_spec L ns m lo end_ cur c hb hlc hce hle he hno

theorem findRaw_spec (L : Lawful V) (ns : Needles) (u : Nat) (hu : 0 < u)
    (m : Mem) (start end_ : Nat) (c : Ctr)
    (hs : m.base ≤ start) (he : end_ ≤ m.base + m.bytes.size) (hlen : start + V.bytes ≤ end_) :
    ∃ r c', findRaw V ns u hu m start end_ c = .ok r c' ∧
      FirstRes m ns.confirm start end_ r := by
  have hpos := V.bytes_pos
  have hmod : start % V.bytes < V.bytes := Nat.mod_lt _ hpos
  have hda1 : decide (V.bytes ≤ 32) = true := by simp [L.bytes_le]
  have hd := Mem.distance_ok m "find_raw: end.distance(start)" end_ start hs (by omega) he
  have hda2 : decide (end_ - start ≥ V.bytes) = true := by simp; omega
  obtain ⟨r, c1, hsc, hres⟩ := searchChunk_first L ns m start c hs (by omega)
  unfold findRaw
  simp only [dbgAssert_ok _ hda1, pure_bind', hd, dbgAssert_ok _ hda2, bind_ok hsc]
  cases r with
  | some p =>
    exact ⟨some p, c1, rfl,
      hres.extend (NoHit.empty m _ (Nat.le_refl start)) (by omega) (Nat.le_refl _) (by omega)⟩
  | none =>
    have hcs := csub_of_le "find_raw: V::BYTES - (start & V::ALIGN)"
      (a := V.bytes) (b := start &&& V.align) (by rw [and_align L]; omega)
    have hpa := Mem.padd_ok m "find_raw: start.add(V::BYTES - (start & V::ALIGN))" start
      (V.bytes - (start &&& V.align)) hs (by rw [and_align L]; omega)
    have hps := Mem.psub_ok m "find_raw: end.sub(V::BYTES)" end_ V.bytes (by omega) he
    have hda3 : (decide (start + (V.bytes - (start &&& V.align)) > start) &&
        decide (end_ - V.bytes ≥ start)) = true := by
      rw [and_align L]; simp; omega
    have hal : (start + (V.bytes - (start &&& V.align))) % V.bytes = 0 := by
      rw [and_align L]; exact align_up_mod _ _ hpos
    have hno : NoHit m ns.confirm start (start + (V.bytes - (start &&& V.align))) := by
      apply NoHit.mono hres (Nat.le_refl _)
      rw [and_align L]; omega
    have hcur1 : start ≤ start + (V.bytes - (start &&& V.align)) := by omega
    have hcur2 : start + (V.bytes - (start &&& V.align)) ≤ end_ := by
      rw [and_align L]; omega
    simp only [hcs, pure_bind', hpa, hps, dbgAssert_ok _ hda3]
    by_cases hbig : end_ - start ≥ u * V.bytes
    · have hps2 := Mem.psub_ok m "find_raw: end.sub(Self::LOOP_SIZE)" end_ (u * V.bytes)
        (by omega) he
      simp only [hbig, if_true, hps2, pure_bind']
      exact fwdLoopN_spec L ns u hu m start end_ _ c1 hs hcur1 hcur2 hlen (by omega) hal he hno
    · simp only [hbig, if_false]
      exact fwdLoop1_spec L ns m start end_ _ c1 hs hcur1 hcur2 hlen he hno

end Memchr.Generic
