/-
`Lawful (Sensible.impl bytes h)` for every power-of-two lane count `<= 32`:
the `SensibleMoveMask(u32)` operations, described through `bit m i := m.toNat.testBit i`.
-/
import MemchrModel.Base.Lemmas
import MemchrModel.Model.Sensible

namespace Memchr.Sensible

open Memchr Bits

/-- `Lawful` for the sensible-mask vector types. -/
def lawful (bytes : Nat) (h : 0 < bytes) (hle : bytes ≤ 32) (hp : ∃ k, bytes = 2 ^ k) :
    Lawful (impl bytes h) := sorry

end Memchr.Sensible
