/-
`Lawful (Sensible.impl bytes h)` for every power-of-two lane count `<= 32`:
the `SensibleMoveMask(u32)` operations, described through `bit m i := m.toNat.testBit i`.
-/
import MemchrModel.Base.Lemmas
import MemchrModel.Model.Sensible
import MemchrModel.Proofs.SensibleBits

namespace Memchr.Sensible

open Memchr Bits

/-- well-formed mask of a `bytes`-lane vector: no bit at or above `bytes` -/
def Wf (bytes : Nat) (m : UInt32) : Prop := m.toNat < 2 ^ bytes

/-- lane `i` is set in mask `m` -/
def bit (m : UInt32) (i : Nat) : Bool := m.toNat.testBit i

theorem two_pow_le_size {bytes : Nat} (hle : bytes ≤ 32) : 2 ^ bytes ≤ 2 ^ 32 :=
  Nat.pow_le_pow_right (by decide) hle

theorem bit_lt {bytes : Nat} (m : UInt32) (i : Nat) (hw : Wf bytes m) (hb : bit m i = true) :
    i < bytes := by
  have h1 := Nat.ge_two_pow_of_testBit hb
  have h2 : 2 ^ i < 2 ^ bytes := Nat.lt_of_le_of_lt h1 hw
  exact (Nat.pow_lt_pow_iff_right (by decide)).mp h2

theorem ne_zero_iff (m : UInt32) : (m != 0) = true ↔ ∃ i, bit m i = true := by
  constructor
  · intro h
    have hne : m.toNat ≠ 0 := by
      intro h0
      have : m = 0 := UInt32.toNat_inj.mp (by rw [h0]; rfl)
      simp [this] at h
    exact Nat.exists_testBit_of_ne_zero hne
  · intro ⟨i, hi⟩
    have : m ≠ 0 := by
      intro h0; subst h0; simp [bit] at hi
    simpa using this

theorem toNat_movemask {bytes : Nat} (hle : bytes ≤ 32) (v : Vec) (hv : v.length = bytes) :
    (msbMask v).toUInt32.toNat = msbMask v := by
  have h1 := msbMask_lt v
  rw [hv] at h1
  have h2 := two_pow_le_size hle
  show (msbMask v) % 2 ^ 32 = msbMask v
  exact Nat.mod_eq_of_lt (by omega)

theorem movemask_wf {bytes : Nat} (hle : bytes ≤ 32) (v : Vec) (hv : v.length = bytes) :
    Wf bytes (msbMask v).toUInt32 := by
  unfold Wf
  rw [toNat_movemask hle v hv, ← hv]
  exact msbMask_lt v

theorem movemask_bit {bytes : Nat} (hle : bytes ≤ 32) (v : Vec) (i : Nat)
    (hv : v.length = bytes) (hb : v.IsBool) :
    bit (msbMask v).toUInt32 i = v.lane i := by
  unfold bit Vec.lane
  rw [toNat_movemask hle v hv]
  exact msbMask_testBit_bool v hb i

theorem firstOffset_spec (m : UInt32) (c : Ctr) (hex : ∃ i, bit m i = true) :
    ∃ k, firstOffset m c = .ok k c ∧ bit m k = true ∧ ∀ j, j < k → bit m j = false := by
  obtain ⟨i, hi⟩ := hex
  have hi32 : i < 32 := bit_lt (bytes := 32) m i m.toNat_lt hi
  obtain ⟨h1, h2⟩ := tz_spec 32 m.toNat ⟨i, hi32, hi⟩
  exact ⟨tz 32 m.toNat, rfl, h1, h2⟩

theorem lastOffset_spec (m : UInt32) (c : Ctr) (hex : ∃ i, bit m i = true) :
    ∃ k, lastOffset m c = .ok k c ∧ bit m k = true ∧ ∀ j, k < j → bit m j = false := by
  have hne : m.toNat ≠ 0 := by
    obtain ⟨i, hi⟩ := hex
    intro h0; simp [bit, h0] at hi
  have hpos := bitLen_pos hne
  have hle := bitLen_le_of_lt 32 m.toNat m.toNat_lt
  refine ⟨bitLen m.toNat - 1, ?_, testBit_bitLen_sub_one _ hne, ?_⟩
  · have e1 : lz 32 m.toNat ≤ 32 := by unfold lz; omega
    have e2 : 1 ≤ 32 - lz 32 m.toNat := by unfold lz; omega
    have e3 : 32 - lz 32 m.toNat - 1 = bitLen m.toNat - 1 := by unfold lz; omega
    unfold lastOffset
    simp only [M.bind_run, csub_of_le _ e1, M.pure_run, csub_of_le _ e2, e3]
  · intro j hj
    exact testBit_of_bitLen_le _ _ (by omega)

theorem clearLSB_spec {bytes : Nat} (m : UInt32) (c : Ctr) (hw : Wf bytes m)
    (hex : ∃ i, bit m i = true) :
    ∃ m', clearLSB m c = .ok m' c ∧ Wf bytes m' ∧
      ∀ k, (bit m k = true ∧ ∀ j, j < k → bit m j = false) →
        ∀ i, bit m' i = (bit m i && i != k) := by
  have hne : (m != 0) = true := (ne_zero_iff m).mpr hex
  have hne' : m ≠ 0 := by simpa using hne
  have hnat : m.toNat ≠ 0 := by
    intro h0; apply hne'; exact UInt32.toNat_inj.mp (by rw [h0]; rfl)
  have h1 : (1 : UInt32) ≤ m := by
    rw [UInt32.le_iff_toNat_le]; show 1 ≤ m.toNat; omega
  have hsub : (m - 1).toNat = m.toNat - 1 := by
    rw [UInt32.toNat_sub_of_le _ _ h1]; rfl
  have hto : (m &&& (m - 1)).toNat = m.toNat &&& (m.toNat - 1) := by
    rw [UInt32.toNat_and, hsub]
  refine ⟨m &&& (m - 1), ?_, ?_, ?_⟩
  · have : (m == 0) = false := by simpa using hne'
    simp [clearLSB, this]
  · unfold Wf; rw [hto]
    exact Nat.lt_of_le_of_lt Nat.and_le_left hw
  · intro k ⟨hk, hl⟩ i
    unfold bit; rw [hto]
    exact and_pred_testBit k m.toNat hk hl i

theorem toNat_allExceptLS_mask (n : Nat) (hn : n < 32) :
    (~~~ (((1 : UInt32) <<< n.toUInt32) - 1)).toNat = 2 ^ 32 - 1 - (2 ^ n - 1) := by
  have hn32 : n.toUInt32.toNat = n := by
    show n % 2 ^ 32 = n
    exact Nat.mod_eq_of_lt (by omega)
  have hpow : 2 ^ n < 2 ^ 32 := Nat.pow_lt_pow_right (by decide) hn
  have hshl : ((1 : UInt32) <<< n.toUInt32).toNat = 2 ^ n := by
    rw [UInt32.toNat_shiftLeft, hn32, Nat.mod_eq_of_lt hn]
    show (1 <<< n) % 2 ^ 32 = 2 ^ n
    rw [Nat.one_shiftLeft, Nat.mod_eq_of_lt hpow]
  have h1 : (1 : UInt32) ≤ (1 : UInt32) <<< n.toUInt32 := by
    rw [UInt32.le_iff_toNat_le, hshl]
    show 1 ≤ 2 ^ n
    exact Nat.two_pow_pos n
  rw [UInt32.toNat_not, UInt32.toNat_sub_of_le _ _ h1, hshl]
  rfl

theorem allExceptLS_run (n : Nat) (c : Ctr) (hn : n < 32) :
    allExceptLS n c = .ok (~~~ (((1 : UInt32) <<< n.toUInt32) - 1)) c := by
  simp [allExceptLS, hn]

theorem mand_allExceptLS_bit (n : Nat) (hn : n < 32) (m : UInt32) (i : Nat) :
    bit (m &&& ~~~ (((1 : UInt32) <<< n.toUInt32) - 1)) i = (bit m i && decide (n ≤ i)) := by
  unfold bit
  rw [UInt32.toNat_and, toNat_allExceptLS_mask n hn, Nat.testBit_and,
    not_low_mask_testBit n i (by omega)]
  by_cases hi : i < 32
  · simp [hi]
  · have : m.toNat.testBit i = false := by
      apply Nat.testBit_lt_two_pow
      exact Nat.lt_of_lt_of_le m.toNat_lt (Nat.pow_le_pow_right (by decide) (by omega))
    simp [this]

theorem mand_wf {bytes : Nat} (a b : UInt32) (ha : Wf bytes a) : Wf bytes (a &&& b) := by
  unfold Wf; rw [UInt32.toNat_and]
  exact Nat.lt_of_le_of_lt Nat.and_le_left ha

theorem mor_wf {bytes : Nat} (a b : UInt32) (ha : Wf bytes a) (hb : Wf bytes b) :
    Wf bytes (a ||| b) := by
  unfold Wf; rw [UInt32.toNat_or]
  exact Nat.or_lt_two_pow ha hb

theorem mor_bit (a b : UInt32) (i : Nat) : bit (a ||| b) i = (bit a i || bit b i) := by
  unfold bit; rw [UInt32.toNat_or, Nat.testBit_or]

theorem mand_bit (a b : UInt32) (i : Nat) : bit (a &&& b) i = (bit a i && bit b i) := by
  unfold bit; rw [UInt32.toNat_and, Nat.testBit_and]

theorem will_iff {bytes : Nat} (hle : bytes ≤ 32) (v : Vec) (hv : v.length = bytes)
    (hb : v.IsBool) :
    ((msbMask v).toUInt32 != 0) = true ↔ ∃ i, i < bytes ∧ v.lane i = true := by
  rw [ne_zero_iff]
  constructor
  · intro ⟨i, hi⟩
    refine ⟨i, bit_lt _ i (movemask_wf hle v hv) hi, ?_⟩
    rw [← movemask_bit hle v i hv hb]; exact hi
  · intro ⟨i, _, hi⟩
    exact ⟨i, by rw [movemask_bit hle v i hv hb]; exact hi⟩

theorem allExceptLS_spec {bytes : Nat} (hle : bytes ≤ 32) (n : Nat) (c : Ctr) (hn : n < bytes) :
    ∃ k, allExceptLS n c = .ok k c ∧
      ∀ m, Wf bytes m → Wf bytes (m &&& k) ∧ (∀ i, bit (m &&& k) i = true → bit m i = true) ∧
        (∀ i, n ≤ i → bit (m &&& k) i = bit m i) := by
  have hn32 : n < 32 := Nat.lt_of_lt_of_le hn hle
  refine ⟨_, allExceptLS_run n c hn32, ?_⟩
  intro m hw
  refine ⟨mand_wf m _ hw, ?_, ?_⟩
  · intro i hi
    rw [mand_allExceptLS_bit n hn32 m i] at hi
    simp at hi; exact hi.1
  · intro i hni
    rw [mand_allExceptLS_bit n hn32 m i]; simp [hni]

theorem allExceptLS_zero {bytes : Nat} (c : Ctr) :
    ∃ k, allExceptLS 0 c = .ok k c ∧
      ∀ m, Wf bytes m → Wf bytes (m &&& k) ∧ ∀ i, bit (m &&& k) i = bit m i := by
  refine ⟨_, allExceptLS_run 0 c (by decide), ?_⟩
  intro m hw
  refine ⟨mand_wf m _ hw, ?_⟩
  intro i
  rw [mand_allExceptLS_bit 0 (by decide) m i]; simp

/-- `Lawful` for the sensible-mask vector types. -/
def lawful (bytes : Nat) (h : 0 < bytes) (hle : bytes ≤ 32) (hp : ∃ k, bytes = 2 ^ k) :
    Lawful (impl bytes h) where
  bytes_le := hle
  pow2 := hp
  align_eq := rfl
  wf := Wf bytes
  bit := bit
  bit_lt := fun m i hw hb => bit_lt m i hw hb
  movemask_wf := fun v hv _ => movemask_wf hle v hv
  movemask_bit := fun v i hv hb _ => movemask_bit hle v i hv hb
  will_iff := fun v hv hb => will_iff hle v hv hb
  hasNonZero_iff := fun m _ => ne_zero_iff m
  mor_wf := fun a b ha hb => mor_wf a b ha hb
  mor_bit := fun a b i _ _ => mor_bit a b i
  mand_wf := fun a b ha _ => mand_wf a b ha
  mand_bit := fun a b i _ _ => mand_bit a b i
  countOnes_eq := fun m hw => popcount_eq bytes m.toNat hw
  firstOffset_spec := fun m c _ hex => firstOffset_spec m c hex
  lastOffset_spec := fun m c _ hex => lastOffset_spec m c hex
  clearLSB_spec := fun m c hw hex => clearLSB_spec m c hw hex
  allExceptLS_spec := fun n c hn => allExceptLS_spec hle n c hn
  allExceptLS_zero := fun c => allExceptLS_zero c

def lawful_sse2 : Lawful sse2 := lawful 16 (by decide) (by decide) ⟨4, rfl⟩
def lawful_avx2 : Lawful avx2 := lawful 32 (by decide) (by decide) ⟨5, rfl⟩
def lawful_simd128 : Lawful simd128 := lawful 16 (by decide) (by decide) ⟨4, rfl⟩
def lawful_small2 : Lawful small2 := lawful 2 (by decide) (by decide) ⟨1, rfl⟩
def lawful_small4 : Lawful small4 := lawful 4 (by decide) (by decide) ⟨2, rfl⟩
def lawful_small8 : Lawful small8 := lawful 8 (by decide) (by decide) ⟨3, rfl⟩

end Memchr.Sensible
