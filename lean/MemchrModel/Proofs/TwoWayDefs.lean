/-
Shared definitions for the Two-Way proofs (forward direction): periods, local repetitions and
the decidable certificate `CertFwd` about the needle alone under which the forward search
loops are correct (DESIGN section 8, T4), with an executable checker `certFwdCheck` and the
proof that the checker decides the certificate.

`x` is the needle as an `Array UInt8`, `crit` the critical position.
-/
import MemchrModel.Model.TwoWay

namespace Memchr.TwoWay

/-- `k >= 1` is a period of `x`: `x[t] = x[t + k]` whenever `t + k < |x|` -/
def Per (x : Array UInt8) (k : Nat) : Prop :=
  1 ≤ k ∧ ∀ t, t + k < x.size → x[t]? = x[t + k]?

/-- `k` is a local repetition of `x` at position `c`: `x[t] = x[t + k]` for every `t` with
`c - k <= t < c` and `t + k < |x|` -/
def LR (x : Array UInt8) (c k : Nat) : Prop :=
  ∀ t, c ≤ t + k → t < c → t + k < x.size → x[t]? = x[t + k]?

/-- the critical-factorisation property in the strong form used by the loops: every local
repetition at `crit` is a period of the whole needle and exceeds `crit` -/
def Core (x : Array UInt8) (crit : Nat) : Prop :=
  ∀ k, 1 ≤ k → LR x crit k → Per x k ∧ crit < k

/-- The certificate for the forward search loops: a statement about the needle alone.
`Small period`: `period` is the smallest period.  `Large shift`: `shift` is at most the
smallest period (and positive when the needle is not empty; `Finder::new` yields
`Large { shift: 0 }` for the empty needle, which never enters a loop). -/
def CertFwd (x : Array UInt8) (crit : Nat) (shift : Shift) : Prop :=
  Core x crit ∧
  match shift with
  | .large s => (0 < x.size → 1 ≤ s) ∧ ∀ k, Per x k → s ≤ k
  | .small p => Per x p ∧ ∀ k, Per x k → p ≤ k

/-- What soundness of a reported match (`find_sound`) needs about the `TwoWay` value instead of
a certificate: the critical position is inside the needle and the shift is positive; in the
`Small` case additionally that `period` really is a period of the needle with
`critical_pos <= period <= len`.  `Finder::new` establishes all of it
(`Proofs/TwoWayNew.lean`: the `Suffix::forward` invariants (I0), (I1) and `Shift::forward`'s
own `is_suffix(&v[..period], u)` test). -/
def SoundPre (x : Array UInt8) (crit : Nat) : Shift → Prop
  | .large s => crit ≤ x.size ∧ 1 ≤ s
  | .small p => crit < x.size ∧ Per x p ∧ crit ≤ p ∧ p ≤ x.size

/-! ### consequences -/

theorem per_of_size_le (x : Array UInt8) {k : Nat} (h1 : 1 ≤ k) (h : x.size ≤ k) : Per x k :=
  ⟨h1, fun t ht => by omega⟩

theorem lr_of_size_le (x : Array UInt8) (c : Nat) {k : Nat} (h : x.size ≤ k) : LR x c k :=
  fun t _ _ ht => by omega

theorem Per.lr {x : Array UInt8} {k : Nat} (h : Per x k) (c : Nat) : LR x c k :=
  fun t _ _ ht => h.2 t ht

/-- a critical position lies strictly inside a non-empty needle (and is `0` for the empty
one) -/
theorem Core.crit_le {x : Array UInt8} {crit : Nat} (h : Core x crit) : crit ≤ x.size := by
  have := (h (x.size + 1) (by omega) (lr_of_size_le x crit (by omega))).2
  omega

theorem Core.crit_lt {x : Array UInt8} {crit : Nat} (h : Core x crit) (hn : 0 < x.size) :
    crit < x.size :=
  (h x.size hn (lr_of_size_le x crit (Nat.le_refl _))).2

/-- a period that is minimal is at most the length (of a non-empty needle) -/
theorem min_per_le_size {x : Array UInt8} {p : Nat} (hmin : ∀ k, Per x k → p ≤ k)
    (hn : 0 < x.size) : p ≤ x.size :=
  hmin x.size (per_of_size_le x hn (Nat.le_refl _))

/-- the critical position is smaller than every period -/
theorem Core.crit_lt_per {x : Array UInt8} {crit p : Nat} (h : Core x crit) (hp : Per x p) :
    crit < p :=
  (h p hp.1 (hp.lr crit)).2

/-! ### the executable checker -/

def perCheck (x : Array UInt8) (k : Nat) : Bool :=
  decide (1 ≤ k) && (List.range x.size).all (fun t => !decide (t + k < x.size) || x[t]? == x[t + k]?)

def lrCheck (x : Array UInt8) (c k : Nat) : Bool :=
  (List.range c).all (fun t => !(decide (c ≤ t + k) && decide (t + k < x.size)) || x[t]? == x[t + k]?)

def coreCheck (x : Array UInt8) (crit : Nat) : Bool :=
  (List.range (x.size + 2)).all (fun k =>
    !decide (1 ≤ k) || !lrCheck x crit k || (perCheck x k && decide (crit < k)))

/-- no `k < s` is a period -/
def minPerCheck (x : Array UInt8) (s : Nat) : Bool :=
  (List.range s).all (fun k => !perCheck x k)

def certFwdCheck (x : Array UInt8) (crit : Nat) (shift : Shift) : Bool :=
  coreCheck x crit &&
  match shift with
  | .large s => (!decide (0 < x.size) || decide (1 ≤ s)) && minPerCheck x s
  | .small p => perCheck x p && minPerCheck x p

theorem perCheck_iff (x : Array UInt8) (k : Nat) : perCheck x k = true ↔ Per x k := by
  simp only [perCheck, Per, Bool.and_eq_true, decide_eq_true_eq, List.all_eq_true,
    List.mem_range, Bool.or_eq_true, Bool.not_eq_true', decide_eq_false_iff_not, beq_iff_eq]
  constructor
  · rintro ⟨h1, h2⟩
    refine ⟨h1, fun t ht => ?_⟩
    rcases h2 t (by omega) with h | h
    · exact absurd ht h
    · exact h
  · rintro ⟨h1, h2⟩
    exact ⟨h1, fun t _ => by
      by_cases ht : t + k < x.size
      · exact Or.inr (h2 t ht)
      · exact Or.inl ht⟩

theorem lrCheck_iff (x : Array UInt8) (c k : Nat) : lrCheck x c k = true ↔ LR x c k := by
  simp only [lrCheck, LR, List.all_eq_true, List.mem_range, Bool.or_eq_true,
    Bool.not_eq_true', Bool.and_eq_false_iff, decide_eq_false_iff_not, beq_iff_eq]
  constructor
  · intro h t h1 h2 h3
    rcases h t h2 with (h | h) | h
    · exact absurd h1 h
    · exact absurd h3 h
    · exact h
  · intro h t h2
    by_cases h1 : c ≤ t + k
    · by_cases h3 : t + k < x.size
      · exact Or.inr (h t h1 h2 h3)
      · exact Or.inl (Or.inr h3)
    · exact Or.inl (Or.inl h1)

theorem coreCheck_iff (x : Array UInt8) (crit : Nat) : coreCheck x crit = true ↔ Core x crit := by
  simp only [coreCheck, List.all_eq_true, List.mem_range, Bool.or_eq_true, Bool.not_eq_true',
    decide_eq_false_iff_not, Bool.and_eq_true, decide_eq_true_eq, perCheck_iff]
  constructor
  · intro h
    have key : ∀ k, k < x.size + 2 → 1 ≤ k → LR x crit k → Per x k ∧ crit < k := by
      intro k hk h1 hlr
      rcases h k hk with (h' | h') | h'
      · exact absurd h1 h'
      · have := (lrCheck_iff x crit k).mpr hlr
        rw [this] at h'; cases h'
      · exact h'
    intro k h1 hlr
    by_cases hk : k < x.size + 2
    · exact key k hk h1 hlr
    · have := (key (x.size + 1) (by omega) (by omega) (lr_of_size_le x crit (by omega))).2
      exact ⟨per_of_size_le x h1 (by omega), by omega⟩
  · intro h k _
    by_cases h1 : 1 ≤ k
    · by_cases hlr : lrCheck x crit k = true
      · exact Or.inr (h k h1 ((lrCheck_iff x crit k).mp hlr))
      · exact Or.inl (Or.inr (by simpa using hlr))
    · exact Or.inl (Or.inl h1)

theorem minPerCheck_iff (x : Array UInt8) (s : Nat) :
    minPerCheck x s = true ↔ ∀ k, Per x k → s ≤ k := by
  simp only [minPerCheck, List.all_eq_true, List.mem_range, Bool.not_eq_true']
  constructor
  · intro h k hk
    by_cases hks : k < s
    · have := h k hks
      rw [(perCheck_iff x k).mpr hk] at this; cases this
    · omega
  · intro h k hk
    by_cases hp : perCheck x k = true
    · have := h k ((perCheck_iff x k).mp hp); omega
    · simpa using hp

/-- the checker decides the certificate -/
theorem certFwdCheck_iff (x : Array UInt8) (crit : Nat) (shift : Shift) :
    certFwdCheck x crit shift = true ↔ CertFwd x crit shift := by
  cases shift with
  | small p =>
    simp only [certFwdCheck, CertFwd, Bool.and_eq_true, coreCheck_iff, perCheck_iff,
      minPerCheck_iff]
  | large s =>
    simp only [certFwdCheck, CertFwd, Bool.and_eq_true, coreCheck_iff, minPerCheck_iff,
      Bool.or_eq_true, Bool.not_eq_true', decide_eq_false_iff_not, decide_eq_true_eq]
    constructor
    · rintro ⟨h1, h2, h3⟩
      exact ⟨h1, fun hn => by rcases h2 with h | h; exact absurd hn h; exact h, h3⟩
    · rintro ⟨h1, h2, h3⟩
      refine ⟨h1, ?_, h3⟩
      by_cases hn : 0 < x.size
      · exact Or.inr (h2 hn)
      · exact Or.inl hn

instance (x : Array UInt8) (crit : Nat) (shift : Shift) : Decidable (CertFwd x crit shift) :=
  decidable_of_iff _ (certFwdCheck_iff x crit shift)

/-! ### non-vacuity: the values `Finder::new` computes for a few periodic needles
(`#eval` of the model: "abaab" -> crit 2, Small 3; "aaaa" -> crit 0, Small 1;
"abcabcab" -> crit 2, Small 3; "abcde" -> crit 4, Large 4) -/

example : CertFwd "abaab".toUTF8.data 2 (.small 3) := by decide
example : CertFwd "aaaa".toUTF8.data 0 (.small 1) := by decide
example : CertFwd "abcabcab".toUTF8.data 2 (.small 3) := by decide
example : CertFwd #[] 0 (.large 0) := by decide

end Memchr.TwoWay
