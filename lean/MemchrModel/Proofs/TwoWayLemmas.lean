/-
Two-Way, forward direction: run lemmas for the small pieces of the model, slice-level
occurrence / match predicates, and the three combinatorial facts (a)-(c) of DESIGN section 8
that justify the ways the search loops advance.
-/
import MemchrModel.Proofs.TwoWayDefs
import MemchrModel.Proofs.IsEqualLemmas

namespace Memchr.TwoWay

open Memchr

/-! ### running the monad -/

theorem bind_ok {α β : Type} {x : M α} {f : α → M β} {c c' : Ctr} {a : α}
    (h : x c = .ok a c') : (x >>= f) c = f a c' := by
  simp [h]

theorem bind_fault {α β : Type} {x : M α} {f : α → M β} {c : Ctr} {e : Fault}
    (h : x c = .fault e) : (x >>= f) c = .fault e := by
  simp [h]

theorem pure_bind' {α β : Type} (a : α) (f : α → M β) : (pure a >>= f) = f a := rfl

theorem get_ok (s : Slice) (site : String) {i : Nat} (h : i < s.len) :
    s.get site i = pure (s.getD i) := by
  simp [Slice.get, h]

/-! ### the byte set -/

/-- `1 << (b % 64)` -/
def bsMask (b : UInt8) : UInt64 := (1 : UInt64) <<< (b.toNat % 64).toUInt64

/-- pure form of `ApproximateByteSet::contains` -/
def ApproximateByteSet.has (s : ApproximateByteSet) (b : UInt8) : Bool := s.bits &&& bsMask b != 0

theorem shl1_ok (site : String) {k : Nat} (h : k < 64) :
    shl1 site k = pure ((1 : UInt64) <<< k.toUInt64) := by
  simp [shl1, h]

theorem contains_run (s : ApproximateByteSet) (b : UInt8) (c : Ctr) :
    s.contains b c = .ok (s.has b) c := by
  have h : b.toNat % Generated.byteSetModulusContains < 64 := Nat.mod_lt _ (by decide)
  simp only [ApproximateByteSet.contains, shl1_ok _ h, pure_bind']
  rfl

/-! ### slice-level occurrences, matches, periods -/

/-- `needle` occurs in `haystack` at offset `q` -/
def Occ (haystack needle : Slice) (q : Nat) : Prop :=
  q + needle.len ≤ haystack.len ∧ ∀ t, t < needle.len → haystack.getD (q + t) = needle.getD t

theorem occ_iff {h n : Slice} (hh : h.Valid) (hn : n.Valid) (q : Nat) :
    Spec.OccAt h.toArray n.toArray q ↔ Occ h n q := by
  unfold Spec.OccAt Occ
  rw [Slice.toArray_size hh, Slice.toArray_size hn]
  constructor
  · rintro ⟨h1, h2⟩
    refine ⟨h1, fun t ht => ?_⟩
    have := h2 t ht
    rw [Slice.toArray_getElem? hh (q + t) (by omega), Slice.toArray_getElem? hn t ht] at this
    exact Option.some.inj this
  · rintro ⟨h1, h2⟩
    refine ⟨h1, fun t ht => ?_⟩
    rw [Slice.toArray_getElem? hh (q + t) (by omega), Slice.toArray_getElem? hn t ht, h2 t ht]

/-- needle bytes `[lo, hi)` equal the haystack bytes at `pos + [lo, hi)` -/
def MatchR (haystack needle : Slice) (pos lo hi : Nat) : Prop :=
  ∀ t, lo ≤ t → t < hi → needle.getD t = haystack.getD (pos + t)

theorem MatchR.empty (h n : Slice) (pos lo : Nat) : MatchR h n pos lo lo :=
  fun t h1 h2 => by omega

theorem MatchR.mono {h n : Slice} {pos lo hi lo' hi' : Nat} (hm : MatchR h n pos lo hi)
    (h1 : lo ≤ lo') (h2 : hi' ≤ hi) : MatchR h n pos lo' hi' :=
  fun t ht1 ht2 => hm t (by omega) (by omega)

theorem MatchR.append {h n : Slice} {pos lo mid hi : Nat} (h1 : MatchR h n pos lo mid)
    (h2 : MatchR h n pos mid hi) : MatchR h n pos lo hi := fun t ht1 ht2 => by
  by_cases htm : t < mid
  · exact h1 t ht1 htm
  · exact h2 t (by omega) ht2

theorem MatchR.occ {h n : Slice} {pos : Nat} (hm : MatchR h n pos 0 n.len)
    (hb : pos + n.len ≤ h.len) : Occ h n pos :=
  ⟨hb, fun t ht => (hm t (Nat.zero_le _) ht).symm⟩

/-- slice form of `Per` -/
theorem per_getD {n : Slice} (hn : n.Valid) {k : Nat} (hp : Per n.toArray k) (t : Nat)
    (ht : t + k < n.len) : n.getD t = n.getD (t + k) := by
  have := hp.2 t (by rw [Slice.toArray_size hn]; exact ht)
  rw [Slice.toArray_getElem? hn t (by omega), Slice.toArray_getElem? hn (t + k) ht] at this
  exact Option.some.inj this

theorem per_of_getD {n : Slice} (hn : n.Valid) {k : Nat} (h1 : 1 ≤ k)
    (h : ∀ t, t + k < n.len → n.getD t = n.getD (t + k)) : Per n.toArray k := by
  refine ⟨h1, fun t ht => ?_⟩
  rw [Slice.toArray_size hn] at ht
  rw [Slice.toArray_getElem? hn t (by omega), Slice.toArray_getElem? hn (t + k) ht, h t ht]

theorem lr_of_getD {n : Slice} (hn : n.Valid) {c k : Nat}
    (h : ∀ t, c ≤ t + k → t < c → t + k < n.len → n.getD t = n.getD (t + k)) :
    LR n.toArray c k := by
  intro t h1 h2 h3
  rw [Slice.toArray_size hn] at h3
  rw [Slice.toArray_getElem? hn t (by omega), Slice.toArray_getElem? hn (t + k) h3,
    h t h1 h2 h3]

/-! ### the combinatorial facts -/

/-- an occurrence at `pos + k` whose left part overlaps a matched right part `[crit, i)` at
`pos` makes `k` a local repetition at `crit` -/
theorem lr_of_occ {h n : Slice} (hn : n.Valid) {crit pos i k : Nat}
    (hm : MatchR h n pos crit i) (hk : crit + k ≤ i ∨ n.len ≤ i) (hocc : Occ h n (pos + k)) :
    LR n.toArray crit k := by
  apply lr_of_getD hn
  intro t h1 h2 h3
  have e1 := hocc.2 t (by omega)
  have e2 := hm (t + k) h1 (by omega)
  rw [e2, ← e1]
  congr 1; omega

/-- (a) after the right part `x[crit..i)` matched at `pos` and `x[i]` mismatched, no occurrence
starts in `[pos, pos + i - crit]` -/
theorem no_occ_right_mismatch {h n : Slice} (hn : n.Valid) {crit pos i k : Nat}
    (hcore : Core n.toArray crit) (hm : MatchR h n pos crit i) (hi : i < n.len)
    (hne : n.getD i ≠ h.getD (pos + i)) (hk : k ≤ i - crit) : ¬ Occ h n (pos + k) := by
  intro hocc
  by_cases hk0 : k = 0
  · subst hk0
    exact hne (hocc.2 i hi).symm
  · have hlr := lr_of_occ hn hm (Or.inl (by omega)) hocc
    have hper := (hcore k (by omega) hlr).1
    have e1 := per_getD hn hper (i - k) (by omega)
    have e2 := hocc.2 (i - k) (by omega)
    rw [show i - k + k = i by omega] at e1
    rw [show pos + k + (i - k) = pos + i by omega] at e2
    exact hne (by rw [← e1, e2])

/-- (b) after a full right match at `pos`, no occurrence starts in `(pos, pos + s)` when `s`
is at most the smallest period -/
theorem no_occ_after_right_match {h n : Slice} (hn : n.Valid) {crit pos s k : Nat}
    (hcore : Core n.toArray crit) (hm : MatchR h n pos crit n.len)
    (hmin : ∀ k, Per n.toArray k → s ≤ k) (hk1 : 1 ≤ k) (hks : k < s) :
    ¬ Occ h n (pos + k) := by
  intro hocc
  have hlr := lr_of_occ hn hm (Or.inr (Nat.le_refl _)) hocc
  have := hmin k (hcore k hk1 hlr).1
  omega

/-- (c) the period memory: after a full right match at `pos`, the first `|x| - p` bytes match
at `pos + p` -/
theorem memory_after_period {h n : Slice} {crit pos p : Nat}
    (hper : ∀ t, t + p < n.len → n.getD t = n.getD (t + p)) (hcp : crit ≤ p)
    (hm : MatchR h n pos crit n.len) : MatchR h n (pos + p) 0 (n.len - p) := by
  intro t _ ht
  rw [hper t (by omega), hm (t + p) (by omega) (by omega)]
  congr 1; omega

/-- byte-set skip: if the haystack byte under the needle's last position is not in the set,
no occurrence starts in `[pos, pos + |x|)` -/
theorem no_occ_byteset {h n : Slice} {bs : ApproximateByteSet} {pos k : Nat}
    (hbs : ∀ t, t < n.len → bs.has (n.getD t) = true)
    (hnc : bs.has (h.getD (pos + (n.len - 1))) = false) (hk : k < n.len) :
    ¬ Occ h n (pos + k) := by
  intro hocc
  have e := hocc.2 (n.len - 1 - k) (by omega)
  rw [show pos + k + (n.len - 1 - k) = pos + (n.len - 1) by omega] at e
  rw [e, hbs _ (by omega)] at hnc
  cases hnc

/-! ### the comparison loops -/

theorem fwdCmp_spec (fn : String) (n h : Slice) (pos i : Nat) (c : Ctr)
    (hb : pos + n.len ≤ h.len) :
    ∃ i' c', Finder.fwdCmp fn n h pos i c = .ok i' c' ∧ i ≤ i' ∧ (i ≤ n.len → i' ≤ n.len) ∧
      MatchR h n pos i i' ∧ (i' < n.len → n.getD i' ≠ h.getD (pos + i')) ∧
      c'.steps = c.steps + (i' - i) ∧ c'.loads = c.loads := by
  fun_induction Finder.fwdCmp fn n h pos i generalizing c with
  | case1 i hi ih =>
    simp only [get_ok n _ hi, get_ok h _ (show pos + i < h.len by omega), pure_bind']
    by_cases hab : n.getD i = h.getD (pos + i)
    · simp only [hab, beq_self_eq_true, if_true, M.bind_run, tick_run]
      obtain ⟨i', c', e, h1, h2, h3, h4, h5, h6⟩ := ih { c with steps := c.steps + 1 }
      refine ⟨i', c', e, by omega, fun _ => h2 (by omega), ?_, h4, ?_, h6⟩
      · intro t ht1 ht2
        by_cases hti : t = i
        · subst hti; exact hab
        · exact h3 t (by omega) ht2
      · simp only at h5; omega
    · have : (n.getD i == h.getD (pos + i)) = false := by simpa using hab
      simp only [this, Bool.false_eq_true, if_false, M.pure_run]
      exact ⟨i, c, rfl, Nat.le_refl _, fun h => h, MatchR.empty _ _ _ _, fun _ => hab, by simp, rfl⟩
  | case2 i hi =>
    exact ⟨i, c, rfl, Nat.le_refl _, fun h => h, MatchR.empty _ _ _ _, fun h => absurd h hi, by simp, rfl⟩

theorem smallBackCmp_spec (n h : Slice) (pos shift j : Nat) (c : Ctr)
    (hb : pos + n.len ≤ h.len) (hj : j < n.len) :
    ∃ j' c', Finder.smallBackCmp n h pos shift j c = .ok j' c' ∧ j' ≤ j ∧
      MatchR h n pos (j' + 1) (j + 1) ∧
      (j' ≤ shift ∨ n.getD j' ≠ h.getD (pos + j')) ∧ (shift ≤ j → shift ≤ j') ∧
      c'.steps = c.steps + (j - j') ∧ c'.loads = c.loads := by
  fun_induction Finder.smallBackCmp n h pos shift j generalizing c with
  | case1 j hjs ih =>
    simp only [get_ok n _ hj, get_ok h _ (show pos + j < h.len by omega), pure_bind']
    by_cases hab : n.getD j = h.getD (pos + j)
    · simp only [hab, beq_self_eq_true, if_true, M.bind_run, tick_run,
        csub_of_le _ (show 1 ≤ j by omega), M.pure_run]
      obtain ⟨j', c', e, h1, h2, h3, h4, h5, h6⟩ := ih { c with steps := c.steps + 1 } (by omega)
      refine ⟨j', c', e, by omega, ?_, h3, fun _ => h4 (by omega), ?_, h6⟩
      · intro t ht1 ht2
        by_cases htj : t = j
        · subst htj; exact hab
        · exact h2 t ht1 (by omega)
      · simp only at h5; omega
    · have : (n.getD j == h.getD (pos + j)) = false := by simpa using hab
      simp only [this, Bool.false_eq_true, if_false, M.pure_run]
      exact ⟨j, c, rfl, Nat.le_refl _, MatchR.empty _ _ _ _, Or.inr hab, fun h => h, by simp, rfl⟩
  | case2 j hjs =>
    exact ⟨j, c, rfl, Nat.le_refl _, MatchR.empty _ _ _ _, Or.inl (by omega), fun h => h, by simp, rfl⟩

theorem largeBackCmp_spec (n h : Slice) (pos j : Nat) (c : Ctr)
    (hb : pos + n.len ≤ h.len) (hj : j ≤ n.len) :
    ∃ r c', Finder.largeBackCmp n h pos j c = .ok r c' ∧
      (r = true → MatchR h n pos 0 j) ∧
      (r = false → ∃ m, m < j ∧ n.getD m ≠ h.getD (pos + m)) ∧
      c'.steps ≤ c.steps + j ∧ c'.loads = c.loads := by
  induction j generalizing c with
  | zero => exact ⟨true, c, rfl, fun _ => MatchR.empty _ _ _ _, (fun hh => by cases hh), by simp, rfl⟩
  | succ j ih =>
    simp only [Finder.largeBackCmp, M.bind_run, tick_run]
    rw [get_ok n _ (show j < n.len by omega)]
    simp only [M.pure_run]
    rw [get_ok h _ (show pos + j < h.len by omega)]
    simp only [M.pure_run]
    by_cases hab : n.getD j = h.getD (pos + j)
    · simp only [hab, bne_self_eq_false, Bool.false_eq_true, if_false]
      obtain ⟨r, c', e, h1, h2, h3, h4⟩ := ih { c with steps := c.steps + 1 } (by omega)
      refine ⟨r, c', e, ?_, ?_, by simp only at h3; omega, h4⟩
      · intro hr t ht1 ht2
        by_cases htj : t = j
        · subst htj; exact hab
        · exact h1 hr t ht1 (by omega)
      · intro hr
        obtain ⟨m, hm1, hm2⟩ := h2 hr
        exact ⟨m, by omega, hm2⟩
    · have : (n.getD j != h.getD (pos + j)) = true := by simpa using hab
      simp only [this, if_true, M.pure_run]
      exact ⟨false, _, rfl, (fun hh => by cases hh), fun _ => ⟨j, by omega, hab⟩, by simp, rfl⟩

/-! ### the prefilter block -/

theorem isEffective_ok (s : PrefilterState) (c : Ctr) :
    ∃ b s', s.isEffective c = .ok (b, s') c := by
  unfold PrefilterState.isEffective
  split
  · exact ⟨_, _, rfl⟩
  · split
    · exact ⟨_, _, rfl⟩
    · simp only []
      split
      · exact ⟨_, _, rfl⟩
      · exact ⟨_, _, rfl⟩

theorem pre_isEffective_ok (p : Pre) (c : Ctr) :
    ∃ b st, p.isEffective c = .ok (b, { p with state := st }) c := by
  obtain ⟨b, s', e⟩ := isEffective_ok p.state c
  exact ⟨b, s', by simp only [Pre.isEffective, bind_ok e]; rfl⟩

/-- the strategy of an optional prefilter is `strat` -/
def PreOK (strat : Slice → M (Option Nat)) (pre : Option Pre) : Prop :=
  ∀ p, pre = some p → p.strat = strat

/-- `&haystack[a..]` -/
def tailFrom (s : Slice) (a : Nat) : Slice := ⟨s.mem, s.off + a, s.len - a⟩

/-- What the loops need from the prefilter strategy, relative to an abstract loop invariant
`Inv pos` ("the search may resume at `pos`") and an abstract `Done` ("answering `None` is
right"): run on `&haystack[a..]` it returns normally; `None` justifies `Done`; `Some(c)`
justifies advancing by `c`. -/
def StratOK (haystack : Slice) (strat : Slice → M (Option Nat)) (Inv : Nat → Prop)
    (Done : Prop) : Prop :=
  ∀ a, a ≤ haystack.len → ∀ c, ∃ r c', strat (tailFrom haystack a) c = .ok r c' ∧
    (r = none → Inv a → Done) ∧ (∀ cnd, r = some cnd → Inv a → Inv (a + cnd))

theorem prefilterStep_spec (fn : String) (needle haystack : Slice)
    (strat : Slice → M (Option Nat)) (Inv : Nat → Prop) (Done : Prop)
    (pre : Option Pre) (pos : Nat) (c : Ctr)
    (hpos : pos + needle.len ≤ haystack.len) (hpre : PreOK strat pre)
    (hstrat : pre ≠ none → StratOK haystack strat Inv Done)
    (hdone : ∀ q, Inv q → haystack.len < q + needle.len → Done) :
    ∃ pre' st c', Finder.prefilterStep fn needle haystack pre pos c = .ok (pre', st) c' ∧
      PreOK strat pre' ∧ (pre = none → pre' = none ∧ st = some (0, false) ∧ c' = c) ∧
      (st = none → Inv pos → Done) ∧
      (∀ delta ran, st = some (delta, ran) → (Inv pos → Inv (pos + delta)) ∧
        pos + delta + needle.len ≤ haystack.len ∧ (ran = false → delta = 0)) := by
  cases pre with
  | none =>
    refine ⟨none, some (0, false), c, rfl, hpre, fun _ => ⟨rfl, rfl, rfl⟩, nofun, ?_⟩
    intro delta ran h
    cases h
    exact ⟨fun h => h, hpos, fun _ => rfl⟩
  | some p =>
    have hs : p.strat = strat := hpre p rfl
    obtain ⟨b, st, e⟩ := pre_isEffective_ok p c
    simp only [Finder.prefilterStep, bind_ok e]
    have hok' : ∀ st', PreOK strat (some { p with state := st' }) := by
      intro st' p' hp'
      cases hp'
      exact hs
    cases b with
    | false =>
      refine ⟨_, some (0, false), c, rfl, hok' st, nofun, nofun, ?_⟩
      intro delta ran h
      cases h
      exact ⟨fun h => h, hpos, fun _ => rfl⟩
    | true =>
      have hd : haystack.drop (fn ++ ": &haystack[pos..]") pos = pure (tailFrom haystack pos) := by
        simp [Slice.drop, tailFrom, show pos ≤ haystack.len by omega]
      obtain ⟨r, c1, er, hr1, hr2⟩ := hstrat (by simp) pos (by omega) c
      have ef : Pre.find { p with state := st } (tailFrom haystack pos) c =
          .ok (r, { p with state := st.update (r.getD (tailFrom haystack pos).len) })
            { c1 with steps := c1.steps + 1 } := by
        simp only [Pre.find, hs, bind_ok er, M.bind_run, tick_run, M.pure_run]
      simp only [if_true, hd, pure_bind', bind_ok ef]
      cases r with
      | none =>
        refine ⟨_, none, _, rfl, hok' _, nofun, fun _ => hr1 rfl, ?_⟩
        intro delta ran h; cases h
      | some cnd =>
        simp only []
        by_cases hfit : pos + cnd + needle.len > haystack.len
        · simp only [hfit, if_true]
          refine ⟨_, none, _, rfl, hok' _, nofun, ?_, ?_⟩
          · intro _ hinv
            exact hdone _ (hr2 cnd rfl hinv) hfit
          · intro delta ran h; cases h
        · simp only [hfit, if_false]
          refine ⟨_, some (cnd, true), _, rfl, hok' _, nofun, nofun, ?_⟩
          intro delta ran h
          cases h
          exact ⟨hr2 cnd rfl, by omega, nofun⟩

end Memchr.TwoWay
