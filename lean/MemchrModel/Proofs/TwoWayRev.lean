/-
Two-Way (`src/arch/all/twoway.rs`), reverse direction (`FinderRev`): master theorems.

* `rfind_eq_of_cert` (T4-rev): under the decidable certificate `CertRev` about the needle,
  `FinderRev::rfind` returns the rightmost occurrence and never faults.
* `rfind_sound`: without any certificate a reported match is an occurrence and the search
  never faults.
* `finderRev_new_spec` (in `Proofs/TwoWayRevNew.lean`): the constructor never faults, is
  linear, and establishes the hypotheses of `rfind_sound`.
* cost: the search takes at most `3 * haystack.len + 2 * needle.len + 1` steps (the `Large`
  loop when `needle.len <= 2 * shift`, which the constructor guarantees).
* `new_rfind_sound`, `new_rfind_eq_of_cert`: constructor and search composed.
-/
import MemchrModel.Proofs.TwoWayRevLoops
import MemchrModel.Proofs.TwoWayRevNew
import MemchrModel.Proofs.TwoWay

namespace Memchr.TwoWay

open Memchr

/-- "no occurrence ends after `pos`" (`pos` is the end of the reverse searcher's window) -/
def NoOccAfter (haystack needle : Slice) (pos : Nat) : Prop :=
  ∀ j, pos < j + needle.len → ¬ Occ haystack needle j

/-- the closure properties for `Inv := NoOccAfter`, from the certificate -/
theorem loopInvRev_of_cert {tw : TwoWay} {needle haystack : Slice} {step : Nat}
    (hnv : needle.Valid)
    (hcore : CoreRev needle.toArray tw.criticalPos)
    (hmin : ∀ k, Per needle.toArray k → step ≤ k)
    (hbs : ∀ t, t < needle.len → tw.byteset.has (needle.getD t) = true) :
    LoopInvRev tw needle haystack step (NoOccAfter haystack needle)
      (∀ j, ¬ Occ haystack needle j) where
  done := by
    intro pos hinv hq j hocc
    exact hinv j (by omega) hocc
  bs := by
    intro pos hinv hq hp hnc j hj hocc
    by_cases hjq : pos < j + needle.len
    · exact hinv j hjq hocc
    · exact no_occ_byteset_rev (q := pos - needle.len) (k := pos - needle.len - j) (by omega)
        hbs hnc (by omega) hocc
  left := by
    intro pos i hinv hq hp hi hic hm hne j hj hocc
    by_cases hjq : pos < j + needle.len
    · exact hinv j hjq hocc
    · exact no_occ_left_mismatch (q := pos - needle.len) (k := pos - needle.len - j) hnv hcore
        (by omega) hm hi hic hne (by omega) hocc
  right := by
    intro pos m hinv hq hp hm hmn hne j hj hocc
    by_cases hjq : pos < j + needle.len
    · exact hinv j hjq hocc
    · by_cases hjeq : j = pos - needle.len
      · subst hjeq
        exact hne (hocc.2 m hmn).symm
      · exact no_occ_after_left_match (q := pos - needle.len) (k := pos - needle.len - j) hnv
          hcore (by omega) hm hmin (by omega) (by omega) hocc

theorem rightmost_of_post {haystack needle : Slice} (hhv : haystack.Valid) (hnv : needle.Valid)
    {r : Option Nat}
    (h1 : ∀ q, r = some q → NoOccAfter haystack needle (q + needle.len) ∧ Occ haystack needle q)
    (h2 : r = none → ∀ j, ¬ Occ haystack needle j) :
    r = Spec.rightmost haystack.toArray needle.toArray := by
  cases r with
  | none =>
    symm
    rw [Spec.rightmost_eq_none_iff]
    intro j hj
    exact h2 rfl j ((occ_iff hhv hnv j).mp hj)
  | some q =>
    symm
    rw [Spec.rightmost_eq_some_iff]
    obtain ⟨h3, h4⟩ := h1 q rfl
    exact ⟨(occ_iff hhv hnv q).mpr h4,
      fun j hj hocc => h3 j (by omega) ((occ_iff hhv hnv j).mp hocc)⟩

theorem rightmost_empty {haystack needle : Slice} (hhv : haystack.Valid) (hnv : needle.Valid)
    (h0 : needle.len = 0) :
    Spec.rightmost haystack.toArray needle.toArray = some haystack.len := by
  rw [Spec.rightmost_eq_some_iff]
  refine ⟨(occ_iff hhv hnv _).mpr ⟨by omega, fun t ht => by omega⟩, fun j hj hocc => ?_⟩
  have := ((occ_iff hhv hnv j).mp hocc).1
  omega

/-- **T4 (reverse).**  For every `TwoWay` value whose critical position and shift satisfy the
certificate `CertRev` for the needle and whose byte set has no false negatives on the needle's
bytes: `FinderRev::rfind` returns the rightmost occurrence (and never faults), in at most
`3 * haystack.len + 2 * needle.len + 1` steps (for a `Large` shift: when
`needle.len <= 2 * shift`, which `FinderRev::new` guarantees). -/
theorem rfind_eq_of_cert (tw : TwoWay) (needle haystack : Slice) (c : Ctr)
    (hnv : needle.Valid) (hhv : haystack.Valid)
    (hcert : CertRev needle.toArray tw.criticalPos tw.shift)
    (hbs : ∀ b, b ∈ needle.toArray → tw.byteset.has b = true) :
    ∃ c', FinderRev.rfind tw haystack needle c =
        .ok (Spec.rightmost haystack.toArray needle.toArray) c' ∧
      ((∀ s, tw.shift = .large s → needle.len ≤ 2 * s) →
        c'.steps ≤ c.steps + 3 * haystack.len + 2 * needle.len + 1) := by
  have hbs' : ∀ t, t < needle.len → tw.byteset.has (needle.getD t) = true :=
    fun t ht => hbs _ (getD_mem_toArray hnv ht)
  have hinv0 : NoOccAfter haystack needle haystack.len := fun j hj hocc => by
    have := hocc.1; omega
  have hsz : needle.toArray.size = needle.len := Slice.toArray_size hnv
  unfold FinderRev.rfind
  obtain ⟨hcore, hsh⟩ := hcert
  have hcn : tw.criticalPos ≤ needle.len := by have := hcore.crit_le; omega
  cases hshift : tw.shift with
  | small p =>
    rw [hshift] at hsh
    obtain ⟨hper, hmin⟩ := hsh
    simp only [FinderRev.rfindSmallImp]
    by_cases h0 : needle.len = 0
    · simp only [h0, dite_true]
      exact ⟨c, by rw [rightmost_empty hhv hnv h0]; rfl, fun _ => by omega⟩
    · simp only [h0, dite_false]
      have hn : 0 < needle.len := Nat.pos_of_ne_zero h0
      obtain ⟨r, c', e, h1, h2, h3⟩ := smallLoop_spec_rev tw needle haystack hn p
        (NoOccAfter haystack needle) (∀ j, ¬ Occ haystack needle j)
        (hcore.crit_pos (by omega)) hcn hper.1
        (by have := min_per_le_size hmin (by omega); omega)
        (by have := hcore.lt_per hper; omega) (per_getD hnv hper)
        (loopInvRev_of_cert hnv hcore hmin hbs') haystack.len needle.len c (Nat.le_refl _) hinv0
        hn (Nat.le_refl _) (fun _ => MatchR.empty _ _ _ _)
      refine ⟨c', ?_, fun _ => ?_⟩
      · rw [e, rightmost_of_post hhv hnv h1 h2]
      · omega
  | large s =>
    rw [hshift] at hsh
    obtain ⟨hs1, hmin⟩ := hsh
    simp only [FinderRev.rfindLargeImp]
    by_cases h0 : needle.len = 0
    · simp only [h0, dite_true]
      exact ⟨c, by rw [rightmost_empty hhv hnv h0]; rfl, fun _ => by omega⟩
    · simp only [h0, dite_false]
      have hn : 0 < needle.len := Nat.pos_of_ne_zero h0
      obtain ⟨r, c', e, h1, h2, h3⟩ := largeLoop_spec_rev tw needle haystack hn s
        (NoOccAfter haystack needle) (∀ j, ¬ Occ haystack needle j)
        (hcore.crit_pos (by omega)) hcn (hs1 (by omega))
        (by have := min_per_le_size hmin (by omega); omega)
        (loopInvRev_of_cert hnv hcore hmin hbs') haystack.len c (Nat.le_refl _) hinv0
      refine ⟨c', ?_, fun hh => ?_⟩
      · rw [e, rightmost_of_post hhv hnv h1 h2]
      · have := h3 (hh s rfl)
        omega

/-! ### soundness of a reported match without any certificate -/

theorem loopInvRev_trivial (tw : TwoWay) (needle haystack : Slice) (step : Nat) :
    LoopInvRev tw needle haystack step (fun _ => True) True :=
  ⟨fun _ _ _ => trivial, fun _ _ _ _ _ => trivial, fun _ _ _ _ _ _ _ _ _ => trivial,
    fun _ _ _ _ _ _ _ _ => trivial⟩

/-- **Soundness without a certificate.**  For an arbitrary critical position and shift subject
only to `SoundPreRev` and an arbitrary byte set: the reverse search never faults and a reported
`Some(q)` is an occurrence of the needle. -/
theorem rfind_sound (tw : TwoWay) (needle haystack : Slice) (c : Ctr)
    (hnv : needle.Valid) (hhv : haystack.Valid)
    (hsp : 0 < needle.len → SoundPreRev needle.toArray tw.criticalPos tw.shift) :
    ∃ r c', FinderRev.rfind tw haystack needle c = .ok r c' ∧
      (∀ q, r = some q → Spec.OccAt haystack.toArray needle.toArray q) ∧
      ((∀ s, tw.shift = .large s → needle.len ≤ 2 * s) →
        c'.steps ≤ c.steps + 3 * haystack.len + 2 * needle.len + 1) := by
  have hsz : needle.toArray.size = needle.len := Slice.toArray_size hnv
  unfold FinderRev.rfind
  cases hshift : tw.shift with
  | small p =>
    simp only [FinderRev.rfindSmallImp]
    by_cases h0 : needle.len = 0
    · simp only [h0, dite_true]
      refine ⟨some haystack.len, c, rfl, ?_, fun _ => by omega⟩
      intro q hq; cases hq
      exact (occ_iff hhv hnv _).mpr ⟨by omega, fun t ht => by omega⟩
    · simp only [h0, dite_false]
      have hn : 0 < needle.len := Nat.pos_of_ne_zero h0
      have hsp' := hsp hn
      rw [hshift] at hsp'
      obtain ⟨hc1, hcn, hper, hcp, hpn⟩ := hsp'
      obtain ⟨r, c', e, h1, _, h3⟩ := smallLoop_spec_rev tw needle haystack hn p
        (fun _ => True) True hc1 (by omega) hper.1 (by omega) (by omega) (per_getD hnv hper)
        (loopInvRev_trivial _ _ _ _) haystack.len needle.len c (Nat.le_refl _) trivial
        hn (Nat.le_refl _) (fun _ => MatchR.empty _ _ _ _)
      refine ⟨r, c', e, fun q hq => (occ_iff hhv hnv q).mpr (h1 q hq).2, fun _ => ?_⟩
      omega
  | large s =>
    simp only [FinderRev.rfindLargeImp]
    by_cases h0 : needle.len = 0
    · simp only [h0, dite_true]
      refine ⟨some haystack.len, c, rfl, ?_, fun _ => by omega⟩
      intro q hq; cases hq
      exact (occ_iff hhv hnv _).mpr ⟨by omega, fun t ht => by omega⟩
    · simp only [h0, dite_false]
      have hn : 0 < needle.len := Nat.pos_of_ne_zero h0
      have hsp' := hsp hn
      rw [hshift] at hsp'
      obtain ⟨hc1, hcn, hs1, hsn⟩ := hsp'
      obtain ⟨r, c', e, h1, _, h3⟩ := largeLoop_spec_rev tw needle haystack hn s
        (fun _ => True) True hc1 (by omega) hs1 (by omega) (loopInvRev_trivial _ _ _ _)
        haystack.len c (Nat.le_refl _) trivial
      refine ⟨r, c', e, fun q hq => (occ_iff hhv hnv q).mpr (h1 q hq).2, fun hh => ?_⟩
      have := h3 (hh s rfl)
      omega

/-! ### constructor and search composed -/

/-- **`FinderRev::new(needle).rfind(haystack, needle)` without any hypothesis** (beyond the
slices being slices): never faults, a reported match is an occurrence, and the whole call takes
at most `3 * haystack.len + 8 * needle.len + 3` steps. -/
theorem new_rfind_sound (needle haystack : Slice) (c : Ctr) (hnv : needle.Valid)
    (hhv : haystack.Valid) :
    ∃ r c', (FinderRev.new needle >>= fun tw => FinderRev.rfind tw haystack needle) c
        = .ok r c' ∧
      (∀ q, r = some q → Spec.OccAt haystack.toArray needle.toArray q) ∧
      c'.steps ≤ c.steps + 3 * haystack.len + 8 * needle.len + 3 := by
  obtain ⟨tw, c1, e1, hs1, _, _, hsp, hhalf⟩ := finderRev_new_spec needle c hnv
  obtain ⟨r, c2, e2, h1, h2⟩ := rfind_sound tw needle haystack c1 hnv hhv hsp
  refine ⟨r, c2, ?_, h1, ?_⟩
  · rw [bind_ok e1]; exact e2
  · have := h2 hhalf
    omega

/-- **`FinderRev::new(needle).rfind(haystack, needle)` is the rightmost occurrence** whenever
the values computed by `FinderRev::new` satisfy the certificate (which is decidable:
`certRevCheck`; `Proofs/TwoWayRevBridge.lean` reduces it to the forward certificate of the
reversed needle). -/
theorem new_rfind_eq_of_cert (needle haystack : Slice) (c : Ctr) (hnv : needle.Valid)
    (hhv : haystack.Valid)
    (hcert : ∀ tw c1, FinderRev.new needle c = .ok tw c1 →
      CertRev needle.toArray tw.criticalPos tw.shift) :
    ∃ c', (FinderRev.new needle >>= fun tw => FinderRev.rfind tw haystack needle) c =
        .ok (Spec.rightmost haystack.toArray needle.toArray) c' ∧
      c'.steps ≤ c.steps + 3 * haystack.len + 8 * needle.len + 3 := by
  obtain ⟨tw, c1, e1, hs1, hbs, _, _, hhalf⟩ := finderRev_new_spec needle c hnv
  obtain ⟨c2, e2, h2⟩ := rfind_eq_of_cert tw needle haystack c1 hnv hhv (hcert tw c1 e1) hbs
  refine ⟨c2, ?_, ?_⟩
  · rw [bind_ok e1]; exact e2
  · have := h2 hhalf
    omega

/-! ### non-vacuity -/

/-- the values `FinderRev::new` computes for a few needles (`#eval` of the model, identical to
the Rust `twnew rev`): "abaab" -> crit 4, Small 3; "aaaa" -> crit 4, Small 1;
"abcabcab" -> crit 6, Small 3; "abcde" -> crit 1, Large 4; "" -> crit 0, Large 0 -/
example : CertRev "abaab".toUTF8.data 4 (.small 3) := by decide
example : CertRev "aaaa".toUTF8.data 4 (.small 1) := by decide
example : CertRev "abcabcab".toUTF8.data 6 (.small 3) := by decide
example : CertRev "abcde".toUTF8.data 1 (.large 4) := by decide
example : CertRev #[] 0 (.large 0) := by decide
/-- the certificate is not vacuous: a wrong critical position is rejected -/
example : ¬ CertRev "abaab".toUTF8.data 3 (.small 3) := by decide

/-- the hypotheses of `rfind_eq_of_cert` hold for the needle "abaab" (region 1, base 4096) with
the values `FinderRev::new` computes for it (`crit = 4`, `Small { period: 3 }`) and a byte set
without false negatives -/
example :
    let needle := Slice.ofMem ⟨1, 4096, "abaab".toUTF8.data⟩
    let haystack := Slice.ofMem ⟨0, 8192, "abaaabaabab".toUTF8.data⟩
    let tw : TwoWay := { byteset := ⟨25769803776⟩, criticalPos := 4, shift := .small 3 }
    needle.Valid ∧ haystack.Valid ∧ CertRev needle.toArray tw.criticalPos tw.shift ∧
      (∀ b, b ∈ needle.toArray → tw.byteset.has b = true) := by
  refine ⟨by unfold Slice.Valid; decide, by unfold Slice.Valid; decide, by decide, by decide⟩

/-- `SoundPreRev` (hypothesis of `rfind_sound`) for "abcde" with the `Large` values of
`FinderRev::new` -/
example : SoundPreRev "abcde".toUTF8.data 1 (.large 4) := by
  simp only [SoundPreRev]; decide

/-! ### axioms -/

#print axioms rfind_eq_of_cert
#print axioms rfind_sound
#print axioms finderRev_new_spec
#print axioms new_rfind_sound
#print axioms new_rfind_eq_of_cert
#print axioms certRevCheck_iff

end Memchr.TwoWay
