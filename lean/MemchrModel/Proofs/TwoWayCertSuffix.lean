/-
T2 (DESIGN section 8): `Suffix::forward(needle, kind)` computes the start of the maximal suffix
of the needle for the order of `kind` (`<` on bytes for `Maximal`, `>` for `Minimal`; a proper
prefix is smaller) together with the smallest period of that suffix.

The loop `Suffix.forwardLoop` keeps the window invariant `Words.Win` (invariants (I0)-(I4)) for
`x = needle.getD`, `n = needle.len`, `i = suffix.pos`, `L = candidate_start + offset`,
`p = suffix.period`; its three kinds of step are `Words.Win.accept/skip/push`.
-/
import MemchrModel.Proofs.TwoWayNew
import MemchrModel.Proofs.TwoWayCertWords

namespace Memchr.TwoWay

open Memchr Words

/-- the alphabet order of a `SuffixKind`: the suffix computed is maximal for this order -/
def kindLt : SuffixKind → UInt8 → UInt8 → Prop
  | .maximal => fun a b => a < b
  | .minimal => fun a b => b < a

theorem u8_strictTotal : StrictTotal (fun a b : UInt8 => a < b) := by
  refine ⟨fun a h => ?_, fun a b c h1 h2 => ?_, fun a b => ?_⟩
  · rw [UInt8.lt_iff_toNat_lt] at h; omega
  · rw [UInt8.lt_iff_toNat_lt] at *; omega
  · rw [UInt8.lt_iff_toNat_lt, UInt8.lt_iff_toNat_lt, ← UInt8.toNat_inj]; omega

theorem kindLt_strictTotal (kind : SuffixKind) : StrictTotal (kindLt kind) := by
  cases kind
  · exact u8_strictTotal.flip
  · exact u8_strictTotal

/-- the two kinds use opposite orders -/
theorem kindLt_minimal : kindLt .minimal = fun a b => kindLt .maximal b a := rfl

theorem cmp_accept_lt {kind : SuffixKind} {a b : UInt8} (h : kind.cmp a b = .accept) :
    kindLt kind a b := by
  cases kind <;> simp only [SuffixKind.cmp] at h <;> split at h
  · assumption
  · split at h <;> cases h
  · assumption
  · split at h <;> cases h

theorem cmp_skip_lt {kind : SuffixKind} {a b : UInt8} (h : kind.cmp a b = .skip) :
    kindLt kind b a := by
  cases kind <;> simp only [SuffixKind.cmp] at h <;> split at h
  · cases h
  · split at h
    · assumption
    · cases h
  · cases h
  · split at h
    · assumption
    · cases h

/-- the loop invariant of `Suffix::forward`: the window invariant plus the position of the
candidate inside the window -/
structure SufWin (n : Slice) (kind : SuffixKind) (s : Suffix) (j k : Nat) : Prop where
  win : Win (kindLt kind) n.getD n.len s.pos (j + k) s.period
  lt : s.pos < j
  kp : k < s.period
  dvd : s.period ∣ j - s.pos

/-- the candidate is a border start: `x[j..j+k) = x[i..i+k)` -/
theorem SufWin.pref {n : Slice} {kind : SuffixKind} {s : Suffix} {j k : Nat}
    (h : SufWin n kind s j k) (u : Nat) (hu : u < k) : n.getD (s.pos + u) = n.getD (j + u) := by
  obtain ⟨m, hm⟩ := h.dvd
  have hlt := h.lt
  rw [h.win.per.mul (s.pos + u) m (by omega) (by omega)]
  congr 1; omega

/-- the byte `current = x[i + k]` is the byte one period before the end of the window -/
theorem SufWin.back {n : Slice} {kind : SuffixKind} {s : Suffix} {j k : Nat}
    (h : SufWin n kind s j k) :
    ∃ a, a + s.period = j + k ∧ n.getD (s.pos + k) = n.getD a := by
  obtain ⟨m, hm⟩ := h.dvd
  have hlt := h.lt
  have hp1 := h.win.p1
  cases m with
  | zero => simp at hm; omega
  | succ m =>
    rw [Nat.mul_succ] at hm
    exact ⟨s.pos + k + s.period * m, by omega, h.win.per.mul (s.pos + k) m (by omega) (by omega)⟩

/-- **T2, loop.**  From a state satisfying the invariant the loop returns normally with the
invariant for the whole needle (`L = len`). -/
theorem forwardLoop_win (n : Slice) (kind : SuffixKind) (s : Suffix) (j k : Nat) (c : Ctr)
    (h : SufWin n kind s j k) :
    ∃ s' c', Suffix.forwardLoop n kind s j k c = .ok s' c' ∧
      Win (kindLt kind) n.getD n.len s'.pos n.len s'.period := by
  have ho := kindLt_strictTotal kind
  fun_induction Suffix.forwardLoop n kind s j k generalizing c with
  | case1 s j k hlt ih1 ih2 ih3 ih4 =>
    have hpl := h.lt
    have hkp := h.kp
    have hpk : s.pos + k < n.len := by omega
    rw [bind_ok (tick_run 1 c)]
    simp only [get_ok n _ hpk, get_ok n _ hlt, pure_bind']
    obtain ⟨a, ha, hback⟩ := h.back
    cases hc : kind.cmp (n.getD (s.pos + k)) (n.getD (j + k)) with
    | accept =>
      simp only []
      exact ih1 _ ⟨h.win.accept ho hpl rfl hlt h.pref (cmp_accept_lt hc), by simp, by simp,
        by simp⟩
    | skip =>
      simp only [csub_of_le _ (show s.pos ≤ j + (k + 1) by omega), pure_bind']
      have hsk := cmp_skip_lt hc
      rw [hback] at hsk
      have w := h.win.skip ho hlt ha hsk
      exact ih2 _ _ ⟨by
        simp only [Nat.add_zero]
        rw [show j + (k + 1) = j + k + 1 by omega]; exact w, by simp only; omega,
        by simp only; omega, by simp⟩
    | push =>
      have heq := cmp_push_eq hc
      rw [hback] at heq
      have w := h.win.push ho hlt ha heq.symm
      simp only []
      by_cases hp : k + 1 = s.period
      · simp only [hp, dite_true]
        refine ih3 hp _ ⟨by
          rw [show j + s.period + 0 = j + k + 1 by omega]; exact w, by omega, by omega, ?_⟩
        obtain ⟨m, hm⟩ := h.dvd
        exact ⟨m + 1, by rw [Nat.mul_succ]; omega⟩
      · simp only [hp, dite_false]
        exact ih4 _ ⟨by rw [show j + (k + 1) = j + k + 1 by omega]; exact w, hpl, by omega,
          h.dvd⟩
  | case2 s j k hlt =>
    have hle := h.win.le
    have hL : j + k = n.len := by omega
    have w := h.win
    rw [hL] at w
    exact ⟨s, c, rfl, w⟩

/-- **T2.**  `Suffix::forward(needle, kind)` on a non-empty needle returns a position `pos` and
a period `period` such that (`Win` with `L = len`): the suffix at `pos` is the maximal suffix
for the order of `kind` (`Win.left`, `Win.right`), and `period` is the smallest period of
`needle[pos..]` (`Win.per`, `Win.minp`), with `pos + period <= len`. -/
theorem suffix_forward_win (n : Slice) (kind : SuffixKind) (c : Ctr) (hn : 0 < n.len) :
    ∃ s' c', Suffix.forward n kind c = .ok s' c' ∧
      Win (kindLt kind) n.getD n.len s'.pos n.len s'.period :=
  forwardLoop_win n kind { pos := 0, period := 1 } 1 0 c
    ⟨Win.init hn, by simp, by simp, by simp⟩

#print axioms suffix_forward_win

end Memchr.TwoWay
