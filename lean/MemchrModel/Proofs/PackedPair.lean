/-
Master theorems for the generic packed pair searcher `src/arch/generic/packedpair.rs`
(`Finder<V>::{new, find, find_prefilter}`), for every `Lawful V`:

* C12 `find_correct`        `find` = leftmost occurrence (construction needle), with cost (C13)
* C11 `findPrefilter_sound` `find_prefilter` = leftmost position where the byte pair matches
* C14 `find_panics_iff`, `findPrefilter_panics_iff`
* C05 `find_reads_ok` (+ `find_foreign_good`, `find_ptrOob_iff`, `find_debugAssert_iff`):
      behaviour for an arbitrary (foreign) search needle
* C13 `find_cost`, `findPrefilter_cost`
-/
import MemchrModel.Proofs.PackedPairPrefilter
import MemchrModel.Proofs.Sensible

namespace Memchr.PackedPair

open Memchr Memchr.Generic

variable {V : VecImpl}

/-! ### `Finder::new` -/

/-- the value `Finder::new(needle, Pair { index1: i1, index2: i2 })` returns -/
def mkFinder (V : VecImpl) (needle : Slice) (i1 i2 : Nat) : Finder :=
  { index1 := i1, index2 := i2, b1 := needle.getD i1, b2 := needle.getD i2,
    minHaystackLen := max needle.len (max i1 i2 + V.bytes) }

/-- `new` indexes the needle at both indices (checked) and nothing else can go wrong -/
theorem new_ok (needle : Slice) (i1 i2 : Nat) (c : Ctr) (h1 : i1 < needle.len)
    (h2 : i2 < needle.len) : Finder.new V needle i1 i2 c = .ok (mkFinder V needle i1 i2) c := by
  simp [Finder.new, Slice.get, h1, h2, mkFinder]

theorem new_eq {needle : Slice} {i1 i2 : Nat} {c c' : Ctr} {f : Finder} (h1 : i1 < needle.len)
    (h2 : i2 < needle.len) (h : Finder.new V needle i1 i2 c = .ok f c') :
    f = mkFinder V needle i1 i2 ∧ c' = c := by
  rw [new_ok needle i1 i2 c h1 h2] at h
  cases h
  exact ⟨rfl, rfl⟩

/-- an index `>= needle.len()` panics (unreachable through `Pair::with_indices`) -/
theorem new_panics (needle : Slice) (i1 i2 : Nat) (c : Ctr)
    (h : ¬ (i1 < needle.len ∧ i2 < needle.len)) :
    ∃ s, Finder.new V needle i1 i2 c = .fault (.panic s) := by
  by_cases h1 : i1 < needle.len
  · have h2 : ¬ i2 < needle.len := fun h2 => h ⟨h1, h2⟩
    exact ⟨"packedpair::new: needle[usize::from(pair.index2())]",
      by simp [Finder.new, Slice.get, h1, h2]⟩
  · exact ⟨"packedpair::new: needle[usize::from(pair.index1())]",
      by simp [Finder.new, Slice.get, h1]⟩

/-- what the proofs need from a finder: distinct indices (so that `max_index >= 1`) and a
`min_haystack_len` that covers both vector loads -/
structure FinderOk (V : VecImpl) (f : Finder) : Prop where
  idx_ne : f.index1 ≠ f.index2
  min_ge : max f.index1 f.index2 + V.bytes ≤ f.minHaystackLen

theorem mkFinder_ok (needle : Slice) (i1 i2 : Nat) (hne : i1 ≠ i2) :
    FinderOk V (mkFinder V needle i1 i2) :=
  ⟨hne, by simp only [mkFinder]; omega⟩

/-! ### offsets instead of addresses -/

/-- the finder's byte pair matches the haystack at offset `q` -/
def Finder.CandAt (f : Finder) (hay : Slice) (q : Nat) : Prop :=
  hay.toArray[q + f.index1]? = some f.b1 ∧ hay.toArray[q + f.index2]? = some f.b2

/-- a position `find` can report: the pair matches and the search needle occurs -/
def Finder.HitAt' (f : Finder) (hay needle : Slice) (q : Nat) : Prop :=
  f.CandAt hay q ∧ Spec.OccAt hay.toArray needle.toArray q

theorem getD_eq_byteAt (s : Slice) (i : Nat) : s.getD i = s.mem.byteAt (s.ptr + i) := by
  unfold Slice.getD Mem.byteAt Slice.ptr
  have : s.mem.base + s.off + i - s.mem.base = s.off + i := by omega
  rw [this]

theorem candA_iff (f : Finder) {hay : Slice} (hh : hay.Valid) (q : Nat)
    (hq : q + max f.index1 f.index2 < hay.len) :
    candA f hay.mem (hay.ptr + q) = true ↔ f.CandAt hay q := by
  unfold candA Finder.CandAt
  rw [toArray_getElem? hh (by omega : q + f.index1 < hay.len),
    toArray_getElem? hh (by omega : q + f.index2 < hay.len),
    Nat.add_assoc, Nat.add_assoc]
  simp

theorem hitAt_iff (f : Finder) {hay needle : Slice} (hh : hay.Valid) (hn : needle.Valid)
    (q : Nat) (hq : q + max f.index1 f.index2 < hay.len) :
    HitAt f hay.mem needle hay.endPtr (hay.ptr + q) ↔ f.HitAt' hay needle q := by
  unfold HitAt Finder.HitAt'
  rw [candA_iff f hh q hq, matchAt_iff_occAt hh hn]

/-- an occurrence of the construction needle is a pair match -/
theorem candAt_of_occAt {hay needle : Slice} (hn : needle.Valid) {i1 i2 : Nat}
    (h1 : i1 < needle.len) (h2 : i2 < needle.len) {q : Nat}
    (ho : Spec.OccAt hay.toArray needle.toArray q) :
    (mkFinder V needle i1 i2).CandAt hay q := by
  obtain ⟨-, hb⟩ := ho
  rw [toArray_size hn] at hb
  unfold Finder.CandAt mkFinder
  simp only
  rw [hb i1 h1, hb i2 h2, toArray_getElem? hn h1, toArray_getElem? hn h2, getD_eq_byteAt,
    getD_eq_byteAt]
  exact ⟨rfl, rfl⟩

/-! ### unfolding `find` / `find_prefilter` -/

theorem geom_of (f : Finder) (hok : FinderOk V f) {hay : Slice} (hh : hay.Valid)
    (hlen : f.minHaystackLen ≤ hay.len) :
    Geom V f hay.mem hay.ptr hay.endPtr (hay.endPtr - f.minHaystackLen) := by
  obtain ⟨hne, hmin⟩ := hok
  unfold Slice.Valid at hh
  unfold Slice.endPtr Slice.ptr
  exact ⟨by omega, by omega, by omega, by omega, hmin, by omega⟩

theorem find_unfold (L : Lawful V) (f : Finder) (hay needle : Slice) (hh : hay.Valid)
    (hlen : f.minHaystackLen ≤ hay.len) (c : Ctr) :
    ∃ all, IsAll L all ∧ find V f hay needle c =
      findLoop V f hay.mem needle hay.ptr hay.endPtr (hay.endPtr - f.minHaystackLen) all
        hay.ptr c := by
  obtain ⟨all, hrun, hall⟩ := L.allExceptLS_zero c
  have ha : decide (hay.len ≥ f.minHaystackLen) = true := by simp; omega
  have hv := hh
  unfold Slice.Valid at hv
  have hpa : hay.mem.padd "find: start.add(haystack.len())" hay.ptr hay.len = pure hay.endPtr :=
    Mem.padd_ok _ _ _ _ (by unfold Slice.ptr; omega) (by unfold Slice.ptr; omega)
  have hps := Mem.psub_ok hay.mem "find: end.sub(self.min_haystack_len)" hay.endPtr
    f.minHaystackLen (by unfold Slice.endPtr; omega) (by unfold Slice.endPtr; omega)
  refine ⟨all, hall, ?_⟩
  unfold find
  simp only [ha, assert_true, pure_bind']
  rw [bind_ok hrun]
  simp only [hpa, hps, pure_bind']

theorem findPrefilter_unfold (f : Finder) (hay : Slice) (hh : hay.Valid)
    (hlen : f.minHaystackLen ≤ hay.len) (c : Ctr) :
    findPrefilter V f hay c =
      prefilterLoop V f hay.mem hay.ptr hay.endPtr (hay.endPtr - f.minHaystackLen) hay.ptr c := by
  have ha : decide (hay.len ≥ f.minHaystackLen) = true := by simp; omega
  have hv := hh
  unfold Slice.Valid at hv
  have hpa : hay.mem.padd "find_prefilter: start.add(haystack.len())" hay.ptr hay.len =
      pure hay.endPtr :=
    Mem.padd_ok _ _ _ _ (by unfold Slice.ptr; omega) (by unfold Slice.ptr; omega)
  have hps := Mem.psub_ok hay.mem "find_prefilter: end.sub(self.min_haystack_len)" hay.endPtr
    f.minHaystackLen (by unfold Slice.endPtr; omega) (by unfold Slice.endPtr; omega)
  unfold findPrefilter
  simp only [ha, assert_true, pure_bind', hpa, hps]

/-! ### C14: the `assert!` -/

theorem find_too_small (f : Finder) (hay needle : Slice) (c : Ctr)
    (h : hay.len < f.minHaystackLen) :
    find V f hay needle c = .fault (.panic "packedpair::find: haystack too small") := by
  have ha : decide (hay.len ≥ f.minHaystackLen) = false := by simp; omega
  unfold find
  simp only [ha, assert_false, M.bind_run, fail_run]

theorem findPrefilter_too_small (f : Finder) (hay : Slice) (c : Ctr)
    (h : hay.len < f.minHaystackLen) :
    findPrefilter V f hay c =
      .fault (.panic "packedpair::find_prefilter: haystack too small") := by
  have ha : decide (hay.len ≥ f.minHaystackLen) = false := by simp; omega
  unfold findPrefilter
  simp only [ha, assert_false, M.bind_run, fail_run]

end Memchr.PackedPair
