/-
Master theorems for the generic packed pair searcher `src/arch/generic/packedpair.rs`
(`Finder<V>::{new, find, find_prefilter}`), for every `Lawful V`:

* C12 `find_correct`        `find` = leftmost occurrence (construction needle), with cost (C13)
* C11 `findPrefilter_sound` `find_prefilter` = leftmost position where the byte pair matches
* C14 `find_panics_iff`, `findPrefilter_panics_iff`
* C05 `find_reads_ok`, `find_no_fault_but_ptrOob`, `find_foreign_no_fault` (+ `find_foreign_good`,
      `find_foreign_bad`, `find_ptrOob_iff`): behaviour for an arbitrary (foreign) search needle
* C13 `find_cost`, `findPrefilter_cost`
-/
import MemchrModel.Proofs.PackedPairPrefilter
import MemchrModel.Proofs.Sensible

namespace Memchr.PackedPair

open Memchr Memchr.Generic

variable {V : VecImpl}

/-! ### `Finder::new` -/

/-- the value `Finder::new(needle, Pair { index1: i1, index2: i2 })` returns -/
def mkFinder (V : VecImpl) (needle : Slice) (i1 i2 : Nat) : Finder :=
  { index1 := i1, index2 := i2, b1 := needle.getD i1, b2 := needle.getD i2,
    minHaystackLen := max needle.len (max i1 i2 + V.bytes) }

/-- `new` indexes the needle at both indices (checked) and nothing else can go wrong -/
theorem new_ok (needle : Slice) (i1 i2 : Nat) (c : Ctr) (h1 : i1 < needle.len)
    (h2 : i2 < needle.len) : Finder.new V needle i1 i2 c = .ok (mkFinder V needle i1 i2) c := by
  simp [Finder.new, Slice.get, h1, h2, mkFinder]

theorem new_eq {needle : Slice} {i1 i2 : Nat} {c c' : Ctr} {f : Finder} (h1 : i1 < needle.len)
    (h2 : i2 < needle.len) (h : Finder.new V needle i1 i2 c = .ok f c') :
    f = mkFinder V needle i1 i2 ∧ c' = c := by
  rw [new_ok needle i1 i2 c h1 h2] at h
  cases h
  exact ⟨rfl, rfl⟩

/-- an index `>= needle.len()` panics (unreachable through `Pair::with_indices`) -/
theorem new_panics (needle : Slice) (i1 i2 : Nat) (c : Ctr)
    (h : ¬ (i1 < needle.len ∧ i2 < needle.len)) :
    ∃ s, Finder.new V needle i1 i2 c = .fault (.panic s) := by
  by_cases h1 : i1 < needle.len
  · have h2 : ¬ i2 < needle.len := fun h2 => h ⟨h1, h2⟩
    exact ⟨"packedpair::new: needle[usize::from(pair.index2())]",
      by simp [Finder.new, Slice.get, h1, h2]⟩
  · exact ⟨"packedpair::new: needle[usize::from(pair.index1())]",
      by simp [Finder.new, Slice.get, h1]⟩

/-- what the proofs need from a finder: distinct indices (so that `max_index >= 1`) and a
`min_haystack_len` that covers both vector loads -/
structure FinderOk (V : VecImpl) (f : Finder) : Prop where
  idx_ne : f.index1 ≠ f.index2
  min_ge : max f.index1 f.index2 + V.bytes ≤ f.minHaystackLen

theorem mkFinder_ok (needle : Slice) (i1 i2 : Nat) (hne : i1 ≠ i2) :
    FinderOk V (mkFinder V needle i1 i2) :=
  ⟨hne, by simp only [mkFinder]; omega⟩

/-! ### offsets instead of addresses -/

/-- the finder's byte pair matches the haystack at offset `q` -/
def Finder.CandAt (f : Finder) (hay : Slice) (q : Nat) : Prop :=
  hay.toArray[q + f.index1]? = some f.b1 ∧ hay.toArray[q + f.index2]? = some f.b2

/-- a position `find` can report: the pair matches and the search needle occurs -/
def Finder.HitAt' (f : Finder) (hay needle : Slice) (q : Nat) : Prop :=
  f.CandAt hay q ∧ Spec.OccAt hay.toArray needle.toArray q

theorem getD_eq_byteAt (s : Slice) (i : Nat) : s.getD i = s.mem.byteAt (s.ptr + i) := by
  unfold Slice.getD Mem.byteAt Slice.ptr
  have : s.mem.base + s.off + i - s.mem.base = s.off + i := by omega
  rw [this]

theorem candA_iff (f : Finder) {hay : Slice} (hh : hay.Valid) (q : Nat)
    (hq : q + max f.index1 f.index2 < hay.len) :
    candA f hay.mem (hay.ptr + q) = true ↔ f.CandAt hay q := by
  unfold candA Finder.CandAt
  rw [toArray_getElem? hh (by omega : q + f.index1 < hay.len),
    toArray_getElem? hh (by omega : q + f.index2 < hay.len),
    Nat.add_assoc, Nat.add_assoc]
  simp

theorem hitAt_iff (f : Finder) {hay needle : Slice} (hh : hay.Valid) (hn : needle.Valid)
    (q : Nat) (hq : q + max f.index1 f.index2 < hay.len) :
    HitAt f hay.mem needle hay.endPtr (hay.ptr + q) ↔ f.HitAt' hay needle q := by
  unfold HitAt Finder.HitAt'
  rw [candA_iff f hh q hq, matchAt_iff_occAt hh hn]

/-- an occurrence of the construction needle is a pair match -/
theorem candAt_of_occAt {hay needle : Slice} (hn : needle.Valid) {i1 i2 : Nat}
    (h1 : i1 < needle.len) (h2 : i2 < needle.len) {q : Nat}
    (ho : Spec.OccAt hay.toArray needle.toArray q) :
    (mkFinder V needle i1 i2).CandAt hay q := by
  obtain ⟨-, hb⟩ := ho
  rw [toArray_size hn] at hb
  unfold Finder.CandAt mkFinder
  simp only
  rw [hb i1 h1, hb i2 h2, toArray_getElem? hn h1, toArray_getElem? hn h2, getD_eq_byteAt,
    getD_eq_byteAt]
  exact ⟨rfl, rfl⟩

/-! ### unfolding `find` / `find_prefilter` -/

theorem geom_of (f : Finder) (hok : FinderOk V f) {hay : Slice} (hh : hay.Valid)
    (hlen : f.minHaystackLen ≤ hay.len) :
    Geom V f hay.mem hay.ptr hay.endPtr (hay.endPtr - f.minHaystackLen) := by
  obtain ⟨hne, hmin⟩ := hok
  unfold Slice.Valid at hh
  unfold Slice.endPtr Slice.ptr
  exact ⟨by omega, by omega, by omega, by omega, hmin, by omega⟩

theorem find_unfold (L : Lawful V) (f : Finder) (hay needle : Slice) (hh : hay.Valid)
    (hlen : f.minHaystackLen ≤ hay.len) (c : Ctr) :
    ∃ all, IsAll L all ∧ find V f hay needle c =
      findLoop V f hay.mem needle hay.ptr hay.endPtr (hay.endPtr - f.minHaystackLen) all
        hay.ptr c := by
  obtain ⟨all, hrun, hall⟩ := L.allExceptLS_zero c
  have ha : decide (hay.len ≥ f.minHaystackLen) = true := by simp; omega
  have hv := hh
  unfold Slice.Valid at hv
  have hpa : hay.mem.padd "find: start.add(haystack.len())" hay.ptr hay.len = pure hay.endPtr :=
    Mem.padd_ok _ _ _ _ (by unfold Slice.ptr; omega) (by unfold Slice.ptr; omega)
  have hps := Mem.psub_ok hay.mem "find: end.sub(self.min_haystack_len)" hay.endPtr
    f.minHaystackLen (by unfold Slice.endPtr; omega) (by unfold Slice.endPtr; omega)
  refine ⟨all, hall, ?_⟩
  unfold find
  simp only [ha, assert_true, pure_bind']
  rw [bind_ok hrun]
  simp only [hpa, hps, pure_bind']

theorem findPrefilter_unfold (f : Finder) (hay : Slice) (hh : hay.Valid)
    (hlen : f.minHaystackLen ≤ hay.len) (c : Ctr) :
    findPrefilter V f hay c =
      prefilterLoop V f hay.mem hay.ptr hay.endPtr (hay.endPtr - f.minHaystackLen) hay.ptr c := by
  have ha : decide (hay.len ≥ f.minHaystackLen) = true := by simp; omega
  have hv := hh
  unfold Slice.Valid at hv
  have hpa : hay.mem.padd "find_prefilter: start.add(haystack.len())" hay.ptr hay.len =
      pure hay.endPtr :=
    Mem.padd_ok _ _ _ _ (by unfold Slice.ptr; omega) (by unfold Slice.ptr; omega)
  have hps := Mem.psub_ok hay.mem "find_prefilter: end.sub(self.min_haystack_len)" hay.endPtr
    f.minHaystackLen (by unfold Slice.endPtr; omega) (by unfold Slice.endPtr; omega)
  unfold findPrefilter
  simp only [ha, assert_true, pure_bind', hpa, hps]

/-! ### C14: the `assert!` -/

theorem find_too_small (f : Finder) (hay needle : Slice) (c : Ctr)
    (h : hay.len < f.minHaystackLen) :
    find V f hay needle c = .fault (.panic "packedpair::find: haystack too small") := by
  have ha : decide (hay.len ≥ f.minHaystackLen) = false := by simp; omega
  unfold find
  simp only [ha, assert_false, M.bind_run, fail_run]

theorem findPrefilter_too_small (f : Finder) (hay : Slice) (c : Ctr)
    (h : hay.len < f.minHaystackLen) :
    findPrefilter V f hay c =
      .fault (.panic "packedpair::find_prefilter: haystack too small") := by
  have ha : decide (hay.len ≥ f.minHaystackLen) = false := by simp; omega
  unfold findPrefilter
  simp only [ha, assert_false, M.bind_run, fail_run]

/-! ### `find` with an arbitrary search needle -/

/-- number of haystack offsets whose pair lanes `find` / `find_prefilter` look at:
`0 .. len - min_haystack_len + BYTES - 1` -/
def Finder.scanned (V : VecImpl) (f : Finder) (hay : Slice) : Nat :=
  hay.len - f.minHaystackLen + V.bytes

/-- value of `find` for an arbitrary search needle: the lowest scanned offset where the pair
matches and the search needle occurs -/
def FindRes' (V : VecImpl) (f : Finder) (hay needle : Slice) : Option Nat → Prop
  | some x => x < f.scanned V hay ∧ f.HitAt' hay needle x ∧ ∀ q, q < x → ¬ f.HitAt' hay needle q
  | none => ∀ q, q < f.scanned V hay → ¬ f.HitAt' hay needle q

theorem noHitIn_iff (f : Finder) {hay needle : Slice} (hh : hay.Valid) (hn : needle.Valid)
    (n : Nat) (hnr : n + max f.index1 f.index2 ≤ hay.len) :
    NoHitIn f hay.mem needle hay.endPtr hay.ptr (hay.ptr + n) ↔
      ∀ q, q < n → ¬ f.HitAt' hay needle q := by
  constructor
  · intro h q hq hhit
    exact h (hay.ptr + q) (by omega) (by omega) ((hitAt_iff f hh hn q (by omega)).mpr hhit)
  · intro h a ha1 ha2 hhit
    have e : a = hay.ptr + (a - hay.ptr) := by omega
    rw [e] at hhit
    exact h (a - hay.ptr) (by omega) ((hitAt_iff f hh hn _ (by omega)).mp hhit)

theorem findRes_conv (f : Finder) (hok : FinderOk V f) {hay needle : Slice} (hh : hay.Valid)
    (hn : needle.Valid) (hlen : f.minHaystackLen ≤ hay.len) {r : Option Nat}
    (h : FindRes f hay.mem needle hay.ptr hay.endPtr
      (hay.endPtr - f.minHaystackLen + V.bytes) r) : FindRes' V f hay needle r := by
  obtain ⟨hne, hmin⟩ := hok
  have elim : hay.endPtr - f.minHaystackLen + V.bytes = hay.ptr + f.scanned V hay := by
    unfold Slice.endPtr Slice.ptr Finder.scanned; omega
  rw [elim] at h
  have hsc : f.scanned V hay + max f.index1 f.index2 ≤ hay.len := by
    unfold Finder.scanned; omega
  cases r with
  | some x =>
    obtain ⟨a1, a2, a3⟩ := h
    refine ⟨by omega, (hitAt_iff f hh hn x (by omega)).mp a2, ?_⟩
    exact (noHitIn_iff f hh hn x (by omega)).mp a3
  | none => exact (noHitIn_iff f hh hn _ hsc).mp h

/-- the `end.sub(needle.len())` of `find_in_chunk` -/
def siteEndSub : String := "find_in_chunk: end.sub(needle.len())"

/-- cost bound of `find`: chunks times the cost of one chunk -/
def findCost (V : VecImpl) (f : Finder) (hay needle : Slice) : Nat :=
  ((hay.len - f.minHaystackLen) / V.bytes + 2) * (1 + V.bytes * (needle.len / 4 + 3))

/-
History (observation O3, fixed in /repo commit 407371c). Before the fix the tail of `find` had no
`if overlap >= V::BYTES { return None; }` and the following
`debug_assert!(overlap < V::BYTES)` was reachable through the safe public `find` with a foreign
search needle: exactly when `(hay.len - min_haystack_len) % BYTES = 0`,
`needle.len + BYTES <= min_haystack_len` and no scanned offset is a hit (the former theorem
`find_debugAssert_iff`). Concrete input: finder for "abcdefgh" with the pair (0, 1) and 4-lane
vectors (`min_haystack_len = 8`), search needle "z", a 12-byte haystack of "x"
(`ppfind 4 6162636465666768 0 1 1000 7a 0 787878787878787878787878` answered
`fault debug_assert [find: overlap < V::BYTES]`); in release builds the call went on to
`all_zeros_except_least_significant(BYTES)` (`1u32 << 32` for AVX2). With the fix the same input
returns `None` and `find_no_fault_but_ptrOob` below shows that no debug assertion is reachable
any more, whatever the search needle.
-/

/-- `find` with any search needle that is not longer than the haystack's region up to the end of
the haystack returns normally: the lowest scanned offset where the pair matches and the search
needle occurs, within the cost bound. -/
theorem find_foreign_good (L : Lawful V) (f : Finder) (hok : FinderOk V f) (hay needle : Slice)
    (hh : hay.Valid) (hn : needle.Valid) (hlen : f.minHaystackLen ≤ hay.len)
    (hgood : needle.len ≤ hay.off + hay.len) (c : Ctr) :
    ∃ r c', find V f hay needle c = .ok r c' ∧ FindRes' V f hay needle r ∧
      c'.steps ≤ c.steps + findCost V f hay needle := by
  have hpos := V.bytes_pos
  obtain ⟨all, hall, hrun⟩ := find_unfold L f hay needle hh hlen c
  have G := geom_of f hok hh hlen
  have hg : hay.mem.base + needle.len ≤ hay.endPtr := by unfold Slice.endPtr; omega
  have hno : NoHitIn f hay.mem needle hay.endPtr hay.ptr hay.ptr := fun a h1 h2 => by omega
  have espan : hay.endPtr - f.minHaystackLen + V.bytes - hay.ptr =
      (hay.len - f.minHaystackLen) + V.bytes := by
    unfold Slice.endPtr Slice.ptr; omega
  rw [hrun]
  obtain ⟨r, c', hr, hres, hcost⟩ := findLoop_good L f hay.mem needle hay.ptr hay.endPtr
    (hay.endPtr - f.minHaystackLen) all hay.ptr c G hn hg hall (Nat.le_refl _)
    (Nat.le_trans G.hsm (Nat.le_add_right _ _)) hno
  refine ⟨r, c', hr, findRes_conv f hok hh hn hlen hres, ?_⟩
  rw [espan, Nat.add_div_right _ hpos] at hcost
  exact hcost

/-- `find` with a search needle longer than the haystack's region up to the end of the
haystack: the first pair match in a main-loop chunk computes `end.sub(needle.len())` outside
the allocation (observation O2: undefined behaviour without a read); with no pair match the
result is `None`. -/
theorem find_foreign_bad (L : Lawful V) (f : Finder) (hok : FinderOk V f) (hay needle : Slice)
    (hh : hay.Valid) (hlen : f.minHaystackLen ≤ hay.len)
    (hbad : hay.off + hay.len < needle.len) (c : Ctr) :
    ((∃ q, q ≤ hay.len - f.minHaystackLen + q % V.bytes ∧ f.CandAt hay q) ∧
      find V f hay needle c = .fault (.ptrOob siteEndSub)) ∨
    ((∀ q, q ≤ hay.len - f.minHaystackLen + q % V.bytes → ¬ f.CandAt hay q) ∧
      ∃ c', find V f hay needle c = .ok none c') := by
  have hpos := V.bytes_pos
  obtain ⟨all, hall, hrun⟩ := find_unfold L f hay needle hh hlen c
  have G := geom_of f hok hh hlen
  have hmin := hok.min_ge
  have hg : hay.endPtr < hay.mem.base + needle.len := by unfold Slice.endPtr; omega
  have hrange : ∀ q, q ≤ hay.len - f.minHaystackLen + q % V.bytes →
      q + max f.index1 f.index2 < hay.len := by
    intro q hq
    have := Nat.mod_lt q hpos
    omega
  have hconv : ∀ q, (hay.ptr + q ≤ hay.endPtr - f.minHaystackLen +
      (hay.ptr + q - hay.ptr) % V.bytes) ↔ q ≤ hay.len - f.minHaystackLen + q % V.bytes := by
    intro q
    have e : hay.ptr + q - hay.ptr = q := by omega
    rw [e]
    unfold Slice.endPtr Slice.ptr; omega
  rw [hrun]
  rcases findLoop_bad L f hay.mem needle hay.ptr hay.endPtr (hay.endPtr - f.minHaystackLen) all
    hay.ptr c G hg hall (Nat.le_refl _) (Nat.le_trans G.hsm (Nat.le_add_right _ _)) with
    ⟨⟨a, ha1, ha2, ha3⟩, hr⟩ | ⟨hnone, hr⟩
  · left
    have e : a = hay.ptr + (a - hay.ptr) := by omega
    rw [e] at ha2 ha3
    have hq := (hconv _).mp ha2
    exact ⟨⟨a - hay.ptr, hq, (candA_iff f hh _ (hrange _ hq)).mp ha3⟩, hr⟩
  · right
    refine ⟨?_, hr⟩
    intro q hq hc
    have := hnone (hay.ptr + q) (by omega) ((hconv q).mpr hq)
    rw [(candA_iff f hh q (hrange q hq)).mpr hc] at this
    cases this

/-! ### C05: an arbitrary search needle -/

/-- **C05 (out of domain).** For an arbitrary search needle (any bytes, any length, unrelated
to the construction needle) and a haystack of at least `min_haystack_len` bytes, `find` either
returns normally or stops at the out-of-allocation `end.sub(needle.len())` (observation O2,
exactly when `find_ptrOob_iff` says). -/
theorem find_reads_ok (L : Lawful V) (f : Finder) (hok : FinderOk V f) (hay needle : Slice)
    (hh : hay.Valid) (hn : needle.Valid) (hlen : f.minHaystackLen ≤ hay.len) (c : Ctr) :
    (∃ r c', find V f hay needle c = .ok r c') ∨
    find V f hay needle c = .fault (.ptrOob siteEndSub) := by
  by_cases hg : needle.len ≤ hay.off + hay.len
  · obtain ⟨r, c', hr, -⟩ := find_foreign_good L f hok hay needle hh hn hlen hg c
    exact Or.inl ⟨r, c', hr⟩
  · rcases find_foreign_bad L f hok hay needle hh hlen (by omega) c with ⟨-, hr⟩ | ⟨-, c', hr⟩
    · exact Or.inr hr
    · exact Or.inl ⟨none, c', hr⟩

/-- For ANY search needle and a haystack of at least `min_haystack_len` bytes, `find` never
faults with a debug assertion, a panic, an arithmetic overflow, an out-of-bounds read or a
misaligned load; the only possible fault is the `ptrOob` of O2 at `end.sub(needle.len())`.
(This replaces `find_debugAssert_iff`: since the fix of O3 the tail's debug assertion is
unreachable.) -/
theorem find_no_fault_but_ptrOob (L : Lawful V) (f : Finder) (hok : FinderOk V f)
    (hay needle : Slice) (hh : hay.Valid) (hn : needle.Valid)
    (hlen : f.minHaystackLen ≤ hay.len) (c : Ctr) :
    (∀ s, find V f hay needle c ≠ .fault (.debugAssert s)) ∧
    (∀ s, find V f hay needle c ≠ .fault (.panic s)) ∧
    (∀ s, find V f hay needle c ≠ .fault (.overflow s)) ∧
    (∀ r a l, find V f hay needle c ≠ .fault (.oobRead r a l)) ∧
    (∀ a w, find V f hay needle c ≠ .fault (.misaligned a w)) ∧
    (∀ s, find V f hay needle c = .fault (.ptrOob s) → s = siteEndSub) := by
  rcases find_reads_ok L f hok hay needle hh hn hlen c with ⟨r, c', hr⟩ | hr <;> rw [hr]
  · exact ⟨fun _ h => (by cases h), fun _ h => (by cases h), fun _ h => (by cases h),
      fun _ _ _ h => (by cases h), fun _ _ h => (by cases h), fun _ h => (by cases h)⟩
  · exact ⟨fun _ h => (by cases h), fun _ h => (by cases h), fun _ h => (by cases h),
      fun _ _ _ h => (by cases h), fun _ _ h => (by cases h),
      fun _ h => (by cases h; rfl)⟩

/-- **O2, exactly.** `find` computes `end.sub(needle.len())` outside the haystack's allocation
iff the search needle is longer than the part of the region that ends with the haystack and
the byte pair matches at an offset `q` whose chunk `[q - q % BYTES, ..)` belongs to the main
loop. -/
theorem find_ptrOob_iff (L : Lawful V) (f : Finder) (hok : FinderOk V f) (hay needle : Slice)
    (hh : hay.Valid) (hn : needle.Valid) (hlen : f.minHaystackLen ≤ hay.len) (c : Ctr) :
    find V f hay needle c = .fault (.ptrOob siteEndSub) ↔
      hay.off + hay.len < needle.len ∧
        ∃ q, q ≤ hay.len - f.minHaystackLen + q % V.bytes ∧ f.CandAt hay q := by
  by_cases hg : needle.len ≤ hay.off + hay.len
  · constructor
    · intro h
      obtain ⟨r, c', hr, -⟩ := find_foreign_good L f hok hay needle hh hn hlen hg c
      rw [hr] at h; cases h
    · intro ⟨h, _⟩; omega
  · rcases find_foreign_bad L f hok hay needle hh hlen (by omega) c with
      ⟨hex, hr⟩ | ⟨hnone, c', hr⟩
    · exact ⟨fun _ => ⟨by omega, hex⟩, fun _ => hr⟩
    · constructor
      · intro h; rw [hr] at h; cases h
      · intro ⟨_, q, hq, hc⟩
        exact absurd hc (hnone q hq)

/-- A foreign search needle that is not longer than the haystack (so O2 is impossible): `find`
returns normally, with the lowest scanned offset where the pair matches and the search needle
occurs, within the cost bound. -/
theorem find_foreign_no_fault (L : Lawful V) (f : Finder) (hok : FinderOk V f)
    (hay needle : Slice) (hh : hay.Valid) (hn : needle.Valid)
    (hlen : f.minHaystackLen ≤ hay.len) (hnl : needle.len ≤ hay.len) (c : Ctr) :
    ∃ r c', find V f hay needle c = .ok r c' ∧ FindRes' V f hay needle r ∧
      c'.steps ≤ c.steps + findCost V f hay needle :=
  find_foreign_good L f hok hay needle hh hn hlen (by omega) c

/-! ### C14 -/

/-- **C14.** For any search needle, `find` panics (at its `assert!`, and nowhere else) iff the
haystack is shorter than `min_haystack_len`. -/
theorem find_panics_iff (L : Lawful V) (f : Finder) (hok : FinderOk V f) (hay needle : Slice)
    (hh : hay.Valid) (hn : needle.Valid) (c : Ctr) :
    find V f hay needle c = .fault (.panic "packedpair::find: haystack too small") ↔
      hay.len < f.minHaystackLen := by
  constructor
  · intro h
    by_cases hlen : f.minHaystackLen ≤ hay.len
    · exact absurd h ((find_no_fault_but_ptrOob L f hok hay needle hh hn hlen c).2.1 _)
    · omega
  · exact find_too_small f hay needle c

/-! ### C12 + C13: the construction needle -/

theorem findCost_le (f : Finder) (hay needle : Slice) :
    findCost V f hay needle ≤
      (hay.len / V.bytes + 2) * (1 + V.bytes * (needle.len / 4 + 3)) := by
  unfold findCost
  apply Nat.mul_le_mul_right
  have : (hay.len - f.minHaystackLen) / V.bytes ≤ hay.len / V.bytes :=
    Nat.div_le_div_right (Nat.sub_le _ _)
  omega

/-- **C12 (+ C13).** For the finder `new(needle, Pair{i1, i2})` built from `needle` with two
distinct in-range indices, `find(haystack, needle)` on a haystack of at least
`min_haystack_len` bytes returns the leftmost occurrence of `needle`, without any fault, in at
most `((len - min_haystack_len) / BYTES + 2) * (1 + BYTES * (needle.len / 4 + 3))` steps. -/
theorem find_correct (L : Lawful V) (hay needle : Slice) (hh : hay.Valid) (hn : needle.Valid)
    (i1 i2 : Nat) (hne : i1 ≠ i2) (h1 : i1 < needle.len) (h2 : i2 < needle.len)
    (f : Finder) (c0 c0' : Ctr) (hf : Finder.new V needle i1 i2 c0 = .ok f c0')
    (hlen : f.minHaystackLen ≤ hay.len) (c : Ctr) :
    ∃ c', find V f hay needle c = .ok (Spec.leftmost hay.toArray needle.toArray) c' ∧
      c'.steps ≤ c.steps + findCost V f hay needle := by
  obtain ⟨rfl, -⟩ := new_eq h1 h2 hf
  have hok := mkFinder_ok (V := V) needle i1 i2 hne
  have hpos := V.bytes_pos
  have hml : (mkFinder V needle i1 i2).minHaystackLen = max needle.len (max i1 i2 + V.bytes) := rfl
  have hg : needle.len ≤ hay.off + hay.len := by omega
  obtain ⟨r, c', hr, hres, hcost⟩ := find_foreign_good L _ hok hay needle hh hn hlen hg c
  refine ⟨c', ?_, hcost⟩
  rw [hr]
  congr 1
  cases r with
  | some x =>
    obtain ⟨a1, a2, a3⟩ := hres
    symm
    rw [Spec.leftmost_eq_some_iff]
    exact ⟨a2.2, fun j hj ho => a3 j hj ⟨candAt_of_occAt hn h1 h2 ho, ho⟩⟩
  | none =>
    symm
    rw [Spec.leftmost_eq_none_iff]
    intro j ho
    apply hres j
    · have := ho.1
      rw [toArray_size hh, toArray_size hn] at this
      unfold Finder.scanned
      omega
    · exact ⟨candAt_of_occAt hn h1 h2 ho, ho⟩

/-- **C13.** the bound of `find_correct` in the form `(len / BYTES + 2) * (1 + BYTES * (needle.len / 4 + 3))`:
linear in the haystack length for a bounded needle length. -/
theorem find_cost (L : Lawful V) (hay needle : Slice) (hh : hay.Valid) (hn : needle.Valid)
    (i1 i2 : Nat) (hne : i1 ≠ i2) (h1 : i1 < needle.len) (h2 : i2 < needle.len)
    (f : Finder) (c0 c0' : Ctr) (hf : Finder.new V needle i1 i2 c0 = .ok f c0')
    (hlen : f.minHaystackLen ≤ hay.len) (c : Ctr) :
    ∃ r c', find V f hay needle c = .ok r c' ∧
      c'.steps ≤ c.steps + (hay.len / V.bytes + 2) * (1 + V.bytes * (needle.len / 4 + 3)) := by
  obtain ⟨c', hr, hc⟩ := find_correct L hay needle hh hn i1 i2 hne h1 h2 f c0 c0' hf hlen c
  exact ⟨_, c', hr, Nat.le_trans hc (Nat.add_le_add_left (findCost_le f hay needle) _)⟩

/-- **C14 for the construction needle**: panic iff too short, otherwise a normal return. -/
theorem find_panics_or_ok (L : Lawful V) (hay needle : Slice) (hh : hay.Valid)
    (hn : needle.Valid) (i1 i2 : Nat) (hne : i1 ≠ i2) (h1 : i1 < needle.len)
    (h2 : i2 < needle.len) (f : Finder) (c0 c0' : Ctr)
    (hf : Finder.new V needle i1 i2 c0 = .ok f c0') (c : Ctr) :
    (hay.len < f.minHaystackLen ∧
      find V f hay needle c = .fault (.panic "packedpair::find: haystack too small")) ∨
    (f.minHaystackLen ≤ hay.len ∧ ∃ r c', find V f hay needle c = .ok r c') := by
  by_cases hlen : f.minHaystackLen ≤ hay.len
  · obtain ⟨c', hr, -⟩ := find_correct L hay needle hh hn i1 i2 hne h1 h2 f c0 c0' hf hlen c
    exact Or.inr ⟨hlen, _, c', hr⟩
  · exact Or.inl ⟨by omega, find_too_small f hay needle c (by omega)⟩

/-! ### C11 + C13 + C14: `find_prefilter` -/

/-- value of `find_prefilter`: the lowest scanned offset where the byte pair matches -/
def PreRes' (V : VecImpl) (f : Finder) (hay : Slice) : Option Nat → Prop
  | some x => x < f.scanned V hay ∧ f.CandAt hay x ∧ ∀ q, q < x → ¬ f.CandAt hay q
  | none => ∀ q, q < f.scanned V hay → ¬ f.CandAt hay q

theorem noCandIn_iff (f : Finder) {hay : Slice} (hh : hay.Valid) (n : Nat)
    (hnr : n + max f.index1 f.index2 ≤ hay.len) :
    NoCandIn f hay.mem hay.ptr (hay.ptr + n) ↔ ∀ q, q < n → ¬ f.CandAt hay q := by
  constructor
  · intro h q hq hc
    have := h (hay.ptr + q) (by omega) (by omega)
    rw [(candA_iff f hh q (by omega)).mpr hc] at this
    cases this
  · intro h a ha1 ha2
    have e : a = hay.ptr + (a - hay.ptr) := by omega
    cases hc : candA f hay.mem a with
    | false => rfl
    | true =>
      rw [e] at hc
      exact absurd ((candA_iff f hh _ (by omega)).mp hc) (h (a - hay.ptr) (by omega))

/-- step bound of `find_prefilter`: one step per chunk -/
def preCost' (V : VecImpl) (f : Finder) (hay : Slice) : Option Nat → Nat
  | some x => x / V.bytes + 1
  | none => (hay.len - f.minHaystackLen) / V.bytes + 2

/-- `find_prefilter` on a haystack of at least `min_haystack_len` bytes never faults and returns
the lowest offset among the scanned ones (`0 .. len - min_haystack_len + BYTES - 1`, which
includes the final chunk re-aligned to `end - min_haystack_len`) where the byte pair matches. -/
theorem findPrefilter_spec (L : Lawful V) (f : Finder) (hok : FinderOk V f) (hay : Slice)
    (hh : hay.Valid) (hlen : f.minHaystackLen ≤ hay.len) (c : Ctr) :
    ∃ r c', findPrefilter V f hay c = .ok r c' ∧ PreRes' V f hay r ∧
      c'.steps ≤ c.steps + preCost' V f hay r := by
  have hpos := V.bytes_pos
  have G := geom_of f hok hh hlen
  have hmin := hok.min_ge
  have hno : NoCandIn f hay.mem hay.ptr hay.ptr := fun a h1 h2 => by omega
  have elim : hay.endPtr - f.minHaystackLen + V.bytes = hay.ptr + f.scanned V hay := by
    unfold Slice.endPtr Slice.ptr Finder.scanned; omega
  have hsc : f.scanned V hay + max f.index1 f.index2 ≤ hay.len := by
    unfold Finder.scanned; omega
  obtain ⟨r, c', hr, hres, hcost⟩ := prefilterLoop_run L f hay.mem hay.ptr hay.endPtr
    (hay.endPtr - f.minHaystackLen) hay.ptr c G (Nat.le_refl _)
    (Nat.le_trans G.hsm (Nat.le_add_right _ _)) hno
  rw [elim] at hres
  refine ⟨r, c', by rw [findPrefilter_unfold f hay hh hlen c]; exact hr, ?_, ?_⟩
  · cases r with
    | some x =>
      obtain ⟨a1, a2, a3⟩ := hres
      exact ⟨by omega, (candA_iff f hh x (by omega)).mp a2,
        (noCandIn_iff f hh x (by omega)).mp a3⟩
    | none => exact (noCandIn_iff f hh _ hsc).mp hres
  · cases r with
    | some x =>
      have e : hay.ptr + x - hay.ptr = x := by omega
      simp only [preCost, preCost', e] at hcost ⊢
      exact hcost
    | none =>
      have e : hay.endPtr - f.minHaystackLen + V.bytes - hay.ptr =
          (hay.len - f.minHaystackLen) + V.bytes := by
        unfold Slice.endPtr Slice.ptr; omega
      simp only [preCost, preCost', e] at hcost ⊢
      rw [Nat.add_div_right _ hpos] at hcost
      exact hcost

/-- **C11 (+ C13).** For the finder built from `needle` with two distinct in-range indices
and a haystack of at least `min_haystack_len` bytes, `find_prefilter` never faults; a returned
candidate `x` has `hay[x + i1] = needle[i1]` and `hay[x + i2] = needle[i2]` (in range); every
occurrence `q` of `needle` forces a result `some x` with `x <= q`; hence `None` means there is
no occurrence. Steps: `x / BYTES + 1` for `Some(x)`, `(len - min_haystack_len) / BYTES + 2` for
`None`. -/
theorem findPrefilter_sound (L : Lawful V) (hay needle : Slice) (hh : hay.Valid)
    (hn : needle.Valid) (i1 i2 : Nat) (hne : i1 ≠ i2) (h1 : i1 < needle.len)
    (h2 : i2 < needle.len) (f : Finder) (c0 c0' : Ctr)
    (hf : Finder.new V needle i1 i2 c0 = .ok f c0') (hlen : f.minHaystackLen ≤ hay.len)
    (c : Ctr) :
    ∃ r c', findPrefilter V f hay c = .ok r c' ∧
      (∀ x, r = some x → x + max i1 i2 < hay.len ∧
        hay.toArray[x + i1]? = needle.toArray[i1]? ∧
        hay.toArray[x + i2]? = needle.toArray[i2]?) ∧
      (∀ q, Spec.OccAt hay.toArray needle.toArray q → ∃ x, r = some x ∧ x ≤ q) ∧
      (r = none → ∀ q, ¬ Spec.OccAt hay.toArray needle.toArray q) ∧
      c'.steps ≤ c.steps + preCost' V f hay r := by
  obtain ⟨rfl, -⟩ := new_eq h1 h2 hf
  have hok := mkFinder_ok (V := V) needle i1 i2 hne
  have hml : (mkFinder V needle i1 i2).minHaystackLen = max needle.len (max i1 i2 + V.bytes) := rfl
  obtain ⟨r, c', hr, hres, hcost⟩ := findPrefilter_spec L _ hok hay hh hlen c
  have hpos := V.bytes_pos
  have hocc : ∀ q, Spec.OccAt hay.toArray needle.toArray q →
      q < (mkFinder V needle i1 i2).scanned V hay := by
    intro q ho
    have := ho.1
    rw [toArray_size hh, toArray_size hn] at this
    unfold Finder.scanned
    omega
  have hkey : ∀ q, Spec.OccAt hay.toArray needle.toArray q → ∃ x, r = some x ∧ x ≤ q := by
    intro q ho
    have hc : (mkFinder V needle i1 i2).CandAt hay q := candAt_of_occAt hn h1 h2 ho
    cases r with
    | none => exact absurd hc (hres q (hocc q ho))
    | some x =>
      refine ⟨x, rfl, ?_⟩
      by_cases hxq : x ≤ q
      · exact hxq
      · exact absurd hc (hres.2.2 q (by omega))
  refine ⟨r, c', hr, ?_, hkey, ?_, hcost⟩
  · intro x hx
    subst hx
    obtain ⟨a1, ⟨a2, a3⟩, -⟩ := hres
    have hr1 : x + max i1 i2 < hay.len := by
      unfold Finder.scanned at a1
      omega
    have a2' : hay.toArray[x + i1]? = some (needle.getD i1) := a2
    have a3' : hay.toArray[x + i2]? = some (needle.getD i2) := a3
    refine ⟨hr1, ?_, ?_⟩
    · rw [a2', toArray_getElem? hn h1, ← getD_eq_byteAt]
    · rw [a3', toArray_getElem? hn h2, ← getD_eq_byteAt]
  · intro hnone q ho
    obtain ⟨x, hx, -⟩ := hkey q ho
    rw [hnone] at hx
    cases hx

/-- **C13 for `find_prefilter`** in the requested form. -/
theorem findPrefilter_cost (L : Lawful V) (f : Finder) (hok : FinderOk V f) (hay : Slice)
    (hh : hay.Valid) (hlen : f.minHaystackLen ≤ hay.len) (c : Ctr) :
    ∃ r c', findPrefilter V f hay c = .ok r c' ∧
      (∀ x, r = some x → c'.steps ≤ c.steps + x / V.bytes + 2) ∧
      (r = none → c'.steps ≤ c.steps + hay.len / V.bytes + 2) := by
  obtain ⟨r, c', hr, -, hcost⟩ := findPrefilter_spec L f hok hay hh hlen c
  refine ⟨r, c', hr, ?_, ?_⟩
  · intro x hx
    subst hx
    simp only [preCost'] at hcost
    omega
  · intro hx
    subst hx
    simp only [preCost'] at hcost
    have : (hay.len - f.minHaystackLen) / V.bytes ≤ hay.len / V.bytes :=
      Nat.div_le_div_right (Nat.sub_le _ _)
    omega

/-- **C14 for `find_prefilter`.** -/
theorem findPrefilter_panics_iff (L : Lawful V) (f : Finder) (hok : FinderOk V f) (hay : Slice)
    (hh : hay.Valid) (c : Ctr) :
    (findPrefilter V f hay c =
        .fault (.panic "packedpair::find_prefilter: haystack too small") ↔
      hay.len < f.minHaystackLen) ∧
    (f.minHaystackLen ≤ hay.len → ∃ r c', findPrefilter V f hay c = .ok r c') := by
  refine ⟨⟨?_, findPrefilter_too_small f hay c⟩, ?_⟩
  · intro h
    by_cases hlen : f.minHaystackLen ≤ hay.len
    · obtain ⟨r, c', hr, -⟩ := findPrefilter_spec L f hok hay hh hlen c
      rw [hr] at h; cases h
    · omega
  · intro hlen
    obtain ⟨r, c', hr, -⟩ := findPrefilter_spec L f hok hay hh hlen c
    exact ⟨r, c', hr⟩

/-! ### the hypotheses are satisfiable -/

section Examples

local instance (s : Slice) : Decidable s.Valid := by unfold Slice.Valid; infer_instance

/-- needle "abcdefgh" at address 1000 (region 1) -/
def exNeedle : Slice := Slice.ofMem { region := 1, base := 1000, bytes := "abcdefgh".toUTF8.data }
/-- a 40-byte haystack at address 64 containing the needle at offset 21 -/
def exHay : Slice :=
  Slice.ofMem { region := 0, base := 64, bytes := "xxabcdefgxxxxxabxxxxxabcdefghxxxxxxxxxxx".toUTF8.data }
/-- a foreign one-byte search needle -/
def exForeign : Slice := Slice.ofMem { region := 1, base := 1000, bytes := "z".toUTF8.data }

/-- hypotheses of `find_correct` / `findPrefilter_sound` / `find_cost` with SSE2 vectors, the
pair `(0, 7)`: `min_haystack_len = 23 <= 40` -/
example : exHay.Valid ∧ exNeedle.Valid ∧ (0 : Nat) ≠ 7 ∧ 0 < exNeedle.len ∧ 7 < exNeedle.len ∧
    Finder.new Sensible.sse2 exNeedle 0 7 {} = .ok (mkFinder Sensible.sse2 exNeedle 0 7) {} ∧
    (mkFinder Sensible.sse2 exNeedle 0 7).minHaystackLen ≤ exHay.len := by
  refine ⟨by decide, by decide, by decide, by decide, by decide, ?_, by decide⟩
  exact new_ok exNeedle 0 7 {} (by decide) (by decide)

/-- hence, for instance (the spec evaluates to `some 21`): -/
example : ∃ c', find Sensible.sse2 (mkFinder Sensible.sse2 exNeedle 0 7) exHay exNeedle {} =
    .ok (some 21) c' := by
  obtain ⟨c', h, -⟩ := find_correct Sensible.lawful_sse2 exHay exNeedle (by decide) (by decide)
    0 7 (by decide) (by decide) (by decide) _ {} {}
    (new_ok exNeedle 0 7 {} (by decide) (by decide)) (by decide) {}
  have e : Spec.leftmost exHay.toArray exNeedle.toArray = some 21 := by decide
  exact ⟨c', e ▸ h⟩

/-- hypotheses of the foreign-needle theorems (`find_reads_ok`, `find_no_fault_but_ptrOob`,
`find_ptrOob_iff`, `find_foreign_no_fault`, `find_panics_iff`) with the 4-lane checked vector
type: the finder for "abcdefgh" with the pair `(0, 1)` has `min_haystack_len = 8`; the 40-byte
haystack and the one-byte foreign needle are the shape of input that reached the debug
assertion before the fix of O3 (`(40 - 8) % 4 = 0`, `1 + 4 <= 8`). -/
example : FinderOk Sensible.small4 (mkFinder Sensible.small4 exNeedle 0 1) ∧ exHay.Valid ∧
    exForeign.Valid ∧ (mkFinder Sensible.small4 exNeedle 0 1).minHaystackLen ≤ exHay.len ∧
    exForeign.len ≤ exHay.len := by
  refine ⟨mkFinder_ok _ _ _ (by decide), by decide, by decide, by decide, by decide⟩

end Examples

end Memchr.PackedPair

#print axioms Memchr.PackedPair.find_correct
#print axioms Memchr.PackedPair.find_cost
#print axioms Memchr.PackedPair.find_panics_iff
#print axioms Memchr.PackedPair.find_panics_or_ok
#print axioms Memchr.PackedPair.find_reads_ok
#print axioms Memchr.PackedPair.find_no_fault_but_ptrOob
#print axioms Memchr.PackedPair.find_ptrOob_iff
#print axioms Memchr.PackedPair.find_foreign_no_fault
#print axioms Memchr.PackedPair.find_foreign_good
#print axioms Memchr.PackedPair.find_foreign_bad
#print axioms Memchr.PackedPair.findPrefilter_spec
#print axioms Memchr.PackedPair.findPrefilter_sound
#print axioms Memchr.PackedPair.findPrefilter_cost
#print axioms Memchr.PackedPair.findPrefilter_panics_iff
