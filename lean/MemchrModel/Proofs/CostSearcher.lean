/-
C13, item 4: the meta searcher (`src/memmem/searcher.rs`) and the one-shot functions
(`src/memmem/mod.rs`).

* `searcherNew_costs` / `Cost.searcher_new`: `Searcher::new` costs at most `7 * needle.len + 257`
  steps and only gives the vector searcher needles of at most `MAX_LEN` bytes;
* `searcherFind_costs` / `Cost.searcher_find`: `Searcher::find`, every strategy, every
  configuration, every `PrefilterState`: at most `1031 * Fallback.scanned + 17 * needle.len + 2000` steps,
  `scanned` = answer + 1, or `haystack.len()` for `None`;
* `searcherRevNew_costs`, `searcherRevRfind_costs` / `Cost.searcher_rfind`: the reverse searcher:
  at most `3 * scannedRev + 17 * needle.len + 192` steps, `scannedRev` = `haystack.len()` - answer;
* `Cost.finder_find`, `Cost.oneshot_find`, `Cost.oneshot_rfind`.

The generated constants enter through `Generated.packedMaxLen <= 64`,
`Generated.rkFastThreshold <= 64`, `Generated.oneshotFwdThreshold <= 64`,
`Generated.oneshotRevThreshold <= 64` (all by `decide`).
-/
import MemchrModel.Proofs.CostPrefilter
import MemchrModel.Proofs.CostTwoWayGap
import MemchrModel.Proofs.CostTwoWayRev
import MemchrModel.Proofs.CostPacked
import MemchrModel.Proofs.SearcherTwoWay

namespace Memchr.Memmem

open Memchr

theorem packedMaxLen_le : Generated.packedMaxLen ≤ 64 := by decide
theorem rkFastThreshold_le : Generated.rkFastThreshold ≤ 64 := by decide
theorem oneshotFwd_le : Generated.oneshotFwdThreshold ≤ 64 := by decide
theorem oneshotRev_le : Generated.oneshotRevThreshold ≤ 64 := by decide

/-! ### Rabin-Karp on a short haystack -/

theorem rkFind_costs (rk : RabinKarp.Finder) (hay n : Slice) (hh : hay.Valid) (hn : n.Valid) :
    Costs (rk.find hay n) (fun _ k => k ≤ (hay.len - n.len + 1) * (n.len / 4 + 3) + n.len) :=
  (Costs.of_total_le (P := fun _ => True)
    (B := fun _ => (hay.len - n.len + 1) * (n.len / 4 + 3) + n.len) (fun c => by
      obtain ⟨r, c', e, hs, _⟩ := RabinKarp.find_spec rk hay n c hh hn
      exact ⟨r, c', e, trivial, by omega⟩)).mono (fun _ k h => h.2)

theorem rkRfind_costs (rk : RabinKarp.FinderRev) (hay n : Slice) (hh : hay.Valid) (hn : n.Valid) :
    Costs (rk.rfind hay n) (fun _ k => k ≤ (hay.len - n.len + 1) * (n.len / 4 + 3) + n.len) :=
  (Costs.of_total_le (P := fun _ => True)
    (B := fun _ => (hay.len - n.len + 1) * (n.len / 4 + 3) + n.len) (fun c => by
      obtain ⟨r, c', e, hs, _⟩ := RabinKarp.rfind_spec rk hay n c hh hn
      exact ⟨r, c', e, trivial, by omega⟩)).mono (fun _ k h => h.2)

/-- the Rabin-Karp bound on a haystack shorter than `T <= 96` -/
theorem rk_short {hl nl T : Nat} (h : hl < T) (hT : T ≤ 96) :
    (hl - nl + 1) * (nl / 4 + 3) + nl ≤ 25 * nl + 288 := by
  have : (hl - nl + 1) * (nl / 4 + 3) ≤ 96 * (nl / 4 + 3) := Nat.mul_le_mul_right _ (by omega)
  omega

theorem rk_short64 {hl nl T : Nat} (h : hl < T) (hT : T ≤ 64) :
    (hl - nl + 1) * (nl / 4 + 3) + nl ≤ 17 * nl + 192 := by
  have : (hl - nl + 1) * (nl / 4 + 3) ≤ 64 * (nl / 4 + 3) := Nat.mul_le_mul_right _ (by omega)
  omega

/-! ### the vector searcher -/

theorem chunkCost_le (V : VecImpl) (hb : V.bytes ≤ 32) (n : Slice) (hlen : n.len ≤ 64) :
    PackedPair.chunkCost' V n ≤ 628 := by
  unfold PackedPair.chunkCost'
  have : (V.bytes + 1) * (n.len / 4 + 3) ≤ 33 * (n.len / 4 + 3) :=
    Nat.mul_le_mul_right _ (by omega)
  omega

theorem vecFind_costs (vf : VecFinder) (hay n : Slice) (hlen : n.len ≤ 64) :
    Costs (vf.find hay n) (fun r k => k ≤ 628 * (Fallback.scanned r hay.len + 3)) := by
  cases vf with
  | avx2 p s a =>
    simp only [VecFinder.find]
    split
    · exact PackedPair.find_costs Sensible.tickFree_sse2 s hay n 628
        (chunkCost_le _ (by decide) n hlen)
    · exact PackedPair.find_costs Sensible.tickFree_avx2 a hay n 628
        (chunkCost_le _ (by decide) n hlen)
  | sse2 p f =>
    exact PackedPair.find_costs Sensible.tickFree_sse2 f hay n 628
      (chunkCost_le _ (by decide) n hlen)
  | neon p f =>
    exact PackedPair.find_costs Neon.tickFree f hay n 628 (chunkCost_le _ (by decide) n hlen)
  | simd128 p f =>
    exact PackedPair.find_costs Sensible.tickFree_simd128 f hay n 628
      (chunkCost_le _ (by decide) n hlen)

theorem vecMinLen_le {n : Slice} {vf : VecFinder} (hg : vf.GoodFor n) (hlen : n.len ≤ 64) :
    vf.minHaystackLen ≤ 96 := by
  obtain ⟨hp, hm⟩ := hg
  have h1 := hp.lt1
  have h2 := hp.lt2
  cases vf with
  | avx2 p s a =>
    obtain ⟨rfl, rfl⟩ := hm
    simp only [VecFinder.minHaystackLen, PackedPair.mkFinder, VecFinder.pair] at *
    have : Sensible.sse2.bytes = 16 := rfl
    omega
  | sse2 p f =>
    subst hm
    simp only [VecFinder.minHaystackLen, PackedPair.mkFinder, VecFinder.pair] at *
    have : Sensible.sse2.bytes = 16 := rfl
    omega
  | neon p f =>
    subst hm
    simp only [VecFinder.minHaystackLen, PackedPair.mkFinder, VecFinder.pair] at *
    have : Neon.impl.bytes = 16 := rfl
    omega
  | simd128 p f =>
    subst hm
    simp only [VecFinder.minHaystackLen, PackedPair.mkFinder, VecFinder.pair] at *
    have : Sensible.simd128.bytes = 16 := rfl
    omega

/-! ### `Searcher::find` -/

/-- **`Searcher::find`, cost form.**  For a searcher that is good for the search needle `n`
(what `Searcher::new` returns, `searcherNew_costs`) and whose vector kind only owns needles of at
most `MAX_LEN` bytes, every configuration, valid haystack and `PrefilterState`: at most
`1031 * Fallback.scanned + 17 * needle.len + 2000` steps. -/
theorem searcherFind_costs (cfg : Api.Cfg) {n : Slice} {s : Searcher} (hg : s.GoodFor n)
    (hpk : ∀ vf, s.kind = .packed vf → n.len ≤ Generated.packedMaxLen)
    (hn : n.Valid) (hay : Slice) (hh : hay.Valid) (st : PrefilterState) :
    Costs (s.find cfg st hay n) (fun x k =>
      k ≤ 1031 * Fallback.scanned x.1 hay.len + 17 * n.len + 2000) := by
  obtain ⟨hrk, hk⟩ := hg
  unfold Searcher.find
  split
  · exact Costs.pure (by omega)
  · rename_i hshort
    obtain ⟨kind, rk⟩ := s
    have hfast : ∀ {α : Type} (f : Option Nat → M α) (Q : α → Nat → Prop),
        RabinKarp.isFast hay n = true →
        (∀ r, Costs (f r) (fun x k => ∀ k1, k1 ≤ 17 * n.len + 192 → Q x (k1 + k))) →
        Costs (rk.find hay n >>= f) Q := by
      intro α f Q hf hcont
      rw [isFast_eq_generated, decide_eq_true_eq] at hf
      apply Costs.bind (rkFind_costs rk hay n hh hn)
      intro r k1 hk1
      apply (hcont r).mono
      intro x k hx
      exact hx k1 (Nat.le_trans hk1 (rk_short64 hf rkFastThreshold_le))
    cases kind with
    | empty => exact Costs.pure (by omega)
    | oneByte b =>
      dsimp only
      apply Costs.bind (Cost.topMemchr_costs cfg b hay hh)
      intro r k1 ⟨hk1, _⟩
      apply Costs.pure
      dsimp only
      omega
    | twoWay tw =>
      obtain ⟨h2, n0, c0, c0', hv0, hb, hnew⟩ := hk
      dsimp only
      unfold Searcher.kindTwoWay
      dsimp only
      split
      · rename_i hf
        apply hfast _ _ hf
        intro r
        apply Costs.pure
        intro k1 hk1
        dsimp only
        omega
      · unfold TwoWay.Finder.find
        apply Costs.bind (Costs.bind (TwoWay.findWithPrefilter_costs n0 n hay tw c0 c0' hv0 hn hh hb
          hnew (fun _ => pure none) TwoWay.stratCost_none none (fun p hp => by cases hp))
          (Q := fun r k => k ≤ 1031 * Fallback.scanned r hay.len + 2 * n.len + 1022) ?_)
        · intro r k1 hk1
          apply Costs.pure
          dsimp only
          omega
        · rintro ⟨r, pre'⟩ k1 ⟨_, hk1⟩
          apply Costs.pure
          dsimp only at hk1 ⊢
          omega
    | twoWayWithPrefilter tw p =>
      obtain ⟨h2, ⟨n0, c0, c0', hv0, hb, hnew⟩, hp⟩ := hk
      dsimp only
      unfold Searcher.kindTwoWayWithPrefilter
      dsimp only
      split
      · rename_i hf
        apply hfast _ _ hf
        intro r
        apply Costs.pure
        intro k1 hk1
        dsimp only
        omega
      · apply Costs.bind (TwoWay.findWithPrefilter_costs n0 n hay tw c0 c0' hv0 hn hh hb
          hnew (p.find cfg) (fun sub hv => Cost.prefilter_costs cfg hn hp sub hv)
          (some { state := st, strat := p.find cfg }) (fun q hq => by cases hq; rfl))
        rintro ⟨r, pre'⟩ k1 ⟨_, hk1⟩
        dsimp only at hk1 ⊢
        split
        · apply Costs.pure
          dsimp only
          omega
        · apply Costs.pure
          dsimp only
          omega
    | packed vf =>
      have hlen : n.len ≤ 64 := Nat.le_trans (hpk vf rfl) packedMaxLen_le
      dsimp only
      unfold Searcher.kindPacked
      dsimp only
      split
      · rename_i hsm
        have hml := vecMinLen_le hk hlen
        apply Costs.bind (rkFind_costs rk hay n hh hn)
        intro r k1 hk1
        apply Costs.pure
        dsimp only
        have := rk_short hsm hml (nl := n.len)
        omega
      · apply Costs.bind (vecFind_costs vf hay n hlen)
        intro r k1 hk1
        apply Costs.pure
        dsimp only
        omega

/-! ### `Searcher::new` -/

theorem twFinderNew_costs (needle : Slice) (hn : needle.Valid) :
    Costs (TwoWay.Finder.new needle) (fun _ k => k ≤ 6 * needle.len + 2) :=
  (Costs.of_total_le (P := fun _ => True) (B := fun _ => 6 * needle.len + 2) (fun c => by
    obtain ⟨tw, c', e, hs, _⟩ := TwoWay.finder_new_spec needle c hn
    exact ⟨tw, c', e, trivial, hs⟩)).mono (fun _ k h => h.2)

theorem twFinderRevNew_costs (needle : Slice) (hn : needle.Valid) :
    Costs (TwoWay.FinderRev.new needle) (fun _ k => k ≤ 6 * needle.len + 2) :=
  (Costs.of_total_le (P := fun _ => True) (B := fun _ => 6 * needle.len + 2) (fun c => by
    obtain ⟨tw, c', e, hs, _⟩ := TwoWay.finderRev_new_spec needle c hn
    exact ⟨tw, c', e, trivial, hs⟩)).mono (fun _ k h => h.2)

theorem rkNew_costs (needle : Slice) :
    Costs (RabinKarp.Finder.new needle) (fun _ k => k ≤ needle.len) :=
  Costs.of_total (fun c => ⟨_, _, RabinKarp.Finder.new_run needle c, needle.len - 1, Nat.le_refl _,
    Nat.sub_le _ _⟩)

theorem rkRevNew_costs (needle : Slice) :
    Costs (RabinKarp.FinderRev.new needle) (fun _ k => k ≤ needle.len) :=
  Costs.of_total (fun c => ⟨_, _, RabinKarp.FinderRev.new_run needle c, needle.len - 1,
    Nat.le_refl _, Nat.sub_le _ _⟩)

theorem withRanker_costs (needle : Slice) (rank : UInt8 → UInt8) :
    Costs (Pair.withRanker needle rank) (fun _ k => k ≤ 255) :=
  (Costs.of_total_le (P := fun _ => True) (B := fun _ => min needle.len 255) (fun c => by
    obtain ⟨r, c', e, _, _, hs, _⟩ := Pair.withRanker_correct needle rank c
    exact ⟨r, c', e, trivial, hs⟩)).mono (fun _ k h => by have := h.2; omega)

/-- what the cost analysis of `Searcher::find` needs from the searcher besides `GoodFor` -/
def PackedOk (needle : Slice) (s : Searcher) : Prop :=
  ∀ vf, s.kind = .packed vf → needle.len ≤ Generated.packedMaxLen

theorem twoway_costs (needle : Slice) (hn : needle.Valid) (rk : RabinKarp.Finder)
    (prestrat : Option Prefilter) :
    Costs (Searcher.twoway needle rk prestrat) (fun s k =>
      k ≤ 6 * needle.len + 2 ∧ PackedOk needle s) := by
  unfold Searcher.twoway
  apply Costs.bind (twFinderNew_costs needle hn)
  intro tw k1 hk1
  cases prestrat with
  | none => exact Costs.pure ⟨by omega, fun vf h => by cases h⟩
  | some p => exact Costs.pure ⟨by omega, fun vf h => by cases h⟩

theorem packedFinderNew_free (V : VecImpl) (needle : Slice) (i1 i2 : Nat) :
    Free (PackedPair.Finder.new V needle i1 i2) (fun _ => True) := by
  unfold PackedPair.Finder.new
  dsimp only
  exact Free.bind (Free.get _ _ _) (fun _ _ => Free.bind (Free.get _ _ _)
    (fun _ _ => (Free.pure _).mono (fun _ _ => trivial)))

theorem withPair_free (cfg : Api.Cfg) (k : VecKind) (needle : Slice) (pair : Pair) :
    Free (VecFinder.withPair cfg k needle pair) (fun _ => True) := by
  unfold VecFinder.withPair
  split
  · cases k with
    | avx2 =>
      exact Free.bind (packedFinderNew_free _ _ _ _) (fun _ _ =>
        Free.bind (packedFinderNew_free _ _ _ _) (fun _ _ =>
          (Free.pure _).mono (fun _ _ => trivial)))
    | sse2 =>
      exact Free.bind (packedFinderNew_free _ _ _ _) (fun _ _ =>
        (Free.pure _).mono (fun _ _ => trivial))
    | neon =>
      exact Free.bind (packedFinderNew_free _ _ _ _) (fun _ _ =>
        (Free.pure _).mono (fun _ _ => trivial))
    | simd128 =>
      exact Free.bind (packedFinderNew_free _ _ _ _) (fun _ _ =>
        (Free.pure _).mono (fun _ _ => trivial))
  · exact (Free.pure _).mono (fun _ _ => trivial)

theorem ofVec_free (vf : VecFinder) (needle : Slice) :
    Free (Prefilter.ofVec vf needle) (fun _ => True) := by
  unfold Prefilter.ofVec
  dsimp only
  exact Free.bind (Free.get _ _ _) (fun _ _ => (Free.pure _).mono (fun _ _ => trivial))

theorem fallbackWithPair_free (needle : Slice) (pair : Pair) :
    Free (Fallback.withPair needle pair) (fun _ => True) := by
  unfold Fallback.withPair
  exact Free.bind (Free.get _ _ _) (fun _ _ => Free.bind (Free.get _ _ _)
    (fun _ _ => (Free.pure _).mono (fun _ _ => trivial)))

theorem prefilterFallback_free (rank : UInt8 → UInt8) (pair : Pair) (needle : Slice) :
    Free (Prefilter.fallback rank pair needle) (fun _ => True) := by
  unfold Prefilter.fallback
  dsimp only
  refine Free.bind (Free.get _ _ _) (fun b _ => ?_)
  split
  · exact (Free.pure _).mono (fun _ _ => trivial)
  · refine Free.bind (fallbackWithPair_free _ _) (fun r _ => ?_)
    cases r with
    | none => exact (Free.pure _).mono (fun _ _ => trivial)
    | some f => exact (Free.pure _).mono (fun _ _ => trivial)

theorem withVec_costs (pf : PrefilterConfig) (needle : Slice) (hn : needle.Valid)
    (rk : RabinKarp.Finder) (pp : VecFinder) :
    Costs (Searcher.withVec pf needle rk pp) (fun s k =>
      k ≤ 6 * needle.len + 2 ∧ PackedOk needle s) := by
  unfold Searcher.withVec
  split
  · rename_i hd
    apply Costs.pure
    refine ⟨by omega, fun vf _ => ?_⟩
    simp only [doPackedSearch, Bool.and_eq_true, decide_eq_true_eq] at hd
    exact hd.2
  · split
    · exact twoway_costs needle hn rk none
    · apply Costs.free_bind (ofVec_free pp needle)
      intro p _
      exact twoway_costs needle hn rk (some p)

theorem withFallback_costs (pf : PrefilterConfig) (rank : UInt8 → UInt8) (pair : Pair)
    (needle : Slice) (hn : needle.Valid) (rk : RabinKarp.Finder) :
    Costs (Searcher.withFallback pf rank pair needle rk) (fun s k =>
      k ≤ 6 * needle.len + 2 ∧ PackedOk needle s) := by
  unfold Searcher.withFallback
  split
  · exact twoway_costs needle hn rk none
  · apply Costs.free_bind (prefilterFallback_free rank pair needle)
    intro p _
    exact twoway_costs needle hn rk p

/-- **`Searcher::new`, cost form**: at most `7 * needle.len + 257` steps, and the vector kind is
only chosen for needles of at most `MAX_LEN` bytes. -/
theorem searcherNew_costs (cfg : Api.Cfg) (pf : PrefilterConfig) (rank : UInt8 → UInt8)
    (needle : Slice) (hn : needle.Valid) :
    Costs (Searcher.new cfg pf rank needle) (fun s k =>
      k ≤ 7 * needle.len + 257 ∧ PackedOk needle s) := by
  have hv : ∀ (rk : RabinKarp.Finder) (pp : VecFinder) (k1 k2 : Nat), k1 ≤ needle.len → k2 ≤ 255 →
      Costs (Searcher.withVec pf needle rk pp) (fun s k =>
        k1 + (k2 + k) ≤ 7 * needle.len + 257 ∧ PackedOk needle s) := by
    intro rk pp k1 k2 h1 h2
    apply (withVec_costs pf needle hn rk pp).mono
    intro s k ⟨hk, hp⟩
    exact ⟨by omega, hp⟩
  have hf : ∀ (rk : RabinKarp.Finder) (pair : Pair) (k1 k2 : Nat), k1 ≤ needle.len → k2 ≤ 255 →
      Costs (Searcher.withFallback pf rank pair needle rk) (fun s k =>
        k1 + (k2 + k) ≤ 7 * needle.len + 257 ∧ PackedOk needle s) := by
    intro rk pair k1 k2 h1 h2
    apply (withFallback_costs pf rank pair needle hn rk).mono
    intro s k ⟨hk, hp⟩
    exact ⟨by omega, hp⟩
  unfold Searcher.new
  apply Costs.bind (rkNew_costs needle)
  intro rk k1 hk1
  split
  · split
    · exact Costs.pure ⟨by omega, fun vf h => by cases h⟩
    · cstep; cstep
      exact Costs.pure ⟨by omega, fun vf h => by cases h⟩
  · apply Costs.bind (withRanker_costs needle rank)
    intro r k2 hk2
    cases r with
    | none =>
      dsimp only
      apply (twoway_costs needle hn rk none).mono
      intro s k ⟨hk, hp⟩
      exact ⟨by omega, hp⟩
    | some pair =>
      dsimp only
      cstep
      split
      · apply Costs.free_bind (withPair_free cfg .avx2 needle pair)
        intro r1 _
        cases r1 with
        | some pp => exact hv rk pp k1 k2 hk1 hk2
        | none =>
          dsimp only
          apply Costs.free_bind (withPair_free cfg .sse2 needle pair)
          intro r2 _
          cases r2 with
          | some pp => exact hv rk pp k1 k2 hk1 hk2
          | none => exact hf rk pair k1 k2 hk1 hk2
      · apply Costs.free_bind (withPair_free cfg .simd128 needle pair)
        intro r1 _
        cases r1 with
        | some pp => exact hv rk pp k1 k2 hk1 hk2
        | none => exact hf rk pair k1 k2 hk1 hk2
      · apply Costs.free_bind (withPair_free cfg .neon needle pair)
        intro r1 _
        cases r1 with
        | some pp => exact hv rk pp k1 k2 hk1 hk2
        | none => exact hf rk pair k1 k2 hk1 hk2
      · exact hf rk pair k1 k2 hk1 hk2

/-! ### `SearcherRev` -/

theorem searcherRevNew_costs (needle : Slice) (hn : needle.Valid) :
    Costs (SearcherRev.new needle) (fun _ k => k ≤ 7 * needle.len + 2) := by
  have hjp : ∀ (kind : SearcherRevKind) (k1 : Nat), k1 ≤ 6 * needle.len + 2 →
      Costs (do
          let rabinkarp ← RabinKarp.FinderRev.new needle
          pure ({ kind := kind, rabinkarp := rabinkarp } : SearcherRev))
        (fun _ k => k1 + k ≤ 7 * needle.len + 2) := by
    intro kind k1 hk1
    apply Costs.bind (rkRevNew_costs needle)
    intro rk k2 hk2
    exact Costs.pure (by omega)
  unfold SearcherRev.new
  dsimp only
  split
  · split
    · apply Costs.pure_bind
      exact (hjp _ 0 (by omega)).mono (fun _ k h => by omega)
    · cstep; cstep
      apply Costs.pure_bind
      exact (hjp _ 0 (by omega)).mono (fun _ k h => by omega)
  · apply Costs.bind (twFinderRevNew_costs needle hn)
    intro tw k1 hk1
    apply Costs.pure_bind
    exact hjp _ k1 hk1

/-- **`SearcherRev::rfind`, cost form**: at most `3 * scannedRev + 17 * needle.len + 192`
steps, `scannedRev` = `haystack.len()` - answer, or `haystack.len()` for `None`. -/
theorem searcherRevRfind_costs (cfg : Api.Cfg) {n : Slice} {s : SearcherRev} (hg : s.GoodFor n)
    (hn : n.Valid) (hay : Slice) (hh : hay.Valid) :
    Costs (s.rfind cfg hay n) (fun r k =>
      k ≤ 3 * Api.scannedRev r hay.len + 17 * n.len + 192) := by
  obtain ⟨hrk, hk⟩ := hg
  unfold SearcherRev.rfind
  split
  · exact Costs.pure (by omega)
  · rename_i hshort
    obtain ⟨kind, rk⟩ := s
    cases kind with
    | empty => exact Costs.pure (by omega)
    | oneByte b =>
      dsimp only
      apply (Api.memchr_rev_costs cfg ⟨b, []⟩ hay hh).mono
      intro r k hk1
      omega
    | twoWay tw =>
      obtain ⟨h2, n0, c0, c0', hv0, hb, hnew⟩ := hk
      dsimp only
      split
      · rename_i hf
        rw [isFast_eq_generated, decide_eq_true_eq] at hf
        apply (rkRfind_costs rk hay n hh hn).mono
        intro r k hk1
        have := rk_short64 hf rkFastThreshold_le (nl := n.len)
        omega
      · apply (TwoWay.rfind_costs n0 n hay tw c0 c0' hv0 hn hb hnew).mono
        intro r k hk1
        cases r with
        | none => simp only [TwoWay.endOf, Api.scannedRev] at hk1 ⊢; omega
        | some q => simp only [TwoWay.endOf, Api.scannedRev] at hk1 ⊢; omega

end Memchr.Memmem

/-! ### item 4 of the C13 cost plan -/

namespace Memchr.Cost

open Memchr.Memmem

/-- **`Cost.searcher_new`.**  `Searcher::new(prefilter, ranker, needle)` for every configuration,
prefilter setting, ranker and valid needle: returns normally a searcher that is good for the
needle (and gives the vector kind only needles of at most `MAX_LEN` bytes) in at most
`7 * needle.len() + 257` steps. -/
theorem searcher_new (cfg : Api.Cfg) (pf : PrefilterConfig) (rank : UInt8 → UInt8)
    (needle : Slice) (hn : needle.Valid) (c : Ctr) :
    ∃ s c', Searcher.new cfg pf rank needle c = .ok s c' ∧ s.GoodFor needle ∧
      PackedOk needle s ∧ c'.steps ≤ c.steps + 7 * needle.len + 257 := by
  obtain ⟨s, c', e, hg, _⟩ := Searcher.new_ok cfg pf rank needle hn (fun _ => twoWayFwdOk) c
  obtain ⟨k, ek, hk, hp⟩ := searcherNew_costs cfg pf rank needle hn c s c' e
  exact ⟨s, c', e, hg, hp, by omega⟩

theorem packedOk_congr {n n0 : Slice} (hb : n.toList = n0.toList) {s : Searcher}
    (h : PackedOk n0 s) : PackedOk n s := by
  intro vf hv
  have := h vf hv
  rw [(same_bytes hb).1]
  exact this

/-- **`Cost.searcher_find`.**  For the searcher `Searcher::new` returned for `n0` (any
configuration, prefilter setting, ranker), every search needle `n` holding the bytes of `n0`,
every valid haystack and EVERY `PrefilterState`: `Searcher::find` returns the leftmost occurrence
without a fault in at most `1031 * scanned + 17 * needle.len() + 2000` steps, `scanned` = answer
+ 1, or `haystack.len()` when the answer is `None`.  In particular at most
`1031 * (idx + needle.len()) + 2000` steps for `Some(idx)` and
`1031 * (haystack.len() + needle.len()) + 2000` in general. -/
theorem searcher_find (cfg : Api.Cfg) (pf : PrefilterConfig) (rank : UInt8 → UInt8)
    (n0 : Slice) (hn0 : n0.Valid) (c0 c0' : Ctr) (s : Searcher)
    (hnew : Searcher.new cfg pf rank n0 c0 = .ok s c0')
    (n hay : Slice) (hn : n.Valid) (hh : hay.Valid) (hb : n.toList = n0.toList)
    (st : PrefilterState) (c : Ctr) :
    ∃ st' c', s.find cfg st hay n c = .ok (Spec.leftmost hay.toArray n.toArray, st') c' ∧
      c'.steps ≤ c.steps + 1031 * Fallback.scanned (Spec.leftmost hay.toArray n.toArray) hay.len +
        17 * n.len + 2000 := by
  obtain ⟨s1, c1, e1, hg, hp, _⟩ := searcher_new cfg pf rank n0 hn0 c0
  rw [hnew] at e1
  simp only [Res.ok.injEq] at e1
  obtain ⟨rfl, rfl⟩ := e1
  obtain ⟨st', c', e⟩ := Searcher.find_good cfg (hg.congr hb) (fun _ => twoWayFwdOk) hay hh hn st c
  obtain ⟨k, ek, hk⟩ := searcherFind_costs cfg (hg.congr hb) (packedOk_congr hb hp) hn hay hh st
    c _ c' e
  exact ⟨st', c', e, by dsimp only at hk; omega⟩

/-- **`Cost.searcher_rev_new`.**  `SearcherRev::new(needle)`: at most `7 * needle.len() + 2`
steps. -/
theorem searcher_rev_new (needle : Slice) (hn : needle.Valid) (c : Ctr) :
    ∃ s c', SearcherRev.new needle c = .ok s c' ∧ s.GoodFor needle ∧
      c'.steps ≤ c.steps + 7 * needle.len + 2 := by
  obtain ⟨s, c', e, hg, _⟩ := SearcherRev.new_ok needle hn (fun _ => twoWayRevOk) c
  obtain ⟨k, ek, hk⟩ := searcherRevNew_costs needle hn c s c' e
  exact ⟨s, c', e, hg, by omega⟩

/-- **`Cost.searcher_rfind`.**  The reverse searcher, likewise: the rightmost occurrence in at
most `3 * scannedRev + 17 * needle.len() + 192` steps, `scannedRev` = `haystack.len()` - answer,
or `haystack.len()` when the answer is `None`. -/
theorem searcher_rfind (cfg : Api.Cfg) (n0 : Slice) (hn0 : n0.Valid) (c0 c0' : Ctr)
    (s : SearcherRev) (hnew : SearcherRev.new n0 c0 = .ok s c0')
    (n hay : Slice) (hn : n.Valid) (hh : hay.Valid) (hb : n.toList = n0.toList) (c : Ctr) :
    ∃ c', s.rfind cfg hay n c = .ok (Spec.rightmost hay.toArray n.toArray) c' ∧
      c'.steps ≤ c.steps + 3 * Api.scannedRev (Spec.rightmost hay.toArray n.toArray) hay.len +
        17 * n.len + 192 := by
  obtain ⟨s1, c1, e1, hg, _⟩ := searcher_rev_new n0 hn0 c0
  rw [hnew] at e1
  simp only [Res.ok.injEq] at e1
  obtain ⟨rfl, rfl⟩ := e1
  obtain ⟨c', e⟩ := SearcherRev.rfind_good cfg (hg.congr hb) (fun _ => twoWayRevOk) hay hh hn c
  obtain ⟨k, ek, hk⟩ := searcherRevRfind_costs cfg (hg.congr hb) hn hay hh c _ c' e
  exact ⟨c', e, by omega⟩

/-! ### `Finder` and the one-shot functions -/

theorem finderBuild_costs (cfg : Api.Cfg) (b : FinderBuilder) (rank : UInt8 → UInt8)
    (needle : Slice) (hn : needle.Valid) :
    Costs (b.buildForwardWithRanker cfg rank needle) (fun f k =>
      k ≤ 7 * needle.len + 257 ∧ f.GoodFor needle ∧ PackedOk needle f.searcher) := by
  unfold FinderBuilder.buildForwardWithRanker
  apply Costs.bind ((searcherNew_costs cfg b.prefilter rank needle hn).of_val (fun c => by
    obtain ⟨s, c', e, hg, _⟩ := Searcher.new_ok cfg b.prefilter rank needle hn
      (fun _ => twoWayFwdOk) c
    exact ⟨s, c', e, hg⟩))
  rintro s k1 ⟨⟨hk1, hp⟩, hg⟩
  apply Costs.pure
  exact ⟨by omega, ⟨⟨hn, rfl⟩, hg⟩, hp⟩

theorem finderNew_costs (cfg : Api.Cfg) (needle : Slice) (hn : needle.Valid) :
    Costs (Finder.new cfg needle) (fun f k =>
      k ≤ 7 * needle.len + 257 ∧ f.GoodFor needle ∧ PackedOk needle f.searcher) :=
  finderBuild_costs cfg FinderBuilder.new Pair.defaultRank needle hn

theorem finderFind_costs (cfg : Api.Cfg) {n0 : Slice} {f : Finder} (hg : f.GoodFor n0)
    (hp : PackedOk n0 f.searcher) (hay : Slice) (hh : hay.Valid) :
    Costs (f.find cfg hay) (fun r k =>
      k ≤ 1031 * Fallback.scanned r hay.len + 17 * n0.len + 2000) := by
  obtain ⟨⟨hv, hb⟩, hs⟩ := hg
  unfold Finder.find
  dsimp only
  apply Costs.bind (searcherFind_costs cfg (hs.congr hb) (packedOk_congr hb hp) hv hay hh
    PrefilterState.new)
  rintro ⟨r, st⟩ k hk
  apply Costs.pure
  have := (same_bytes hb).1
  dsimp only at hk ⊢
  omega

/-- **`Cost.finder_find`.**  `Finder::new(needle).find(haystack)`, construction included: the
leftmost occurrence in at most `1031 * scanned + 24 * needle.len() + 2257` steps. -/
theorem finder_find (cfg : Api.Cfg) (needle hay : Slice) (hn : needle.Valid) (hh : hay.Valid)
    (c : Ctr) :
    ∃ c', (Finder.new cfg needle >>= fun f => f.find cfg hay) c =
        .ok (Spec.leftmost hay.toArray needle.toArray) c' ∧
      c'.steps ≤ c.steps +
        1031 * Fallback.scanned (Spec.leftmost hay.toArray needle.toArray) hay.len +
        24 * needle.len + 2257 := by
  obtain ⟨c', e⟩ := C03.builder_find_all cfg FinderBuilder.new Pair.defaultRank needle hay hn hh c
  have hc : Costs (Finder.new cfg needle >>= fun f => f.find cfg hay) (fun r k =>
      k ≤ 1031 * Fallback.scanned r hay.len + 24 * needle.len + 2257) := by
    apply Costs.bind (finderNew_costs cfg needle hn)
    rintro f k1 ⟨hk1, hg, hp⟩
    apply (finderFind_costs cfg hg hp hay hh).mono
    intro r k hk
    omega
  obtain ⟨k, ek, hk⟩ := hc c _ c' e
  exact ⟨c', e, by omega⟩

/-- **`Cost.oneshot_find`.**  `memmem::find(haystack, needle)` (Rabin-Karp below the one-shot
threshold, `Finder::new` + `find` otherwise), every configuration: the leftmost occurrence in at
most `1031 * scanned + 24 * needle.len() + 2257` steps. -/
theorem oneshot_find (cfg : Api.Cfg) (needle hay : Slice) (hn : needle.Valid) (hh : hay.Valid)
    (c : Ctr) :
    ∃ c', Memmem.find cfg hay needle c = .ok (Spec.leftmost hay.toArray needle.toArray) c' ∧
      c'.steps ≤ c.steps +
        1031 * Fallback.scanned (Spec.leftmost hay.toArray needle.toArray) hay.len +
        24 * needle.len + 2257 := by
  obtain ⟨c', e⟩ := C03.oneshot_all cfg needle hay hn hh c
  have hc : Costs (Memmem.find cfg hay needle) (fun r k =>
      k ≤ 1031 * Fallback.scanned r hay.len + 24 * needle.len + 2257) := by
    unfold Memmem.find
    split
    · rename_i hsm
      apply Costs.bind (rkNew_costs needle)
      intro rk k1 hk1
      apply (rkFind_costs rk hay needle hh hn).mono
      intro r k hk
      have := rk_short64 hsm oneshotFwd_le (nl := needle.len)
      omega
    · apply Costs.bind (finderNew_costs cfg needle hn)
      rintro f k1 ⟨hk1, hg, hp⟩
      apply (finderFind_costs cfg hg hp hay hh).mono
      intro r k hk
      omega
  obtain ⟨k, ek, hk⟩ := hc c _ c' e
  exact ⟨c', e, by omega⟩

/-- **`Cost.oneshot_rfind`.**  `memmem::rfind(haystack, needle)`: the rightmost occurrence in at
most `3 * scannedRev + 24 * needle.len() + 194` steps. -/
theorem oneshot_rfind (cfg : Api.Cfg) (needle hay : Slice) (hn : needle.Valid) (hh : hay.Valid)
    (c : Ctr) :
    ∃ c', Memmem.rfind cfg hay needle c = .ok (Spec.rightmost hay.toArray needle.toArray) c' ∧
      c'.steps ≤ c.steps +
        3 * Api.scannedRev (Spec.rightmost hay.toArray needle.toArray) hay.len +
        24 * needle.len + 194 := by
  obtain ⟨c', e⟩ := C04.oneshot_all cfg needle hay hn hh c
  have hc : Costs (Memmem.rfind cfg hay needle) (fun r k =>
      k ≤ 3 * Api.scannedRev r hay.len + 24 * needle.len + 194) := by
    unfold Memmem.rfind
    split
    · rename_i hsm
      apply Costs.bind (rkRevNew_costs needle)
      intro rk k1 hk1
      apply (rkRfind_costs rk hay needle hh hn).mono
      intro r k hk
      have := rk_short64 hsm oneshotRev_le (nl := needle.len)
      omega
    · unfold FinderRev.new FinderBuilder.buildReverse
      apply Costs.bind (Costs.bind ((searcherRevNew_costs needle hn).of_val (fun c => by
        obtain ⟨s, c', e, hg, _⟩ := SearcherRev.new_ok needle hn (fun _ => twoWayRevOk) c
        exact ⟨s, c', e, hg⟩))
        (Q := fun (f : FinderRev) k => k ≤ 7 * needle.len + 2 ∧
          f.searcher.GoodFor needle ∧ f.needle.asSlice = needle) ?_)
      · rintro f k1 ⟨hk1, hg, hnd⟩
        unfold FinderRev.rfind
        rw [hnd]
        apply (searcherRevRfind_costs cfg hg hn hay hh).mono
        intro r k hk
        omega
      · rintro s k1 ⟨hk1, hg⟩
        apply Costs.pure
        exact ⟨by omega, hg, rfl⟩
  obtain ⟨k, ek, hk⟩ := hc c _ c' e
  exact ⟨c', e, by omega⟩

end Memchr.Cost
