/-
C13, byte search, part 2: the portable SWAR routines, the per-ISA wrappers, the dispatch and the
slice forms.  Result: `Cost.memchr` / `Cost.memrchr` - the dispatched `memchr` / `memrchr` /
`memchr2` / ... of every configuration costs at most `scanned + 2` steps, where `scanned` is the
number of bytes between the end the search starts from and the answer (inclusive), or the
haystack length when there is no answer - and `Cost.memchrOk`, the hypothesis the portable
prefilter needs about the crate's top-level `memchr`.
-/
import MemchrModel.Proofs.CostGeneric
import MemchrModel.Proofs.MemchrApi
import MemchrModel.Proofs.PairFallback

namespace Memchr

open Generic (upto downto)

namespace Swar

theorem readWordU_free (m : Mem) (a : Nat) : Free (readWordU m a) (fun _ => True) := by
  unfold readWordU
  exact Free.bind (Free.loadU _ _ _) (fun _ _ => (Free.pure _).mono (fun _ _ => trivial))

theorem readWordA_free (m : Mem) (a : Nat) : Free (readWordA m a) (fun _ => True) := by
  unfold readWordA
  exact Free.bind (Free.loadA _ _ _ _) (fun _ _ => (Free.pure _).mono (fun _ _ => trivial))

/-- forward post-condition shared by all byte searches: at most `K` steps more than the bytes
looked at -/
def FwdCost (K start end_ : Nat) (r : Option Nat) (k : Nat) : Prop :=
  (∀ p, r = some p → start ≤ p) ∧ k + start ≤ max start (upto r end_) + K

/-- reverse post-condition -/
def RevCost (K start end_ : Nat) (r : Option Nat) (k : Nat) : Prop :=
  (∀ p, r = some p → p < end_) ∧ k + min end_ (downto r start) ≤ end_ + K

theorem FwdCost.of_byte {start end_ lo : Nat} {r : Option Nat} {k j K : Nat}
    (h : (∀ p, r = some p → lo ≤ p ∧ p < end_) ∧ k + lo = upto r end_) (hlo : start ≤ lo)
    (hj : j + start ≤ lo + K) : FwdCost K start end_ r (j + k) := by
  obtain ⟨h1, h2⟩ := h
  refine ⟨fun p hp => by have := h1 p hp; omega, ?_⟩
  omega

theorem RevCost.of_byte {start end_ hi : Nat} {r : Option Nat} {k j K : Nat}
    (h : (∀ p, r = some p → start ≤ p ∧ p < hi) ∧ k + downto r start = hi) (hhi : hi ≤ end_)
    (hj : j + hi ≤ end_ + K) : RevCost K start end_ r (j + k) := by
  obtain ⟨h1, h2⟩ := h
  refine ⟨fun p hp => by have := h1 p hp; omega, ?_⟩
  omega

namespace One

theorem findLoop_costs (n1 : UInt8) (m : Mem) (lim cur : Nat) :
    Costs (findLoop n1 m lim cur) (fun cur' k => cur ≤ cur' ∧ 16 * k ≤ (cur' - cur) + 16) := by
  have hL : LOOP_BYTES = 16 := rfl
  fun_induction findLoop n1 m lim cur with
  | case1 cur h ih =>
    cstep; cstep
    apply Costs.free_bind (readWordA_free _ _); intro a _
    cstep
    apply Costs.free_bind (readWordA_free _ _); intro b _
    split
    · exact Costs.pure ⟨Nat.le_refl _, by omega⟩
    · cstep
      apply ih.mono
      intro cur' k ⟨h1, h2⟩
      exact ⟨by omega, by omega⟩
  | case2 cur h => exact Costs.pure ⟨Nat.le_refl _, by omega⟩

theorem findRaw_costs (n1 : UInt8) (m : Mem) (start end_ : Nat) :
    Costs (findRaw n1 m start end_) (FwdCost 2 start end_) := by
  have hL : LOOP_BYTES = 16 := rfl
  unfold findRaw
  split
  · exact Costs.pure ⟨nofun, by simp only [upto]; omega⟩
  · dsimp only
    cstep
    split
    · apply (Generic.fwdByteByByte_costs _ _ _ _).mono
      intro r k h
      have := FwdCost.of_byte (j := 0) (K := 2) h (Nat.le_refl _) (by omega)
      simpa using this
    · apply Costs.free_bind (readWordU_free _ _); intro chunk _
      cstep
      split
      · apply (Generic.fwdByteByByte_costs _ _ _ _).mono
        intro r k h
        exact FwdCost.of_byte h (Nat.le_refl _) (by omega)
      · cstep; cstep; cstep
        rename_i hgt
        simp only [decide_eq_true_eq] at hgt
        split
        · apply (Generic.fwdByteByByte_costs _ _ _ _).mono
          intro r k h
          exact FwdCost.of_byte h (by omega) (by omega)
        · cstep; cstep
          apply Costs.bind (findLoop_costs _ _ _ _)
          intro cur' k1 ⟨h1, h2⟩
          apply (Generic.fwdByteByByte_costs _ _ _ _).mono
          intro r k h
          have := FwdCost.of_byte (j := 1 + k1) (K := 2) (start := start) h (by omega) (by omega)
          simpa [Nat.add_assoc] using this

theorem rfindLoop_costs (n1 : UInt8) (m : Mem) (start cur : Nat) :
    Costs (rfindLoop n1 m start cur) (fun cur' k => cur' ≤ cur ∧ 16 * k ≤ (cur - cur') + 16) := by
  have hL : LOOP_BYTES = 16 := rfl
  fun_induction rfindLoop n1 m start cur with
  | case1 cur h ih =>
    cstep; cstep; cstep
    apply Costs.free_bind (readWordA_free _ _); intro a _
    cstep
    apply Costs.free_bind (readWordA_free _ _); intro b _
    split
    · exact Costs.pure ⟨Nat.le_refl _, by omega⟩
    · cstep
      apply ih.mono
      intro cur' k ⟨h1, h2⟩
      exact ⟨by omega, by omega⟩
  | case2 cur h => exact Costs.pure ⟨Nat.le_refl _, by omega⟩

theorem rfindRaw_costs (n1 : UInt8) (m : Mem) (start end_ : Nat) :
    Costs (rfindRaw n1 m start end_) (RevCost 2 start end_) := by
  have hL : LOOP_BYTES = 16 := rfl
  unfold rfindRaw
  split
  · exact Costs.pure ⟨nofun, by simp only [downto]; omega⟩
  · dsimp only
    cstep
    split
    · apply (Generic.revByteByByte_costs _ _ _ _).mono
      intro r k h
      have := RevCost.of_byte (j := 0) (K := 2) h (Nat.le_refl _) (by omega)
      simpa using this
    · cstep
      apply Costs.free_bind (readWordU_free _ _); intro chunk _
      cstep
      split
      · apply (Generic.revByteByByte_costs _ _ _ _).mono
        intro r k h
        exact RevCost.of_byte h (Nat.le_refl _) (by omega)
      · cstep; cstep
        split
        · apply (Generic.revByteByByte_costs _ _ _ _).mono
          intro r k h
          exact RevCost.of_byte h (by omega) (by omega)
        · cstep
          apply Costs.bind (rfindLoop_costs _ _ _ _)
          intro cur' k1 ⟨h1, h2⟩
          apply (Generic.revByteByByte_costs _ _ _ _).mono
          intro r k h
          have := RevCost.of_byte (j := 1 + k1) (K := 2) (end_ := end_) h (by omega) (by omega)
          simpa [Nat.add_assoc] using this

end One

namespace Multi

theorem findLoop_costs (ns : Needles) (m : Mem) (lim cur : Nat) :
    Costs (findLoop ns m lim cur) (fun cur' k => cur ≤ cur' ∧ 8 * k ≤ (cur' - cur) + 8) := by
  have hL : USIZE_BYTES = 8 := rfl
  fun_induction findLoop ns m lim cur with
  | case1 cur h ih =>
    cstep; cstep
    apply Costs.free_bind (readWordA_free _ _); intro a _
    split
    · exact Costs.pure ⟨Nat.le_refl _, by omega⟩
    · cstep
      apply ih.mono
      intro cur' k ⟨h1, h2⟩
      exact ⟨by omega, by omega⟩
  | case2 cur h => exact Costs.pure ⟨Nat.le_refl _, by omega⟩

theorem findRaw_costs (ns : Needles) (m : Mem) (start end_ : Nat) :
    Costs (findRaw ns m start end_) (FwdCost 2 start end_) := by
  have hL : USIZE_BYTES = 8 := rfl
  unfold findRaw
  split
  · exact Costs.pure ⟨nofun, by simp only [upto]; omega⟩
  · dsimp only
    cstep
    split
    · apply (Generic.fwdByteByByte_costs _ _ _ _).mono
      intro r k h
      have := FwdCost.of_byte (j := 0) (K := 2) h (Nat.le_refl _) (by omega)
      simpa using this
    · apply Costs.free_bind (readWordU_free _ _); intro chunk _
      cstep
      split
      · apply (Generic.fwdByteByByte_costs _ _ _ _).mono
        intro r k h
        exact FwdCost.of_byte h (Nat.le_refl _) (by omega)
      · cstep; cstep; cstep
        rename_i hgt
        simp only [decide_eq_true_eq] at hgt
        cstep; cstep
        apply Costs.bind (findLoop_costs _ _ _ _)
        intro cur' k1 ⟨h1, h2⟩
        apply (Generic.fwdByteByByte_costs _ _ _ _).mono
        intro r k h
        have := FwdCost.of_byte (j := 1 + k1) (K := 2) (start := start) h (by omega) (by omega)
        simpa [Nat.add_assoc] using this

theorem rfindLoop_costs (ns : Needles) (m : Mem) (start cur : Nat) :
    Costs (rfindLoop ns m start cur) (fun cur' k => cur' ≤ cur ∧ 8 * k ≤ (cur - cur') + 8) := by
  have hL : USIZE_BYTES = 8 := rfl
  fun_induction rfindLoop ns m start cur with
  | case1 cur h ih =>
    cstep; cstep; cstep
    apply Costs.free_bind (readWordA_free _ _); intro a _
    split
    · exact Costs.pure ⟨Nat.le_refl _, by omega⟩
    · cstep
      apply ih.mono
      intro cur' k ⟨h1, h2⟩
      exact ⟨by omega, by omega⟩
  | case2 cur h => exact Costs.pure ⟨Nat.le_refl _, by omega⟩

theorem rfindRaw_costs (ns : Needles) (m : Mem) (start end_ : Nat) :
    Costs (rfindRaw ns m start end_) (RevCost 2 start end_) := by
  have hL : USIZE_BYTES = 8 := rfl
  unfold rfindRaw
  split
  · exact Costs.pure ⟨nofun, by simp only [downto]; omega⟩
  · dsimp only
    cstep
    split
    · apply (Generic.revByteByByte_costs _ _ _ _).mono
      intro r k h
      have := RevCost.of_byte (j := 0) (K := 2) h (Nat.le_refl _) (by omega)
      simpa using this
    · cstep
      apply Costs.free_bind (readWordU_free _ _); intro chunk _
      cstep
      split
      · apply (Generic.revByteByByte_costs _ _ _ _).mono
        intro r k h
        exact RevCost.of_byte h (Nat.le_refl _) (by omega)
      · cstep; cstep; cstep
        apply Costs.bind (rfindLoop_costs _ _ _ _)
        intro cur' k1 ⟨h1, h2⟩
        apply (Generic.revByteByByte_costs _ _ _ _).mono
        intro r k h
        have := RevCost.of_byte (j := 1 + k1) (K := 2) (end_ := end_) h (by omega) (by omega)
        simpa [Nat.add_assoc] using this

end Multi

end Swar

namespace Api

open Swar (FwdCost RevCost)

/-! ### wrappers -/

theorem findRaw_costs {V : VecImpl} (L : Lawful V) (T : TickFree V) (ns : Needles) (u : Nat)
    (hu : 0 < u) (m : Mem) (start end_ : Nat) (hs : m.base ≤ start)
    (he : end_ ≤ m.base + m.bytes.size) (hlen : start + V.bytes ≤ end_) :
    Costs (Generic.findRaw V ns u hu m start end_) (FwdCost 2 start end_) := by
  intro c r c' e
  obtain ⟨r1, c1, e1, hfr, hc⟩ := Generic.findRaw_cost L T ns u hu m start end_ c hs he hlen
  rw [e1] at e
  simp only [Res.ok.injEq] at e
  obtain ⟨rfl, rfl⟩ := e
  have hpos := V.bytes_pos
  have : start ≤ upto r1 end_ := by
    cases r1 with
    | none => simp only [upto]; omega
    | some p => have := hfr.1; simp only [upto]; omega
  refine ⟨upto r1 end_ - start, by omega, ?_, by omega⟩
  intro p hp; subst hp; exact hfr.1

theorem rfindRaw_costs {V : VecImpl} (L : Lawful V) (T : TickFree V) (ns : Needles) (u : Nat)
    (hu : 0 < u) (m : Mem) (start end_ : Nat) (hs : m.base ≤ start)
    (he : end_ ≤ m.base + m.bytes.size) (hlen : start + V.bytes ≤ end_) :
    Costs (Generic.rfindRaw V ns u hu m start end_) (RevCost 2 start end_) := by
  intro c r c' e
  obtain ⟨r1, c1, e1, hlr, hc⟩ := Generic.rfindRaw_cost L T ns u hu m start end_ c hs he hlen
  rw [e1] at e
  simp only [Res.ok.injEq] at e
  obtain ⟨rfl, rfl⟩ := e
  have hpos := V.bytes_pos
  have hd : downto r1 start ≤ end_ := by
    cases r1 with
    | none => simp only [downto]; omega
    | some p => have := hlr.2.1; simp only [downto]; omega
  refine ⟨end_ + 1 - downto r1 start, by omega, ?_, by omega⟩
  intro p hp; subst hp; exact hlr.2.1

theorem wrapFind_costs {V : VecImpl} (L : Lawful V) (T : TickFree V) (ns : Needles) (m : Mem)
    (start end_ : Nat) (hs : m.base ≤ start) (he : end_ ≤ m.base + m.bytes.size) :
    Costs (wrapFind V ns m start end_) (FwdCost 2 start end_) := by
  unfold wrapFind
  split
  · exact Costs.pure ⟨nofun, by simp only [upto]; omega⟩
  · cstep
    split
    · apply (Generic.fwdByteByByte_costs _ _ _ _).mono
      intro r k h
      have := FwdCost.of_byte (j := 0) (K := 2) h (Nat.le_refl _) (by omega)
      simpa using this
    · exact findRaw_costs L T ns _ _ m start end_ hs he (by omega)

theorem wrapRfind_costs {V : VecImpl} (L : Lawful V) (T : TickFree V) (ns : Needles) (m : Mem)
    (start end_ : Nat) (hs : m.base ≤ start) (he : end_ ≤ m.base + m.bytes.size) :
    Costs (wrapRfind V ns m start end_) (RevCost 2 start end_) := by
  unfold wrapRfind
  split
  · exact Costs.pure ⟨nofun, by simp only [downto]; omega⟩
  · cstep
    split
    · apply (Generic.revByteByByte_costs _ _ _ _).mono
      intro r k h
      have := RevCost.of_byte (j := 0) (K := 2) h (Nat.le_refl _) (by omega)
      simpa using this
    · exact rfindRaw_costs L T ns _ _ m start end_ hs he (by omega)

theorem avx2Find_costs (ns : Needles) (m : Mem)
    (start end_ : Nat) (hs : m.base ≤ start) (he : end_ ≤ m.base + m.bytes.size) :
    Costs (avx2Find ns m start end_) (FwdCost 2 start end_) := by
  unfold avx2Find
  split
  · exact Costs.pure ⟨nofun, by simp only [upto]; omega⟩
  · cstep
    split
    · split
      · apply (Generic.fwdByteByByte_costs _ _ _ _).mono
        intro r k h
        have := FwdCost.of_byte (j := 0) (K := 2) h (Nat.le_refl _) (by omega)
        simpa using this
      · exact findRaw_costs Sensible.lawful_sse2 Sensible.tickFree_sse2 ns _ _ m start end_ hs he
          (by omega)
    · exact findRaw_costs Sensible.lawful_avx2 Sensible.tickFree_avx2 ns _ _ m start end_ hs he
        (by omega)

theorem avx2Rfind_costs (ns : Needles) (m : Mem)
    (start end_ : Nat) (hs : m.base ≤ start) (he : end_ ≤ m.base + m.bytes.size) :
    Costs (avx2Rfind ns m start end_) (RevCost 2 start end_) := by
  unfold avx2Rfind
  split
  · exact Costs.pure ⟨nofun, by simp only [downto]; omega⟩
  · cstep
    split
    · split
      · apply (Generic.revByteByByte_costs _ _ _ _).mono
        intro r k h
        have := RevCost.of_byte (j := 0) (K := 2) h (Nat.le_refl _) (by omega)
        simpa using this
      · exact rfindRaw_costs Sensible.lawful_sse2 Sensible.tickFree_sse2 ns _ _ m start end_ hs he
          (by omega)
    · exact rfindRaw_costs Sensible.lawful_avx2 Sensible.tickFree_avx2 ns _ _ m start end_ hs he
        (by omega)

theorem swarFind_fwd_costs (ns : Needles) (m : Mem) (start end_ : Nat) :
    Costs (swarFind ns false m start end_) (FwdCost 2 start end_) := by
  unfold swarFind
  split
  · exact Swar.One.findRaw_costs _ m start end_
  · exact Swar.Multi.findRaw_costs ns m start end_

theorem swarFind_rev_costs (ns : Needles) (m : Mem) (start end_ : Nat) :
    Costs (swarFind ns true m start end_) (RevCost 2 start end_) := by
  unfold swarFind
  split
  · exact Swar.One.rfindRaw_costs _ m start end_
  · exact Swar.Multi.rfindRaw_costs ns m start end_

/-- every backend, forward -/
theorem rawFind_fwd_costs (b : Backend) (ns : Needles) (m : Mem) (start end_ : Nat)
    (hs : m.base ≤ start) (he : end_ ≤ m.base + m.bytes.size) :
    Costs (rawFind b ns false m start end_) (FwdCost 2 start end_) := by
  cases b with
  | avx2 => exact avx2Find_costs ns m start end_ hs he
  | sse2 => exact wrapFind_costs Sensible.lawful_sse2 Sensible.tickFree_sse2 ns m start end_ hs he
  | neon => exact wrapFind_costs Neon.lawful Neon.tickFree ns m start end_ hs he
  | simd128 =>
    exact wrapFind_costs Sensible.lawful_simd128 Sensible.tickFree_simd128 ns m start end_ hs he
  | swar => exact swarFind_fwd_costs ns m start end_

/-- every backend, reverse -/
theorem rawFind_rev_costs (b : Backend) (ns : Needles) (m : Mem) (start end_ : Nat)
    (hs : m.base ≤ start) (he : end_ ≤ m.base + m.bytes.size) :
    Costs (rawFind b ns true m start end_) (RevCost 2 start end_) := by
  cases b with
  | avx2 => exact avx2Rfind_costs ns m start end_ hs he
  | sse2 => exact wrapRfind_costs Sensible.lawful_sse2 Sensible.tickFree_sse2 ns m start end_ hs he
  | neon => exact wrapRfind_costs Neon.lawful Neon.tickFree ns m start end_ hs he
  | simd128 =>
    exact wrapRfind_costs Sensible.lawful_simd128 Sensible.tickFree_simd128 ns m start end_ hs he
  | swar => exact swarFind_rev_costs ns m start end_

/-! ### slice forms -/

/-- bytes a forward search had to look at: `i + 1` for `Some(i)`, the length for `None`
(the same as `Fallback.scanned`) -/
def scannedFwd (r : Option Nat) (len : Nat) : Nat := Fallback.scanned r len

/-- bytes a reverse search had to look at: `len - i` for `Some(i)`, the length for `None` -/
def scannedRev (r : Option Nat) (len : Nat) : Nat :=
  match r with
  | some i => len - i
  | none => len

theorem searchSlice_fwd_costs (hay : Slice) (f : Nat → Nat → M (Option Nat))
    (hf : Costs (f hay.ptr (hay.ptr + hay.len)) (FwdCost 2 hay.ptr (hay.ptr + hay.len))) :
    Costs (searchSliceWithRaw hay f) (fun r k => k ≤ scannedFwd r hay.len + 2) := by
  unfold searchSliceWithRaw
  dsimp only
  cstep
  apply Costs.bind hf
  intro r k1 ⟨h1, h2⟩
  cases r with
  | none =>
    dsimp only
    apply Costs.pure
    simp only [upto, scannedFwd, Fallback.scanned] at h2 ⊢
    omega
  | some found =>
    dsimp only
    cstep
    apply Costs.pure
    have := h1 found rfl
    simp only [upto, scannedFwd, Fallback.scanned] at h2 ⊢
    omega

theorem searchSlice_rev_costs (hay : Slice) (f : Nat → Nat → M (Option Nat))
    (hf : Costs (f hay.ptr (hay.ptr + hay.len)) (RevCost 2 hay.ptr (hay.ptr + hay.len))) :
    Costs (searchSliceWithRaw hay f) (fun r k => k ≤ scannedRev r hay.len + 2) := by
  unfold searchSliceWithRaw
  dsimp only
  cstep
  apply Costs.bind hf
  intro r k1 ⟨h1, h2⟩
  cases r with
  | none =>
    dsimp only
    apply Costs.pure
    simp only [downto, scannedRev] at h2 ⊢
    omega
  | some found =>
    dsimp only
    cstep
    apply Costs.pure
    have := h1 found rfl
    simp only [downto, scannedRev] at h2 ⊢
    omega

theorem memchr_fwd_costs (cfg : Cfg) (ns : Needles) (hay : Slice) (hv : hay.Valid) :
    Costs (memchr cfg ns false hay) (fun r k => k ≤ scannedFwd r hay.len + 2) := by
  have hv' : hay.off + hay.len ≤ hay.mem.bytes.size := hv
  unfold memchr
  apply searchSlice_fwd_costs
  rw [memchrRaw_eq_select]
  exact rawFind_fwd_costs _ ns hay.mem _ _ (by simp [Slice.ptr]) (by simp [Slice.ptr]; omega)

theorem memchr_rev_costs (cfg : Cfg) (ns : Needles) (hay : Slice) (hv : hay.Valid) :
    Costs (memchr cfg ns true hay) (fun r k => k ≤ scannedRev r hay.len + 2) := by
  have hv' : hay.off + hay.len ≤ hay.mem.bytes.size := hv
  unfold memchr
  apply searchSlice_rev_costs
  rw [memchrRaw_eq_select]
  exact rawFind_rev_costs _ ns hay.mem _ _ (by simp [Slice.ptr]) (by simp [Slice.ptr]; omega)

end Api

/-! ### item 1 of the C13 cost plan -/

namespace Cost

open Api

/-- **`Cost.memchr`.**  `memchr` / `memchr2` / `memchr3` of every build + CPU configuration
(every backend: the generic vector routine on SSE2 / AVX2 / NEON / simd128 including the wrappers'
byte loops, and SWAR), every needle set and every valid haystack: returns the first needle byte's
index without a fault in at most `scanned + 2` steps, `scanned` = index + 1, or the haystack
length when there is none. -/
theorem memchr (cfg : Cfg) (ns : Needles) (hay : Slice) (hv : hay.Valid) (c : Ctr) :
    ∃ c', Api.memchr cfg ns false hay c = .ok (specIdx ns false hay) c' ∧
      c'.steps ≤ c.steps + scannedFwd (specIdx ns false hay) hay.len + 2 := by
  obtain ⟨c', e⟩ := memchr_correct cfg ns false hay hv c
  obtain ⟨k, ek, hk⟩ := memchr_fwd_costs cfg ns hay hv c _ c' e
  exact ⟨c', e, by omega⟩

/-- **`Cost.memrchr`.**  The reverse searches, likewise: at most `scanned + 2` steps, `scanned` =
haystack length - index of the answer, or the haystack length when there is none. -/
theorem memrchr (cfg : Cfg) (ns : Needles) (hay : Slice) (hv : hay.Valid) (c : Ctr) :
    ∃ c', Api.memchr cfg ns true hay c = .ok (specIdx ns true hay) c' ∧
      c'.steps ≤ c.steps + scannedRev (specIdx ns true hay) hay.len + 2 := by
  obtain ⟨c', e⟩ := memchr_correct cfg ns true hay hv c
  obtain ⟨k, ek, hk⟩ := memchr_rev_costs cfg ns hay hv c _ c' e
  exact ⟨c', e, by omega⟩

/-- both directions, weaker form: at most `haystack.len() + 2` steps -/
theorem memchr_le_len (cfg : Cfg) (ns : Needles) (rev : Bool) (hay : Slice) (hv : hay.Valid)
    (c : Ctr) :
    ∃ c', Api.memchr cfg ns rev hay c = .ok (specIdx ns rev hay) c' ∧
      c'.steps ≤ c.steps + hay.len + 2 := by
  cases rev with
  | false =>
    obtain ⟨c', e, h⟩ := memchr cfg ns hay hv c
    refine ⟨c', e, ?_⟩
    cases hs : specIdx ns false hay with
    | none => rw [hs] at h; simp only [scannedFwd, Fallback.scanned] at h; omega
    | some i =>
      have := specIdx_lt hs
      rw [hs] at h; simp only [scannedFwd, Fallback.scanned] at h; omega
  | true =>
    obtain ⟨c', e, h⟩ := memrchr cfg ns hay hv c
    refine ⟨c', e, ?_⟩
    cases hs : specIdx ns true hay with
    | none => rw [hs] at h; simp only [scannedRev] at h; omega
    | some i => rw [hs] at h; simp only [scannedRev] at h; omega

end Cost

end Memchr
