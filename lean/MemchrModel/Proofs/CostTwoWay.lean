/-
C13, item 3: Two-Way forward WITH a prefilter, in any `PrefilterState`.

The only thing assumed about the prefilter strategy is its cost (`StratCost`: at most
`4 * consumed + 1020` steps and a candidate inside the haystack - what `Cost.prefilter_costs`
proves for every strategy `Searcher::new` builds); soundness is not needed for the step count, and
neither is the adaptive `is_effective` test.

* `largeLoop_costs`: the `Large` loop is linear because a full-right-match iteration advances by
  `shift >= len / 2`.
* `smallLoop_costs`: the `Small` loop, where the prefilter resets the period memory, is linear
  because two full-right-match iterations of which the second is not a match are more than
  `len / 4` apart (`GapOK`, a statement about the needle that `Proofs/CostTwoWayGap.lean` proves
  from the certificate of `Finder::new`).
-/
import MemchrModel.Proofs.CostBase
import MemchrModel.Proofs.TwoWay
import MemchrModel.Proofs.PairFallback

namespace Memchr.TwoWay

open Memchr

/-- what the cost analysis needs from a prefilter strategy: on every valid slice it costs at most
`4 * consumed + 1020` steps (`consumed` = candidate + 1, or the length when there is none) and a
candidate lies inside the slice -/
def StratCost (strat : Slice → M (Option Nat)) : Prop :=
  ∀ sub : Slice, sub.Valid →
    Costs (strat sub) (fun r k => k ≤ 4 * Fallback.scanned r sub.len + 1020 ∧ ∀ x, r = some x → x < sub.len)

/-! ### the pieces -/

theorem isEffective_free (p : Pre) : Free p.isEffective (fun x => x.2.strat = p.strat) :=
  Free.of_total (fun c => by
    obtain ⟨b, st, e⟩ := pre_isEffective_ok p c
    exact ⟨_, e, rfl⟩)

theorem preFind_costs (p : Pre) (sub : Slice) (hv : sub.Valid) (hs : StratCost p.strat) :
    Costs (p.find sub) (fun x k => x.2.strat = p.strat ∧ k ≤ 4 * Fallback.scanned x.1 sub.len + 1021 ∧
      ∀ y, x.1 = some y → y < sub.len) := by
  unfold Pre.find
  apply Costs.bind (hs sub hv)
  intro r k1 ⟨h1, h2⟩
  cstep
  apply Costs.pure
  exact ⟨rfl, by dsimp only; omega, h2⟩

theorem contains_free (s : ApproximateByteSet) (b : UInt8) :
    Free (s.contains b) (fun r => r = s.has b) :=
  Free.of_total (fun c => ⟨_, contains_run s b c, rfl⟩)

theorem prefilterStep_costs (fn : String) (needle hay : Slice) (strat : Slice → M (Option Nat))
    (hv : hay.Valid) (hstrat : StratCost strat) (pre : Option Pre) (pos : Nat)
    (hpre : PreOK strat pre) (hpos : pos + needle.len ≤ hay.len) :
    Costs (Finder.prefilterStep fn needle hay pre pos) (fun x k => PreOK strat x.1 ∧
      match x.2 with
      | none => k ≤ 4 * (hay.len - pos) + 1021
      | some (delta, ran) => pos + delta + needle.len ≤ hay.len ∧
          (ran = false → delta = 0 ∧ k = 0) ∧ k ≤ 4 * (delta + 1) + 1021) := by
  cases pre with
  | none =>
    unfold Finder.prefilterStep
    apply Costs.pure
    exact ⟨hpre, hpos, fun _ => ⟨rfl, rfl⟩, by omega⟩
  | some p =>
    have hs : p.strat = strat := hpre p rfl
    have hok : ∀ q : Pre, q.strat = p.strat → PreOK strat (some q) := by
      intro q hq q' hq'
      cases hq'
      rw [hq, hs]
    unfold Finder.prefilterStep
    dsimp only
    apply Costs.free_bind (isEffective_free p)
    rintro ⟨eff, p1⟩ h1
    dsimp only at h1 ⊢
    split
    · cstep
      rename_i hle
      have hvs : Slice.Valid ⟨hay.mem, hay.off + pos, hay.len - pos⟩ := Fallback.drop_valid hv hle
      apply Costs.bind (preFind_costs p1 _ hvs (by rw [h1, hs]; exact hstrat))
      rintro ⟨r, p2⟩ k1 ⟨h2, hk, hlt⟩
      dsimp only at h2 hk hlt ⊢
      have hlen : (⟨hay.mem, hay.off + pos, hay.len - pos⟩ : Slice).len = hay.len - pos := rfl
      cases r with
      | none =>
        dsimp only
        apply Costs.pure
        simp only [Fallback.scanned] at hk
        exact ⟨hok p2 (by rw [h2, h1]), by omega⟩
      | some c =>
        have := hlt c rfl
        simp only [Fallback.scanned] at hk
        dsimp only
        split
        · apply Costs.pure
          exact ⟨hok p2 (by rw [h2, h1]), by dsimp only; omega⟩
        · apply Costs.pure
          exact ⟨hok p2 (by rw [h2, h1]), by omega, nofun, by omega⟩
    · apply Costs.pure
      exact ⟨hok p1 h1, hpos, fun _ => ⟨rfl, rfl⟩, by omega⟩

theorem fwdCmp_costs (fn : String) (n h : Slice) (pos i : Nat) (hb : pos + n.len ≤ h.len) :
    Costs (Finder.fwdCmp fn n h pos i) (fun i' k => i ≤ i' ∧ (i ≤ n.len → i' ≤ n.len) ∧
      MatchR h n pos i i' ∧ (i' < n.len → n.getD i' ≠ h.getD (pos + i')) ∧ k = i' - i) :=
  Costs.of_total (fun c => by
    obtain ⟨i', c', e, h1, h2, h3, h4, h5, _⟩ := fwdCmp_spec fn n h pos i c hb
    exact ⟨i', c', e, i' - i, by omega, h1, h2, h3, h4, rfl⟩)

theorem smallBackCmp_costs (n h : Slice) (pos shift j : Nat) (hb : pos + n.len ≤ h.len)
    (hj : j < n.len) :
    Costs (Finder.smallBackCmp n h pos shift j) (fun j' k => j' ≤ j ∧
      MatchR h n pos (j' + 1) (j + 1) ∧ (j' ≤ shift ∨ n.getD j' ≠ h.getD (pos + j')) ∧
      (shift ≤ j → shift ≤ j') ∧ k = j - j') :=
  Costs.of_total (fun c => by
    obtain ⟨j', c', e, h1, h2, h3, h4, h5, _⟩ := smallBackCmp_spec n h pos shift j c hb hj
    exact ⟨j', c', e, j - j', by omega, h1, h2, h3, h4, rfl⟩)

theorem largeBackCmp_costs (n h : Slice) (pos j : Nat) (hb : pos + n.len ≤ h.len)
    (hj : j ≤ n.len) :
    Costs (Finder.largeBackCmp n h pos j) (fun _ k => k ≤ j) :=
  Costs.of_total (fun c => by
    obtain ⟨r, c', e, _, _, h3, _⟩ := largeBackCmp_spec n h pos j c hb hj
    exact ⟨r, c', e, j, h3, Nat.le_refl _⟩)

/-! ### the `Large` loop -/

/-- **`find_large_imp` with a prefilter**: every iteration pays for itself out of the amount it
advances `pos` by (`shift >= len / 2` for a full right match). -/
theorem largeLoop_costs (tw : TwoWay) (needle hay : Slice) (hn : 0 < needle.len) (s : Nat)
    (strat : Slice → M (Option Nat)) (hv : hay.Valid) (hstrat : StratCost strat)
    (hcrit : tw.criticalPos ≤ needle.len) (hs : needle.len ≤ 2 * s) (hsl : s ≤ needle.len)
    (pre : Option Pre) (pos : Nat) (hpre : PreOK strat pre) (hpos : pos ≤ hay.len) :
    Costs (Finder.largeLoop tw needle hay hn s (needle.len - 1) pre pos) (fun x k =>
      PreOK strat x.2 ∧ k + 1028 * pos ≤ 1028 * Fallback.scanned x.1 hay.len + needle.len + 1022) := by
  fun_induction Finder.largeLoop tw needle hay hn s (needle.len - 1) pre pos with
  | case1 pre pos h ih1 ih2 ih3 =>
    cstep
    apply Costs.bind (prefilterStep_costs "find_large_imp" needle hay strat hv hstrat pre pos hpre h)
    rintro ⟨pre1, st⟩ k1 ⟨hpre1, hst⟩
    dsimp only at hpre1 hst ⊢
    cases st with
    | none =>
      dsimp only at hst ⊢
      apply Costs.pure
      refine ⟨hpre1, ?_⟩
      simp only [Fallback.scanned]
      omega
    | some dr =>
      obtain ⟨delta, ran⟩ := dr
      dsimp only at hst ⊢
      obtain ⟨hfit, hran, hk1⟩ := hst
      cstep
      apply Costs.free_bind (contains_free _ _)
      intro inSet _
      split
      · apply (ih1 pre1 delta hpre1 (by omega)).mono
        rintro ⟨r, pre'⟩ k ⟨h1, h2⟩
        exact ⟨h1, by dsimp only at h2 ⊢; omega⟩
      · apply Costs.bind (fwdCmp_costs "find_large_imp" needle hay (pos + delta) tw.criticalPos hfit)
        intro i k2 ⟨hi1, hi2, _, _, hk2⟩
        have hi2' := hi2 hcrit
        split
        · cstep
          apply (ih2 pre1 delta i (i - tw.criticalPos) hpre1 (by omega)).mono
          rintro ⟨r, pre'⟩ k ⟨h1, h2⟩
          exact ⟨h1, by dsimp only at h2 ⊢; omega⟩
        · apply Costs.bind (largeBackCmp_costs needle hay (pos + delta) tw.criticalPos hfit hcrit)
          intro all k3 hk3
          split
          · apply Costs.pure
            refine ⟨hpre1, ?_⟩
            simp only [Fallback.scanned]
            omega
          · split
            · exact Costs.fail
            · rename_i hs0
              apply (ih3 pre1 delta i hs0 hpre1 (by omega)).mono
              rintro ⟨r, pre'⟩ k ⟨h1, h2⟩
              exact ⟨h1, by dsimp only at h2 ⊢; omega⟩
  | case2 pre pos h =>
    apply Costs.pure
    refine ⟨hpre, ?_⟩
    simp only [Fallback.scanned]
    omega

/-! ### the `Small` loop -/

/-- Two positions `q < q'` at both of which the whole right part `needle[crit..]` matches, the
second of which is not an occurrence of the needle, are more than `len / 4` apart.  (A property
of the needle and its critical factorisation: see `Proofs/CostTwoWayGap.lean`.) -/
def GapOK (hay needle : Slice) (crit : Nat) : Prop :=
  ∀ q q', q < q' → MatchR hay needle q crit needle.len → MatchR hay needle q' crit needle.len →
    (∃ t, t < needle.len ∧ needle.getD t ≠ hay.getD (q' + t)) → needle.len + 1 ≤ 4 * (q' - q)

/-- credit towards the next full-right-match iteration: `4` per byte advanced since the last one
(`lastF`), capped at the needle length; the first one is paid by the constant -/
def fund (m pos : Nat) : Option Nat → Nat
  | none => m
  | some q => min m (4 * (pos - q))

/-- **`find_small_imp` with a prefilter.**  The prefilter resets the period memory, so a
full-right-match iteration can cost `len + 1` steps and advance by only `period`; but by `GapOK`
such iterations are more than `len / 4` apart unless the search returns, so each is paid for by
the `4` steps per byte set aside since the previous one. -/
theorem smallLoop_costs (tw : TwoWay) (needle hay : Slice) (hn : 0 < needle.len) (p : Nat)
    (strat : Slice → M (Option Nat)) (hv : hay.Valid) (hstrat : StratCost strat)
    (hcrit : tw.criticalPos < needle.len) (hp1 : 1 ≤ p) (hcp : tw.criticalPos ≤ p)
    (hpl : tw.criticalPos + p ≤ needle.len)
    (hper : ∀ t, t + p < needle.len → needle.getD t = needle.getD (t + p))
    (hgap : GapOK hay needle tw.criticalPos)
    (pre : Option Pre) (pos shift : Nat) (hpre : PreOK strat pre) (hpos : pos ≤ hay.len)
    (hshift : shift < needle.len) (hmem : MatchR hay needle pos 0 shift) :
    ∀ (lastF : Option Nat),
      (∀ q, lastF = some q → q < pos ∧ MatchR hay needle q tw.criticalPos needle.len) →
      Costs (Finder.smallLoop tw needle hay hn p (needle.len - 1) pre pos shift) (fun x k =>
        PreOK strat x.2 ∧ k + 1031 * pos ≤
          1031 * Fallback.scanned x.1 hay.len + fund needle.len pos lastF + needle.len + 1022) := by
  fun_induction Finder.smallLoop tw needle hay hn p (needle.len - 1) pre pos shift with
  | case1 pre pos shift h ih1 ih2 ih3 =>
    intro lastF hF
    cstep
    dsimp only
    apply Costs.bind (prefilterStep_costs "find_small_imp" needle hay strat hv hstrat pre pos hpre h)
    rintro ⟨pre1, st⟩ k1 ⟨hpre1, hst⟩
    dsimp only at hpre1 hst ⊢
    cases st with
    | none =>
      dsimp only at hst ⊢
      apply Costs.pure
      refine ⟨hpre1, ?_⟩
      simp only [Fallback.scanned]
      omega
    | some dr =>
      obtain ⟨delta, ran⟩ := dr
      dsimp only at hst ⊢
      obtain ⟨hfit, hran, hk1⟩ := hst
      -- the state after the prefilter block
      generalize hsh : (if ran = true then 0 else shift) = shift1
      generalize hi0 : (if ran = true then tw.criticalPos else max tw.criticalPos shift) = i0
      have hshift1 : shift1 < needle.len := by
        rw [← hsh]; split <;> omega
      have hi0' : i0 = max tw.criticalPos shift1 := by
        rw [← hsh, ← hi0]; split <;> simp
      have hmem1 : MatchR hay needle (pos + delta) 0 shift1 := by
        rw [← hsh]
        cases ran with
        | true => exact MatchR.empty _ _ _ _
        | false =>
          rw [(hran rfl).1]
          exact hmem
      -- the fund does not shrink when `pos` advances
      have hfund : ∀ adv, fund needle.len pos lastF ≤ fund needle.len (pos + adv) lastF ∧
          fund needle.len (pos + adv) lastF ≤ fund needle.len pos lastF + 4 * adv := by
        intro adv
        cases lastF with
        | none => simp only [fund]; omega
        | some q => simp only [fund]; omega
      have hF' : ∀ adv q, lastF = some q →
          q < pos + adv ∧ MatchR hay needle q tw.criticalPos needle.len := by
        intro adv q hq
        have := hF q hq
        exact ⟨by omega, this.2⟩
      cstep
      apply Costs.free_bind (contains_free _ _)
      intro inSet _
      split
      · have e : pos + delta + needle.len = pos + (delta + needle.len) := by omega
        apply (ih1 pre1 delta hpre1 (by omega) hn (MatchR.empty _ _ _ _) lastF
          (by rw [e]; exact hF' _)).mono
        rintro ⟨r, pre'⟩ k ⟨h1, h2⟩
        refine ⟨h1, ?_⟩
        have := hfund (delta + needle.len)
        rw [e] at h2
        dsimp only at h2 ⊢
        omega
      · apply Costs.bind (fwdCmp_costs "find_small_imp" needle hay (pos + delta) i0 hfit)
        intro i k2 ⟨hi1, hi2, hi3, hi4, hk2⟩
        have hi0n : i0 ≤ needle.len := by rw [hi0']; omega
        have hi2' := hi2 hi0n
        have hci : tw.criticalPos ≤ i := by rw [hi0'] at hi1; omega
        have hci0 : tw.criticalPos ≤ i0 := by rw [hi0']; omega
        have hright : MatchR hay needle (pos + delta) tw.criticalPos i := by
          intro t ht1 ht2
          by_cases hts : t < shift1
          · exact hmem1 t (Nat.zero_le _) hts
          · exact hi3 t (by rw [hi0']; omega) ht2
        split
        · cstep
          have e : pos + delta + (i - tw.criticalPos + 1) = pos + (delta + (i - tw.criticalPos + 1)) := by
            omega
          apply (ih2 pre1 delta i (i - tw.criticalPos) hpre1 (by omega) hn (MatchR.empty _ _ _ _)
            lastF (by rw [e]; exact hF' _)).mono
          rintro ⟨r, pre'⟩ k ⟨h1, h2⟩
          refine ⟨h1, ?_⟩
          have := hfund (delta + (i - tw.criticalPos + 1))
          rw [e] at h2
          dsimp only at h2 ⊢
          omega
        · rename_i hilt
          have hieq : i = needle.len := by omega
          subst hieq
          apply Costs.bind (smallBackCmp_costs needle hay (pos + delta) shift1 tw.criticalPos hfit hcrit)
          intro j k3 ⟨hj1, hj2, hj3, hj4, hk3⟩
          -- the continuation after a left mismatch
          have hmiss : (∃ t, t < needle.len ∧ needle.getD t ≠ hay.getD (pos + delta + t)) →
              Costs (csub "find_small_imp: needle.len() - period" needle.len p >>= fun shift' =>
                  if hp : p = 0 then Memchr.fail (Fault.panic "find_small_imp: no progress (period = 0)")
                  else Finder.smallLoop tw needle hay hn p (needle.len - 1) pre1
                    (pos + delta + p) shift')
                (fun x k => PreOK strat x.2 ∧ 1 + (k1 + (k2 + (k3 + k))) + 1031 * pos ≤
                  1031 * Fallback.scanned x.1 hay.len + fund needle.len pos lastF +
                    needle.len + 1022) := by
            intro hmis
            cstep
            split
            · exact Costs.fail
            · rename_i hp0
              apply (ih3 pre1 delta needle.len (needle.len - p) hp0 hpre1 (by omega) (by omega)
                (memory_after_period hper hcp hright) (some (pos + delta))
                (by intro q hq; cases hq; exact ⟨by omega, hright⟩)).mono
              rintro ⟨r, pre'⟩ k ⟨h1, h2⟩
              refine ⟨h1, ?_⟩
              dsimp only at h2 ⊢
              simp only [fund] at h2
              cases lastF with
              | none => simp only [fund]; omega
              | some q =>
                have hq := hF q rfl
                have := hgap q (pos + delta) (by omega) hq.2 hright hmis
                simp only [fund]
                omega
          split
          · cstep; cstep
            apply Costs.pure_bind
            split
            · apply Costs.pure
              refine ⟨hpre1, ?_⟩
              have := (hfund 0).1
              simp only [Fallback.scanned]
              omega
            · rename_i hne
              exact hmiss ⟨shift1, hshift1, by simpa using hne⟩
          · rename_i hjs
            apply Costs.pure_bind
            split
            · rename_i hf; cases hf
            · rcases hj3 with hj3 | hj3
              · exact absurd hj3 hjs
              · exact hmiss ⟨j, by omega, hj3⟩
  | case2 pre pos shift h =>
    intro lastF hF
    apply Costs.pure
    refine ⟨hpre, ?_⟩
    simp only [Fallback.scanned]
    omega

end Memchr.TwoWay
