/-
C06.refines / C07.iter_count: the double-ended iterators (`arch::generic::memchr::Iter`
instantiated with any backend's raw routines, hence `Memchr`, `Memchr2`, `Memchr3`, `OneIter`,
`TwoIter`, `ThreeIter`) refine the abstract iterator

  remaining = sorted list of the match positions of the ORIGINAL haystack inside the current
              window; `next` pops the front, `next_back` pops the back,

for every haystack, needle set, backend and every finite sequence of `next` / `next_back` /
`size_hint` / `count` operations.
-/
import MemchrModel.Proofs.MemchrApi

namespace Memchr.Api

open Memchr Memchr.Generic

/-! ### the spec satisfies the interval predicates -/

theorem byteAt_mem_window (m : Mem) {s len a : Nat} (h1 : s ≤ a) (h2 : a < s + len) :
    m.byteAt a ∈ m.window s len := by
  simp only [Mem.window, List.mem_map, List.mem_range]
  exact ⟨a - s, by omega, by congr 1; omega⟩

theorem specFirst_firstRes (ns : Needles) (m : Mem) (s e : Nat) :
    FirstRes m ns.confirm s e (specFirst ns m s e) := by
  unfold specFirst
  cases h : Spec.firstIdx ns.confirm (m.window s (e - s)) with
  | none =>
    intro a ha hb
    exact Spec.firstIdx_eq_none_iff.mp h _ (byteAt_mem_window m ha (by omega))
  | some i =>
    obtain ⟨hl, hp, hn⟩ := Spec.firstIdx_eq_some_iff.mp h
    simp only [Mem.window_length] at hl
    rw [Mem.window_getElem] at hp
    show FirstRes m ns.confirm s e (some (s + i))
    refine ⟨by omega, by omega, hp, ?_⟩
    intro a ha hb
    have := hn (a - s) (by omega)
    rw [Mem.window_getElem] at this
    have e1 : s + (a - s) = a := by omega
    rwa [e1] at this

theorem specLast_lastRes (ns : Needles) (m : Mem) (s e : Nat) :
    LastRes m ns.confirm s e (specLast ns m s e) := by
  unfold specLast
  cases h : Spec.lastIdx ns.confirm (m.window s (e - s)) with
  | none =>
    intro a ha hb
    exact Spec.lastIdx_eq_none_iff.mp h _ (byteAt_mem_window m ha (by omega))
  | some i =>
    obtain ⟨hl, hp, hn⟩ := Spec.lastIdx_eq_some_iff.mp h
    simp only [Mem.window_length] at hl
    rw [Mem.window_getElem] at hp
    show LastRes m ns.confirm s e (some (s + i))
    refine ⟨by omega, by omega, hp, ?_⟩
    intro a ha hb
    have := hn (a - s) (by simp only [Mem.window_length]; omega) (by omega)
    rw [Mem.window_getElem] at this
    have e1 : s + (a - s) = a := by omega
    rwa [e1] at this

/-! ### the abstract iterator -/

/-- the positions `i` in `[lo, hi)` with `f i`, in increasing order -/
def matchesIn (f : Nat → Bool) (lo hi : Nat) : List Nat := (List.range' lo (hi - lo)).filter f

theorem mem_matchesIn {f : Nat → Bool} {lo hi i : Nat} :
    i ∈ matchesIn f lo hi ↔ lo ≤ i ∧ i < hi ∧ f i = true := by
  simp only [matchesIn, List.mem_filter, List.mem_range'_1]
  constructor
  · rintro ⟨⟨h1, h2⟩, h3⟩; exact ⟨h1, by omega, h3⟩
  · rintro ⟨h1, h2, h3⟩; exact ⟨⟨h1, by omega⟩, h3⟩

theorem matchesIn_sorted (f : Nat → Bool) (lo hi : Nat) :
    (matchesIn f lo hi).Pairwise (· < ·) :=
  List.Pairwise.filter _ (List.pairwise_lt_range')

theorem matchesIn_length_le (f : Nat → Bool) (lo hi : Nat) :
    (matchesIn f lo hi).length ≤ hi - lo := by
  have := List.length_filter_le f (List.range' lo (hi - lo))
  simpa [matchesIn] using this

theorem matchesIn_nil {f : Nat → Bool} {lo hi : Nat}
    (h : ∀ j, lo ≤ j → j < hi → f j = false) : matchesIn f lo hi = [] := by
  simp only [matchesIn, List.filter_eq_nil_iff, List.mem_range'_1]
  intro j ⟨h1, h2⟩
  simp [h j h1 (by omega)]

theorem range'_split {lo hi x : Nat} (h1 : lo ≤ x) (h2 : x < hi) :
    List.range' lo (hi - lo) = List.range' lo (x - lo) ++ x :: List.range' (x + 1) (hi - (x + 1)) := by
  have e1 : hi - lo = (x - lo) + ((hi - (x + 1)) + 1) := by omega
  have e2 : lo + (x - lo) = x := by omega
  rw [e1, ← List.range'_append_1, e2, List.range'_succ]

/-- a first hit at `x` splits off the head -/
theorem matchesIn_first {f : Nat → Bool} {lo hi x : Nat} (h1 : lo ≤ x) (h2 : x < hi)
    (hx : f x = true) (hn : ∀ j, lo ≤ j → j < x → f j = false) :
    matchesIn f lo hi = x :: matchesIn f (x + 1) hi := by
  have hnil : (List.range' lo (x - lo)).filter f = [] := by
    have := matchesIn_nil (f := f) (lo := lo) (hi := x) hn
    simpa [matchesIn] using this
  unfold matchesIn
  rw [range'_split h1 h2, List.filter_append, hnil, List.nil_append, List.filter_cons, hx]
  simp

/-- a last hit at `x` splits off the last element -/
theorem matchesIn_last {f : Nat → Bool} {lo hi x : Nat} (h1 : lo ≤ x) (h2 : x < hi)
    (hx : f x = true) (hn : ∀ j, x + 1 ≤ j → j < hi → f j = false) :
    matchesIn f lo hi = matchesIn f lo x ++ [x] := by
  have hnil : (List.range' (x + 1) (hi - (x + 1))).filter f = [] := by
    have := matchesIn_nil (f := f) (lo := x + 1) (hi := hi) hn
    simpa [matchesIn] using this
  unfold matchesIn
  rw [range'_split h1 h2, List.filter_append, List.filter_cons, hx, hnil]
  simp

/-- abstract step: `next` pops the front, `next_back` pops the back, `size_hint` and `count`
report the exact number of remaining elements -/
def absStep (op : Op) (rem : List Nat) : Out × List Nat :=
  match op with
  | .next => (.idx rem.head?, rem.tail)
  | .nextBack => (.idx rem.getLast?, rem.dropLast)
  | .sizeHint => (.hint rem.length (some rem.length), rem)
  | .count => (.cnt rem.length, rem)

def absRun : List Op → List Nat → List Out × List Nat
  | [], rem => ([], rem)
  | op :: ops, rem =>
    let (o, rem') := absStep op rem
    let (os, rem'') := absRun ops rem'
    (o :: os, rem'')

/-- a model output is acceptable for an abstract output: `next`/`next_back`/`count` agree
exactly; `size_hint` is `(0, Some hi)` with `0 ≤ remaining ≤ hi`. -/
def OutOk : Out → Out → Prop
  | .idx o, .idx o' => o = o'
  | .cnt k, .cnt k' => k = k'
  | .hint lo hi, .hint n _ => lo = 0 ∧ ∃ h, hi = some h ∧ n ≤ h
  | _, _ => False

/-- pointwise `OutOk` on two output lists of the same length -/
inductive OutsOk : List Out → List Out → Prop
  | nil : OutsOk [] []
  | cons {a b : Out} {as bs : List Out} : OutOk a b → OutsOk as bs → OutsOk (a :: as) (b :: bs)

/-- once empty, the abstract iterator returns `none` forever (and stays empty) -/
theorem absRun_nil (ops : List Op) :
    (absRun ops []).2 = [] ∧
    ∀ o ∈ (absRun ops []).1, o = .idx none ∨ o = .hint 0 (some 0) ∨ o = .cnt 0 := by
  induction ops with
  | nil => simp [absRun]
  | cons op ops ih =>
    cases op <;> simp [absRun, absStep, ih.1] <;> exact ih.2

theorem outsOk_of_abs_nil {outs aouts : List Out} (hok : OutsOk outs aouts)
    (habs : ∀ o ∈ aouts, o = .idx none ∨ o = .hint 0 (some 0) ∨ o = .cnt 0) :
    ∀ o ∈ outs, o = .idx none ∨ o = .cnt 0 ∨ ∃ h, o = .hint 0 (some h) := by
  induction hok with
  | nil => simp
  | @cons a b as bs hab _ ih =>
    intro o ho
    rcases List.mem_cons.mp ho with rfl | ho
    · rcases habs b (List.mem_cons_self ..) with rfl | rfl | rfl
      · cases o with
        | idx x => exact Or.inl (congrArg Out.idx hab)
        | hint _ _ => exact absurd hab (by simp [OutOk])
        | cnt _ => exact absurd hab (by simp [OutOk])
      · cases o with
        | hint lo hi =>
          obtain ⟨rfl, h, rfl, _⟩ := hab
          exact Or.inr (Or.inr ⟨h, rfl⟩)
        | idx _ => exact absurd hab (by simp [OutOk])
        | cnt _ => exact absurd hab (by simp [OutOk])
      · cases o with
        | cnt k => exact Or.inr (Or.inl (congrArg Out.cnt hab))
        | hint _ _ => exact absurd hab (by simp [OutOk])
        | idx _ => exact absurd hab (by simp [OutOk])
    · exact ih (fun o ho => habs o (List.mem_cons_of_mem _ ho)) o ho

/-! ### refinement relation -/

/-- "position `i` of the haystack is a needle" -/
def posPred (hay : Slice) (ns : Needles) (i : Nat) : Bool :=
  ns.confirm (hay.mem.byteAt (hay.ptr + i))

/-- the abstract iterator's initial state: every match position of the haystack -/
def allMatches (hay : Slice) (ns : Needles) : List Nat := matchesIn (posPred hay ns) 0 hay.len

/-- The iterator invariant and its abstraction: the pointers stay ordered inside the haystack
(`start <= end` always: `next` sets `start = found + 1 <= end`, `next_back` sets
`end = found >= start`) and the abstract state is the list of matches in the window. -/
structure Refines (hay : Slice) (ns : Needles) (it : Iter) (rem : List Nat) : Prop where
  mem : it.mem = hay.mem
  os : it.originalStart = hay.ptr
  lo : hay.ptr ≤ it.start
  le : it.start ≤ it.end_
  hi : it.end_ ≤ hay.ptr + hay.len
  rem : rem = matchesIn (posPred hay ns) (it.start - hay.ptr) (it.end_ - hay.ptr)

theorem refines_new (hay : Slice) (ns : Needles) :
    Refines hay ns (Iter.new hay) (allMatches hay ns) where
  mem := rfl
  os := rfl
  lo := Nat.le_refl _
  le := by simp [Iter.new]
  hi := Nat.le_refl _
  rem := by simp [allMatches, Iter.new]

/-- what the refinement needs from the raw routines an iterator is instantiated with -/
structure RawOk (f : RawFns) (ns : Needles) (m : Mem) : Prop where
  find : ∀ s e c, m.base ≤ s → e ≤ m.base + m.bytes.size →
    ∃ c', f.find s e c = .ok (specFirst ns m s e) c'
  rfind : ∀ s e c, m.base ≤ s → e ≤ m.base + m.bytes.size →
    ∃ c', f.rfind s e c = .ok (specLast ns m s e) c'
  count : ∀ cr, f.count = some cr → ns.rest = [] ∧
    ∀ s e c, m.base ≤ s → e ≤ m.base + m.bytes.size →
      ∃ c', cr s e c = .ok (specCount ns.first m s e) c'

theorem rawOk_ofBackend (b : Backend) (ns : Needles) (m : Mem) :
    RawOk (RawFns.ofBackend b ns m) ns m where
  find := fun s e c hs he => rawFind_correct b ns false m s e c hs he
  rfind := fun s e c hs he => rawFind_correct b ns true m s e c hs he
  count := by
    intro cr h
    obtain ⟨n1, rest⟩ := ns
    cases rest with
    | nil =>
      simp only [RawFns.ofBackend, Option.some.injEq] at h
      subst h
      exact ⟨rfl, fun s e c hs he => rawCount_correct b n1 m s e c hs he⟩
    | cons a r => simp [RawFns.ofBackend] at h

theorem rawOk_ofCfg (cfg : Cfg) (ns : Needles) (m : Mem) :
    RawOk (RawFns.ofCfg cfg ns m) ns m where
  find := fun s e c hs he => by
    show ∃ c', memchrRaw cfg ns false m s e c = _
    rw [memchrRaw_eq_select]; exact rawFind_correct _ ns false m s e c hs he
  rfind := fun s e c hs he => by
    show ∃ c', memchrRaw cfg ns true m s e c = _
    rw [memchrRaw_eq_select]; exact rawFind_correct _ ns true m s e c hs he
  count := by
    intro cr h
    obtain ⟨n1, rest⟩ := ns
    cases rest with
    | nil =>
      simp only [RawFns.ofCfg, Option.some.injEq] at h
      subst h
      refine ⟨rfl, fun s e c hs he => ?_⟩
      rw [countRaw_eq_select]; exact rawCount_correct _ n1 m s e c hs he
    | cons a r => simp [RawFns.ofCfg] at h

/-! ### single operations -/

section
variable {hay : Slice} {ns : Needles} {f : RawFns}

theorem base_le_ptr (hay : Slice) : hay.mem.base ≤ hay.ptr := by simp [Slice.ptr]

theorem end_le (hay : Slice) (hv : hay.Valid) :
    hay.ptr + hay.len ≤ hay.mem.base + hay.mem.bytes.size := by
  have : hay.off + hay.len ≤ hay.mem.bytes.size := hv
  simp [Slice.ptr]; omega

theorem next_refines (hv : hay.Valid) (hf : RawOk f ns hay.mem) {it : Iter} {rem : List Nat}
    (R : Refines hay ns it rem) (c : Ctr) :
    ∃ it' c', it.next f.find c = .ok (rem.head?, it') c' ∧ Refines hay ns it' rem.tail := by
  obtain ⟨hm, hos, hlo, hle, hhi, hrem⟩ := R
  have hb := base_le_ptr hay
  have he := end_le hay hv
  obtain ⟨c', hrun⟩ := hf.find it.start it.end_ c (by omega) (by omega)
  have hres := specFirst_firstRes ns hay.mem it.start it.end_
  unfold Iter.next
  simp only [bind, M.bind, hrun]
  cases hsp : specFirst ns hay.mem it.start it.end_ with
  | none =>
    rw [hsp] at hres
    have hnil : rem = [] := by
      rw [hrem]
      apply matchesIn_nil
      intro j hj1 hj2
      exact hres (hay.ptr + j) (by omega) (by omega)
    subst hnil
    exact ⟨it, c', rfl, ⟨hm, hos, hlo, hle, hhi, hrem⟩⟩
  | some x =>
    rw [hsp] at hres
    obtain ⟨a1, a2, a3, a4⟩ := hres
    have hsplit : rem = (x - hay.ptr) :: matchesIn (posPred hay ns) (x - hay.ptr + 1)
        (it.end_ - hay.ptr) := by
      rw [hrem]
      apply matchesIn_first (by omega) (by omega)
      · show ns.confirm (hay.mem.byteAt (hay.ptr + (x - hay.ptr))) = true
        have : hay.ptr + (x - hay.ptr) = x := by omega
        rw [this]; exact a3
      · intro j hj1 hj2
        exact a4 (hay.ptr + j) (by omega) (by omega)
    simp only [hm, hos]
    rw [Mem.distance_ok hay.mem _ x hay.ptr hb (by omega) (by omega),
      Mem.padd_ok hay.mem _ x 1 (by omega) (by omega)]
    rw [hsplit]
    refine ⟨_, c', rfl, ⟨rfl, rfl, ?_, ?_, hhi, ?_⟩⟩
    · show hay.ptr ≤ x + 1; omega
    · show x + 1 ≤ it.end_; omega
    · show _ = matchesIn _ (x + 1 - hay.ptr) _
      have : x + 1 - hay.ptr = x - hay.ptr + 1 := by omega
      rw [this]; rfl

theorem nextBack_refines (hv : hay.Valid) (hf : RawOk f ns hay.mem) {it : Iter} {rem : List Nat}
    (R : Refines hay ns it rem) (c : Ctr) :
    ∃ it' c', it.nextBack f.rfind c = .ok (rem.getLast?, it') c' ∧
      Refines hay ns it' rem.dropLast := by
  obtain ⟨hm, hos, hlo, hle, hhi, hrem⟩ := R
  have hb := base_le_ptr hay
  have he := end_le hay hv
  obtain ⟨c', hrun⟩ := hf.rfind it.start it.end_ c (by omega) (by omega)
  have hres := specLast_lastRes ns hay.mem it.start it.end_
  unfold Iter.nextBack
  simp only [bind, M.bind, hrun]
  cases hsp : specLast ns hay.mem it.start it.end_ with
  | none =>
    rw [hsp] at hres
    have hnil : rem = [] := by
      rw [hrem]
      apply matchesIn_nil
      intro j hj1 hj2
      exact hres (hay.ptr + j) (by omega) (by omega)
    subst hnil
    exact ⟨it, c', rfl, ⟨hm, hos, hlo, hle, hhi, hrem⟩⟩
  | some x =>
    rw [hsp] at hres
    obtain ⟨a1, a2, a3, a4⟩ := hres
    have hsplit : rem = matchesIn (posPred hay ns) (it.start - hay.ptr) (x - hay.ptr)
        ++ [x - hay.ptr] := by
      rw [hrem]
      apply matchesIn_last (by omega) (by omega)
      · show ns.confirm (hay.mem.byteAt (hay.ptr + (x - hay.ptr))) = true
        have : hay.ptr + (x - hay.ptr) = x := by omega
        rw [this]; exact a3
      · intro j hj1 hj2
        exact a4 (hay.ptr + j) (by omega) (by omega)
    simp only [hm, hos]
    rw [Mem.distance_ok hay.mem _ x hay.ptr hb (by omega) (by omega)]
    rw [hsplit, List.getLast?_concat, List.dropLast_concat]
    refine ⟨_, c', rfl, ⟨rfl, rfl, hlo, ?_, ?_, rfl⟩⟩
    · show it.start ≤ x; omega
    · show x ≤ hay.ptr + hay.len; omega

theorem confirm_one (n1 b : UInt8) : Needles.confirm ⟨n1, []⟩ b = (b == n1) :=
  congrFun (Swar.One.confirm_eq n1) b

/-- `countP` over an address window = number of match positions -/
theorem countP_window_eq (hay : Slice) (ns : Needles) (s e : Nat) (hs : hay.ptr ≤ s) :
    Spec.countP ns.confirm (hay.mem.window s (e - s))
      = (matchesIn (posPred hay ns) (s - hay.ptr) (e - hay.ptr)).length := by
  have e1 : e - hay.ptr - (s - hay.ptr) = e - s := by omega
  unfold Spec.countP matchesIn Mem.window
  rw [e1, ← List.countP_eq_length_filter, List.range'_eq_map_range, List.countP_map,
    List.countP_map]
  apply List.countP_congr
  intro i _
  simp only [Function.comp, posPred]
  have : hay.ptr + (s - hay.ptr + i) = s + i := by omega
  rw [this]

theorem count_refines_raw (hv : hay.Valid) (hf : RawOk f ns hay.mem) {it : Iter}
    {rem : List Nat} (R : Refines hay ns it rem) (cr) (hcr : f.count = some cr) (c : Ctr) :
    ∃ c', it.count cr c = .ok rem.length c' := by
  obtain ⟨hm, hos, hlo, hle, hhi, hrem⟩ := R
  have hb := base_le_ptr hay
  have he := end_le hay hv
  obtain ⟨hrest, hc⟩ := hf.count cr hcr
  obtain ⟨c', hrun⟩ := hc it.start it.end_ c (by omega) (by omega)
  refine ⟨c', ?_⟩
  unfold Iter.count
  rw [hrun, hrem, ← countP_window_eq hay ns it.start it.end_ hlo]
  unfold specCount
  obtain ⟨n1, rest⟩ := ns
  simp only at hrest
  subst hrest
  congr 2
  funext b
  exact (confirm_one n1 b).symm

/-- the default `Iterator::count` (a `next` loop): with enough fuel it returns the number of
remaining elements and never runs out of fuel -/
theorem countByNext_refines (hv : hay.Valid) (hf : RawOk f ns hay.mem) (fuel : Nat) {it : Iter}
    {rem : List Nat} (R : Refines hay ns it rem) (acc : Nat) (hfuel : rem.length < fuel)
    (c : Ctr) :
    ∃ c', Iter.countByNext f.find fuel it acc c = .ok (acc + rem.length) c' := by
  induction fuel generalizing it rem acc c with
  | zero => omega
  | succ k ih =>
    obtain ⟨it', c', hrun, R'⟩ := next_refines hv hf R c
    unfold Iter.countByNext
    simp only [bind, M.bind, hrun]
    cases rem with
    | nil => exact ⟨c', rfl⟩
    | cons x xs =>
      simp only [List.head?_cons, List.tail_cons, List.length_cons] at R' hfuel ⊢
      obtain ⟨c'', h⟩ := ih R' (acc + 1) (by omega) c'
      exact ⟨c'', by rw [h]; congr 1; omega⟩

theorem countWith_refines (hv : hay.Valid) (hf : RawOk f ns hay.mem) {it : Iter}
    {rem : List Nat} (R : Refines hay ns it rem) (c : Ctr) :
    ∃ c', it.countWith f c = .ok rem.length c' := by
  unfold Iter.countWith
  cases hc : f.count with
  | some cr => exact count_refines_raw hv hf R cr hc c
  | none =>
    have hlen : rem.length ≤ it.end_ - it.start := by
      have := matchesIn_length_le (posPred hay ns) (it.start - hay.ptr) (it.end_ - hay.ptr)
      rw [← R.rem] at this
      have := R.lo
      omega
    obtain ⟨c', h⟩ := countByNext_refines hv hf (it.end_ - it.start + 1) R 0 (by omega) c
    exact ⟨c', by simpa using h⟩

theorem step_refines (hv : hay.Valid) (hf : RawOk f ns hay.mem) (op : Op) {it : Iter}
    {rem : List Nat} (R : Refines hay ns it rem) (c : Ctr) :
    ∃ o it' c', it.step f op c = .ok (o, it') c' ∧ OutOk o (absStep op rem).1 ∧
      Refines hay ns it' (absStep op rem).2 := by
  cases op with
  | next =>
    obtain ⟨it', c', hrun, R'⟩ := next_refines hv hf R c
    refine ⟨.idx rem.head?, it', c', ?_, (rfl : rem.head? = rem.head?), R'⟩
    simp only [Iter.step, bind, M.bind, hrun]; rfl
  | nextBack =>
    obtain ⟨it', c', hrun, R'⟩ := nextBack_refines hv hf R c
    refine ⟨.idx rem.getLast?, it', c', ?_, (rfl : rem.getLast? = rem.getLast?), R'⟩
    simp only [Iter.step, bind, M.bind, hrun]; rfl
  | sizeHint =>
    refine ⟨.hint 0 (some (it.end_ - it.start)), it, c, rfl, ⟨rfl, it.end_ - it.start, rfl, ?_⟩, R⟩
    have := matchesIn_length_le (posPred hay ns) (it.start - hay.ptr) (it.end_ - hay.ptr)
    rw [← R.rem] at this
    have := R.lo
    show rem.length ≤ it.end_ - it.start
    omega
  | count =>
    obtain ⟨c', hrun⟩ := countWith_refines hv hf R c
    refine ⟨.cnt rem.length, it, c', ?_, (rfl : rem.length = rem.length), R⟩
    simp only [Iter.step, bind, M.bind, hrun]; rfl

/-- C06.refines (general form): from any related pair of states, every finite sequence of
operations runs without fault, each output is acceptable for the abstract iterator's output,
and the final states are related again. -/
theorem run_refines (hv : hay.Valid) (hf : RawOk f ns hay.mem) (ops : List Op) {it : Iter}
    {rem : List Nat} (R : Refines hay ns it rem) (c : Ctr) :
    ∃ outs it' c', Iter.run f ops it c = .ok (outs, it') c' ∧
      OutsOk outs (absRun ops rem).1 ∧ Refines hay ns it' (absRun ops rem).2 := by
  induction ops generalizing it rem c with
  | nil => exact ⟨[], it, c, rfl, OutsOk.nil, R⟩
  | cons op ops ih =>
    obtain ⟨o, it1, c1, h1, ok1, R1⟩ := step_refines hv hf op R c
    obtain ⟨os, it2, c2, h2, ok2, R2⟩ := ih R1 c1
    refine ⟨o :: os, it2, c2, ?_, OutsOk.cons ok1 ok2, R2⟩
    simp only [Iter.run, bind, M.bind, h1, h2]
    rfl

end

/-! ### the properties -/

/-- C06.refines for the wrapper iterators (`OneIter`/`TwoIter`/`ThreeIter` of every backend):
for every valid haystack slice, needle set, backend and every finite sequence of operations on
a fresh iterator, the run does not fault and its outputs are those of the abstract iterator
started on all match positions of the haystack. -/
theorem C06_refines_backend (b : Backend) (ns : Needles) (hay : Slice) (hv : hay.Valid)
    (ops : List Op) (c : Ctr) :
    ∃ outs it' c', Iter.run (RawFns.ofBackend b ns hay.mem) ops (Iter.new hay) c
        = .ok (outs, it') c' ∧
      OutsOk outs (absRun ops (allMatches hay ns)).1 ∧
      Refines hay ns it' (absRun ops (allMatches hay ns)).2 :=
  run_refines hv (rawOk_ofBackend b ns hay.mem) ops (refines_new hay ns) c

/-- C06.refines for the public iterators `Memchr`/`Memchr2`/`Memchr3` under every build / CPU
configuration. -/
theorem C06_refines_cfg (cfg : Cfg) (ns : Needles) (hay : Slice) (hv : hay.Valid)
    (ops : List Op) (c : Ctr) :
    ∃ outs it' c', Iter.run (RawFns.ofCfg cfg ns hay.mem) ops (Iter.new hay) c
        = .ok (outs, it') c' ∧
      OutsOk outs (absRun ops (allMatches hay ns)).1 ∧
      Refines hay ns it' (absRun ops (allMatches hay ns)).2 :=
  run_refines hv (rawOk_ofCfg cfg ns hay.mem) ops (refines_new hay ns) c

/-- the only hypothesis (`hay.Valid`) is satisfiable by a non-trivial input: bytes 3..13 of a
40-byte region at an odd address -/
example : (⟨⟨0, 1001, Array.replicate 40 0⟩, 3, 10⟩ : Slice).Valid := by
  simp [Slice.Valid]

/-- C06 (fused): once the iterator is empty (`rem = []`, e.g. after `next` or `next_back`
returned `none`), every later `next`/`next_back` returns `none`, `count` returns 0,
`size_hint` is `(0, Some _)`, whatever the order of operations; nothing faults. -/
theorem C06_none_forever {f : RawFns} {ns : Needles} {hay : Slice} (hv : hay.Valid)
    (hf : RawOk f ns hay.mem) {it : Iter} (R : Refines hay ns it []) (ops : List Op) (c : Ctr) :
    ∃ outs it' c', Iter.run f ops it c = .ok (outs, it') c' ∧ Refines hay ns it' [] ∧
      ∀ o ∈ outs, o = .idx none ∨ o = .cnt 0 ∨ ∃ h, o = .hint 0 (some h) := by
  obtain ⟨outs, it', c', hrun, hok, R'⟩ := run_refines hv hf ops R c
  obtain ⟨hnil, habs⟩ := absRun_nil ops
  rw [hnil] at R'
  exact ⟨outs, it', c', hrun, R', outsOk_of_abs_nil hok habs⟩

/-- C07.iter_count: after ANY prefix of operations on a fresh iterator, `count` (of
`Memchr`: `count_raw` on the CURRENT window; of `Memchr2`/`Memchr3`: the default `next` loop)
returns exactly the number of elements the abstract iterator has left. -/
theorem C07_iter_count (cfg : Cfg) (ns : Needles) (hay : Slice) (hv : hay.Valid)
    (ops : List Op) (c : Ctr) :
    ∃ outs it' c' c'', Iter.run (RawFns.ofCfg cfg ns hay.mem) ops (Iter.new hay) c
        = .ok (outs, it') c' ∧
      it'.countWith (RawFns.ofCfg cfg ns hay.mem) c'
        = .ok (absRun ops (allMatches hay ns)).2.length c'' := by
  obtain ⟨outs, it', c', hrun, _, R'⟩ := C06_refines_cfg cfg ns hay hv ops c
  obtain ⟨c'', hc⟩ := countWith_refines hv (rawOk_ofCfg cfg ns hay.mem) R' c'
  exact ⟨outs, it', c', c'', hrun, hc⟩

theorem C07_iter_count_backend (b : Backend) (ns : Needles) (hay : Slice) (hv : hay.Valid)
    (ops : List Op) (c : Ctr) :
    ∃ outs it' c' c'', Iter.run (RawFns.ofBackend b ns hay.mem) ops (Iter.new hay) c
        = .ok (outs, it') c' ∧
      it'.countWith (RawFns.ofBackend b ns hay.mem) c'
        = .ok (absRun ops (allMatches hay ns)).2.length c'' := by
  obtain ⟨outs, it', c', hrun, _, R'⟩ := C06_refines_backend b ns hay hv ops c
  obtain ⟨c'', hc⟩ := countWith_refines hv (rawOk_ofBackend b ns hay.mem) R' c'
  exact ⟨outs, it', c', c'', hrun, hc⟩

/-- The abstract initial state is what it should be: exactly the positions of the haystack
holding a needle byte, in increasing order. -/
theorem allMatches_spec (hay : Slice) (ns : Needles) :
    (allMatches hay ns).Pairwise (· < ·) ∧
    ∀ i, i ∈ allMatches hay ns ↔ i < hay.len ∧ ns.confirm (hay.mem.byteAt (hay.ptr + i)) = true := by
  refine ⟨matchesIn_sorted _ _ _, fun i => ?_⟩
  simp [allMatches, mem_matchesIn, posPred]

end Memchr.Api

#print axioms Memchr.Api.run_refines
#print axioms Memchr.Api.C06_refines_backend
#print axioms Memchr.Api.C06_refines_cfg
#print axioms Memchr.Api.C06_none_forever
#print axioms Memchr.Api.C07_iter_count
#print axioms Memchr.Api.C07_iter_count_backend
#print axioms Memchr.Api.allMatches_spec
