/-
C13: the vector packed-pair searcher `Finder<V>::find` (`src/arch/generic/packedpair.rs`) in the
refined form: at most `W * (idx + 3)` steps when the answer is `Some(idx)` and
`W * (haystack.len + 3)` for `None`, where `W` bounds the cost of one chunk
(`1 + (BYTES + 1) * (needle.len / 4 + 3)`: one step for the chunk and, per candidate, one step
plus `is_equal_raw`).  `W` is a constant because the meta searcher only hands needles of at most
`MAX_LEN` bytes to the vector searcher.
-/
import MemchrModel.Proofs.CostGeneric
import MemchrModel.Proofs.PackedPair
import MemchrModel.Model.Pair

namespace Memchr

namespace IsEqual

theorem tail_costs (mx my : Mem) (x y n : Nat) :
    Costs (tail mx my x y n) (fun _ k => k ≤ 2) := by
  unfold tail
  split
  · cstep; cstep; cstep
    split
    · exact Costs.pure (by omega)
    · cstep; cstep; cstep
      split
      · cstep; cstep; cstep
        split
        · exact Costs.pure (by omega)
        · exact Costs.pure (by omega)
      · exact Costs.pure (by omega)
  · split
    · cstep; cstep; cstep
      split
      · exact Costs.pure (by omega)
      · exact Costs.pure (by omega)
    · exact Costs.pure (by omega)

theorem loop4_costs (mx my : Mem) (x y n : Nat) :
    Costs (loop4 mx my x y n) (fun _ k => k ≤ n / 4 + 2) := by
  fun_induction loop4 mx my x y n with
  | case1 x y n h ih =>
    cstep; cstep; cstep
    split
    · exact Costs.pure (by omega)
    · cstep; cstep
      apply ih.mono
      intro _ k hk
      omega
  | case2 x y n h =>
    apply (tail_costs mx my x y n).mono
    intro _ k hk
    omega

/-- `is_equal_raw`: at most `n / 4 + 2` steps (no hypothesis: a cost statement) -/
theorem isEqualRaw_costs (mx my : Mem) (x y n : Nat) :
    Costs (isEqualRaw mx my x y n) (fun _ k => k ≤ n / 4 + 2) :=
  loop4_costs mx my x y n

end IsEqual

namespace PackedPair

variable {V : VecImpl}

theorem candLoop_costs (T : TickFree V) (hm : Mem) (needle : Slice) (cur end_ : Nat)
    (fuel : Nat) (offsets : V.Mask) :
    Costs (candLoop V hm needle cur end_ fuel offsets)
      (fun _ k => k ≤ fuel * (needle.len / 4 + 3)) := by
  induction fuel generalizing offsets with
  | zero => unfold candLoop; exact Costs.fail
  | succ fuel ih =>
    unfold candLoop
    split
    · cstep
      apply Costs.free_bind (T.firstOffset _); intro offset _
      cstep; cstep
      split
      · apply Costs.pure
        rw [Nat.succ_mul]; omega
      · apply Costs.bind (IsEqual.isEqualRaw_costs _ _ _ _ _)
        intro eq k1 hk1
        split
        · apply Costs.pure
          rw [Nat.succ_mul]; omega
        · apply Costs.free_bind (T.clearLSB _); intro offsets' _
          apply (ih offsets').mono
          intro _ k hk
          rw [Nat.succ_mul]; omega
    · apply Costs.pure
      omega

theorem pairEq_costs (who : String) (f : Finder) (hm : Mem) (cur : Nat) :
    Costs (pairEq V who f hm cur) (fun _ k => k ≤ 1) := by
  unfold pairEq VecImpl.loadU
  dsimp only
  cstep; cstep; cstep; cstep; cstep
  exact Costs.pure (by omega)

/-- cost of one chunk of `find` -/
def chunkCost' (V : VecImpl) (needle : Slice) : Nat :=
  1 + (V.bytes + 1) * (needle.len / 4 + 3)

theorem findInChunk_costs (T : TickFree V) (f : Finder) (hm : Mem) (needle : Slice)
    (cur end_ : Nat) (mask : V.Mask) :
    Costs (findInChunk V f hm needle cur end_ mask) (fun _ k => k ≤ chunkCost' V needle) := by
  unfold findInChunk
  apply Costs.bind (pairEq_costs _ f hm cur)
  intro e k1 hk1
  dsimp only
  apply (candLoop_costs T hm needle cur end_ _ _).mono
  intro _ k hk
  unfold chunkCost'
  omega

theorem matched_free (hm : Mem) (start cur chunki : Nat) :
    Free (matched hm start cur chunki) (fun r => start ≤ cur ∧ r = cur - start + chunki) := by
  unfold matched
  refine Free.bind (Free.distance _ _ _ _) ?_
  rintro d ⟨rfl, _, h2, _⟩
  exact (Free.pure _).mono (fun r hr => ⟨h2, hr⟩)

theorem findTail_costs (T : TickFree V) (f : Finder) (hm : Mem) (needle : Slice)
    (start end_ max cur W : Nat) (hW : chunkCost' V needle ≤ W) :
    Costs (findTail V f hm needle start end_ max cur) (fun r k =>
      k ≤ W ∧ ∀ x, r = some x → max ≤ start + x) := by
  unfold findTail
  split
  · cstep; cstep
    split
    · exact Costs.pure ⟨by omega, nofun⟩
    · cstep; cstep; cstep
      split
      · exact Costs.pure ⟨by omega, nofun⟩
      · cstep
        apply Costs.free_bind (T.allExceptLS _); intro mask _
        dsimp only
        apply Costs.bind (findInChunk_costs T f hm needle max end_ mask)
        intro r k1 hk1
        cases r with
        | none => exact Costs.pure ⟨by omega, nofun⟩
        | some chunki =>
          dsimp only
          apply Costs.free_bind (matched_free hm start max chunki)
          rintro r ⟨h1, rfl⟩
          apply Costs.pure
          refine ⟨by omega, fun x hx => ?_⟩
          cases hx
          omega
  · exact Costs.pure ⟨by omega, nofun⟩

theorem findLoop_costs (T : TickFree V) (f : Finder) (hm : Mem) (needle : Slice)
    (start end_ max : Nat) (all : V.Mask) (W : Nat) (hW : chunkCost' V needle ≤ W) (cur : Nat) :
    Costs (findLoop V f hm needle start end_ max all cur) (fun r k =>
      match r with
      | some x => (cur ≤ start + x ∨ max ≤ start + x) ∧ k ≤ W * (start + x + 2 - cur) + W
      | none => k ≤ W * (max + 2 - cur) + W) := by
  have hpos := V.bytes_pos
  fun_induction findLoop V f hm needle start end_ max all cur with
  | case1 cur h ih =>
    apply Costs.bind (findInChunk_costs T f hm needle cur end_ all)
    intro r k1 hk1
    cases r with
    | some chunki =>
      dsimp only
      apply Costs.free_bind (matched_free hm start cur chunki)
      rintro r ⟨h1, rfl⟩
      apply Costs.pure
      dsimp only
      refine ⟨Or.inl (by omega), ?_⟩
      have : W * 2 ≤ W * (start + (cur - start + chunki) + 2 - cur) :=
        Nat.mul_le_mul_left W (by omega)
      omega
    | none =>
      dsimp only
      cstep
      apply ih.mono
      intro r k hk
      cases r with
      | none =>
        dsimp only at hk ⊢
        by_cases hbig : cur + V.bytes ≤ max + 2
        · have e : max + 2 - cur = (max + 2 - (cur + V.bytes)) + V.bytes := by omega
          rw [e, Nat.mul_add]
          have : W ≤ W * V.bytes := Nat.le_mul_of_pos_right W hpos
          omega
        · have e : max + 2 - (cur + V.bytes) = 0 := by omega
          rw [e, Nat.mul_zero] at hk
          have : W * 2 ≤ W * (max + 2 - cur) := Nat.mul_le_mul_left W (by omega)
          omega
      | some x =>
        dsimp only at hk ⊢
        obtain ⟨hx, hk⟩ := hk
        have hx' : cur ≤ start + x := by omega
        refine ⟨Or.inl hx', ?_⟩
        by_cases hbig : cur + V.bytes ≤ start + x + 2
        · have e : start + x + 2 - cur = (start + x + 2 - (cur + V.bytes)) + V.bytes := by omega
          rw [e, Nat.mul_add]
          have : W ≤ W * V.bytes := Nat.le_mul_of_pos_right W hpos
          omega
        · have e : start + x + 2 - (cur + V.bytes) = 0 := by omega
          rw [e, Nat.mul_zero] at hk
          have : W * 2 ≤ W * (start + x + 2 - cur) := Nat.mul_le_mul_left W (by omega)
          omega
  | case2 cur h =>
    apply (findTail_costs T f hm needle start end_ max cur W hW).mono
    intro r k ⟨hk, hx⟩
    cases r with
    | none => dsimp only; omega
    | some x =>
      dsimp only
      exact ⟨Or.inr (hx x rfl), by omega⟩

/-- **packed pair `find`, refined cost** (`W` any bound on the cost of one chunk) -/
theorem find_costs (T : TickFree V) (f : Finder) (hay needle : Slice) (W : Nat)
    (hW : chunkCost' V needle ≤ W) :
    Costs (find V f hay needle) (fun r k => k ≤ W * (Fallback.scanned r hay.len + 3)) := by
  unfold find
  cstep
  apply Costs.free_bind (T.allExceptLS _); intro all _
  dsimp only
  cstep; cstep
  rename_i hpa hps
  apply (findLoop_costs T f hay.mem needle hay.ptr _ _ all W hW hay.ptr).mono
  intro r k hk
  cases r with
  | none =>
    dsimp only at hk
    simp only [Fallback.scanned]
    have : W * (hay.ptr + hay.len - f.minHaystackLen + 2 - hay.ptr) ≤ W * (hay.len + 2) :=
      Nat.mul_le_mul_left W (by omega)
    rw [Nat.mul_add] at *
    omega
  | some x =>
    dsimp only at hk
    simp only [Fallback.scanned]
    have : W * (hay.ptr + x + 2 - hay.ptr) ≤ W * (x + 2) := Nat.mul_le_mul_left W (by omega)
    have e : x + 1 + 3 = (x + 2) + 2 := by omega
    rw [e, Nat.mul_add]
    omega

end PackedPair

end Memchr
