/-
Nat-level facts about the bit loops of `Model/Sensible.lean` (`tz`, `bitLen`, `lz`,
`popcount`, `msbMask`) phrased through `Nat.testBit`, plus the two bit tricks used by
`SensibleMoveMask` (`m & (m - 1)` and `!((1 << n) - 1)`).
-/
import MemchrModel.Model.Sensible

namespace Memchr.Bits

/-! ### `tz` -/

theorem tz_spec (w : Nat) : ∀ n : Nat, (∃ i, i < w ∧ n.testBit i = true) →
    n.testBit (tz w n) = true ∧ ∀ j, j < tz w n → n.testBit j = false := by
  induction w with
  | zero => intro n ⟨i, hi, _⟩; omega
  | succ w ih =>
    intro n ⟨i, hi, hb⟩
    by_cases h1 : n % 2 = 1
    · have e : tz (w + 1) n = 0 := by simp [tz, h1]
      simp [e, h1, Nat.testBit_zero]
    · have e : tz (w + 1) n = tz w (n / 2) + 1 := by simp [tz, h1]; omega
      rw [e]
      have hi0 : i ≠ 0 := by
        intro h0; subst h0; simp [Nat.testBit_zero, h1] at hb
      obtain ⟨i', rfl⟩ : ∃ i', i = i' + 1 := ⟨i - 1, by omega⟩
      rw [Nat.testBit_add_one] at hb
      obtain ⟨ht, hl⟩ := ih (n / 2) ⟨i', by omega, hb⟩
      refine ⟨?_, ?_⟩
      · rw [Nat.testBit_add_one]; exact ht
      · intro j hj
        cases j with
        | zero => simp [Nat.testBit_zero, h1]
        | succ j => rw [Nat.testBit_add_one]; exact hl j (by omega)

/-! ### `bitLen` / `lz` -/

theorem bitLen_zero : bitLen 0 = 0 := by
  unfold bitLen; simp

theorem bitLen_of_ne {n : Nat} (h : n ≠ 0) : bitLen n = 1 + bitLen (n / 2) := by
  rw [bitLen]; simp [h]

theorem bitLen_pos {n : Nat} (h : n ≠ 0) : 0 < bitLen n := by
  rw [bitLen_of_ne h]; omega

theorem lt_two_pow_bitLen (n : Nat) : n < 2 ^ bitLen n := by
  induction n using Nat.strongRecOn with
  | _ n ih =>
    by_cases h : n = 0
    · subst h; simp [bitLen_zero]
    · rw [bitLen_of_ne h, Nat.add_comm, Nat.pow_succ]
      have := ih (n / 2) (by omega)
      omega

theorem bitLen_le_of_lt (w : Nat) : ∀ n : Nat, n < 2 ^ w → bitLen n ≤ w := by
  induction w with
  | zero => intro n hn; have : n = 0 := by omega
            subst this; simp [bitLen_zero]
  | succ w ih =>
    intro n hn
    by_cases h : n = 0
    · subst h; simp [bitLen_zero]
    · rw [bitLen_of_ne h]
      have := ih (n / 2) (by rw [Nat.pow_succ] at hn; omega)
      omega

theorem testBit_bitLen_sub_one (n : Nat) (h : n ≠ 0) : n.testBit (bitLen n - 1) = true := by
  induction n using Nat.strongRecOn with
  | _ n ih =>
    rw [bitLen_of_ne h]
    by_cases h2 : n / 2 = 0
    · have h1 : n = 1 := by omega
      subst h1; simp [bitLen_zero]
    · have hp := bitLen_pos h2
      have := ih (n / 2) (by omega) h2
      have e : 1 + bitLen (n / 2) - 1 = (bitLen (n / 2) - 1) + 1 := by omega
      rw [e, Nat.testBit_add_one]; exact this

theorem testBit_of_bitLen_le (n j : Nat) (h : bitLen n ≤ j) : n.testBit j = false := by
  apply Nat.testBit_lt_two_pow
  exact Nat.lt_of_lt_of_le (lt_two_pow_bitLen n) (Nat.pow_le_pow_right (by decide) h)

/-! ### `popcount` -/

theorem popcount_zero : popcount 0 = 0 := by
  unfold popcount; simp

theorem popcount_of_ne {n : Nat} (h : n ≠ 0) : popcount n = n % 2 + popcount (n / 2) := by
  rw [popcount]; simp [h]

theorem popcount_step (n : Nat) : popcount n = n % 2 + popcount (n / 2) := by
  by_cases h : n = 0
  · subst h; simp [popcount_zero]
  · exact popcount_of_ne h

theorem popcount_eq (w : Nat) : ∀ n : Nat, n < 2 ^ w →
    popcount n = ((List.range w).filter (fun i => n.testBit i)).length := by
  induction w with
  | zero => intro n hn; have : n = 0 := by omega
            subst this; simp [popcount_zero]
  | succ w ih =>
    intro n hn
    have hn2 : n / 2 < 2 ^ w := by rw [Nat.pow_succ] at hn; omega
    have hfun : ((fun i => n.testBit i) ∘ Nat.succ) = (fun i => (n / 2).testBit i) := by
      funext i; simp [Function.comp, Nat.testBit_add_one]
    rw [popcount_step, ih (n / 2) hn2, List.range_succ_eq_map, List.filter_cons,
      List.filter_map, hfun]
    rcases Nat.mod_two_eq_zero_or_one n with h0 | h1
    · simp [Nat.testBit_zero, h0]
    · simp [Nat.testBit_zero, h1]; omega

/-! ### `msbMask` -/

theorem shr7_le_one (x : UInt8) : (x >>> 7).toNat ≤ 1 := by
  rw [UInt8.toNat_shiftRight]
  have : x.toNat < 256 := x.toNat_lt
  show x.toNat >>> 7 ≤ 1
  rw [Nat.shiftRight_eq_div_pow]; omega

theorem msbMask_lt (v : List UInt8) : msbMask v < 2 ^ v.length := by
  induction v with
  | nil => simp [msbMask]
  | cons x xs ih =>
    have := shr7_le_one x
    simp only [msbMask, List.length_cons, Nat.pow_succ]
    omega

/-- bit `i` of the movemask is the top bit of lane `i` -/
theorem msbMask_testBit (v : List UInt8) : ∀ i : Nat,
    (msbMask v).testBit i = (match v[i]? with | some x => (x >>> 7) == 1 | none => false) := by
  induction v with
  | nil => intro i; simp [msbMask]
  | cons x xs ih =>
    intro i
    have hx := shr7_le_one x
    cases i with
    | zero =>
      simp only [msbMask, Nat.testBit_zero, List.getElem?_cons_zero]
      by_cases h : x >>> 7 = 1
      · simp [h]
      · have : (x >>> 7).toNat ≠ 1 := by
          intro ht; apply h; apply UInt8.toNat_inj.mp; rw [ht]; rfl
        have hz : (x >>> 7).toNat = 0 := by omega
        simp [h, hz]
    | succ i =>
      simp only [msbMask, Nat.testBit_add_one, List.getElem?_cons_succ]
      have : ((x >>> 7).toNat + 2 * msbMask xs) / 2 = msbMask xs := by omega
      rw [this]; exact ih i

theorem top_bit_of_bool (x : UInt8) (h : x = 0x00 ∨ x = 0xFF) :
    ((x >>> 7) == 1) = (x == 0xFF) := by
  rcases h with h | h <;> subst h <;> decide

theorem msbMask_testBit_bool (v : List UInt8) (hb : ∀ x ∈ v, x = 0x00 ∨ x = 0xFF) (i : Nat) :
    (msbMask v).testBit i = (v[i]? == some 0xFF) := by
  rw [msbMask_testBit]
  cases hv : v[i]? with
  | none => simp
  | some x =>
    have hx : x ∈ v := List.mem_of_getElem? hv
    simp only [top_bit_of_bool x (hb x hx)]
    simp

/-! ### `m & (m - 1)` -/

/-- `n &&& (n - 1)` clears exactly the lowest set bit `k` of `n`. -/
theorem and_pred_testBit (k : Nat) : ∀ n : Nat, n.testBit k = true →
    (∀ j, j < k → n.testBit j = false) →
    ∀ i, (n &&& (n - 1)).testBit i = (n.testBit i && (i != k)) := by
  induction k with
  | zero =>
    intro n hk _ i
    have h1 : n % 2 = 1 := by simpa [Nat.testBit_zero] using hk
    rw [Nat.testBit_and]
    cases i with
    | zero => simp [Nat.testBit_zero, h1]; omega
    | succ i =>
      have : (n - 1) / 2 = n / 2 := by omega
      simp [Nat.testBit_add_one, this]
  | succ k ih =>
    intro n hk hl i
    have h0 : n % 2 = 0 := by
      have := hl 0 (by omega)
      simp [Nat.testBit_zero] at this; omega
    rw [Nat.testBit_add_one] at hk
    have hq : n / 2 ≠ 0 := by
      intro h; rw [h] at hk; simp at hk
    have hl' : ∀ j, j < k → (n / 2).testBit j = false := by
      intro j hj; rw [← Nat.testBit_add_one]; exact hl (j + 1) (by omega)
    cases i with
    | zero => simp [Nat.testBit_zero, h0]
    | succ i =>
      have e : (n - 1) / 2 = n / 2 - 1 := by omega
      have := ih (n / 2) hk hl' i
      rw [Nat.testBit_and] at this
      rw [Nat.testBit_and, Nat.testBit_add_one, Nat.testBit_add_one, e, this]
      simp

/-! ### `!((1 << n) - 1)` on a 32-bit word -/

theorem not_low_mask_testBit (n i : Nat) (hn : n ≤ 32) :
    (2 ^ 32 - 1 - (2 ^ n - 1)).testBit i = (decide (i < 32) && decide (n ≤ i)) := by
  have hp : 0 < 2 ^ n := Nat.two_pow_pos n
  have hlt : 2 ^ n - 1 < 2 ^ 32 :=
    Nat.lt_of_lt_of_le (by omega) (Nat.pow_le_pow_right (by decide) hn)
  have e : 2 ^ 32 - 1 - (2 ^ n - 1) = 2 ^ 32 - ((2 ^ n - 1) + 1) := by omega
  rw [e, Nat.testBit_two_pow_sub_succ hlt, Nat.testBit_two_pow_sub_one]
  by_cases h : i < n <;> simp [h] <;> omega

end Memchr.Bits
