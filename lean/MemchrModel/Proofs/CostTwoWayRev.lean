/-
C13: Two-Way reverse (`FinderRev::rfind`), step count in the refined form needed for
`rfind_iter`: at most `3 * (haystack.len - idx) + 2 * needle.len + 1` steps when the answer is
`Some(idx)` (every iteration pays for itself out of the amount it moves `pos` down by), and
`3 * haystack.len + 2 * needle.len + 1` for `None`.
-/
import MemchrModel.Proofs.CostBase
import MemchrModel.Proofs.CostTwoWay
import MemchrModel.Proofs.TwoWayRevCert

namespace Memchr.TwoWay

open Memchr

/-- the end of the window a reverse search stopped at: `q + len` for `Some(q)`, `0` for `None` -/
def endOf (len : Nat) : Option Nat → Nat
  | some q => q + len
  | none => 0

theorem revCmp_costs (fn : String) (n h : Slice) (pos i : Nat)
    (hb : n.len ≤ pos) (hp : pos ≤ h.len) (hi : i ≤ n.len) :
    Costs (FinderRev.revCmp fn n h pos i) (fun i' k => i' ≤ i ∧ k = i - i') :=
  Costs.of_total (fun c => by
    obtain ⟨i', c', e, h1, _, _, h4, _⟩ := revCmp_spec fn n h pos i c hb hp hi
    exact ⟨i', c', e, i - i', by omega, h1, rfl⟩)

theorem revFwdCmp_costs (fn : String) (n h : Slice) (pos bound j : Nat)
    (hb : n.len ≤ pos) (hp : pos ≤ h.len) (hbd : bound ≤ n.len) :
    Costs (FinderRev.revFwdCmp fn n h pos bound j) (fun j' k => j ≤ j' ∧
      (j ≤ bound → j' ≤ bound) ∧ (bound ≤ j → j' = j) ∧ k = j' - j) :=
  Costs.of_total (fun c => by
    obtain ⟨j', c', e, h1, h2, h3, _, _, h6, _⟩ := revFwdCmp_spec fn n h pos bound j c hb hp hbd
    exact ⟨j', c', e, j' - j, by omega, h1, h2, h3, rfl⟩)

/-- **`rfind_large_imp`** -/
theorem largeLoopRev_costs (tw : TwoWay) (needle hay : Slice) (hn : 0 < needle.len) (s : Nat)
    (fb : UInt8) (hcn : tw.criticalPos ≤ needle.len) (hs1 : 1 ≤ s) (hhalf : needle.len ≤ 2 * s)
    (pos : Nat) (hpos : pos ≤ hay.len) :
    Costs (FinderRev.largeLoop tw needle hay hn s fb pos) (fun r k =>
      k + 3 * endOf needle.len r ≤ 3 * pos + needle.len + 1) := by
  fun_induction FinderRev.largeLoop tw needle hay hn s fb pos with
  | case1 pos h ih1 ih2 ih3 =>
    cstep; cstep; cstep
    apply Costs.free_bind (contains_free _ _)
    intro inSet _
    split
    · apply (ih1 (by omega)).mono
      intro r k hk
      omega
    · apply Costs.bind (revCmp_costs "rfind_large_imp" needle hay pos tw.criticalPos h hpos hcn)
      intro i k2 ⟨hi1, hk2⟩
      have hrec : Costs (do
            let d ← csub "rfind_large_imp: self.0.critical_pos - i" tw.criticalPos i
            let _ ← csub "rfind_large_imp: pos -= self.0.critical_pos - i + 1" pos (d + 1)
            FinderRev.largeLoop tw needle hay hn s fb (pos - (d + 1)))
          (fun r k => 1 + (k2 + k) + 3 * endOf needle.len r ≤ 3 * pos + needle.len + 1) := by
        cstep; cstep
        apply (ih2 (tw.criticalPos - i) (by omega)).mono
        intro r k hk
        omega
      have hfull : Costs (do
            let j ← FinderRev.revFwdCmp "rfind_large_imp" needle hay pos needle.len tw.criticalPos
            if j = needle.len then do
              let r ← csub "rfind_large_imp: pos - nlen" pos needle.len
              pure (some r)
            else do
              let _ ← csub "rfind_large_imp: pos -= shift" pos s
              if hs : s = 0 then Memchr.fail (Fault.panic "rfind_large_imp: no progress (shift = 0)")
              else FinderRev.largeLoop tw needle hay hn s fb (pos - s))
          (fun r k => 1 + (k2 + k) + 3 * endOf needle.len r ≤ 3 * pos + needle.len + 1) := by
        apply Costs.bind (revFwdCmp_costs "rfind_large_imp" needle hay pos needle.len
          tw.criticalPos h hpos (Nat.le_refl _))
        intro j k3 ⟨hj1, hj2, _, hk3⟩
        have := hj2 hcn
        split
        · cstep
          apply Costs.pure
          simp only [endOf]
          omega
        · cstep
          split
          · exact Costs.fail
          · rename_i hs0
            apply (ih3 hs0 (by omega)).mono
            intro r k hk
            omega
      dsimp only
      split
      · apply Costs.pure_bind
        simp only [if_true]
        exact hrec
      · cstep; cstep
        apply Costs.pure_bind
        split
        · exact hrec
        · exact hfull
  | case2 pos h =>
    apply Costs.pure
    simp only [endOf]
    omega

/-- **`rfind_small_imp`** -/
theorem smallLoopRev_costs (tw : TwoWay) (needle hay : Slice) (hn : 0 < needle.len) (p : Nat)
    (fb : UInt8) (hcn : tw.criticalPos ≤ needle.len) (hp1 : 1 ≤ p) (hpn : p ≤ needle.len)
    (hcp : needle.len ≤ tw.criticalPos + p)
    (pos shift : Nat) (hpos : pos ≤ hay.len) (hsn : shift ≤ needle.len) :
    Costs (FinderRev.smallLoop tw needle hay hn p fb pos shift) (fun r k =>
      k + 3 * endOf needle.len r ≤ 3 * pos + needle.len + 1 + min tw.criticalPos shift) := by
  fun_induction FinderRev.smallLoop tw needle hay hn p fb pos shift with
  | case1 pos shift h ih1 ih2 ih3 =>
    cstep; cstep; cstep
    apply Costs.free_bind (contains_free _ _)
    intro inSet _
    split
    · apply (ih1 (by omega) (Nat.le_refl _)).mono
      intro r k hk
      omega
    · apply Costs.bind (revCmp_costs "rfind_small_imp" needle hay pos (min tw.criticalPos shift)
        h hpos (by omega))
      intro i k2 ⟨hi1, hk2⟩
      have hrec : Costs (do
            let d ← csub "rfind_small_imp: self.0.critical_pos - i" tw.criticalPos i
            let _ ← csub "rfind_small_imp: pos -= self.0.critical_pos - i + 1" pos (d + 1)
            FinderRev.smallLoop tw needle hay hn p fb (pos - (d + 1)) needle.len)
          (fun r k => 1 + (k2 + k) + 3 * endOf needle.len r ≤
            3 * pos + needle.len + 1 + min tw.criticalPos shift) := by
        cstep; cstep
        apply (ih2 (tw.criticalPos - i) (by omega) (Nat.le_refl _)).mono
        intro r k hk
        omega
      have hfull : i = 0 → Costs (do
            let j ← FinderRev.revFwdCmp "rfind_small_imp" needle hay pos shift tw.criticalPos
            if j ≥ shift then do
              let r ← csub "rfind_small_imp: pos - nlen" pos needle.len
              pure (some r)
            else do
              let _ ← csub "rfind_small_imp: pos -= period" pos p
              if hp : p = 0 then Memchr.fail (Fault.panic "rfind_small_imp: no progress (period = 0)")
              else FinderRev.smallLoop tw needle hay hn p fb (pos - p) p)
          (fun r k => 1 + (k2 + k) + 3 * endOf needle.len r ≤
            3 * pos + needle.len + 1 + min tw.criticalPos shift) := by
        intro hi0
        apply Costs.bind (revFwdCmp_costs "rfind_small_imp" needle hay pos shift
          tw.criticalPos h hpos hsn)
        intro j k3 ⟨hj1, hj2, hj3, hk3⟩
        have hjb : j - tw.criticalPos ≤ shift - tw.criticalPos := by
          by_cases hcs : tw.criticalPos ≤ shift
          · have := hj2 hcs; omega
          · have := hj3 (by omega); omega
        split
        · cstep
          apply Costs.pure
          simp only [endOf]
          omega
        · cstep
          split
          · exact Costs.fail
          · rename_i hp0
            apply (ih3 j hp0 (by omega) hpn).mono
            intro r k hk
            omega
      dsimp only
      split
      · apply Costs.pure_bind
        simp only [if_true]
        exact hrec
      · rename_i hi0
        cstep; cstep
        apply Costs.pure_bind
        split
        · exact hrec
        · exact hfull (by omega)
  | case2 pos shift h =>
    apply Costs.pure
    simp only [endOf]
    omega

/-! ### `rfind` for the finder built by `FinderRev::new` -/

theorem shiftReverse_post (needle : Slice) (plb crit : Nat) :
    Post (Shift.reverse needle plb crit) (fun sh =>
      match sh with
      | .large _ => True
      | .small q => q ≤ needle.len) := by
  unfold Shift.reverse
  apply Post.bind (Post.of_free (Free.csub _ _ _))
  rintro d ⟨hd, rfl⟩
  apply Post.bind (Post.of_free (Free.csub _ _ _))
  rintro d2 ⟨_, rfl⟩
  split
  · exact Post.pure trivial
  · apply Post.bind (Post.of_free (Free.take _ _ _))
    rintro v ⟨_, rfl⟩
    apply Post.bind (Post.of_free (Free.drop _ _ _))
    rintro u ⟨_, rfl⟩
    apply Post.bind (Post.of_free (Free.csub _ _ _))
    rintro a ⟨ha, rfl⟩
    apply Post.bind_right
    intro vs
    apply Post.bind_right
    intro b
    split
    · exact Post.pure trivial
    · apply Post.pure
      dsimp only at ha ⊢
      omega

theorem finderRevNew_post (needle : Slice) :
    Post (FinderRev.new needle) (fun tw =>
      match tw.shift with
      | .large _ => True
      | .small q => q ≤ needle.len) := by
  unfold FinderRev.new
  apply Post.bind_right; intro byteset
  apply Post.bind_right; intro minSuffix
  apply Post.bind_right; intro maxSuffix
  split
  rename_i plb crit _
  apply Post.bind (shiftReverse_post needle plb crit)
  intro sh hsh
  apply Post.pure
  exact hsh

/-- **Two-Way reverse, cost form**: for the finder built by `FinderRev::new` from a needle with
the bytes of the search needle, `rfind` costs at most
`3 * (haystack.len - end) + 2 * needle.len + 1` steps, `end` = answer + `needle.len`, or `0` when
the answer is `None`. -/
theorem rfind_costs (n0 n hay : Slice) (tw : TwoWay) (c0 c0' : Ctr)
    (hn0 : n0.Valid) (hn : n.Valid) (hbytes : n.toList = n0.toList)
    (hnew : FinderRev.new n0 c0 = .ok tw c0') :
    Costs (FinderRev.rfind tw hay n) (fun r k =>
      k + 3 * endOf n.len r ≤ 3 * hay.len + 2 * n.len + 1) := by
  have harr := toArray_eq_of_toList_eq hn hn0 hbytes
  have hlen : n.len = n0.len := by
    rw [← Slice.toArray_size hn, ← Slice.toArray_size hn0, harr]
  obtain ⟨tw1, c1, e1, _, _, hcl, hsp, hhalf⟩ := finderRev_new_spec n0 c0 hn0
  rw [hnew] at e1
  simp only [Res.ok.injEq] at e1
  obtain ⟨rfl, rfl⟩ := e1
  have hpost := (finderRevNew_post n0).out c0 tw c0' hnew
  unfold FinderRev.rfind
  cases hshift : tw.shift with
  | small p =>
    rw [hshift] at hpost
    dsimp only at hpost ⊢
    unfold FinderRev.rfindSmallImp
    split
    · apply Costs.pure
      rename_i h0
      simp only [endOf]
      omega
    · rename_i h0
      have hpos : 0 < n.len := Nat.pos_of_ne_zero h0
      have hsp' := hsp (by omega)
      rw [hshift] at hsp'
      simp only [SoundPreRev] at hsp'
      rw [Slice.toArray_size hn0] at hsp'
      apply (smallLoopRev_costs tw n hay hpos p _ (by omega) hsp'.2.2.1.1 (by omega) (by omega)
        hay.len n.len (Nat.le_refl _) (Nat.le_refl _)).mono
      intro r k hk
      omega
  | large s =>
    dsimp only
    unfold FinderRev.rfindLargeImp
    split
    · apply Costs.pure
      rename_i h0
      simp only [endOf]
      omega
    · rename_i h0
      have hpos : 0 < n.len := Nat.pos_of_ne_zero h0
      have hsp' := hsp (by omega)
      rw [hshift] at hsp'
      simp only [SoundPreRev] at hsp'
      apply (largeLoopRev_costs tw n hay hpos s _ (by omega) (by omega)
        (by have := hhalf s hshift; omega) hay.len (Nat.le_refl _)).mono
      intro r k hk
      omega

end Memchr.TwoWay
