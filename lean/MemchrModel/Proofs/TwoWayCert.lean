/-
Two-Way, forward direction, unconditional (DESIGN section 8, stage C = T1 + T2 + T3):

* `cert_fwd`: for EVERY needle the critical position and shift computed by `Finder::new`
  satisfy the certificate `CertFwd` (critical factorisation in the strong form `Core`;
  `Small { period }` holds the smallest period; `Large { shift }` is at most the smallest
  period).
* `find_correct`: `Finder::new(needle)` followed by `find_with_prefilter(pre, haystack, needle)`
  returns the leftmost occurrence, for every needle, every haystack, every sound optional
  prefilter in every prefilter state.  `find_correct_nopre`: the same for `Finder::find`, with
  the linear step bound.

Layers: `Proofs/TwoWayCertWords.lean` (word combinatorics, order-parametric, model-free),
`Proofs/TwoWayCertSuffix.lean` (T2: `Suffix::forward`), `Proofs/TwoWayCertShift.lean`
(T1, T3: `Shift::forward`), this file (assembly).
-/
import MemchrModel.Proofs.TwoWay
import MemchrModel.Proofs.TwoWayCertShift

namespace Memchr.TwoWay

open Memchr Words

/-- **Certificate for every needle** (T1 + T2 + T3).  `Finder::new(needle)` returns normally
and the `critical_pos` and `shift` it stores satisfy `CertFwd`. -/
theorem cert_fwd (needle : Slice) (hnv : needle.Valid) (c : Ctr) :
    ∃ tw c', Finder.new needle c = .ok tw c' ∧
      CertFwd needle.toArray tw.criticalPos tw.shift := by
  obtain ⟨bs, ebs, _⟩ := byteset_new_spec needle c
  unfold Finder.new
  rw [bind_ok ebs]
  by_cases h0 : needle.len = 0
  · rw [bind_ok (suffix_forward_empty needle _ _ h0), bind_ok (suffix_forward_empty needle _ _ h0)]
    simp only [Nat.lt_irrefl, if_false, Shift.forward, h0, csub_of_le _ (Nat.le_refl 0),
      pure_bind', Nat.zero_mul, ge_iff_le, Nat.le_refl, if_true]
    have hsz : needle.toArray.size = 0 := by rw [Slice.toArray_size hnv]; exact h0
    refine ⟨_, _, rfl, fun k hk _ => ⟨per_of_size_le _ hk (by omega), hk⟩, ?_⟩
    exact ⟨fun h => by omega, fun k _ => by simp⟩
  · have hn : 0 < needle.len := Nat.pos_of_ne_zero h0
    obtain ⟨s1, c1, e1, w1⟩ :=
      suffix_forward_win needle .minimal { c with steps := c.steps + needle.len } hn
    obtain ⟨s2, c2, e2, w2⟩ := suffix_forward_win needle .maximal c1 hn
    rw [bind_ok e1, bind_ok e2]
    by_cases hgt : s1.pos > s2.pos
    · simp only [hgt, if_true]
      obtain ⟨sh, c3, e3, hcert⟩ := cert_of_wins needle hnv (kindLt_strictTotal .minimal) w1 w2
        (by omega) c2
      rw [bind_ok e3]
      exact ⟨_, c3, rfl, hcert⟩
    · simp only [hgt, if_false]
      obtain ⟨sh, c3, e3, hcert⟩ := cert_of_wins needle hnv (kindLt_strictTotal .maximal) w2 w1
        (by omega) c2
      rw [bind_ok e3]
      exact ⟨_, c3, rfl, hcert⟩

/-- **`Finder::new(needle).find_with_prefilter(pre, haystack, needle)` is the leftmost
occurrence**, unconditionally: for every (valid) needle and haystack, every optional prefilter
whose strategy is sound (`PreSound`: run on any tail of the haystack it returns normally and
never skips an occurrence), in every prefilter state.  No fault of any kind.  The prefilter
afterwards has the same strategy (and is `None` if it was `None`); without a prefilter the whole
call takes at most `3 * haystack.len + 8 * needle.len + 3` steps. -/
theorem find_correct (needle haystack : Slice) (pre : Option Pre) (c : Ctr)
    (strat : Slice → M (Option Nat))
    (hnv : needle.Valid) (hhv : haystack.Valid)
    (hpre : PreOK strat pre) (hsound : pre ≠ none → PreSound needle haystack strat) :
    ∃ pre' c', (Finder.new needle >>= fun tw =>
          Finder.findWithPrefilter tw pre haystack needle) c =
        .ok (Spec.leftmost haystack.toArray needle.toArray, pre') c' ∧
      PreOK strat pre' ∧ (pre = none → pre' = none) ∧
      (pre = none → c'.steps ≤ c.steps + 3 * haystack.len + 8 * needle.len + 3) := by
  obtain ⟨tw, c1, e1, hs1, hbs, _, _, hhalf⟩ := finder_new_spec needle c hnv
  obtain ⟨tw', c1', e1', hcert⟩ := cert_fwd needle hnv c
  rw [e1] at e1'
  cases e1'
  obtain ⟨pre', c2, e2, h1, h2, h3⟩ := find_eq_of_cert tw needle haystack pre c1 strat hnv hhv
    hcert hbs hpre hsound
  refine ⟨pre', c2, ?_, h1, h2, fun hp => ?_⟩
  · rw [bind_ok e1]; exact e2
  · have := h3 hp hhalf
    omega

/-- **`Finder::new(needle).find(haystack, needle)` is the leftmost occurrence**, for every
needle and haystack, within `3 * haystack.len + 8 * needle.len + 3` steps. -/
theorem find_correct_nopre (needle haystack : Slice) (c : Ctr) (hnv : needle.Valid)
    (hhv : haystack.Valid) :
    ∃ c', (Finder.new needle >>= fun tw => Finder.find tw haystack needle) c =
        .ok (Spec.leftmost haystack.toArray needle.toArray) c' ∧
      c'.steps ≤ c.steps + 3 * haystack.len + 8 * needle.len + 3 :=
  new_find_eq_of_cert needle haystack c hnv hhv (fun tw c1 e => by
    obtain ⟨tw', c1', e', hcert⟩ := cert_fwd needle hnv c
    rw [e] at e'
    cases e'
    exact hcert)

/-! ### non-vacuity of the hypotheses -/

/-- valid needle and haystack, no prefilter -/
example :
    let needle := Slice.ofMem ⟨1, 4096, "abaab".toUTF8.data⟩
    let haystack := Slice.ofMem ⟨0, 8192, "abaaabaabab".toUTF8.data⟩
    needle.Valid ∧ haystack.Valid ∧ PreOK (fun _ => pure none) none := by
  refine ⟨by unfold Slice.Valid; decide, by unfold Slice.Valid; decide, fun p hp => by cases hp⟩

/-- a sound prefilter strategy exists for every needle and haystack ("every position is a
candidate") -/
example (needle haystack : Slice) : PreSound needle haystack (fun _ => pure (some 0)) :=
  fun a _ c => ⟨some 0, c, rfl, nofun, fun cnd h q _ => by cases h; exact Nat.zero_le _⟩

/-! ### axioms -/

#print axioms cert_fwd
#print axioms find_correct
#print axioms find_correct_nopre

end Memchr.TwoWay
