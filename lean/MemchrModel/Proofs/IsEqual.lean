/-
`is_equal_raw` / `is_equal` / `is_prefix` / `is_suffix` coincide with slice comparison (C18).
-/
import MemchrModel.Base.Lemmas
import MemchrModel.Model.IsEqual

namespace Memchr.IsEqual

open Memchr

/-- `is_equal_raw(x, y, n)` on two readable ranges returns whether the ranges hold the same
bytes; every load is in range. It costs at most `n / 4 + 2` steps. -/
theorem isEqualRaw_correct (mx my : Mem) (x y n : Nat) (c : Ctr)
    (hx1 : mx.base ≤ x) (hx2 : x + n ≤ mx.base + mx.bytes.size)
    (hy1 : my.base ≤ y) (hy2 : y + n ≤ my.base + my.bytes.size) :
    ∃ c', isEqualRaw mx my x y n c = .ok (decide (mx.window x n = my.window y n)) c' ∧
      c'.steps ≤ c.steps + n / 4 + 2 := by
  sorry

end Memchr.IsEqual
