/-
`is_equal_raw` / `is_equal` / `is_prefix` / `is_suffix` coincide with slice comparison (C18).
-/
import MemchrModel.Base.Lemmas
import MemchrModel.Model.IsEqual
import MemchrModel.Proofs.IsEqualLemmas

namespace Memchr.IsEqual

open Memchr

/-- the 2- and 1-byte tail of `is_equal_raw` (`n < 4`) -/
theorem tail_correct (mx my : Mem) (x y n : Nat) (c : Ctr) (hn : n < 4)
    (hx1 : mx.base ≤ x) (hx2 : x + n ≤ mx.base + mx.bytes.size)
    (hy1 : my.base ≤ y) (hy2 : y + n ≤ my.base + my.bytes.size) :
    ∃ c', tail mx my x y n c = .ok (decide (mx.window x n = my.window y n)) c' ∧
      c'.steps ≤ c.steps + 2 := by
  unfold tail
  by_cases h2 : n ≥ 2
  · simp only [h2, if_true, M.bind_run, tick_run]
    rw [Mem.loadU_ok mx x 2 _ hx1 (by omega)]
    simp only []
    rw [Mem.loadU_ok my y 2 _ hy1 (by omega)]
    simp only []
    have hsplit := Mem.window_add_eq_iff mx my x y 2 (n - 2)
    rw [show 2 + (n - 2) = n by omega] at hsplit
    by_cases hne : mx.window x 2 = my.window y 2
    · simp only [hne, bne_self_eq_false, Bool.false_eq_true, if_false]
      rw [Mem.padd_ok mx _ x 2 hx1 (by omega), Mem.padd_ok my _ y 2 hy1 (by omega),
        csub_of_le _ h2]
      simp only [M.bind_run, M.pure_run]
      by_cases h3 : n - 2 > 0
      · have hn3 : n - 2 = 1 := by omega
        simp only [h3, if_true, M.bind_run, tick_run]
        rw [Mem.read_ok mx (x + 2) _ (by omega) (by omega)]
        simp only []
        rw [Mem.read_ok my (y + 2) _ (by omega) (by omega)]
        simp only []
        rw [hn3, Mem.window_one, Mem.window_one] at hsplit
        by_cases hb : mx.byteAt (x + 2) = my.byteAt (y + 2)
        · have : mx.window x n = my.window y n := hsplit.mpr ⟨hne, by rw [hb]⟩
          simp only [hb, bne_self_eq_false, Bool.false_eq_true, if_false, M.pure_run, this,
            decide_true]
          exact ⟨_, rfl, by simp⟩
        · have : ¬ mx.window x n = my.window y n := fun h => hb (by
            have := (hsplit.mp h).2
            exact List.head_eq_of_cons_eq this)
          have hb' : (mx.byteAt (x + 2) != my.byteAt (y + 2)) = true := by simpa using hb
          simp only [hb', if_true, M.pure_run, this, decide_false]
          exact ⟨_, rfl, by simp⟩
      · have hn3 : n - 2 = 0 := by omega
        rw [hn3] at hsplit
        have : mx.window x n = my.window y n := hsplit.mpr ⟨hne, rfl⟩
        simp only [h3, if_false, M.pure_run, this, decide_true]
        exact ⟨_, rfl, by simp⟩
    · have : ¬ mx.window x n = my.window y n := fun h => hne (hsplit.mp h).1
      have hne' : (mx.window x 2 != my.window y 2) = true := by simpa using hne
      simp only [hne', if_true, M.pure_run, this, decide_false]
      exact ⟨_, rfl, by simp⟩
  · simp only [h2, if_false]
    by_cases h1 : n > 0
    · have hn1 : n = 1 := by omega
      subst hn1
      simp only [h1, if_true, M.bind_run, tick_run]
      rw [Mem.read_ok mx x _ hx1 (by omega)]
      simp only []
      rw [Mem.read_ok my y _ hy1 (by omega)]
      simp only [Mem.window_one]
      by_cases hb : mx.byteAt x = my.byteAt y
      · simp only [hb, bne_self_eq_false, Bool.false_eq_true, if_false, M.pure_run,
          decide_true]
        exact ⟨_, rfl, by simp⟩
      · have hb' : (mx.byteAt x != my.byteAt y) = true := by simpa using hb
        have : ¬ [mx.byteAt x] = [my.byteAt y] := fun h => hb (List.head_eq_of_cons_eq h)
        simp only [hb', if_true, M.pure_run, this, decide_false]
        exact ⟨_, rfl, by simp⟩
    · have hn0 : n = 0 := by omega
      subst hn0
      simp only [h1, if_false, M.pure_run, Mem.window_zero, decide_true]
      exact ⟨_, rfl, by simp⟩

theorem loop4_correct (mx my : Mem) (x y n : Nat) (c : Ctr)
    (hx1 : mx.base ≤ x) (hx2 : x + n ≤ mx.base + mx.bytes.size)
    (hy1 : my.base ≤ y) (hy2 : y + n ≤ my.base + my.bytes.size) :
    ∃ c', loop4 mx my x y n c = .ok (decide (mx.window x n = my.window y n)) c' ∧
      c'.steps ≤ c.steps + n / 4 + 2 := by
  fun_induction loop4 mx my x y n generalizing c with
  | case1 x y n h ih =>
    simp only [M.bind_run, tick_run]
    rw [Mem.loadU_ok mx x 4 _ hx1 (by omega)]
    simp only []
    rw [Mem.loadU_ok my y 4 _ hy1 (by omega)]
    simp only []
    have hsplit := Mem.window_add_eq_iff mx my x y 4 (n - 4)
    rw [show 4 + (n - 4) = n by omega] at hsplit
    by_cases hne : mx.window x 4 = my.window y 4
    · simp only [hne, bne_self_eq_false, Bool.false_eq_true, if_false]
      rw [Mem.padd_ok mx _ x 4 hx1 (by omega), Mem.padd_ok my _ y 4 hy1 (by omega)]
      simp only [M.bind_run, M.pure_run]
      obtain ⟨c', e, hs⟩ := ih
        { steps := c.steps + 1,
          loads := ⟨my.region, y - my.base, 4, false⟩ ::
            ⟨mx.region, x - mx.base, 4, false⟩ :: c.loads }
        (by omega) (by omega) (by omega) (by omega)
      refine ⟨c', ?_, ?_⟩
      · rw [e]
        congr 1
        simp only [hsplit, hne, true_and]
      · simp only at hs
        omega
    · have : ¬ mx.window x n = my.window y n := fun h => hne (hsplit.mp h).1
      have hne' : (mx.window x 4 != my.window y 4) = true := by simpa using hne
      simp only [hne', if_true, M.pure_run, this, decide_false]
      exact ⟨_, rfl, by simp; omega⟩
  | case2 x y n h =>
    obtain ⟨c', e, hs⟩ := tail_correct mx my x y n c (by omega) hx1 hx2 hy1 hy2
    exact ⟨c', e, by omega⟩

/-- `is_equal_raw(x, y, n)` on two readable ranges returns whether the ranges hold the same
bytes; every load is in range. It costs at most `n / 4 + 2` steps. -/
theorem isEqualRaw_correct (mx my : Mem) (x y n : Nat) (c : Ctr)
    (hx1 : mx.base ≤ x) (hx2 : x + n ≤ mx.base + mx.bytes.size)
    (hy1 : my.base ≤ y) (hy2 : y + n ≤ my.base + my.bytes.size) :
    ∃ c', isEqualRaw mx my x y n c = .ok (decide (mx.window x n = my.window y n)) c' ∧
      c'.steps ≤ c.steps + n / 4 + 2 :=
  loop4_correct mx my x y n c hx1 hx2 hy1 hy2

example : ∃ c', isEqualRaw ⟨0, 100, #[1, 2, 3, 4, 5, 6, 7]⟩ ⟨1, 200, #[9, 2, 3, 4, 5, 6, 7, 8]⟩
    101 201 6 {} = .ok true c' ∧ c'.steps ≤ 3 := by
  obtain ⟨c', h, hs⟩ := isEqualRaw_correct ⟨0, 100, #[1, 2, 3, 4, 5, 6, 7]⟩
    ⟨1, 200, #[9, 2, 3, 4, 5, 6, 7, 8]⟩ 101 201 6 {} (by decide) (by decide) (by decide)
    (by decide)
  exact ⟨c', by rw [h]; rfl, by simpa using hs⟩

/-! ### slice-level functions -/

/-- `is_equal(x, y)` is slice equality, at most `x.len / 4 + 2` steps -/
theorem isEqual_correct (x y : Slice) (c : Ctr) (hx : x.Valid) (hy : y.Valid) :
    ∃ c', isEqual x y c = .ok (decide (x.toList = y.toList)) c' ∧
      c'.steps ≤ c.steps + x.len / 4 + 2 := by
  unfold isEqual
  by_cases hl : x.len = y.len
  · have hl' : (x.len != y.len) = false := by simpa using hl
    simp only [hl', Bool.false_eq_true, if_false]
    obtain ⟨c', e, hs⟩ := isEqualRaw_correct x.mem y.mem x.ptr y.ptr x.len c hx.ptr_le
      hx.endPtr_le hy.ptr_le (by rw [hl]; exact hy.endPtr_le)
    refine ⟨c', ?_, hs⟩
    rw [e, Slice.toList_eq_window x, Slice.toList_eq_window y, hl]
  · have hl' : (x.len != y.len) = true := by simpa using hl
    have : ¬ x.toList = y.toList := fun h => hl (by
      have := congrArg List.length h
      simpa using this)
    simp only [hl', if_true, M.pure_run, this, decide_false]
    exact ⟨c, rfl, by omega⟩

theorem take_toList (h : Slice) (k : Nat) (hk : k ≤ h.len) :
    (⟨h.mem, h.off, k⟩ : Slice).toList = h.toList.take k := by
  simp only [Slice.toList, ← List.map_take, List.take_range, Nat.min_eq_left hk]
  rfl

theorem drop_toList (h : Slice) (a : Nat) (_ha : a ≤ h.len) :
    (⟨h.mem, h.off + a, h.len - a⟩ : Slice).toList = h.toList.drop a := by
  apply List.ext_getElem
  · simp
  · intro i h1 h2
    simp only [Slice.toList, List.getElem_map, List.getElem_range, List.getElem_drop,
      Slice.getD]
    rw [Nat.add_assoc]

/-- `is_prefix(haystack, needle)` decides `needle <+: haystack` (`List.IsPrefix`) -/
theorem isPrefix_correct (h n : Slice) (c : Ctr) (hh : h.Valid) (hn : n.Valid) :
    ∃ c', isPrefix h n c = .ok (decide (n.toList <+: h.toList)) c' ∧
      c'.steps ≤ c.steps + n.len / 4 + 2 := by
  unfold isPrefix
  by_cases hl : n.len ≤ h.len
  · simp only [hl, if_true, Slice.take, M.bind_run, M.pure_run]
    have hv : (⟨h.mem, h.off, n.len⟩ : Slice).Valid := by
      unfold Slice.Valid at *; simp only; omega
    obtain ⟨c', e, hs⟩ := isEqual_correct ⟨h.mem, h.off, n.len⟩ n c hv hn
    refine ⟨c', ?_, hs⟩
    rw [e, take_toList h n.len hl]
    congr 1
    apply decide_eq_decide.mpr
    rw [List.prefix_iff_eq_take, Slice.toList_length]
    exact ⟨fun h => h.symm, fun h => h.symm⟩
  · have : ¬ n.toList <+: h.toList := fun hp => hl (by
      have := hp.length_le
      simpa using this)
    simp only [hl, if_false, M.pure_run, this, decide_false]
    exact ⟨c, rfl, by omega⟩

/-- `is_suffix(haystack, needle)` decides `needle <:+ haystack` (`List.IsSuffix`) -/
theorem isSuffix_correct (h n : Slice) (c : Ctr) (hh : h.Valid) (hn : n.Valid) :
    ∃ c', isSuffix h n c = .ok (decide (n.toList <:+ h.toList)) c' ∧
      c'.steps ≤ c.steps + n.len / 4 + 2 := by
  unfold isSuffix
  by_cases hl : n.len ≤ h.len
  · simp only [hl, if_true, csub_of_le _ hl, Slice.drop, Nat.sub_le, M.bind_run,
      M.pure_run]
    have hv : (⟨h.mem, h.off + (h.len - n.len), h.len - (h.len - n.len)⟩ : Slice).Valid := by
      unfold Slice.Valid at *; simp only; omega
    obtain ⟨c', e, hs⟩ := isEqual_correct _ n c hv hn
    refine ⟨c', ?_, ?_⟩
    · rw [e, drop_toList h (h.len - n.len) (Nat.sub_le _ _)]
      congr 1
      apply decide_eq_decide.mpr
      rw [List.suffix_iff_eq_drop, Slice.toList_length, Slice.toList_length]
      exact ⟨fun h => h.symm, fun h => h.symm⟩
    · simp only at hs
      have : h.len - (h.len - n.len) = n.len := by omega
      rw [this] at hs
      exact hs
  · have : ¬ n.toList <:+ h.toList := fun hp => hl (by
      have := hp.length_le
      simpa using this)
    simp only [hl, if_false, M.pure_run, this, decide_false]
    exact ⟨c, rfl, by omega⟩

example : (⟨⟨0, 64, #[0, 1, 2, 3, 4, 5, 6, 7]⟩, 1, 6⟩ : Slice).Valid ∧
    (⟨⟨1, 8, #[1, 2, 3]⟩, 0, 3⟩ : Slice).Valid := by
  constructor <;> (unfold Slice.Valid; decide)

end Memchr.IsEqual
