/-
Nat-level facts behind `NeonMoveMask(u64)`: the nibble layout (lane `i` = bit `4i + 3`),
the little-endian reassembly `leNat`, the "shift right narrow by 4" on boolean lanes, the
pairwise max, and the 64-bit versions of the two bit tricks. Reuses `tz`/`bitLen`/`popcount`
lemmas of `Proofs/SensibleBits.lean`.
-/
import MemchrModel.Model.Neon
import MemchrModel.Proofs.SensibleBits

namespace Memchr.Neon

open Memchr Bits

/-! ### nibble-well-formed naturals: every set bit is at a position `4i + 3` -/

/-- every set bit of `n` is the top bit of a nibble -/
def NibWf (n : Nat) : Prop := ∀ j, n.testBit j = true → j % 4 = 3

theorem nibWf_and_left {a : Nat} (b : Nat) (ha : NibWf a) : NibWf (a &&& b) := by
  intro j hj
  rw [Nat.testBit_and] at hj
  exact ha j (by simp at hj; exact hj.1)

theorem nibWf_and_right (a : Nat) {b : Nat} (hb : NibWf b) : NibWf (a &&& b) := by
  intro j hj
  rw [Nat.testBit_and] at hj
  exact hb j (by simp at hj; exact hj.2)

theorem nibWf_or {a b : Nat} (ha : NibWf a) (hb : NibWf b) : NibWf (a ||| b) := by
  intro j hj
  rw [Nat.testBit_or] at hj
  rcases Bool.or_eq_true _ _ ▸ hj with h | h
  · exact ha j h
  · exact hb j h

/-! ### the constant `0x8888888888888888` -/

theorem maskConst_toNat : maskConst.toNat = 0x8888888888888888 := by decide

theorem maskNat_testBit (j : Nat) :
    (0x8888888888888888 : Nat).testBit j = (decide (j < 64) && decide (j % 4 = 3)) := by
  by_cases h : j < 64
  · have key : ∀ j : Fin 64, (0x8888888888888888 : Nat).testBit j = decide (j.val % 4 = 3) := by
      decide
    have := key ⟨j, h⟩
    simp only [h, decide_true, Bool.true_and]
    exact this
  · have : (0x8888888888888888 : Nat).testBit j = false := by
      apply Nat.testBit_lt_two_pow
      exact Nat.lt_of_lt_of_le (by decide : (0x8888888888888888 : Nat) < 2 ^ 64)
        (Nat.pow_le_pow_right (by decide) (by omega))
    simp [this, h]

theorem nibWf_maskNat : NibWf 0x8888888888888888 := by
  intro j hj
  rw [maskNat_testBit] at hj
  simp at hj; exact hj.2

/-! ### `leNat` -/

theorem leNat_cons_testBit (x : UInt8) (xs : List UInt8) (k : Nat) :
    (leNat (x :: xs)).testBit k =
      if k < 8 then x.toNat.testBit k else (leNat xs).testBit (k - 8) := by
  have hx : x.toNat < 2 ^ 8 := x.toNat_lt
  have e : leNat (x :: xs) = 2 ^ 8 * leNat xs + x.toNat := by
    simp only [leNat]; omega
  rw [e]; exact Nat.testBit_two_pow_mul_add _ hx k

theorem leNat_lt (xs : List UInt8) : leNat xs < 2 ^ (8 * xs.length) := by
  induction xs with
  | nil => simp [leNat]
  | cons x xs ih =>
    have hx : x.toNat < 256 := x.toNat_lt
    have e : 8 * (xs.length + 1) = 8 * xs.length + 8 := by omega
    simp only [leNat, List.length_cons, e, Nat.pow_add]
    omega

theorem leNat_eq_zero (xs : List UInt8) : leNat xs = 0 ↔ ∀ x ∈ xs, x = 0 := by
  induction xs with
  | nil => simp [leNat]
  | cons x xs ih =>
    simp only [leNat, List.mem_cons, forall_eq_or_imp]
    constructor
    · intro h
      have h1 : x.toNat = 0 := by omega
      have h2 : leNat xs = 0 := by omega
      exact ⟨UInt8.toNat_inj.mp (by rw [h1]; rfl), ih.mp h2⟩
    · intro ⟨h1, h2⟩
      subst h1
      have := ih.mpr h2
      simp [this]

/-! ### shift-right-narrow on boolean lanes -/

theorem narrow_bit3 (a b : UInt8) (ha : a = 0x00 ∨ a = 0xFF) (hb : b = 0x00 ∨ b = 0xFF) :
    (((a.toUInt16 + 256 * b.toUInt16) >>> 4).toUInt8).toNat.testBit 3 = (a == 0xFF) := by
  rcases ha with rfl | rfl <;> rcases hb with rfl | rfl <;> decide

theorem narrow_bit7 (a b : UInt8) (ha : a = 0x00 ∨ a = 0xFF) (hb : b = 0x00 ∨ b = 0xFF) :
    (((a.toUInt16 + 256 * b.toUInt16) >>> 4).toUInt8).toNat.testBit 7 = (b == 0xFF) := by
  rcases ha with rfl | rfl <;> rcases hb with rfl | rfl <;> decide

theorem shrn4_asU16s_cons (a b : UInt8) (rest : List UInt8) :
    shrn4 (asU16s (a :: b :: rest)) =
      ((a.toUInt16 + 256 * b.toUInt16) >>> 4).toUInt8 :: shrn4 (asU16s rest) := by
  simp [asU16s, shrn4]

/-- On a boolean vector of even length, bit `4i + 3` of the narrowed value is lane `i`. -/
theorem narrowed_testBit : ∀ (v : List UInt8), (∀ x ∈ v, x = 0x00 ∨ x = 0xFF) →
    v.length % 2 = 0 → ∀ i : Nat,
    (leNat (shrn4 (asU16s v))).testBit (4 * i + 3) = (v[i]? == some 0xFF)
  | [], _, _, i => by simp [asU16s, shrn4, leNat]
  | [a], _, hl, _ => by simp at hl
  | a :: b :: rest, hb, hl, i => by
    have ha' : a = 0x00 ∨ a = 0xFF := hb a (by simp)
    have hb' : b = 0x00 ∨ b = 0xFF := hb b (by simp)
    have hrest : ∀ x ∈ rest, x = 0x00 ∨ x = 0xFF := fun x hx => hb x (by simp [hx])
    have hl' : rest.length % 2 = 0 := by simp at hl; omega
    rw [shrn4_asU16s_cons, leNat_cons_testBit]
    match i with
    | 0 =>
      simp only [Nat.mul_zero, Nat.zero_add, show (3 : Nat) < 8 by decide, if_true,
        narrow_bit3 a b ha' hb', List.getElem?_cons_zero]
      by_cases h : a = 0xFF <;> simp [h]
    | 1 =>
      simp only [show 4 * 1 + 3 = 7 by decide, show (7 : Nat) < 8 by decide, if_true,
        narrow_bit7 a b ha' hb', List.getElem?_cons_succ, List.getElem?_cons_zero]
      by_cases h : b = 0xFF <;> simp [h]
    | i + 2 =>
      have h1 : ¬ (4 * (i + 2) + 3 < 8) := by omega
      have h2 : 4 * (i + 2) + 3 - 8 = 4 * i + 3 := by omega
      simp only [h1, if_false, h2, List.getElem?_cons_succ]
      exact narrowed_testBit rest hrest hl' i

/-! ### pairwise max -/

theorem umax_eq_zero (a b : UInt8) : (if a ≤ b then b else a) = 0 ↔ a = 0 ∧ b = 0 := by
  by_cases h : a ≤ b
  · simp only [h, if_true]
    constructor
    · intro hb; subst hb
      rw [UInt8.le_iff_toNat_le] at h
      have : a.toNat = 0 := by
        have : (0 : UInt8).toNat = 0 := rfl
        omega
      exact ⟨UInt8.toNat_inj.mp (by rw [this]; rfl), rfl⟩
    · intro ⟨_, hb⟩; exact hb
  · simp only [h, if_false]
    constructor
    · intro ha; subst ha
      exfalso; apply h
      rw [UInt8.le_iff_toNat_le]
      show 0 ≤ b.toNat
      omega
    · intro ⟨ha, _⟩; exact ha

theorem pairMax_length : ∀ v : List UInt8, (pairMax v).length = v.length / 2
  | [] => by simp [pairMax]
  | [a] => by simp [pairMax]
  | a :: b :: rest => by
    simp only [pairMax, List.length_cons, pairMax_length rest]; omega

theorem pairMax_all_zero : ∀ v : List UInt8, v.length % 2 = 0 →
    ((∀ x ∈ pairMax v, x = 0) ↔ ∀ x ∈ v, x = 0)
  | [], _ => by simp [pairMax]
  | [a], hl => by simp at hl
  | a :: b :: rest, hl => by
    have hl' : rest.length % 2 = 0 := by simp at hl; omega
    simp only [pairMax, List.mem_cons, forall_eq_or_imp, umax_eq_zero,
      pairMax_all_zero rest hl', and_assoc]

/-! ### counting: one bit per nibble -/

theorem filter_range_nib (p : Nat → Bool) (hp : ∀ j, p j = true → j % 4 = 3) (k : Nat) :
    ((List.range (4 * k)).filter p).length =
      ((List.range k).filter (fun i => p (4 * i + 3))).length := by
  induction k with
  | zero => simp
  | succ k ih =>
    have e : 4 * (k + 1) = 4 * k + 1 + 1 + 1 + 1 := by omega
    have h0 : p (4 * k) = false := by
      cases h : p (4 * k) with
      | false => rfl
      | true => have := hp _ h; omega
    have h1 : p (4 * k + 1) = false := by
      cases h : p (4 * k + 1) with
      | false => rfl
      | true => have := hp _ h; omega
    have h2 : p (4 * k + 1 + 1) = false := by
      cases h : p (4 * k + 1 + 1) with
      | false => rfl
      | true => have := hp _ h; omega
    rw [e]
    simp only [List.range_succ, List.filter_append, List.length_append, List.filter_cons,
      List.filter_nil, h0, h1, h2, ih]
    cases p (4 * k + 1 + 1 + 1) <;> simp

theorem popcount_nib (n : Nat) (hn : n < 2 ^ 64) (hw : NibWf n) :
    popcount n = ((List.range 16).filter (fun i => n.testBit (4 * i + 3))).length := by
  rw [popcount_eq 64 n hn]
  exact filter_range_nib (fun i => n.testBit i) hw 16

/-! ### lowest / highest set bit of a nibble-well-formed word -/

theorem nib_exists_lt {n : Nat} (hn : n < 2 ^ 64) (hex : ∃ i, n.testBit (4 * i + 3) = true) :
    ∃ j, j < 64 ∧ n.testBit j = true := by
  obtain ⟨i, hi⟩ := hex
  refine ⟨4 * i + 3, ?_, hi⟩
  have h1 := Nat.ge_two_pow_of_testBit hi
  exact (Nat.pow_lt_pow_iff_right (by decide)).mp (Nat.lt_of_le_of_lt h1 hn)

theorem tz_nib (n : Nat) (hn : n < 2 ^ 64) (hw : NibWf n)
    (hex : ∃ i, n.testBit (4 * i + 3) = true) :
    n.testBit (4 * (tz 64 n >>> 2) + 3) = true ∧
      ∀ j, j < tz 64 n >>> 2 → n.testBit (4 * j + 3) = false := by
  obtain ⟨h1, h2⟩ := tz_spec 64 n (nib_exists_lt hn hex)
  have hm := hw _ h1
  have e : 4 * (tz 64 n >>> 2) + 3 = tz 64 n := by
    rw [Nat.shiftRight_eq_div_pow]; omega
  refine ⟨by rw [e]; exact h1, ?_⟩
  intro j hj
  apply h2
  rw [Nat.shiftRight_eq_div_pow] at hj; omega

theorem bitLen_nib (n : Nat) (hn : n < 2 ^ 64) (hw : NibWf n) (hne : n ≠ 0) :
    ∃ k, k < 16 ∧ bitLen n = 4 * k + 4 ∧ n.testBit (4 * k + 3) = true ∧
      ∀ j, k < j → n.testBit (4 * j + 3) = false := by
  have hpos := bitLen_pos hne
  have hle := bitLen_le_of_lt 64 n hn
  have ht := testBit_bitLen_sub_one n hne
  have hm := hw _ ht
  refine ⟨(bitLen n - 1) / 4, by omega, by omega, ?_, ?_⟩
  · have e : 4 * ((bitLen n - 1) / 4) + 3 = bitLen n - 1 := by omega
    rw [e]; exact ht
  · intro j hj
    exact testBit_of_bitLen_le _ _ (by omega)

/-! ### `!(((1 << n) << 2) - 1)` on a 64-bit word -/

theorem not_low_mask_testBit64 (n i : Nat) (hn : n ≤ 64) :
    (2 ^ 64 - 1 - (2 ^ n - 1)).testBit i = (decide (i < 64) && decide (n ≤ i)) := by
  have hp : 0 < 2 ^ n := Nat.two_pow_pos n
  have hlt : 2 ^ n - 1 < 2 ^ 64 :=
    Nat.lt_of_lt_of_le (by omega) (Nat.pow_le_pow_right (by decide) hn)
  have e : 2 ^ 64 - 1 - (2 ^ n - 1) = 2 ^ 64 - ((2 ^ n - 1) + 1) := by omega
  rw [e, Nat.testBit_two_pow_sub_succ hlt, Nat.testBit_two_pow_sub_one]
  by_cases h : i < n <;> simp [h] <;> omega

end Memchr.Neon
