/-
T1 and T3 (DESIGN section 8) on the model: from the two maximal suffixes computed by
`Suffix::forward` the larger start is a critical position in the strong form `Core`, and
`Shift::forward` called with that position and the smallest period of the right part returns
`Small { period }` with the smallest period of the needle, or `Large { shift }` with a shift
that is at most the smallest period.  Together: the certificate `CertFwd`.
-/
import MemchrModel.Proofs.TwoWayCertSuffix

namespace Memchr.TwoWay

open Memchr Words

/-! ### arrays and `getD` -/

theorem lrf_of_lr {n : Slice} (hn : n.Valid) {c k : Nat} (h : LR n.toArray c k) :
    LRF n.getD n.len c k := by
  intro t h1 h2 h3
  have := h t h1 h2 (by rw [Slice.toArray_size hn]; exact h3)
  rw [Slice.toArray_getElem? hn t (by omega), Slice.toArray_getElem? hn (t + k) h3] at this
  exact Option.some.inj this

theorem perW_of_per {n : Slice} (hn : n.Valid) {k : Nat} (h : Per n.toArray k) :
    PerW n.getD 0 n.len k :=
  fun t _ ht => per_getD hn h t ht

/-- T1 in array form -/
theorem core_of_getD {n : Slice} (hn : n.Valid) {crit : Nat}
    (h : ∀ k, 1 ≤ k → LRF n.getD n.len crit k → crit < k ∧ PerW n.getD 0 n.len k) :
    Core n.toArray crit := by
  intro k hk hlr
  obtain ⟨h1, h2⟩ := h k hk (lrf_of_lr hn hlr)
  exact ⟨per_of_getD hn hk (fun t ht => h2 t (Nat.zero_le _) ht), h1⟩

/-! ### the `is_suffix(&v[..period], u)` test of `Shift::forward` -/

theorem isSuffix_iff (n : Slice) (crit p : Nat) :
    (⟨n.mem, n.off, crit⟩ : Slice).toList <:+ (⟨n.mem, n.off + crit, p⟩ : Slice).toList ↔
      crit ≤ p ∧ ∀ t, t < crit → n.getD t = n.getD (t + p) := by
  have eu : ∀ t, (⟨n.mem, n.off, crit⟩ : Slice).getD t = n.getD t := fun t => rfl
  have ev : ∀ t, (⟨n.mem, n.off + crit, p⟩ : Slice).getD t = n.getD (crit + t) := fun t => by
    simp only [Slice.getD, Nat.add_assoc]
  constructor
  · intro hsuf
    have hlen : crit ≤ p := by
      have := hsuf.length_le
      simpa using this
    refine ⟨hlen, fun t ht => ?_⟩
    rw [List.suffix_iff_eq_drop] at hsuf
    have h1 : (⟨n.mem, n.off, crit⟩ : Slice).toList[t]? = some (n.getD t) := by
      rw [Slice.toList_getElem? _ t ht]; rfl
    rw [hsuf, List.getElem?_drop] at h1
    simp only [Slice.toList_length] at h1
    rw [Slice.toList_getElem? _ _ (show p - crit + t < p by omega), ev] at h1
    rw [← Option.some.inj h1]
    congr 1; omega
  · rintro ⟨hle, h⟩
    rw [List.suffix_iff_eq_drop]
    apply List.ext_getElem?
    intro t
    simp only [Slice.toList_length, List.getElem?_drop]
    by_cases ht : t < crit
    · rw [Slice.toList_getElem? _ t ht, Slice.toList_getElem? _ _ (show p - crit + t < p by omega),
        eu, ev, h t ht]
      congr 2; omega
    · rw [List.getElem?_eq_none (by simp only [Slice.toList_length]; omega),
        List.getElem?_eq_none (by simp only [Slice.toList_length]; omega)]

/-! ### `Shift::forward` (T3) -/

/-- **T3.**  Let `crit` satisfy the conclusion of T1 and let `p` be the smallest period of
`needle[crit..]`.  Then `Shift::forward(needle, p, crit)` returns normally with a shift that,
together with `crit`, satisfies the certificate. -/
theorem shift_forward_cert (n : Slice) (p crit : Nat) (c : Ctr) (hnv : n.Valid)
    (hcore : ∀ k, 1 ≤ k → LRF n.getD n.len crit k → crit < k ∧ PerW n.getD 0 n.len k)
    (hp1 : 1 ≤ p) (hcp : crit + p ≤ n.len) (hper : PerW n.getD crit n.len p)
    (hmin : ∀ q, 1 ≤ q → q < p → ¬ PerW n.getD crit n.len q) :
    ∃ sh c', Shift.forward n p crit c = .ok sh c' ∧ CertFwd n.toArray crit sh := by
  have hsz : n.toArray.size = n.len := Slice.toArray_size hnv
  have hC : Core n.toArray crit := core_of_getD hnv hcore
  have hcrit : crit < n.len := by omega
  -- the `Large` answer when no period is shorter than the right part
  have hlarge : (∀ k, Per n.toArray k → n.len - crit ≤ k) →
      CertFwd n.toArray crit (.large (max crit (n.len - crit))) := by
    intro hk
    refine ⟨hC, fun _ => by omega, fun k hpk => ?_⟩
    have := hC.crit_lt_per hpk
    have := hk k hpk
    omega
  unfold Shift.forward
  simp only [csub_of_le _ (Nat.le_of_lt hcrit), pure_bind']
  by_cases h2 : crit * 2 ≥ n.len
  · simp only [h2, if_true]
    refine ⟨_, c, rfl, hlarge (fun k hpk => ?_)⟩
    have := hC.crit_lt_per hpk
    omega
  · simp only [h2, if_false, Slice.take, Slice.drop, Nat.le_of_lt hcrit, if_true, pure_bind',
      show p ≤ n.len - crit by omega]
    have hvu : (⟨n.mem, n.off, crit⟩ : Slice).Valid := by
      unfold Slice.Valid at *; simp only; omega
    have hvv : (⟨n.mem, n.off + crit, p⟩ : Slice).Valid := by
      unfold Slice.Valid at *; simp only; omega
    obtain ⟨c', e, _⟩ := IsEqual.isSuffix_correct ⟨n.mem, n.off + crit, p⟩ ⟨n.mem, n.off, crit⟩ c
      hvv hvu
    rw [bind_ok e]
    by_cases hsuf : (⟨n.mem, n.off, crit⟩ : Slice).toList <:+
        (⟨n.mem, n.off + crit, p⟩ : Slice).toList
    · simp only [hsuf, decide_true, Bool.not_true, Bool.false_eq_true, if_false]
      obtain ⟨hle, hu⟩ := (isSuffix_iff n crit p).mp hsuf
      refine ⟨_, c', rfl, hC, ?_, ?_⟩
      · apply per_of_getD hnv hp1
        intro t ht
        by_cases htc : t < crit
        · exact hu t htc
        · exact hper t (by omega) ht
      · intro k hpk
        rcases Nat.lt_or_ge k p with hkp | hkp
        · exact absurd ((perW_of_per hnv hpk).mono (Nat.zero_le _) (Nat.le_refl _))
            (hmin k hpk.1 hkp)
        · exact hkp
    · simp only [hsuf, decide_false, Bool.not_false, if_true]
      refine ⟨_, c', rfl, hlarge (fun k hpk => ?_)⟩
      rcases Nat.lt_or_ge k (n.len - crit) with hk | hk
      · exfalso
        obtain ⟨hcp', hpp⟩ := per_of_short_per hcore hp1 hper hmin hpk.1 (perW_of_per hnv hpk)
          (by omega)
        exact hsuf ((isSuffix_iff n crit p).mpr
          ⟨Nat.le_of_lt hcp', fun t ht => hpp t (Nat.zero_le _) (by omega)⟩)
      · exact hk

/-! ### T1 + T3 for the pair of suffixes -/

/-- From the exit invariants of the two `Suffix::forward` runs (`w` for the kind whose start
`crit` is the larger one, `w'` for the other kind, start `d <= crit`): `Shift::forward`
returns normally and the certificate holds. -/
theorem cert_of_wins (n : Slice) (hnv : n.Valid) {lt : UInt8 → UInt8 → Prop}
    (ho : StrictTotal lt) {crit p d p' : Nat}
    (w : Win lt n.getD n.len crit n.len p)
    (w' : Win (fun a b => lt b a) n.getD n.len d n.len p') (hd : d ≤ crit) (c : Ctr) :
    ∃ sh c', Shift.forward n p crit c = .ok sh c' ∧ CertFwd n.toArray crit sh :=
  shift_forward_cert n p crit c hnv
    (fun _ hk hlr => crit_core ho w.maxSuf w'.right hd hk hlr) w.p1 w.ip w.per w.minp

#print axioms cert_of_wins

end Memchr.TwoWay
