/-
Two-Way, forward direction: the two outer search loops (`find_small_imp`, `find_large_imp`)
relative to an abstract loop invariant.  `LoopInv` lists what must be justified each time the
Rust advances `pos`; instantiating `Inv` with "no occurrence starts before `pos`" gives
correctness under the certificate (`Proofs/TwoWay.lean`), instantiating it with `True` gives
soundness of a reported match without any certificate.
-/
import MemchrModel.Proofs.TwoWayLemmas

namespace Memchr.TwoWay

open Memchr

/-- closure properties of an abstract loop invariant `Inv pos` under the ways the forward
loops advance `pos` (`step` is `period` resp. `shift`), and of `Done` -/
structure LoopInv (tw : TwoWay) (needle haystack : Slice) (step : Nat) (Inv : Nat → Prop)
    (Done : Prop) : Prop where
  done : ∀ q, Inv q → haystack.len < q + needle.len → Done
  bs : ∀ q, Inv q → q + needle.len ≤ haystack.len →
    tw.byteset.has (haystack.getD (q + (needle.len - 1))) = false → Inv (q + needle.len)
  right : ∀ q i, Inv q → q + needle.len ≤ haystack.len → tw.criticalPos ≤ i → i < needle.len →
    MatchR haystack needle q tw.criticalPos i → needle.getD i ≠ haystack.getD (q + i) →
    Inv (q + (i - tw.criticalPos + 1))
  left : ∀ q m, Inv q → q + needle.len ≤ haystack.len →
    MatchR haystack needle q tw.criticalPos needle.len → m < needle.len →
    needle.getD m ≠ haystack.getD (q + m) → Inv (q + step)

theorem largeLoop_spec (tw : TwoWay) (needle haystack : Slice) (hn : 0 < needle.len) (s : Nat)
    (strat : Slice → M (Option Nat)) (Inv : Nat → Prop) (Done : Prop)
    (hcrit : tw.criticalPos ≤ needle.len) (hs1 : 1 ≤ s)
    (hI : LoopInv tw needle haystack s Inv Done)
    (pre : Option Pre) (pos : Nat) (c : Ctr)
    (hstrat : pre ≠ none → StratOK haystack strat Inv Done)
    (hpre : PreOK strat pre) (hinv : Inv pos) :
    ∃ r pre' c', Finder.largeLoop tw needle haystack hn s (needle.len - 1) pre pos c
        = .ok (r, pre') c' ∧ PreOK strat pre' ∧ (pre = none → pre' = none) ∧
      (∀ q, r = some q → Inv q ∧ Occ haystack needle q) ∧ (r = none → Done) ∧
      (pre = none → needle.len ≤ 2 * s →
        c'.steps ≤ c.steps + 3 * (haystack.len - pos) + needle.len + 1) := by
  fun_induction Finder.largeLoop tw needle haystack hn s (needle.len - 1) pre pos generalizing c with
  | case1 pre pos h ih1 ih2 ih3 =>
    obtain ⟨pre1, st, c1, e1, hpre1, hnone1, hst0, hst1⟩ :=
      prefilterStep_spec "find_large_imp" needle haystack strat Inv Done pre pos
        { c with steps := c.steps + 1 } h hpre hstrat hI.done
    have hstrat1 : pre1 ≠ none → StratOK haystack strat Inv Done := fun hne =>
      hstrat (fun hp => hne (hnone1 hp).1)
    rw [bind_ok (tick_run 1 c), bind_ok e1]
    cases st with
    | none =>
      exact ⟨none, pre1, c1, rfl, hpre1, fun hp => (hnone1 hp).1, nofun, fun _ => hst0 rfl hinv,
        fun hp => by cases (hnone1 hp).2.1⟩
    | some dr =>
      obtain ⟨delta, ran⟩ := dr
      obtain ⟨hinv', hfit, _⟩ := hst1 delta ran rfl
      have hinv1 := hinv' hinv
      have hd0 : pre = none → delta = 0 ∧ c1.steps = c.steps + 1 := fun hp => by
        obtain ⟨_, h2, h3⟩ := hnone1 hp
        cases h2; subst h3; exact ⟨rfl, rfl⟩
      simp only []
      rw [get_ok haystack _ (show pos + delta + (needle.len - 1) < haystack.len by omega),
        pure_bind', bind_ok (contains_run _ _ _)]
      cases hin : tw.byteset.has (haystack.getD (pos + delta + (needle.len - 1))) with
      | false =>
        simp only [Bool.not_false, if_true]
        obtain ⟨r, pre', c', e, h1, h2, h3, h4, h5⟩ := ih1 pre1 delta c1 hstrat1 hpre1
          (hI.bs _ hinv1 hfit hin)
        refine ⟨r, pre', c', e, h1, fun hp => h2 (hnone1 hp).1, h3, h4, fun hp hs => ?_⟩
        have := h5 (hnone1 hp).1 hs
        obtain ⟨hd, hc⟩ := hd0 hp
        subst hd
        omega
      | true =>
        simp only [Bool.not_true, Bool.false_eq_true, if_false]
        obtain ⟨i, c2, e2, hi1, hi2, hi3, hi4, hstep2, _⟩ :=
          fwdCmp_spec "find_large_imp" needle haystack (pos + delta) tw.criticalPos c1 hfit
        rw [bind_ok e2]
        by_cases hilt : i < needle.len
        · simp only [hilt, if_true, csub_of_le _ hi1, pure_bind']
          obtain ⟨r, pre', c', e, h1, h2, h3, h4, h5⟩ := ih2 pre1 delta i (i - tw.criticalPos) c2
            hstrat1 hpre1 (hI.right _ i hinv1 hfit hi1 hilt hi3 (hi4 hilt))
          refine ⟨r, pre', c', e, h1, fun hp => h2 (hnone1 hp).1, h3, h4, fun hp hs => ?_⟩
          have := h5 (hnone1 hp).1 hs
          obtain ⟨hd, hc⟩ := hd0 hp
          subst hd
          omega
        · have hieq : i = needle.len := by have := hi2 hcrit; omega
          subst hieq
          simp only [hilt, if_false]
          obtain ⟨all, c3, e3, ha1, ha2, hstep3, _⟩ :=
            largeBackCmp_spec needle haystack (pos + delta) tw.criticalPos c2 hfit hcrit
          rw [bind_ok e3]
          cases all with
          | true =>
            simp only [if_true]
            refine ⟨some (pos + delta), pre1, c3, rfl, hpre1, fun hp => (hnone1 hp).1, ?_, nofun,
              fun hp hs => ?_⟩
            · intro q hq
              cases hq
              exact ⟨hinv1, ((ha1 rfl).append hi3).occ hfit⟩
            · obtain ⟨hd, hc⟩ := hd0 hp
              omega
          | false =>
            obtain ⟨m, hm1, hm2⟩ := ha2 rfl
            have hs0 : ¬ s = 0 := by omega
            simp only [Bool.false_eq_true, if_false, hs0, dite_false]
            obtain ⟨r, pre', c', e, h1, h2, h3, h4, h5⟩ := ih3 pre1 delta needle.len hs0 c3
              hstrat1 hpre1 (hI.left _ m hinv1 hfit hi3 (by omega) hm2)
            refine ⟨r, pre', c', e, h1, fun hp => h2 (hnone1 hp).1, h3, h4, fun hp hs => ?_⟩
            have := h5 (hnone1 hp).1 hs
            obtain ⟨hd, hc⟩ := hd0 hp
            subst hd
            omega
  | case2 pre pos h =>
    exact ⟨none, pre, c, rfl, hpre, fun hp => hp, nofun, fun _ => hI.done pos hinv (by omega),
      fun _ _ => by omega⟩

theorem smallLoop_spec (tw : TwoWay) (needle haystack : Slice) (hn : 0 < needle.len) (p : Nat)
    (strat : Slice → M (Option Nat)) (Inv : Nat → Prop) (Done : Prop)
    (hcrit : tw.criticalPos < needle.len) (hp1 : 1 ≤ p) (hpn : p ≤ needle.len)
    (hcp : tw.criticalPos ≤ p)
    (hper : ∀ t, t + p < needle.len → needle.getD t = needle.getD (t + p))
    (hI : LoopInv tw needle haystack p Inv Done)
    (pre : Option Pre) (pos shift : Nat) (c : Ctr)
    (hstrat : pre ≠ none → StratOK haystack strat Inv Done)
    (hpre : PreOK strat pre) (hinv : Inv pos)
    (hshift : shift < needle.len) (hmem : MatchR haystack needle pos 0 shift) :
    ∃ r pre' c', Finder.smallLoop tw needle haystack hn p (needle.len - 1) pre pos shift c
        = .ok (r, pre') c' ∧ PreOK strat pre' ∧ (pre = none → pre' = none) ∧
      (∀ q, r = some q → Inv q ∧ Occ haystack needle q) ∧ (r = none → Done) ∧
      (pre = none → pos ≤ haystack.len →
        c'.steps + (pos + max tw.criticalPos shift) + 2 * pos ≤
          c.steps + 3 * haystack.len + 2 * needle.len + 1) := by
  fun_induction Finder.smallLoop tw needle haystack hn p (needle.len - 1) pre pos shift
    generalizing c with
  | case1 pre pos shift h ih1 ih2 ih3 =>
    obtain ⟨pre1, st, c1, e1, hpre1, hnone1, hst0, hst1⟩ :=
      prefilterStep_spec "find_small_imp" needle haystack strat Inv Done pre pos
        { c with steps := c.steps + 1 } h hpre hstrat hI.done
    have hstrat1 : pre1 ≠ none → StratOK haystack strat Inv Done := fun hne =>
      hstrat (fun hp => hne (hnone1 hp).1)
    rw [bind_ok (tick_run 1 c)]
    simp only []
    rw [bind_ok e1]
    cases st with
    | none =>
      exact ⟨none, pre1, c1, rfl, hpre1, fun hp => (hnone1 hp).1, nofun, fun _ => hst0 rfl hinv,
        fun hp => by cases (hnone1 hp).2.1⟩
    | some dr =>
      obtain ⟨delta, ran⟩ := dr
      obtain ⟨hinv', hfit, hran⟩ := hst1 delta ran rfl
      have hinv1 := hinv' hinv
      simp only []
      -- the state after the prefilter block
      generalize hsh : (if ran = true then 0 else shift) = shift1
      generalize hi0 : (if ran = true then tw.criticalPos else max tw.criticalPos shift) = i0
      have hshift1 : shift1 < needle.len := by
        rw [← hsh]; split <;> omega
      have hi0' : i0 = max tw.criticalPos shift1 := by
        rw [← hsh, ← hi0]; split <;> simp
      have hmem1 : MatchR haystack needle (pos + delta) 0 shift1 := by
        rw [← hsh]
        cases ran with
        | true => exact MatchR.empty _ _ _ _
        | false =>
          rw [hran rfl]
          exact hmem
      -- without a prefilter nothing changed
      have hd0 : pre = none → delta = 0 ∧ shift1 = shift ∧ c1.steps = c.steps + 1 := fun hp => by
        obtain ⟨_, h2, h3⟩ := hnone1 hp
        cases h2; subst h3
        exact ⟨rfl, by rw [← hsh]; simp, rfl⟩
      rw [get_ok haystack _ (show pos + delta + (needle.len - 1) < haystack.len by omega),
        pure_bind', bind_ok (contains_run _ _ _)]
      cases hin : tw.byteset.has (haystack.getD (pos + delta + (needle.len - 1))) with
      | false =>
        simp only [Bool.not_false, if_true]
        obtain ⟨r, pre', c', e, h1, h2, h3, h4, h5⟩ := ih1 pre1 delta c1 hstrat1 hpre1
          (hI.bs _ hinv1 hfit hin) hn (MatchR.empty _ _ _ _)
        refine ⟨r, pre', c', e, h1, fun hp => h2 (hnone1 hp).1, h3, h4, fun hp _ => ?_⟩
        obtain ⟨hd, hs, hc⟩ := hd0 hp
        subst hd
        have := h5 (hnone1 hp).1 (by omega)
        omega
      | true =>
        simp only [Bool.not_true, Bool.false_eq_true, if_false]
        obtain ⟨i, c2, e2, hi1, hi2, hi3, hi4, hstep2, _⟩ :=
          fwdCmp_spec "find_small_imp" needle haystack (pos + delta) i0 c1 hfit
        rw [bind_ok e2]
        have hi0n : i0 ≤ needle.len := by rw [hi0']; omega
        have hci : tw.criticalPos ≤ i := by rw [hi0'] at hi1; omega
        -- the right part `[crit, i)` matches (memory below `i0`, compared from `i0`)
        have hright : MatchR haystack needle (pos + delta) tw.criticalPos i := by
          intro t ht1 ht2
          by_cases hts : t < shift1
          · exact hmem1 t (Nat.zero_le _) hts
          · exact hi3 t (by rw [hi0']; omega) ht2
        by_cases hilt : i < needle.len
        · simp only [hilt, if_true, csub_of_le _ hci, pure_bind']
          obtain ⟨r, pre', c', e, h1, h2, h3, h4, h5⟩ := ih2 pre1 delta i (i - tw.criticalPos) c2
            hstrat1 hpre1 (hI.right _ i hinv1 hfit hci hilt hright (hi4 hilt)) hn
            (MatchR.empty _ _ _ _)
          refine ⟨r, pre', c', e, h1, fun hp => h2 (hnone1 hp).1, h3, h4, fun hp _ => ?_⟩
          obtain ⟨hd, hs, hc⟩ := hd0 hp
          subst hd hs
          have := h5 (hnone1 hp).1 (by omega)
          rw [hi0'] at hstep2 hi1
          omega
        · have hieq : i = needle.len := by have := hi2 hi0n; omega
          subst hieq
          simp only [hilt, if_false]
          obtain ⟨j, c3, e3, hj1, hj2, hj3, hj4, hstep3, _⟩ :=
            smallBackCmp_spec needle haystack (pos + delta) shift1 tw.criticalPos c2 hfit hcrit
          rw [bind_ok e3]
          have hp0 : ¬ p = 0 := by omega
          -- cost of this iteration up to here: `1 + (len - i0) + (crit - j) <= len + 1`
          have hcost : pre = none → c3.steps + max tw.criticalPos shift ≤
              c.steps + 1 + needle.len + tw.criticalPos := fun hp => by
            obtain ⟨hd, hs, hc⟩ := hd0 hp
            subst hs
            rw [hi0'] at hstep2
            omega
          -- the continuation after a left mismatch at `m`
          have hmiss : ∀ m, m < needle.len → needle.getD m ≠ haystack.getD (pos + delta + m) →
              ∃ r pre' c',
                (csub "find_small_imp: needle.len() - period" needle.len p >>= fun shift' =>
                  if hp : p = 0 then fail (Fault.panic "find_small_imp: no progress (period = 0)")
                  else Finder.smallLoop tw needle haystack hn p (needle.len - 1) pre1
                    (pos + delta + p) shift') c3 = .ok (r, pre') c' ∧ PreOK strat pre' ∧
                (pre = none → pre' = none) ∧
                (∀ q, r = some q → Inv q ∧ Occ haystack needle q) ∧ (r = none → Done) ∧
                (pre = none → pos ≤ haystack.len →
                  c'.steps + (pos + max tw.criticalPos shift) + 2 * pos ≤
                    c.steps + 3 * haystack.len + 2 * needle.len + 1) := by
            intro m hm1 hm2
            simp only [csub_of_le _ hpn, pure_bind', hp0, dite_false]
            obtain ⟨r, pre', c', e, h1, h2, h3, h4, h5⟩ := ih3 pre1 delta needle.len
              (needle.len - p) hp0 c3 hstrat1 hpre1 (hI.left _ m hinv1 hfit hright hm1 hm2)
              (by omega) (memory_after_period hper hcp hright)
            refine ⟨r, pre', c', e, h1, fun hp => h2 (hnone1 hp).1, h3, h4, fun hp _ => ?_⟩
            obtain ⟨hd, hs, hc⟩ := hd0 hp
            subst hd
            have := h5 (hnone1 hp).1 (by omega)
            have := hcost hp
            omega
          by_cases hjs : j ≤ shift1
          · simp only [hjs, if_true, get_ok needle _ hshift1,
              get_ok haystack _ (show pos + delta + shift1 < haystack.len by omega), pure_bind']
            by_cases heq : needle.getD shift1 = haystack.getD (pos + delta + shift1)
            · simp only [heq, beq_self_eq_true, if_true]
              refine ⟨some (pos + delta), pre1, c3, rfl, hpre1, fun hp => (hnone1 hp).1, ?_, nofun,
                fun hp _ => ?_⟩
              · intro q hq
                cases hq
                refine ⟨hinv1, MatchR.occ ?_ hfit⟩
                intro t _ ht
                by_cases ht1 : t < shift1
                · exact hmem1 t (Nat.zero_le _) ht1
                · by_cases ht2 : t = shift1
                  · subst ht2; exact heq
                  · by_cases ht3 : t ≤ tw.criticalPos
                    · exact hj2 t (by omega) (by omega)
                    · exact hright t (by omega) ht
              · obtain ⟨hd, hs, hc⟩ := hd0 hp
                subst hd
                have := hcost hp
                omega
            · have : (needle.getD shift1 == haystack.getD (pos + delta + shift1)) = false := by
                simpa using heq
              simp only [this, Bool.false_eq_true, if_false]
              exact hmiss shift1 hshift1 heq
          · simp only [hjs, if_false, pure_bind', Bool.false_eq_true]
            rcases hj3 with hj3 | hj3
            · exact absurd hj3 hjs
            · exact hmiss j (by omega) hj3
  | case2 pre pos shift h =>
    exact ⟨none, pre, c, rfl, hpre, fun hp => hp, nofun, fun _ => hI.done pos hinv (by omega),
      fun _ _ => by omega⟩

end Memchr.TwoWay
