/-
Shift-Or (`src/arch/all/shiftor.rs`): property C12.

`Finder::new(needle)` is `None` exactly for needles longer than 15 bytes and never faults;
`find` returns the leftmost occurrence for every needle of length `<= 15` and every haystack;
neither the overflow-checked shifts nor `i + 1 - needle_len` can fail.

Invariant of the search loop: after consuming `i` haystack bytes, for `j <= needle_len`, bit
`j` of `result` is 0 iff `needle[..j]` is a suffix of `hay[..i]`.  The `u16` shift only drops
bit 15, and `needle_len <= 15`, so bit `needle_len` is never lost.
-/
import MemchrModel.Base.Lemmas
import MemchrModel.Model.ShiftOr
import MemchrModel.Proofs.IsEqualLemmas
import MemchrModel.Spec.Substr

namespace Memchr.ShiftOr

open Memchr

/-! ### obligations on the generated constant -/

theorem maskBits_eq : maskBits = 16 := by decide

theorem maxNeedleLen_eq : maxNeedleLen = 15 := by decide

/-! ### bits of a `u16` -/

/-- bit `j` of `x` -/
def tb (x : UInt16) (j : Nat) : Bool := x.toBitVec.getLsbD j

theorem tb_or (x y : UInt16) (j : Nat) : tb (x ||| y) j = (tb x j || tb y j) := by
  simp [tb]

theorem tb_and (x y : UInt16) (j : Nat) : tb (x &&& y) j = (tb x j && tb y j) := by
  simp [tb]

theorem tb_not (x : UInt16) (j : Nat) : tb (~~~x) j = (decide (j < 16) && !tb x j) := by
  simp [tb]

theorem tb_zero (j : Nat) : tb 0 j = false := by simp [tb]

theorem tb_one (j : Nat) : tb 1 j = decide (j = 0) := by
  simp [tb, BitVec.getLsbD_one]

theorem tb_shl1 (x : UInt16) (j : Nat) :
    tb (x <<< 1) j = (decide (j < 16) && decide (1 ≤ j) && tb x (j - 1)) := by
  simp only [tb, UInt16.toBitVec_shiftLeft]
  simp
  cases j <;> simp

theorem tb_one_shl (n j : Nat) (h : n < 16) :
    tb ((1 : UInt16) <<< n.toUInt16) j = decide (j = n) := by
  simp [tb, UInt16.toBitVec_shiftLeft, Nat.mod_eq_of_lt h]
  rw [Bool.eq_iff_iff]
  simp
  omega

theorem eq_zero_iff (x : UInt16) : x = 0 ↔ ∀ j, j < 16 → tb x j = false := by
  constructor
  · rintro rfl j _; simp [tb]
  · intro h
    apply UInt16.eq_of_toBitVec_eq
    apply BitVec.eq_of_getLsbD_eq
    intro i hi
    simpa [tb] using h i hi

/-- `x & (1 << n) == 0` tests bit `n` -/
theorem and_bit_eq_zero (x : UInt16) (n : Nat) (h : n < 16) :
    (x &&& ((1 : UInt16) <<< n.toUInt16) == 0) = !tb x n := by
  rw [Bool.eq_iff_iff, beq_iff_eq, eq_zero_iff]
  constructor
  · intro hh
    have := hh n h
    rw [tb_and, tb_one_shl n n h] at this
    simpa using this
  · intro hh j _
    rw [tb_and, tb_one_shl n j h]
    by_cases hj : j = n
    · subst hj; simpa using hh
    · simp [hj]

theorem shl1_ok (site : String) {n : Nat} (h : n < 16) :
    shl1 site n = pure ((1 : Mask) <<< n.toUInt16) := by
  simp [shl1, maskBits_eq, h]

/-! ### the mask table -/

theorem maskAt_maskSet (masks : Vector Mask 256) (b b' : UInt8) (v : Mask) :
    maskAt (maskSet masks b v) b' = if b = b' then v else maskAt masks b' := by
  unfold maskAt maskSet
  rw [Vector.getElem_set]
  by_cases h : b = b'
  · simp [h]
  · have : b.toNat ≠ b'.toNat := fun e => h (UInt8.toNat_inj.mp e)
    simp [h, this]

/-- the table after the first `i` needle bytes: bit `j` of `masks[b]` is 0 iff
`j < i` and `needle[j] = b` -/
def MasksUpTo (needle : Slice) (i : Nat) (masks : Vector Mask 256) : Prop :=
  ∀ (b : UInt8) (j : Nat), j < 16 →
    tb (maskAt masks b) j = !(decide (j < i) && needle.getD j == b)

theorem masksUpTo_init (needle : Slice) :
    MasksUpTo needle 0 (Vector.replicate 256 (~~~(0 : Mask))) := by
  intro b j hj
  simp only [maskAt, Vector.getElem_replicate, tb_not, tb_zero]
  simp [hj]

theorem newLoop_correct (needle : Slice) (i : Nat) (masks : Vector Mask 256) (c : Ctr)
    (hlen : needle.len ≤ 15) (h : MasksUpTo needle i masks) :
    ∃ masks', newLoop needle i masks c = .ok masks' c ∧
      MasksUpTo needle (max i needle.len) masks' := by
  fun_induction newLoop needle i masks generalizing c with
  | case1 i masks hlt byte ih =>
    have hi16 : i < 16 := by omega
    simp only [bind, shl1_ok _ hi16, pure]
    have e : max i needle.len = max (i + 1) needle.len := by omega
    rw [e]
    refine ih ((1 : Mask) <<< i.toUInt16) c ?_
    intro b j hj
    show tb (maskAt (maskSet masks (needle.getD i)
      (maskAt masks (needle.getD i) &&& ~~~((1 : Mask) <<< i.toUInt16))) b) j = _
    rw [maskAt_maskSet]
    by_cases hb : needle.getD i = b
    · simp only [hb, if_true, tb_and, tb_not, tb_one_shl i j hi16, hj, decide_true,
        Bool.true_and]
      rw [h b j hj]
      by_cases hji : j = i
      · subst hji; simp [hb]
      · have : (decide (j < i + 1)) = decide (j < i) := by
          apply decide_eq_decide.mpr; omega
        simp [hji, this]
    · simp only [hb, if_false]
      rw [h b j hj]
      by_cases hji : j = i
      · subst hji; simp [hb]
      · have : (decide (j < i + 1)) = decide (j < i) := by
          apply decide_eq_decide.mpr; omega
        rw [this]
  | case2 i masks hge =>
    have e : max i needle.len = i := by omega
    rw [e]
    exact ⟨masks, rfl, h⟩

/-- a finder as built by `Finder::new(needle)` -/
structure Finder.For (f : Finder) (needle : Slice) : Prop where
  len_eq : f.needleLen = needle.len
  len_le : needle.len ≤ 15
  masks : MasksUpTo needle needle.len f.masks

/-- **C12 (construction)** `Finder::new(needle)` never faults, does not touch the counter, is
`None` exactly when `needle.len() > 15`, and otherwise holds the bitap table of the needle. -/
theorem Finder.new_correct (needle : Slice) (c : Ctr) :
    ∃ r, Finder.new needle c = .ok r c ∧ (r = none ↔ needle.len > 15) ∧
      ∀ f, r = some f → f.For needle := by
  unfold Finder.new
  rw [maxNeedleLen_eq]
  by_cases hlen : needle.len > 15
  · exact ⟨none, by simp [hlen], by simp [hlen], by simp⟩
  · obtain ⟨masks, hrun, hm⟩ := newLoop_correct needle 0 _ c (by omega) (masksUpTo_init needle)
    refine ⟨some ⟨masks, needle.len⟩, ?_, by simp; omega, ?_⟩
    · simp only [hlen, if_false, bind, M.bind, hrun, pure, M.pure]
    · intro f hf
      cases hf
      have e : max 0 needle.len = needle.len := by omega
      rw [e] at hm
      exact ⟨rfl, by omega, hm⟩

/-! ### suffixes and occurrences, on slices -/

/-- `needle[..j]` is a suffix of `hay[..i]` -/
def Suf (needle hay : Slice) (i j : Nat) : Prop :=
  j ≤ i ∧ ∀ k, k < j → hay.getD (i - j + k) = needle.getD k

/-- the needle occurs in the haystack at offset `q` (slice form of `Spec.OccAt`) -/
def OccS (needle hay : Slice) (q : Nat) : Prop :=
  q + needle.len ≤ hay.len ∧ ∀ k, k < needle.len → hay.getD (q + k) = needle.getD k

theorem suf_zero (needle hay : Slice) (i : Nat) : Suf needle hay i 0 :=
  ⟨Nat.zero_le _, fun k hk => by omega⟩

theorem suf_succ (needle hay : Slice) (i j : Nat) (hj : 1 ≤ j) :
    Suf needle hay (i + 1) j ↔ Suf needle hay i (j - 1) ∧ hay.getD i = needle.getD (j - 1) := by
  constructor
  · rintro ⟨h1, h2⟩
    refine ⟨⟨by omega, fun k hk => ?_⟩, ?_⟩
    · have := h2 k (by omega)
      have e : i + 1 - j + k = i - (j - 1) + k := by omega
      rw [e] at this; exact this
    · have := h2 (j - 1) (by omega)
      have e : i + 1 - j + (j - 1) = i := by omega
      rw [e] at this; exact this
  · rintro ⟨⟨h1, h2⟩, h3⟩
    refine ⟨by omega, fun k hk => ?_⟩
    by_cases hk' : k = j - 1
    · subst hk'
      have e : i + 1 - j + (j - 1) = i := by omega
      rw [e]; exact h3
    · have := h2 k (by omega)
      have e : i + 1 - j + k = i - (j - 1) + k := by omega
      rw [e]; exact this

theorem suf_len_iff (needle hay : Slice) (i : Nat) (hi : i ≤ hay.len) (hn : needle.len ≤ i) :
    Suf needle hay i needle.len ↔ OccS needle hay (i - needle.len) := by
  unfold Suf OccS
  constructor
  · rintro ⟨_, h2⟩; exact ⟨by omega, h2⟩
  · rintro ⟨_, h2⟩; exact ⟨hn, h2⟩

theorem occAt_iff_occS {needle hay : Slice} (hvn : needle.Valid) (hvh : hay.Valid) (q : Nat) :
    Spec.OccAt hay.toArray needle.toArray q ↔ OccS needle hay q := by
  unfold Spec.OccAt OccS
  rw [Slice.toArray_size hvh, Slice.toArray_size hvn]
  constructor
  · rintro ⟨h1, h2⟩
    refine ⟨h1, fun k hk => ?_⟩
    have := h2 k hk
    rw [Slice.toArray_getElem? hvh (q + k) (by omega), Slice.toArray_getElem? hvn k hk] at this
    exact Option.some.inj this
  · rintro ⟨h1, h2⟩
    refine ⟨h1, fun k hk => ?_⟩
    rw [Slice.toArray_getElem? hvh (q + k) (by omega), Slice.toArray_getElem? hvn k hk,
      h2 k hk]

/-- `r` is the leftmost occurrence, if any -/
def LeftRes (needle hay : Slice) : Option Nat → Prop
  | none => ∀ q, ¬ OccS needle hay q
  | some r => OccS needle hay r ∧ ∀ q, q < r → ¬ OccS needle hay q

theorem LeftRes.eq_spec {needle hay : Slice} (hvn : needle.Valid) (hvh : hay.Valid)
    {r : Option Nat} (h : LeftRes needle hay r) :
    r = Spec.leftmost hay.toArray needle.toArray := by
  cases r with
  | none =>
    symm
    rw [Spec.leftmost_eq_none_iff]
    intro q hq
    exact h q ((occAt_iff_occS hvn hvh q).mp hq)
  | some r =>
    symm
    rw [Spec.leftmost_eq_some_iff]
    exact ⟨(occAt_iff_occS hvn hvh r).mpr h.1,
      fun q hq ho => h.2 q hq ((occAt_iff_occS hvn hvh q).mp ho)⟩

/-! ### the search loop -/

/-- one step of the bitap automaton keeps the invariant -/
theorem step_inv {needle hay : Slice} {f : Finder} (hf : f.For needle) (i : Nat) (R : Mask)
    (hinv : ∀ j, j ≤ needle.len → (tb R j = false ↔ Suf needle hay i j)) :
    ∀ j, j ≤ needle.len →
      (tb ((R ||| maskAt f.masks (hay.getD i)) <<< 1) j = false ↔ Suf needle hay (i + 1) j) := by
  intro j hj
  have hl := hf.len_le
  rw [tb_shl1]
  by_cases hj0 : j = 0
  · subst hj0
    simp [suf_zero]
  · have h16 : j < 16 := by omega
    have h1 : 1 ≤ j := by omega
    have hjn : j - 1 < needle.len := by omega
    rw [suf_succ needle hay i j h1, ← hinv (j - 1) (by omega), tb_or,
      hf.masks (hay.getD i) (j - 1) (by omega)]
    simp only [h16, h1, hjn, decide_true, Bool.true_and]
    cases tb R (j - 1)
    · simp
      exact eq_comm
    · simp

theorem findLoop_correct {needle hay : Slice} {f : Finder} (hf : f.For needle)
    (hn : 1 ≤ needle.len) (i : Nat) (R : Mask) (c : Ctr) (hi : i ≤ hay.len)
    (hinv : ∀ j, j ≤ needle.len → (tb R j = false ↔ Suf needle hay i j))
    (hno : ∀ q, q + needle.len ≤ i → ¬ OccS needle hay q) :
    ∃ r, findLoop f hay i R c = .ok r c ∧ LeftRes needle hay r := by
  fun_induction findLoop f hay i R generalizing c with
  | case1 i R hlt byte R1 R2 ih =>
    have hl := hf.len_le
    have hn16 : f.needleLen < 16 := by rw [hf.len_eq]; omega
    have hstep : ∀ j, j ≤ needle.len → (tb R2 j = false ↔ Suf needle hay (i + 1) j) :=
      step_inv hf i R hinv
    have hcond : (R2 &&& ((1 : Mask) <<< f.needleLen.toUInt16) == 0) = !tb R2 f.needleLen :=
      and_bit_eq_zero _ _ hn16
    simp only [bind, shl1_ok _ hn16, pure]
    simp only [M.bind, M.pure, hcond]
    by_cases hbit : tb R2 f.needleLen = false
    · have hsuf := (hstep needle.len (Nat.le_refl _)).mp (by rw [← hf.len_eq]; exact hbit)
      have hle : needle.len ≤ i + 1 := hsuf.1
      have hocc := (suf_len_iff needle hay (i + 1) (by omega) hle).mp hsuf
      refine ⟨some (i + 1 - needle.len), ?_, hocc, ?_⟩
      · have hbit2 : tb R2 needle.len = false := by rw [← hf.len_eq]; exact hbit
        simp only [csub, hf.len_eq, hle, hbit2, Bool.not_false, if_true, pure]
        rfl
      · intro q hq; exact hno q (by omega)
    · have hns : ¬ Suf needle hay (i + 1) needle.len := fun hs =>
        hbit (by rw [hf.len_eq]; exact (hstep needle.len (Nat.le_refl _)).mpr hs)
      obtain ⟨r, hr, hres⟩ := ih c (by omega) hstep (fun q hq ho => by
        by_cases hq' : q + needle.len ≤ i
        · exact hno q hq' ho
        · apply hns
          have e : q = i + 1 - needle.len := by omega
          rw [e] at ho
          exact (suf_len_iff needle hay (i + 1) (by omega) (by omega)).mpr ho)
      refine ⟨r, ?_, hres⟩
      have hbit' : tb R2 f.needleLen = true := by simpa using hbit
      simp only [hbit', Bool.not_true, Bool.false_eq_true, if_false]
      exact hr
  | case2 i R hge =>
    refine ⟨none, rfl, ?_⟩
    intro q hq
    exact hno q (by have := hq.1; omega) hq

/-! ### master theorems -/

/-- `let mut result = !1`: only bit 0 is clear, and only the empty prefix is a suffix of the
empty haystack prefix -/
theorem init_inv (needle hay : Slice) (hl : needle.len ≤ 15) :
    ∀ j, j ≤ needle.len → (tb (~~~(1 : Mask)) j = false ↔ Suf needle hay 0 j) := by
  intro j hj
  have h16 : j < 16 := by omega
  rw [tb_not, tb_one]
  unfold Suf
  by_cases hj0 : j = 0
  · subst hj0; simp
  · simp [h16, hj0]

/-- **C12 (search)** For a finder built for `needle` (`needle.len() <= 15`) and any haystack,
`find` returns the leftmost occurrence, never faults and does not touch the counter. -/
theorem Finder.find_correct {needle hay : Slice} (hvn : needle.Valid) (hvh : hay.Valid)
    {f : Finder} (hf : f.For needle) (c : Ctr) :
    f.find hay c = .ok (Spec.leftmost hay.toArray needle.toArray) c := by
  unfold Finder.find
  by_cases h0 : f.needleLen = 0
  · have hr : LeftRes needle hay (some 0) := by
      have hn : needle.len = 0 := by rw [← hf.len_eq]; exact h0
      refine ⟨⟨by omega, fun k hk => by omega⟩, fun q hq => by omega⟩
    rw [← hr.eq_spec hvn hvh]
    simp [h0]
  · have hn : 1 ≤ needle.len := by rw [← hf.len_eq]; omega
    obtain ⟨r, hrun, hres⟩ := findLoop_correct (hay := hay) hf hn 0 (~~~(1 : Mask)) c
      (Nat.zero_le _) (init_inv needle hay hf.len_le) (fun q hq => by omega)
    rw [← hres.eq_spec hvn hvh]
    simp only [beq_iff_eq, h0, if_false]
    exact hrun

/-- **C12** `Finder::new(needle)` then `find(haystack)`: for every needle of at most 15 bytes
and every haystack, the finder is built and returns `Spec.leftmost`; no fault. -/
theorem shiftOr_correct (needle hay : Slice) (hvn : needle.Valid) (hvh : hay.Valid)
    (hlen : needle.len ≤ 15) (c : Ctr) :
    ∃ f, Finder.new needle c = .ok (some f) c ∧
      f.find hay c = .ok (Spec.leftmost hay.toArray needle.toArray) c := by
  obtain ⟨r, hrun, hnone, hfor⟩ := Finder.new_correct needle c
  cases r with
  | none => have := hnone.mp rfl; omega
  | some f => exact ⟨f, hrun, Finder.find_correct hvn hvh (hfor f rfl) c⟩

/-- **C12** `Finder::new(needle)` is `None` iff `needle.len() > 15` (`MAX_NEEDLE_LEN`) -/
theorem new_eq_none_iff (needle : Slice) (c : Ctr) :
    Finder.new needle c = .ok none c ↔ needle.len > 15 := by
  obtain ⟨r, hrun, hnone, _⟩ := Finder.new_correct needle c
  rw [hrun]
  constructor
  · intro h
    injection h with h1 _
    exact hnone.mp h1
  · intro h
    rw [hnone.mpr h]

/-- **C12** the empty needle matches at offset 0 -/
theorem find_empty (needle hay : Slice) (h : needle.len = 0) (c : Ctr) :
    ∃ f, Finder.new needle c = .ok (some f) c ∧ f.find hay c = .ok (some 0) c := by
  obtain ⟨r, hrun, hnone, hfor⟩ := Finder.new_correct needle c
  cases r with
  | none => have := hnone.mp rfl; omega
  | some f =>
    refine ⟨f, hrun, ?_⟩
    have := (hfor f rfl).len_eq
    simp [Finder.find, this, h]

/-- the hypotheses of `shiftOr_correct` are satisfiable: needle `"aba"` in `"xababa"` -/
example : ∃ f, Finder.new (Slice.ofMem ⟨1, 64, #[97, 98, 97]⟩) {} = .ok (some f) {} ∧
    f.find (Slice.ofMem ⟨0, 4096, #[120, 97, 98, 97, 98, 97]⟩) {} =
      .ok (Spec.leftmost #[120, 97, 98, 97, 98, 97] #[97, 98, 97]) {} :=
  shiftOr_correct (Slice.ofMem ⟨1, 64, #[97, 98, 97]⟩)
    (Slice.ofMem ⟨0, 4096, #[120, 97, 98, 97, 98, 97]⟩)
    (Nat.le_of_eq (Nat.zero_add _)) (Nat.le_of_eq (Nat.zero_add _)) (by decide) {}

end Memchr.ShiftOr
