/-
Shift-Or (`src/arch/all/shiftor.rs`): property C12.

`Finder::new(needle)` is `None` exactly for needles longer than 15 bytes and never faults;
`find` returns the leftmost occurrence for every needle of length `<= 15` and every haystack;
neither the overflow-checked shifts nor `i + 1 - needle_len` can fail.

Invariant of the search loop: after consuming `i` haystack bytes, for `j <= needle_len`, bit
`j` of `result` is 0 iff `needle[..j]` is a suffix of `hay[..i]`.  The `u16` shift only drops
bit 15, and `needle_len <= 15`, so bit `needle_len` is never lost.
-/
import MemchrModel.Base.Lemmas
import MemchrModel.Model.ShiftOr
import MemchrModel.Proofs.IsEqualLemmas
import MemchrModel.Spec.Substr

namespace Memchr.ShiftOr

open Memchr

/-! ### obligations on the generated constant -/

theorem maskBits_eq : maskBits = 16 := by decide

theorem maxNeedleLen_eq : maxNeedleLen = 15 := by decide

/-! ### bits of a `u16` -/

/-- bit `j` of `x` -/
def tb (x : UInt16) (j : Nat) : Bool := x.toBitVec.getLsbD j

theorem tb_or (x y : UInt16) (j : Nat) : tb (x ||| y) j = (tb x j || tb y j) := by
  simp [tb]

theorem tb_and (x y : UInt16) (j : Nat) : tb (x &&& y) j = (tb x j && tb y j) := by
  simp [tb]

theorem tb_not (x : UInt16) (j : Nat) : tb (~~~x) j = (decide (j < 16) && !tb x j) := by
  simp [tb]

theorem tb_zero (j : Nat) : tb 0 j = false := by simp [tb]

theorem tb_one (j : Nat) : tb 1 j = decide (j = 0) := by
  simp [tb, BitVec.getLsbD_one]

theorem tb_shl1 (x : UInt16) (j : Nat) :
    tb (x <<< 1) j = (decide (j < 16) && decide (1 ≤ j) && tb x (j - 1)) := by
  simp only [tb, UInt16.toBitVec_shiftLeft]
  simp
  cases j <;> simp

theorem tb_one_shl (n j : Nat) (h : n < 16) :
    tb ((1 : UInt16) <<< n.toUInt16) j = decide (j = n) := by
  simp [tb, UInt16.toBitVec_shiftLeft, Nat.mod_eq_of_lt h]
  rw [Bool.eq_iff_iff]
  simp
  omega

theorem eq_zero_iff (x : UInt16) : x = 0 ↔ ∀ j, j < 16 → tb x j = false := by
  constructor
  · rintro rfl j _; simp [tb]
  · intro h
    apply UInt16.eq_of_toBitVec_eq
    apply BitVec.eq_of_getLsbD_eq
    intro i hi
    simpa [tb] using h i hi

/-- `x & (1 << n) == 0` tests bit `n` -/
theorem and_bit_eq_zero (x : UInt16) (n : Nat) (h : n < 16) :
    (x &&& ((1 : UInt16) <<< n.toUInt16) == 0) = !tb x n := by
  rw [Bool.eq_iff_iff, beq_iff_eq, eq_zero_iff]
  constructor
  · intro hh
    have := hh n h
    rw [tb_and, tb_one_shl n n h] at this
    simpa using this
  · intro hh j _
    rw [tb_and, tb_one_shl n j h]
    by_cases hj : j = n
    · subst hj; simpa using hh
    · simp [hj]

theorem shl1_ok (site : String) {n : Nat} (h : n < 16) :
    shl1 site n = pure ((1 : Mask) <<< n.toUInt16) := by
  simp [shl1, maskBits_eq, h]

/-! ### the mask table -/

theorem maskAt_maskSet (masks : Vector Mask 256) (b b' : UInt8) (v : Mask) :
    maskAt (maskSet masks b v) b' = if b = b' then v else maskAt masks b' := by
  unfold maskAt maskSet
  rw [Vector.getElem_set]
  by_cases h : b = b'
  · simp [h]
  · have : b.toNat ≠ b'.toNat := fun e => h (UInt8.toNat_inj.mp e)
    simp [h, this]

/-- the table after the first `i` needle bytes: bit `j` of `masks[b]` is 0 iff
`j < i` and `needle[j] = b` -/
def MasksUpTo (needle : Slice) (i : Nat) (masks : Vector Mask 256) : Prop :=
  ∀ (b : UInt8) (j : Nat), j < 16 →
    tb (maskAt masks b) j = !(decide (j < i) && needle.getD j == b)

theorem masksUpTo_init (needle : Slice) :
    MasksUpTo needle 0 (Vector.replicate 256 (~~~(0 : Mask))) := by
  intro b j hj
  simp only [maskAt, Vector.getElem_replicate, tb_not, tb_zero]
  simp [hj]

theorem newLoop_correct (needle : Slice) (i : Nat) (masks : Vector Mask 256) (c : Ctr)
    (hlen : needle.len ≤ 15) (h : MasksUpTo needle i masks) :
    ∃ masks', newLoop needle i masks c = .ok masks' c ∧
      MasksUpTo needle (max i needle.len) masks' := by
  fun_induction newLoop needle i masks generalizing c with
  | case1 i masks hlt byte ih =>
    have hi16 : i < 16 := by omega
    simp only [bind, shl1_ok _ hi16, pure]
    have e : max i needle.len = max (i + 1) needle.len := by omega
    rw [e]
    refine ih ((1 : Mask) <<< i.toUInt16) c ?_
    intro b j hj
    show tb (maskAt (maskSet masks (needle.getD i) _) b) j = _
    rw [maskAt_maskSet]
    by_cases hb : needle.getD i = b
    · simp only [hb, if_true, tb_and, tb_not, tb_one_shl i j hi16, hj, decide_true,
        Bool.true_and]
      rw [h b j hj]
      by_cases hji : j = i
      · subst hji; simp [hb]
      · have : (decide (j < i + 1)) = decide (j < i) := by
          apply decide_eq_decide.mpr; omega
        simp [hji, this]
    · simp only [hb, if_false]
      rw [h b j hj]
      by_cases hji : j = i
      · subst hji; simp [hb]
      · have : (decide (j < i + 1)) = decide (j < i) := by
          apply decide_eq_decide.mpr; omega
        rw [this]
  | case2 i masks hge =>
    have e : max i needle.len = i := by omega
    rw [e]
    exact ⟨masks, rfl, h⟩

/-- a finder as built by `Finder::new(needle)` -/
structure Finder.For (f : Finder) (needle : Slice) : Prop where
  len_eq : f.needleLen = needle.len
  len_le : needle.len ≤ 15
  masks : MasksUpTo needle needle.len f.masks

/-- **C12 (construction)** `Finder::new(needle)` never faults, does not touch the counter, is
`None` exactly when `needle.len() > 15`, and otherwise holds the bitap table of the needle. -/
theorem Finder.new_correct (needle : Slice) (c : Ctr) :
    ∃ r, Finder.new needle c = .ok r c ∧ (r = none ↔ needle.len > 15) ∧
      ∀ f, r = some f → f.For needle := by
  unfold Finder.new
  rw [maxNeedleLen_eq]
  by_cases hlen : needle.len > 15
  · exact ⟨none, by simp [hlen], by simp [hlen], by simp⟩
  · obtain ⟨masks, hrun, hm⟩ := newLoop_correct needle 0 _ c (by omega) (masksUpTo_init needle)
    refine ⟨some ⟨masks, needle.len⟩, ?_, by simp; omega, ?_⟩
    · simp only [hlen, if_false, bind, M.bind, hrun, pure, M.pure]
    · intro f hf
      cases hf
      have e : max 0 needle.len = needle.len := by omega
      rw [e] at hm
      exact ⟨rfl, by omega, hm⟩

end Memchr.ShiftOr
