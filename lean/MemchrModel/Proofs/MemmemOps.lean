/-
C16 / C17 (+ C03, C04, C08) for the EXTENDED finder op machines of `Model/Memmem.lean`
(`Finder.runX`, `FinderRev.runX`: the `FinderOp` operations plus "run `find_iter(hay)` /
`rfind_iter(hay)` to exhaustion and report the number of matches"), which are what the driver
ops `finderops` / `finderrevops` execute.  Unconditional (`twoWayFwdOk` / `twoWayRevOk`).

An `iter` observation is `Spec.greedyFwd(hay, needle).length` resp. `Spec.greedyRev(..).length`
whatever the ownership of the finder, and costs no allocation: `find_iter` / `rfind_iter` work
on `self.as_ref()`, a borrowed copy.
-/
import MemchrModel.Proofs.PropsBridge3

namespace Memchr.Memmem

open Memchr Memchr.Bridge3
open Memchr.TwoWay (bind_ok)

def FinderOpX.own : FinderOpX → OwnOp
  | .base op => op.own
  | .iter _ => .other

def FinderOpX.Ok : FinderOpX → Prop
  | .base op => op.Ok
  | .iter hay => hay.Valid

/-- reference observation of one extended op of a forward finder -/
def refStepX (x : Array UInt8) : FinderOpX → List OutX
  | .base op => (refFinder x [op]).map OutX.base
  | .iter hay => [.count (Spec.greedyFwd hay.toArray x).length]

/-- reference observation of one extended op of a reverse finder -/
def refStepRevX (x : Array UInt8) : FinderOpX → List OutX
  | .base op => (refFinderRev x [op]).map OutX.base
  | .iter hay => [.count (Spec.greedyRev hay.toArray x).length]

/-- a one-operation run determines the step -/
theorem Finder.step_of_run1 {cfg : Api.Cfg} {op : FinderOp} {f f' : Finder} {h h' : Heap}
    {c c' : Ctr} {outs : List Out}
    (hr : Finder.run cfg [op] f h c = .ok (outs, f', h') c') :
    ∃ o, f.step cfg op h c = .ok (o, f', h') c' ∧ o.toList = outs := by
  simp only [Finder.run, bind, M.bind, pure, M.pure] at hr
  cases hs : f.step cfg op h c with
  | fault e => rw [hs] at hr; cases hr
  | ok r c1 =>
    obtain ⟨o, f1, h1⟩ := r
    rw [hs] at hr
    simp only [List.append_nil] at hr
    cases hr
    exact ⟨o, rfl, rfl⟩

theorem FinderRev.step_of_run1 {cfg : Api.Cfg} {op : FinderOp} {f f' : FinderRev} {h h' : Heap}
    {c c' : Ctr} {outs : List Out}
    (hr : FinderRev.run cfg [op] f h c = .ok (outs, f', h') c') :
    ∃ o, f.step cfg op h c = .ok (o, f', h') c' ∧ o.toList = outs := by
  simp only [FinderRev.run, bind, M.bind, pure, M.pure] at hr
  cases hs : f.step cfg op h c with
  | fault e => rw [hs] at hr; cases hr
  | ok r c1 =>
    obtain ⟨o, f1, h1⟩ := r
    rw [hs] at hr
    simp only [List.append_nil] at hr
    cases hr
    exact ⟨o, rfl, rfl⟩

theorem CowBytes.intoOwned_own (c : CowBytes) (h : Heap) : (c.intoOwned h).1.own = .owned := by
  unfold CowBytes.intoOwned; cases c.own <;> rfl

theorem CowBytes.clone_own (c : CowBytes) (h : Heap) : (c.clone h).1.own = c.own := by
  unfold CowBytes.clone
  cases ho : c.own with
  | borrowed => exact ho
  | owned => rfl

/-- the ownership of the handle after one step -/
theorem Finder.step_own {cfg : Api.Cfg} {op : FinderOp} {f f1 : Finder} {h h1 : Heap}
    {c c1 : Ctr} {o : Option Out} (hs : f.step cfg op h c = .ok (o, f1, h1) c1) :
    f1.needle.own = (FinderOp.own op).next f.needle.own := by
  cases op with
  | find hay =>
    simp only [Finder.step, bind, M.bind, pure, M.pure] at hs
    cases hf : f.find cfg hay c with
    | fault e => rw [hf] at hs; cases hs
    | ok r c2 => rw [hf] at hs; cases hs; rfl
  | asRef => cases hs; rfl
  | intoOwned => cases hs; exact CowBytes.intoOwned_own _ _
  | clone => cases hs; exact CowBytes.clone_own _ _
  | needle => cases hs; rfl

theorem FinderRev.step_own {cfg : Api.Cfg} {op : FinderOp} {f f1 : FinderRev} {h h1 : Heap}
    {c c1 : Ctr} {o : Option Out} (hs : f.step cfg op h c = .ok (o, f1, h1) c1) :
    f1.needle.own = (FinderOp.own op).next f.needle.own := by
  cases op with
  | find hay =>
    simp only [FinderRev.step, bind, M.bind, pure, M.pure] at hs
    cases hf : f.rfind cfg hay c with
    | fault e => rw [hf] at hs; cases hs
    | ok r c2 => rw [hf] at hs; cases hs; rfl
  | asRef => cases hs; rfl
  | intoOwned => cases hs; exact CowBytes.intoOwned_own _ _
  | clone => cases hs; exact CowBytes.clone_own _ _
  | needle => cases hs; rfl

theorem option_map_toList {α β : Type} (g : α → β) (o : Option α) :
    (o.map g).toList = o.toList.map g := by cases o <;> rfl

/-- **C16 + C17 (+ C03, C08) for `finderops`**: any extended operation sequence on a forward
finder for the bytes of `n0` returns normally with the reference observations and exactly
`refAllocs` allocations; `iter` ops count `Spec.greedyFwd` and never allocate. -/
theorem Finder.runX_ok (cfg : Api.Cfg) (n0 : Slice) (hn0 : n0.Valid) (ops : List FinderOpX)
    (hops : ∀ op ∈ ops, op.Ok) (f : Finder) (hg : f.GoodFor n0) (h : Heap) (c : Ctr) :
    ∃ f' h' c', Finder.runX cfg ops f h c =
        .ok (ops.flatMap (refStepX n0.toArray), f', h') c' ∧
      f'.GoodFor n0 ∧ f'.searcher = f.searcher ∧
      h'.allocs = h.allocs + refAllocs n0.len f.needle.own (ops.map FinderOpX.own) := by
  induction ops generalizing f h c with
  | nil => exact ⟨f, h, c, rfl, hg, rfl, rfl⟩
  | cons op ops ih =>
    have hops' : ∀ op ∈ ops, op.Ok := fun o ho => hops o (List.mem_cons_of_mem _ ho)
    have hop : op.Ok := hops op List.mem_cons_self
    cases op with
    | base op =>
      obtain ⟨f1, h1, c1, hr, g1, s1, a1⟩ := Finder.run_ok cfg n0 hn0 [op]
        (fun o ho => by cases List.mem_singleton.mp ho; exact hop) f hg (fun _ => twoWayFwdOk) h c
      obtain ⟨o, hs, ho⟩ := Finder.step_of_run1 hr
      have hown := Finder.step_own hs
      obtain ⟨f', h', c', hr', g', s', a'⟩ := ih hops' f1 g1 h1 c1
      refine ⟨f', h', c', ?_, g', s'.trans s1, ?_⟩
      · simp only [Finder.runX, Finder.stepX, bind, M.bind, hs, pure, M.pure, hr',
          List.flatMap_cons, refStepX, option_map_toList, ho]
      · rw [a', a1, hown]
        simp only [List.map_cons, List.map_nil, refAllocs, FinderOpX.own]; omega
    | iter hay =>
      obtain ⟨c1, hk⟩ := Finder.countIter_ok cfg hg hn0 (fun _ => twoWayFwdOk) hay hop c
      obtain ⟨f', h', c', hr', g', s', a'⟩ := ih hops' f hg h c1
      refine ⟨f', h', c', ?_, g', s', ?_⟩
      · simp only [Finder.runX, Finder.stepX, bind, M.bind, hk, pure, M.pure, hr',
          List.flatMap_cons, refStepX]
        rfl
      · rw [a']
        simp only [List.map_cons, refAllocs, FinderOpX.own, OwnOp.cost_other, OwnOp.next]
        omega

/-- **C16 + C17 (+ C04, C08) for `finderrevops`**: the same for a reverse finder; `iter` ops
count `Spec.greedyRev`. -/
theorem FinderRev.runX_ok (cfg : Api.Cfg) (n0 : Slice) (hn0 : n0.Valid) (ops : List FinderOpX)
    (hops : ∀ op ∈ ops, op.Ok) (f : FinderRev) (hg : f.GoodFor n0) (h : Heap) (c : Ctr) :
    ∃ f' h' c', FinderRev.runX cfg ops f h c =
        .ok (ops.flatMap (refStepRevX n0.toArray), f', h') c' ∧
      f'.GoodFor n0 ∧ f'.searcher = f.searcher ∧
      h'.allocs = h.allocs + refAllocs n0.len f.needle.own (ops.map FinderOpX.own) := by
  induction ops generalizing f h c with
  | nil => exact ⟨f, h, c, rfl, hg, rfl, rfl⟩
  | cons op ops ih =>
    have hops' : ∀ op ∈ ops, op.Ok := fun o ho => hops o (List.mem_cons_of_mem _ ho)
    have hop : op.Ok := hops op List.mem_cons_self
    cases op with
    | base op =>
      obtain ⟨f1, h1, c1, hr, g1, s1, a1⟩ := finderRev_run_ok cfg n0 hn0 [op]
        (fun o ho => by cases List.mem_singleton.mp ho; exact hop) f hg h c
      obtain ⟨o, hs, ho⟩ := FinderRev.step_of_run1 hr
      have hown := FinderRev.step_own hs
      obtain ⟨f', h', c', hr', g', s', a'⟩ := ih hops' f1 g1 h1 c1
      refine ⟨f', h', c', ?_, g', s'.trans s1, ?_⟩
      · simp only [FinderRev.runX, FinderRev.stepX, bind, M.bind, hs, pure, M.pure, hr',
          List.flatMap_cons, refStepRevX, option_map_toList, ho]
      · rw [a', a1, hown]
        simp only [List.map_cons, List.map_nil, refAllocs, FinderOpX.own]; omega
    | iter hay =>
      obtain ⟨c1, hk⟩ := FinderRev.countIter_ok cfg hg hn0 (fun _ => twoWayRevOk) hay hop c
      obtain ⟨f', h', c', hr', g', s', a'⟩ := ih hops' f hg h c1
      refine ⟨f', h', c', ?_, g', s', ?_⟩
      · simp only [FinderRev.runX, FinderRev.stepX, bind, M.bind, hk, pure, M.pure, hr',
          List.flatMap_cons, refStepRevX]
        rfl
      · rw [a']
        simp only [List.map_cons, refAllocs, FinderOpX.own, OwnOp.cost_other, OwnOp.next]
        omega

/-- `finderops`, end to end: `FinderBuilder` finder (any configuration, prefilter setting,
ranker), then any extended operation sequence -/
theorem C16.finder_runX_all (cfg : Api.Cfg) (b : FinderBuilder) (rank : UInt8 → UInt8)
    (needle : Slice) (hn : needle.Valid) (ops : List FinderOpX) (hops : ∀ op ∈ ops, op.Ok)
    (h : Heap) (c : Ctr) :
    ∃ f' h' c', (b.buildForwardWithRanker cfg rank needle >>= fun f =>
        Finder.runX cfg ops f h) c = .ok (ops.flatMap (refStepX needle.toArray), f', h') c' ∧
      h'.allocs = h.allocs + refAllocs needle.len .borrowed (ops.map FinderOpX.own) := by
  obtain ⟨f, c1, hb, hg, ho, _, _⟩ :=
    FinderBuilder.build_ok cfg b rank needle hn (fun _ => twoWayFwdOk) c
  obtain ⟨f', h', c', hr, _, _, ha⟩ := Finder.runX_ok cfg needle hn ops hops f hg h c1
  exact ⟨f', h', c', by rw [bind_ok hb, hr], by rw [ha, ho]⟩

/-- `finderrevops`, end to end -/
theorem C16.finderRev_runX_all (cfg : Api.Cfg) (needle : Slice) (hn : needle.Valid)
    (ops : List FinderOpX) (hops : ∀ op ∈ ops, op.Ok) (h : Heap) (c : Ctr) :
    ∃ f' h' c', (FinderRev.new needle >>= fun f => FinderRev.runX cfg ops f h) c =
        .ok (ops.flatMap (refStepRevX needle.toArray), f', h') c' ∧
      h'.allocs = h.allocs + refAllocs needle.len .borrowed (ops.map FinderOpX.own) := by
  obtain ⟨f, c1, hb, hg, ho, _⟩ := FinderRev.new_ok needle hn (fun _ => twoWayRevOk) c
  obtain ⟨f', h', c', hr, _, _, ha⟩ := FinderRev.runX_ok cfg needle hn ops hops f hg h c1
  exact ⟨f', h', c', by rw [bind_ok hb, hr], by rw [ha, ho]⟩

/-- **C17, the `as_ref` inside `find_iter` / `rfind_iter`**: iterating an OWNED finder allocates
nothing (`into_owned`, then any number of `iter` ops: exactly the one allocation of
`into_owned`; a `clone()` in place of `as_ref()` would add one per `iter`). -/
example : refAllocs 3 .borrowed
    ([FinderOpX.base .intoOwned, .iter default, .iter default, .iter default].map
      FinderOpX.own) = 1 := by decide

/-- the hypotheses are satisfiable -/
example : FinderOpX.Ok (.iter ⟨⟨0, 65536, #[97, 97, 97, 97]⟩, 1, 3⟩) ∧
    FinderOpX.Ok (.base (.find ⟨⟨0, 65536, #[97, 97, 97, 97]⟩, 0, 4⟩)) := by
  simp [FinderOpX.Ok, FinderOp.Ok, Slice.Valid]

end Memchr.Memmem

section AxiomCheck
open Memchr.Memmem
#print axioms Finder.runX_ok
#print axioms FinderRev.runX_ok
#print axioms C16.finder_runX_all
#print axioms C16.finderRev_runX_all
end AxiomCheck
