/-
Bridging lemmas for the property files `Props/C01, C02, C06, C07, C09, C15`: the master theorems
of `Proofs/MemchrApi.lean`, `Proofs/MemchrApiIter.lean` re-read in plain pointwise terms
(no `Spec.firstIdx`, no `FirstRes`), the table of `select`, and the "every element exactly once"
reading of the abstract iterator. Nothing here is about the Rust code itself; every statement
is a consequence of a master theorem.
-/
import MemchrModel.Proofs.MemchrApiIter
import MemchrModel.Proofs.Concurrency
import MemchrModel.Proofs.IsEqualLemmas

namespace Memchr.Bridge2

open Memchr Memchr.Api Memchr.Generic

/-! ### needles -/

/-- `confirm` is membership in the needle list -/
theorem confirm_iff (ns : Needles) (b : UInt8) :
    ns.confirm b = true ↔ b = ns.first ∨ b ∈ ns.rest := by
  simp [Needles.confirm, Needles.toList]

/-! ### raw forms, pointwise -/

theorem specFirst_pointwise (ns : Needles) (m : Mem) (start end_ : Nat) :
    (specFirst ns m start end_ = none ↔
      ∀ a, start ≤ a → a < end_ → ns.confirm (m.byteAt a) = false) ∧
    (∀ a, specFirst ns m start end_ = some a →
      start ≤ a ∧ a < end_ ∧ ns.confirm (m.byteAt a) = true ∧
      ∀ a', start ≤ a' → a' < a → ns.confirm (m.byteAt a') = false) := by
  have hres := specFirst_firstRes ns m start end_
  cases h : specFirst ns m start end_ with
  | none =>
    rw [h] at hres
    exact ⟨⟨fun _ => hres, fun _ => rfl⟩, fun a ha => by cases ha⟩
  | some x =>
    rw [h] at hres
    obtain ⟨a1, a2, a3, a4⟩ := hres
    refine ⟨⟨fun hh => (by cases hh), fun hh => ?_⟩, fun a ha => ?_⟩
    · rw [hh x a1 a2] at a3; cases a3
    · cases ha; exact ⟨a1, a2, a3, a4⟩

theorem specLast_pointwise (ns : Needles) (m : Mem) (start end_ : Nat) :
    (specLast ns m start end_ = none ↔
      ∀ a, start ≤ a → a < end_ → ns.confirm (m.byteAt a) = false) ∧
    (∀ a, specLast ns m start end_ = some a →
      start ≤ a ∧ a < end_ ∧ ns.confirm (m.byteAt a) = true ∧
      ∀ a', a < a' → a' < end_ → ns.confirm (m.byteAt a') = false) := by
  have hres := specLast_lastRes ns m start end_
  cases h : specLast ns m start end_ with
  | none =>
    rw [h] at hres
    exact ⟨⟨fun _ => hres, fun _ => rfl⟩, fun a ha => by cases ha⟩
  | some x =>
    rw [h] at hres
    obtain ⟨a1, a2, a3, a4⟩ := hres
    refine ⟨⟨fun hh => (by cases hh), fun hh => ?_⟩, fun a ha => ?_⟩
    · rw [hh x a1 a2] at a3; cases a3
    · cases ha; exact ⟨a1, a2, a3, fun a' h1 h2 => a4 a' (by omega) h2⟩

/-- every backend's `find_raw`, read pointwise -/
theorem rawFind_first_pointwise (b : Backend) (ns : Needles) (m : Mem) (start end_ : Nat)
    (c : Ctr) (hs : m.base ≤ start) (he : end_ ≤ m.base + m.bytes.size) :
    ∃ r c', rawFind b ns false m start end_ c = .ok r c' ∧
      (r = none ↔ ∀ a, start ≤ a → a < end_ → ns.confirm (m.byteAt a) = false) ∧
      (∀ a, r = some a → start ≤ a ∧ a < end_ ∧ ns.confirm (m.byteAt a) = true ∧
        ∀ a', start ≤ a' → a' < a → ns.confirm (m.byteAt a') = false) := by
  obtain ⟨c', h⟩ := rawFind_correct b ns false m start end_ c hs he
  exact ⟨_, c', h, specFirst_pointwise ns m start end_⟩

/-- every backend's `rfind_raw`, read pointwise -/
theorem rawFind_last_pointwise (b : Backend) (ns : Needles) (m : Mem) (start end_ : Nat)
    (c : Ctr) (hs : m.base ≤ start) (he : end_ ≤ m.base + m.bytes.size) :
    ∃ r c', rawFind b ns true m start end_ c = .ok r c' ∧
      (r = none ↔ ∀ a, start ≤ a → a < end_ → ns.confirm (m.byteAt a) = false) ∧
      (∀ a, r = some a → start ≤ a ∧ a < end_ ∧ ns.confirm (m.byteAt a) = true ∧
        ∀ a', a < a' → a' < end_ → ns.confirm (m.byteAt a') = false) := by
  obtain ⟨c', h⟩ := rawFind_correct b ns true m start end_ c hs he
  exact ⟨_, c', h, specLast_pointwise ns m start end_⟩

/-! ### slice forms in terms of `hay.toList` -/

theorem specIdx_fwd (ns : Needles) (hay : Slice) :
    specIdx ns false hay = Spec.firstIdx ns.confirm hay.toList := by
  simp [specIdx, Slice.toList_eq_window]

theorem specIdx_rev (ns : Needles) (hay : Slice) :
    specIdx ns true hay = Spec.lastIdx ns.confirm hay.toList := by
  simp [specIdx, Slice.toList_eq_window]

theorem memchr_fwd (cfg : Cfg) (ns : Needles) (hay : Slice) (hv : hay.Valid) (c : Ctr) :
    ∃ c', memchr cfg ns false hay c = .ok (Spec.firstIdx ns.confirm hay.toList) c' := by
  rw [← specIdx_fwd]; exact memchr_correct cfg ns false hay hv c

theorem memchr_rev (cfg : Cfg) (ns : Needles) (hay : Slice) (hv : hay.Valid) (c : Ctr) :
    ∃ c', memchr cfg ns true hay c = .ok (Spec.lastIdx ns.confirm hay.toList) c' := by
  rw [← specIdx_rev]; exact memchr_correct cfg ns true hay hv c

theorem sliceFind_fwd (b : Backend) (ns : Needles) (hay : Slice) (hv : hay.Valid) (c : Ctr) :
    ∃ c', sliceFind b ns false hay c = .ok (Spec.firstIdx ns.confirm hay.toList) c' := by
  rw [← specIdx_fwd]; exact sliceFind_correct b ns false hay hv c

theorem sliceFind_rev (b : Backend) (ns : Needles) (hay : Slice) (hv : hay.Valid) (c : Ctr) :
    ∃ c', sliceFind b ns true hay c = .ok (Spec.lastIdx ns.confirm hay.toList) c' := by
  rw [← specIdx_rev]; exact sliceFind_correct b ns true hay hv c

theorem firstIdx_lt {p : UInt8 → Bool} {l : List UInt8} {i : Nat}
    (h : Spec.firstIdx p l = some i) : i < l.length :=
  (Spec.firstIdx_eq_some_iff.mp h).1

theorem lastIdx_lt {p : UInt8 → Bool} {l : List UInt8} {i : Nat}
    (h : Spec.lastIdx p l = some i) : i < l.length :=
  (Spec.lastIdx_eq_some_iff.mp h).1

/-- `memchr` / `memchr2` / `memchr3`, read pointwise on the bytes of the slice -/
theorem memchr_fwd_pointwise (cfg : Cfg) (ns : Needles) (hay : Slice) (hv : hay.Valid)
    (c : Ctr) :
    ∃ r c', memchr cfg ns false hay c = .ok r c' ∧
      (r = none ↔ ∀ i, i < hay.len → ns.confirm (hay.getD i) = false) ∧
      (∀ i, r = some i → i < hay.len ∧ ns.confirm (hay.getD i) = true ∧
        ∀ j, j < i → ns.confirm (hay.getD j) = false) := by
  obtain ⟨c', h⟩ := memchr_fwd cfg ns hay hv c
  refine ⟨_, c', h, ?_, ?_⟩
  · rw [Spec.firstIdx_eq_none_iff]
    constructor
    · intro hh i hi
      have := hh (hay.toList[i]'(by simpa using hi)) (List.getElem_mem _)
      rwa [Slice.toList_getElem] at this
    · intro hh x hx
      obtain ⟨i, hi, rfl⟩ := List.getElem_of_mem hx
      rw [Slice.toList_getElem]
      exact hh i (by simpa using hi)
  · intro i hi
    obtain ⟨hl, hp, hn⟩ := Spec.firstIdx_eq_some_iff.mp hi
    rw [Slice.toList_getElem] at hp
    refine ⟨by simpa using hl, hp, fun j hj => ?_⟩
    have := hn j hj
    rwa [Slice.toList_getElem] at this

/-- `memrchr` / `memrchr2` / `memrchr3`, read pointwise on the bytes of the slice -/
theorem memchr_rev_pointwise (cfg : Cfg) (ns : Needles) (hay : Slice) (hv : hay.Valid)
    (c : Ctr) :
    ∃ r c', memchr cfg ns true hay c = .ok r c' ∧
      (r = none ↔ ∀ i, i < hay.len → ns.confirm (hay.getD i) = false) ∧
      (∀ i, r = some i → i < hay.len ∧ ns.confirm (hay.getD i) = true ∧
        ∀ j, i < j → j < hay.len → ns.confirm (hay.getD j) = false) := by
  obtain ⟨c', h⟩ := memchr_rev cfg ns hay hv c
  refine ⟨_, c', h, ?_, ?_⟩
  · rw [Spec.lastIdx_eq_none_iff]
    constructor
    · intro hh i hi
      have := hh (hay.toList[i]'(by simpa using hi)) (List.getElem_mem _)
      rwa [Slice.toList_getElem] at this
    · intro hh x hx
      obtain ⟨i, hi, rfl⟩ := List.getElem_of_mem hx
      rw [Slice.toList_getElem]
      exact hh i (by simpa using hi)
  · intro i hi
    obtain ⟨hl, hp, hn⟩ := Spec.lastIdx_eq_some_iff.mp hi
    rw [Slice.toList_getElem] at hp
    refine ⟨by simpa using hl, hp, fun j hij hj => ?_⟩
    have := hn j (by simpa using hj) hij
    rwa [Slice.toList_getElem] at this

/-- `count` in terms of `hay.toList` -/
theorem count_toList (cfg : Cfg) (n1 : UInt8) (hay : Slice) (hv : hay.Valid) (c : Ctr) :
    ∃ c', count cfg n1 hay c = .ok (Spec.countP (· == n1) hay.toList) c' := by
  rw [Slice.toList_eq_window]; exact count_correct cfg n1 hay hv c

theorem sliceCount_toList (b : Backend) (n1 : UInt8) (hay : Slice) (hv : hay.Valid) (c : Ctr) :
    ∃ c', sliceCount b n1 hay c = .ok (Spec.countP (· == n1) hay.toList) c' := by
  rw [Slice.toList_eq_window]; exact sliceCount_correct b n1 hay hv c

/-- a reversed or empty window: `count_raw` returns 0 without touching memory -/
theorem rawCount_reversed (b : Backend) (n1 : UInt8) (m : Mem) (start end_ : Nat) (c : Ctr)
    (h : end_ ≤ start) : rawCount b n1 m start end_ c = .ok 0 c := by
  have hge : start ≥ end_ := h
  cases b <;> simp [rawCount, wrapCount, avx2Count, Swar.One.countRaw, hge] <;> rfl

/-! ### the abstract iterator yields every element exactly once -/

/-- the values yielded by the `next` calls of a run, in call order -/
def fronts : List Op → List Out → List Nat
  | .next :: ops, .idx (some i) :: outs => i :: fronts ops outs
  | _ :: ops, _ :: outs => fronts ops outs
  | _, _ => []

/-- the values yielded by the `next_back` calls of a run, in call order -/
def backs : List Op → List Out → List Nat
  | .nextBack :: ops, .idx (some i) :: outs => i :: backs ops outs
  | _ :: ops, _ :: outs => backs ops outs
  | _, _ => []

/-- Running the abstract iterator from `rem` splits `rem` into: what `next` yielded (in call
order), what is left, what `next_back` yielded (in reverse call order). -/
theorem absRun_partition (ops : List Op) (rem : List Nat) :
    fronts ops (absRun ops rem).1 ++ (absRun ops rem).2 ++ (backs ops (absRun ops rem).1).reverse
      = rem := by
  induction ops generalizing rem with
  | nil => simp [absRun, fronts, backs]
  | cons op ops ih =>
    cases op with
    | next =>
      cases rem with
      | nil =>
        have := ih []
        simpa [absRun, absStep, fronts, backs] using this
      | cons x xs =>
        have := ih xs
        simp only [absRun, absStep, List.head?_cons, List.tail_cons, fronts, backs,
          List.cons_append]
        rw [this]
    | nextBack =>
      rcases List.eq_nil_or_concat rem with rfl | ⟨xs, x, h⟩ <;> try (rw [List.concat_eq_append] at h; subst h)
      · have := ih []
        simpa [absRun, absStep, fronts, backs] using this
      · have := ih xs
        simp only [absRun, absStep, List.getLast?_concat, List.dropLast_concat, fronts, backs,
          List.reverse_cons, ← List.append_assoc]
        rw [this]
    | sizeHint =>
      have := ih rem
      simpa [absRun, absStep, fronts, backs] using this
    | count =>
      have := ih rem
      simpa [absRun, absStep, fronts, backs] using this

/-- `fronts` / `backs` look only at the `next` / `next_back` outputs, on which a model run and the
abstract run agree exactly -/
theorem fronts_congr {ops : List Op} {outs aouts : List Out} (h : OutsOk outs aouts) :
    fronts ops outs = fronts ops aouts := by
  induction h generalizing ops with
  | nil => cases ops <;> rfl
  | @cons a b as bs hab _ ih =>
    cases ops with
    | nil => rfl
    | cons op ops =>
      cases a <;> cases b <;> simp only [OutOk] at hab
      · subst hab
        rename_i o
        cases op <;> cases o <;> simp only [fronts, ih]
      · cases op <;> simp only [fronts, ih]
      · cases op <;> simp only [fronts, ih]

theorem backs_congr {ops : List Op} {outs aouts : List Out} (h : OutsOk outs aouts) :
    backs ops outs = backs ops aouts := by
  induction h generalizing ops with
  | nil => cases ops <;> rfl
  | @cons a b as bs hab _ ih =>
    cases ops with
    | nil => rfl
    | cons op ops =>
      cases a <;> cases b <;> simp only [OutOk] at hab
      · subst hab
        rename_i o
        cases op <;> cases o <;> simp only [backs, ih]
      · cases op <;> simp only [backs, ih]
      · cases op <;> simp only [backs, ih]

/-- what `size_hint` returns in a state related to the abstract state `rem` -/
theorem sizeHint_of_refines {hay : Slice} {ns : Needles} {it : Iter} {rem : List Nat}
    (R : Refines hay ns it rem) :
    it.sizeHint.1 = 0 ∧ ∃ h, it.sizeHint.2 = some h ∧ rem.length ≤ h := by
  refine ⟨rfl, it.end_ - it.start, rfl, ?_⟩
  have := matchesIn_length_le (posPred hay ns) (it.start - hay.ptr) (it.end_ - hay.ptr)
  rw [← R.rem] at this
  have := R.lo
  omega

/-- C06 in one statement about the real run: the outputs of the `next` calls, then the matches
inside the final window, then the outputs of the `next_back` calls reversed, are together exactly
the list of all match positions of the haystack. -/
theorem run_partition {f : RawFns} {ns : Needles} {hay : Slice} (hv : hay.Valid)
    (hf : RawOk f ns hay.mem) (ops : List Op) (c : Ctr) :
    ∃ outs it' c' rem, Iter.run f ops (Iter.new hay) c = .ok (outs, it') c' ∧
      Refines hay ns it' rem ∧
      fronts ops outs ++ rem ++ (backs ops outs).reverse = allMatches hay ns := by
  obtain ⟨outs, it', c', hrun, hok, R'⟩ := run_refines hv hf ops (refines_new hay ns) c
  refine ⟨outs, it', c', _, hrun, R', ?_⟩
  rw [fronts_congr hok, backs_congr hok]
  exact absRun_partition ops (allMatches hay ns)

theorem run_partition_cfg (cfg : Cfg) (ns : Needles) (hay : Slice) (hv : hay.Valid)
    (ops : List Op) (c : Ctr) :
    ∃ outs it' c' rem, Iter.run (RawFns.ofCfg cfg ns hay.mem) ops (Iter.new hay) c
        = .ok (outs, it') c' ∧
      Refines hay ns it' rem ∧
      fronts ops outs ++ rem ++ (backs ops outs).reverse = allMatches hay ns :=
  run_partition hv (rawOk_ofCfg cfg ns hay.mem) ops c

theorem run_partition_backend (b : Backend) (ns : Needles) (hay : Slice) (hv : hay.Valid)
    (ops : List Op) (c : Ctr) :
    ∃ outs it' c' rem, Iter.run (RawFns.ofBackend b ns hay.mem) ops (Iter.new hay) c
        = .ok (outs, it') c' ∧
      Refines hay ns it' rem ∧
      fronts ops outs ++ rem ++ (backs ops outs).reverse = allMatches hay ns :=
  run_partition hv (rawOk_ofBackend b ns hay.mem) ops c

/-- C07 on a partially consumed iterator, in terms of what has been yielded: after any prefix of
operations, `count` returns (number of matches of the haystack) - (number of values yielded by
`next`) - (number of values yielded by `next_back`). -/
theorem count_after_prefix (cfg : Cfg) (ns : Needles) (hay : Slice) (hv : hay.Valid)
    (ops : List Op) (c : Ctr) :
    ∃ outs it' c' k c'', Iter.run (RawFns.ofCfg cfg ns hay.mem) ops (Iter.new hay) c
        = .ok (outs, it') c' ∧
      it'.countWith (RawFns.ofCfg cfg ns hay.mem) c' = .ok k c'' ∧
      (fronts ops outs).length + k + (backs ops outs).length = (allMatches hay ns).length := by
  obtain ⟨outs, it', c', rem, hrun, R', hpart⟩ := run_partition_cfg cfg ns hay hv ops c
  obtain ⟨c'', hc⟩ := countWith_refines hv (rawOk_ofCfg cfg ns hay.mem) R' c'
  refine ⟨outs, it', c', rem.length, c'', hrun, hc, ?_⟩
  rw [← hpart]; simp only [List.length_append, List.length_reverse]

/-! ### dispatch -/

/-- the public iterators of a configuration are the wrapper iterators of the selected backend -/
theorem ofCfg_eq_ofBackend (cfg : Cfg) (ns : Needles) (m : Mem) :
    RawFns.ofCfg cfg ns m = RawFns.ofBackend (select cfg) ns m := by
  unfold RawFns.ofCfg RawFns.ofBackend
  congr 1
  · funext s e; exact memchrRaw_eq_select cfg ns false m s e
  · funext s e; exact memchrRaw_eq_select cfg ns true m s e
  · cases ns.rest with
    | nil =>
      simp only [Option.some.injEq]
      funext s e; exact countRaw_eq_select cfg ns.first m s e
    | cons _ _ => rfl

/-- any two backends return the same value on the same raw window -/
theorem backends_agree (b1 b2 : Backend) (ns : Needles) (rev : Bool) (m : Mem)
    (start end_ : Nat) (c1 c2 : Ctr) (hs : m.base ≤ start) (he : end_ ≤ m.base + m.bytes.size) :
    ∃ v c1' c2', rawFind b1 ns rev m start end_ c1 = .ok v c1' ∧
      rawFind b2 ns rev m start end_ c2 = .ok v c2' := by
  obtain ⟨c1', h1⟩ := rawFind_correct b1 ns rev m start end_ c1 hs he
  obtain ⟨c2', h2⟩ := rawFind_correct b2 ns rev m start end_ c2 hs he
  exact ⟨_, c1', c2', h1, h2⟩

theorem backends_agree_count (b1 b2 : Backend) (n1 : UInt8) (m : Mem)
    (start end_ : Nat) (c1 c2 : Ctr) (hs : m.base ≤ start) (he : end_ ≤ m.base + m.bytes.size) :
    ∃ v c1' c2', rawCount b1 n1 m start end_ c1 = .ok v c1' ∧
      rawCount b2 n1 m start end_ c2 = .ok v c2' := by
  obtain ⟨c1', h1⟩ := rawCount_correct b1 n1 m start end_ c1 hs he
  obtain ⟨c2', h2⟩ := rawCount_correct b2 n1 m start end_ c2 hs he
  exact ⟨_, c1', c2', h1, h2⟩

/-! ### the value of `select` -/

theorem select_x86_avx2 (cfg : Cfg) (ha : cfg.arch = .x86_64) (hs : cfg.ctSse2 = true)
    (hf : cfg.force = .none) (h : cfg.ctAvx2 = true ∨ (cfg.std = true ∧ cfg.cpuAvx2 = true)) :
    select cfg = .avx2 := by
  rcases h with h | ⟨h1, h2⟩ <;>
    simp [select, x86Detect, avx2Available, Cfg.forcedNoAvx2, *]

theorem select_x86_sse2 (cfg : Cfg) (ha : cfg.arch = .x86_64) (hs : cfg.ctSse2 = true)
    (hf : cfg.force ≠ .nosse2)
    (h : cfg.force = .noavx2 ∨
      (cfg.ctAvx2 = false ∧ (cfg.std = false ∨ cfg.cpuAvx2 = false))) :
    select cfg = .sse2 := by
  rcases h with h | ⟨h1, h2 | h2⟩ <;>
    simp [select, x86Detect, avx2Available, sse2Available, Cfg.forcedNoAvx2, Cfg.forcedNoSse2, *]

theorem select_x86_swar (cfg : Cfg) (ha : cfg.arch = .x86_64)
    (h : cfg.ctSse2 = false ∨ cfg.force = .nosse2) : select cfg = .swar := by
  rcases h with h | h
  · simp [select, x86Detect, ha, h]
  · cases hs : cfg.ctSse2 <;>
      simp [select, x86Detect, avx2Available, sse2Available, Cfg.forcedNoAvx2, Cfg.forcedNoSse2,
        ha, hs, h]

theorem select_aarch64 (cfg : Cfg) (ha : cfg.arch = .aarch64) :
    select cfg = if cfg.ctNeon then .neon else .swar := by
  simp [select, ha]

theorem select_wasm (cfg : Cfg) (ha : cfg.arch = .wasm32simd128) : select cfg = .simd128 := by
  simp [select, ha]

theorem select_other (cfg : Cfg) (ha : cfg.arch = .other) : select cfg = .swar := by
  simp [select, ha]

end Memchr.Bridge2

#print axioms Memchr.Bridge2.rawFind_first_pointwise
#print axioms Memchr.Bridge2.rawFind_last_pointwise
#print axioms Memchr.Bridge2.memchr_fwd_pointwise
#print axioms Memchr.Bridge2.memchr_rev_pointwise
#print axioms Memchr.Bridge2.absRun_partition
#print axioms Memchr.Bridge2.run_partition
#print axioms Memchr.Bridge2.count_after_prefix
#print axioms Memchr.Bridge2.ofCfg_eq_ofBackend
#print axioms Memchr.Bridge2.select_x86_avx2
#print axioms Memchr.Bridge2.select_x86_sse2
#print axioms Memchr.Bridge2.select_x86_swar
