/-
`One::{find_raw, rfind_raw, count_raw}` of `src/arch/all/memchr.rs`: loop lemmas and
interval-predicate specifications.
-/
import MemchrModel.Proofs.SwarLemmas
namespace Memchr.Swar
open Memchr Memchr.Generic

namespace One

theorem LOOP_BYTES_eq : LOOP_BYTES = 16 := rfl

theorem findLoop_spec (n1 : UInt8) (m : Mem) (lo end_ cur : Nat) (c : Ctr)
    (hb : m.base ≤ lo) (hlc : lo ≤ cur) (hce : cur ≤ end_) (h16 : 16 ≤ end_)
    (hal : cur % 8 = 0) (he : end_ ≤ m.base + m.bytes.size)
    (hno : NoHit m (needles n1).confirm lo cur) :
    ∃ cur' c', findLoop n1 m (end_ - 16) cur c = .ok cur' c' ∧ cur ≤ cur' ∧ cur' ≤ end_ ∧
      NoHit m (needles n1).confirm lo cur' := by
  generalize hlim : end_ - 16 = lim
  fun_induction findLoop n1 m lim cur generalizing c with
  | case1 cur h ih =>
    have hda : (0 == cur % 8) = true := by simp [hal]
    have hra := readWordA_ok m cur { c with steps := c.steps + 1 } (by omega) (by omega) hal
    have hpa := Mem.padd_ok m "find_raw: cur.add(USIZE_BYTES)" cur 8 (by omega) (by omega)
    have hrb := readWordA_ok m (cur + 8)
      { steps := c.steps + 1, loads := ⟨m.region, cur - m.base, 8, true⟩ :: c.loads }
      (by omega) (by omega) (by omega)
    simp only [USIZE_BYTES]
    simp only [dbgAssert_ok _ hda, pure_bind', tick_bind, bind_ok hra, hpa, bind_ok hrb]
    by_cases hh : (hasNeedle (needles n1) (wordOfBytes (m.window cur 8)) ||
        hasNeedle (needles n1) (wordOfBytes (m.window (cur + 8) 8))) = true
    · simp only [hh, if_true]
      exact ⟨cur, _, rfl, Nat.le_refl _, hce, hno⟩
    · have hpl := Mem.padd_ok m "find_raw: cur.add(One::LOOP_BYTES)" cur LOOP_BYTES (by omega)
        (by rw [LOOP_BYTES_eq]; omega)
      simp only [hh, hpl, pure_bind']
      rw [Bool.or_eq_true, not_or] at hh
      have n1' := noHit_of_not_hasNeedle _ m cur hh.1
      have n2' := noHit_of_not_hasNeedle _ m (cur + 8) hh.2
      have hno' : NoHit m (needles n1).confirm lo (cur + LOOP_BYTES) := by
        rw [LOOP_BYTES_eq]
        exact (hno.union n1' (Nat.le_refl _)).union n2' (Nat.le_refl _)
      obtain ⟨cur', c', hrun, g1, g2, g3⟩ := ih _ (by omega) (by rw [LOOP_BYTES_eq]; omega)
        (by rw [LOOP_BYTES_eq]; omega) hno'
      exact ⟨cur', c', hrun, by omega, g2, g3⟩
  | case2 cur h => exact ⟨cur, c, rfl, Nat.le_refl _, hce, hno⟩

theorem findRaw_spec (n1 : UInt8) (m : Mem) (start end_ : Nat) (c : Ctr)
    (hb : start < end_ → m.base ≤ start ∧ end_ ≤ m.base + m.bytes.size) :
    ∃ r c', findRaw n1 m start end_ c = .ok r c' ∧
      FirstRes m (needles n1).confirm start end_ r := by
  have h8 : USIZE_BYTES = 8 := rfl
  unfold findRaw
  by_cases hse : start ≥ end_
  · rw [if_pos hse]
    exact ⟨none, c, rfl, NoHit.empty m _ hse⟩
  · obtain ⟨hs, he⟩ := hb (by omega)
    have hd := Mem.distance_ok m "find_raw: end.distance(start)" end_ start hs (by omega) he
    rw [if_neg hse]
    simp only [hd, pure_bind']
    by_cases hlen : end_ - start < USIZE_BYTES
    · simp only [hlen, if_true]
      exact fwdByteByByte_spec m _ start end_ c hs (by omega) he
    · have hru := readWordU_ok m start c hs (by omega)
      rw [if_neg hlen, bind_ok hru, tick_bind]
      by_cases hh : hasNeedle (needles n1) (wordOfBytes (m.window start 8)) = true
      · rw [if_pos hh]
        exact fwdByteByByte_spec m _ start end_ _ hs (by omega) he
      · rw [if_neg hh]
        have hmod : start % 8 < 8 := Nat.mod_lt _ (by omega)
        have hcs := csub_of_le "find_raw: USIZE_BYTES - (start.as_usize() & USIZE_ALIGN)"
          (a := USIZE_BYTES) (b := start &&& USIZE_ALIGN) (by rw [and_align]; omega)
        have hpa := Mem.padd_ok m
          "find_raw: start.add(USIZE_BYTES - (start.as_usize() & USIZE_ALIGN))" start
          (USIZE_BYTES - (start &&& USIZE_ALIGN)) hs (by rw [and_align]; omega)
        have hda : decide (start + (USIZE_BYTES - (start &&& USIZE_ALIGN)) > start) = true := by
          rw [and_align]; simp; omega
        have hal : (start + (USIZE_BYTES - (start &&& USIZE_ALIGN))) % 8 = 0 := by
          rw [and_align, h8]; exact align_up_mod _ _ (by omega)
        have hcur1 : start ≤ start + (USIZE_BYTES - (start &&& USIZE_ALIGN)) := by omega
        have hcur2 : start + (USIZE_BYTES - (start &&& USIZE_ALIGN)) ≤ start + 8 := by
          rw [and_align]; omega
        have hno : NoHit m (needles n1).confirm start
            (start + (USIZE_BYTES - (start &&& USIZE_ALIGN))) :=
          (noHit_of_not_hasNeedle _ m start hh).mono (Nat.le_refl _) hcur2
        simp only [hcs, pure_bind', hpa, dbgAssert_ok _ hda]
        generalize start + (USIZE_BYTES - (start &&& USIZE_ALIGN)) = cur at *
        by_cases hl : end_ - start ≤ LOOP_BYTES
        · rw [if_pos hl]
          obtain ⟨r, c', hrun, hres⟩ := fwdByteByByte_spec m (needles n1).confirm cur end_
            { steps := c.steps + 1,
              loads := ⟨m.region, start - m.base, 8, false⟩ :: c.loads }
            (by omega) (by omega) he
          exact ⟨r, c', hrun, FirstRes.prepend hres hno hcur1⟩
        · rw [if_neg hl]
          have hL := LOOP_BYTES_eq
          have hps := Mem.psub_ok m "find_raw: end.sub(One::LOOP_BYTES)" end_ LOOP_BYTES
            (by omega) he
          have hda2 : decide (end_ - LOOP_BYTES ≥ start) = true := by simp; omega
          simp only [hps, pure_bind', dbgAssert_ok _ hda2]
          rw [hL]
          obtain ⟨cur', c1, hrun1, g1, g2, g3⟩ := findLoop_spec n1 m start end_ cur
            { steps := c.steps + 1,
              loads := ⟨m.region, start - m.base, 8, false⟩ :: c.loads }
            hs hcur1 (by omega) (by omega) hal he hno
          rw [bind_ok hrun1]
          obtain ⟨r, c', hrun, hres⟩ := fwdByteByByte_spec m (needles n1).confirm cur' end_ c1
            (by omega) g2 he
          exact ⟨r, c', hrun, FirstRes.prepend hres g3 (by omega)⟩

/-! ### `rfind_raw` -/

theorem rfindLoop_spec (n1 : UInt8) (m : Mem) (start hi cur : Nat) (c : Ctr)
    (hb : m.base ≤ start) (hsc : start ≤ cur) (hch : cur ≤ hi)
    (hal : cur % 8 = 0) (he : hi ≤ m.base + m.bytes.size)
    (hno : NoHit m (needles n1).confirm cur hi) :
    ∃ cur' c', rfindLoop n1 m start cur c = .ok cur' c' ∧ start ≤ cur' ∧ cur' ≤ cur ∧
      cur' ≤ hi ∧ NoHit m (needles n1).confirm cur' hi := by
  have h8 : USIZE_BYTES = 8 := rfl
  have hL := LOOP_BYTES_eq
  fun_induction rfindLoop n1 m start cur generalizing c with
  | case1 cur h ih =>
    have hda : (0 == cur % USIZE_BYTES) = true := by simp [h8, hal]
    have hpa := Mem.psub_ok m "rfind_raw: cur.sub(2 * USIZE_BYTES)" cur (2 * USIZE_BYTES)
      (by omega) (by omega)
    have hra := readWordA_ok m (cur - 2 * USIZE_BYTES) { c with steps := c.steps + 1 }
      (by omega) (by omega) (by omega)
    have hpb := Mem.psub_ok m "rfind_raw: cur.sub(1 * USIZE_BYTES)" cur (1 * USIZE_BYTES)
      (by omega) (by omega)
    have hrb := readWordA_ok m (cur - 1 * USIZE_BYTES)
      { steps := c.steps + 1,
        loads := ⟨m.region, cur - 2 * USIZE_BYTES - m.base, 8, true⟩ :: c.loads }
      (by omega) (by omega) (by omega)
    simp only [dbgAssert_ok _ hda, pure_bind', tick_bind, hpa, bind_ok hra, hpb, bind_ok hrb]
    by_cases hh : (hasNeedle (needles n1) (wordOfBytes (m.window (cur - 2 * USIZE_BYTES) 8)) ||
        hasNeedle (needles n1) (wordOfBytes (m.window (cur - 1 * USIZE_BYTES) 8))) = true
    · rw [if_pos hh]
      exact ⟨cur, _, rfl, by omega, Nat.le_refl _, hch, hno⟩
    · have hpl := Mem.psub_ok m "rfind_raw: cur.sub(One::LOOP_BYTES)" cur LOOP_BYTES (by omega)
        (by omega)
      rw [if_neg hh]
      simp only [hpl, pure_bind']
      rw [Bool.or_eq_true, not_or] at hh
      have n1' := noHit_of_not_hasNeedle _ m _ hh.1
      have n2' := noHit_of_not_hasNeedle _ m _ hh.2
      have e1 : cur - 2 * USIZE_BYTES = cur - LOOP_BYTES := by omega
      have e2 : cur - 2 * USIZE_BYTES + 8 = cur - 1 * USIZE_BYTES := by omega
      have e3 : cur - 1 * USIZE_BYTES + 8 = cur := by omega
      rw [e2, e1] at n1'
      rw [e3] at n2'
      have hno' : NoHit m (needles n1).confirm (cur - LOOP_BYTES) hi :=
        (n1'.union n2' (Nat.le_refl _)).union hno (Nat.le_refl _)
      obtain ⟨cur', c', hrun, g1, g2, g3, g4⟩ := ih _ (by omega) (by omega) (by omega) hno'
      exact ⟨cur', c', hrun, g1, by omega, g3, g4⟩
  | case2 cur h => exact ⟨cur, c, rfl, hsc, Nat.le_refl _, hch, hno⟩

theorem rfindRaw_spec (n1 : UInt8) (m : Mem) (start end_ : Nat) (c : Ctr)
    (hb : start < end_ → m.base ≤ start ∧ end_ ≤ m.base + m.bytes.size) :
    ∃ r c', rfindRaw n1 m start end_ c = .ok r c' ∧
      LastRes m (needles n1).confirm start end_ r := by
  have h8 : USIZE_BYTES = 8 := rfl
  unfold rfindRaw
  by_cases hse : start ≥ end_
  · rw [if_pos hse]
    exact ⟨none, c, rfl, NoHit.empty m _ hse⟩
  · obtain ⟨hs, he⟩ := hb (by omega)
    have hd := Mem.distance_ok m "rfind_raw: end.distance(start)" end_ start hs (by omega) he
    rw [if_neg hse]
    simp only [hd, pure_bind']
    by_cases hlen : end_ - start < USIZE_BYTES
    · rw [if_pos hlen]
      exact revByteByByte_spec m _ start end_ c hs (by omega) he
    · have hps := Mem.psub_ok m "rfind_raw: end.sub(USIZE_BYTES)" end_ USIZE_BYTES (by omega) he
      have hru := readWordU_ok m (end_ - USIZE_BYTES) c (by omega) (by omega)
      rw [if_neg hlen]
      simp only [hps, pure_bind']
      rw [bind_ok hru, tick_bind]
      by_cases hh : hasNeedle (needles n1) (wordOfBytes (m.window (end_ - USIZE_BYTES) 8)) = true
      · rw [if_pos hh]
        exact revByteByByte_spec m _ start end_ _ hs (by omega) he
      · rw [if_neg hh]
        have hmod : end_ % 8 < 8 := Nat.mod_lt _ (by omega)
        have hpc := Mem.psub_ok m "rfind_raw: end.sub(end.as_usize() & USIZE_ALIGN)" end_
          (end_ &&& USIZE_ALIGN) (by rw [and_align]; omega) he
        have hda : (decide (start ≤ end_ - (end_ &&& USIZE_ALIGN)) &&
            decide (end_ - (end_ &&& USIZE_ALIGN) ≤ end_)) = true := by
          rw [and_align]; simp; omega
        have hal : (end_ - (end_ &&& USIZE_ALIGN)) % 8 = 0 := by
          rw [and_align]; exact align_down_mod _ _
        have hcur1 : start ≤ end_ - (end_ &&& USIZE_ALIGN) := by rw [and_align]; omega
        have hcur2 : end_ - (end_ &&& USIZE_ALIGN) ≤ end_ := by omega
        have hcur3 : end_ - USIZE_BYTES ≤ end_ - (end_ &&& USIZE_ALIGN) := by
          rw [and_align]; omega
        have e : end_ - USIZE_BYTES + 8 = end_ := by omega
        have hno : NoHit m (needles n1).confirm (end_ - (end_ &&& USIZE_ALIGN)) end_ := by
          have := noHit_of_not_hasNeedle _ m _ hh
          rw [e] at this
          exact this.mono hcur3 (Nat.le_refl _)
        simp only [hpc, pure_bind', dbgAssert_ok _ hda]
        generalize end_ - (end_ &&& USIZE_ALIGN) = cur at *
        by_cases hl : end_ - start ≤ LOOP_BYTES
        · rw [if_pos hl]
          obtain ⟨r, c', hrun, hres⟩ := revByteByByte_spec m (needles n1).confirm start cur
            { steps := c.steps + 1,
              loads := ⟨m.region, end_ - USIZE_BYTES - m.base, 8, false⟩ :: c.loads }
            hs hcur1 (by omega)
          exact ⟨r, c', hrun, LastRes.append hres hno hcur2⟩
        · rw [if_neg hl]
          have hL := LOOP_BYTES_eq
          have hpl := Mem.padd_ok m "rfind_raw: start.add(One::LOOP_BYTES)" start LOOP_BYTES
            hs (by omega)
          simp only [hpl, pure_bind']
          obtain ⟨cur', c1, hrun1, g1, g2, g3, g4⟩ := rfindLoop_spec n1 m start end_ cur
            { steps := c.steps + 1,
              loads := ⟨m.region, end_ - USIZE_BYTES - m.base, 8, false⟩ :: c.loads }
            hs hcur1 hcur2 hal he hno
          rw [bind_ok hrun1]
          obtain ⟨r, c', hrun, hres⟩ := revByteByByte_spec m (needles n1).confirm start cur' c1
            hs g1 (by omega)
          exact ⟨r, c', hrun, LastRes.append hres g4 g3⟩

/-! ### `count_raw` -/

theorem countLoop_spec (n1 : UInt8) (m : Mem) (end_ ptr count : Nat) (c : Ctr)
    (hb : m.base ≤ ptr) (hpe : ptr ≤ end_) (he : end_ ≤ m.base + m.bytes.size) :
    ∃ c', countLoop n1 m end_ ptr count c = .ok (count + cnt m (· == n1) ptr end_) c' := by
  fun_induction countLoop n1 m end_ ptr count generalizing c with
  | case1 ptr count h ih =>
    have hr := Mem.read_ok m ptr { c with steps := c.steps + 1 } hb (by omega)
    have hpa := Mem.padd_ok m "count_raw: ptr.offset(1)" ptr 1 hb (by omega)
    simp only [tick_bind, bind_ok hr, hpa, pure_bind']
    obtain ⟨c', hrun⟩ := ih (m.byteAt ptr)
      { steps := c.steps + 1, loads := ⟨m.region, ptr - m.base, 1, false⟩ :: c.loads }
      (by omega) (by omega)
    simp only [dite_eq_ite] at hrun
    refine ⟨c', ?_⟩
    rw [hrun, cnt_split m _ (lo := ptr) (mid := ptr + 1) (hi := end_) (by omega) (by omega),
      cnt_one, Nat.add_assoc]
  | case2 ptr count h =>
    have : ptr = end_ := by omega
    subst this
    exact ⟨c, by simp [cnt_self]⟩

theorem countRaw_spec (n1 : UInt8) (m : Mem) (start end_ : Nat) (c : Ctr)
    (hb : start < end_ → m.base ≤ start ∧ end_ ≤ m.base + m.bytes.size) :
    ∃ c', countRaw n1 m start end_ c =
      .ok (Spec.countP (· == n1) (m.window start (end_ - start))) c' := by
  unfold countRaw
  by_cases hse : start ≥ end_
  · rw [if_pos hse]
    have : end_ - start = 0 := by omega
    exact ⟨c, by rw [this]; rfl⟩
  · obtain ⟨hs, he⟩ := hb (by omega)
    rw [if_neg hse]
    obtain ⟨c', hrun⟩ := countLoop_spec n1 m end_ start 0 c hs (by omega) he
    exact ⟨c', by rw [hrun, Nat.zero_add]; rfl⟩

end One
end Memchr.Swar
