/-
Small bridging lemmas for the property files `Props/C13.lean`: the step bounds of the master
theorems rewritten in the explicitly linear form `constant * haystack.len() + constant`
(packed pair, needle length bounded by a constant `N`) resp. `constant * needle.len() +
constant` (Rabin-Karp, haystack length bounded by a constant `T`).  Pure arithmetic on top of
`PackedPair.find_cost`, `RabinKarp.find_correct`, `RabinKarp.rfind_correct`.
-/
import MemchrModel.Proofs.PackedPair
import MemchrModel.Proofs.RabinKarp

namespace Memchr.PropsBridge

open Memchr

/-- `(a / B + 2) * (1 + B * K)` is at most `(K + 1) * a + 2 * (1 + B * K)` -/
theorem chunks_linear (a B K : Nat) :
    (a / B + 2) * (1 + B * K) ≤ (K + 1) * a + 2 * (1 + B * K) := by
  have h1 : a / B * B ≤ a := Nat.div_mul_le_self a B
  have h2 : a / B ≤ a := Nat.div_le_self a B
  have h3 : a / B * (B * K) ≤ a * K := by
    rw [← Nat.mul_assoc]; exact Nat.mul_le_mul_right K h1
  rw [Nat.add_mul, Nat.mul_add (a / B), Nat.mul_one, Nat.add_mul K 1 a, Nat.one_mul,
    Nat.mul_comm K a]
  omega

/-- monotonicity of the per-chunk cost in the needle length -/
theorem chunk_cost_mono (B n N : Nat) (h : n ≤ N) : 1 + B * (n / 4 + 3) ≤ 1 + B * (N / 4 + 3) :=
  Nat.add_le_add_left (Nat.mul_le_mul_left B (Nat.add_le_add_right (Nat.div_le_div_right h) 3)) 1

/-- `PackedPair.find_cost` for a needle of at most `N` bytes, in linear form: at most
`(N / 4 + 4) * haystack.len() + 2 * (1 + BYTES * (N / 4 + 3))` steps. -/
theorem packedpair_find_cost_linear {V : VecImpl} (L : Lawful V) (hay needle : Slice)
    (hh : hay.Valid) (hn : needle.Valid) (i1 i2 : Nat) (hne : i1 ≠ i2) (h1 : i1 < needle.len)
    (h2 : i2 < needle.len) (f : PackedPair.Finder) (c0 c0' : Ctr)
    (hf : PackedPair.Finder.new V needle i1 i2 c0 = .ok f c0')
    (hlen : f.minHaystackLen ≤ hay.len) (N : Nat) (hN : needle.len ≤ N) (c : Ctr) :
    ∃ r c', PackedPair.find V f hay needle c = .ok r c' ∧
      c'.steps ≤ c.steps + (N / 4 + 4) * hay.len + 2 * (1 + V.bytes * (N / 4 + 3)) := by
  obtain ⟨r, c', hr, hc⟩ :=
    PackedPair.find_cost L hay needle hh hn i1 i2 hne h1 h2 f c0 c0' hf hlen c
  refine ⟨r, c', hr, ?_⟩
  have a1 := Nat.mul_le_mul_left (hay.len / V.bytes + 2) (chunk_cost_mono V.bytes _ _ hN)
  have a2 := chunks_linear hay.len V.bytes (N / 4 + 3)
  rw [show N / 4 + 3 + 1 = N / 4 + 4 from rfl] at a2
  omega

/-- the Rabin-Karp bound is monotone in the haystack length -/
theorem rk_bound_mono (hl nl T : Nat) (h : hl ≤ T) :
    2 * (hl + 1) * (nl / 4 + 2) + 2 * nl ≤ 2 * (T + 1) * (nl / 4 + 2) + 2 * nl :=
  Nat.add_le_add_right
    (Nat.mul_le_mul_right _ (Nat.mul_le_mul_left 2 (Nat.add_le_add_right h 1))) _

/-- `RabinKarp.find_correct` for a haystack of at most `T` bytes: at most
`2 * (T + 1) * (needle.len() / 4 + 2) + 2 * needle.len()` steps, construction included. -/
theorem rabinkarp_find_cost_short (h n : Slice) (c : Ctr) (hh : h.Valid) (hn : n.Valid)
    (T : Nat) (hT : h.len ≤ T) :
    ∃ r c', (RabinKarp.Finder.new n >>= fun f => f.find h n) c = .ok r c' ∧
      c'.steps ≤ c.steps + 2 * (T + 1) * (n.len / 4 + 2) + 2 * n.len := by
  obtain ⟨c', e, hs⟩ := RabinKarp.find_correct h n c hh hn
  have := rk_bound_mono h.len n.len T hT
  exact ⟨_, c', e, by omega⟩

/-- reverse version of `rabinkarp_find_cost_short` -/
theorem rabinkarp_rfind_cost_short (h n : Slice) (c : Ctr) (hh : h.Valid) (hn : n.Valid)
    (T : Nat) (hT : h.len ≤ T) :
    ∃ r c', (RabinKarp.FinderRev.new n >>= fun f => f.rfind h n) c = .ok r c' ∧
      c'.steps ≤ c.steps + 2 * (T + 1) * (n.len / 4 + 2) + 2 * n.len := by
  obtain ⟨c', e, hs⟩ := RabinKarp.rfind_correct h n c hh hn
  have := rk_bound_mono h.len n.len T hT
  exact ⟨_, c', e, by omega⟩

end Memchr.PropsBridge

#print axioms Memchr.PropsBridge.packedpair_find_cost_linear
#print axioms Memchr.PropsBridge.rabinkarp_find_cost_short
#print axioms Memchr.PropsBridge.rabinkarp_rfind_cost_short
