/-
The Rabin-Karp rolling hash: the hash of a byte string is the fold of `Hash.add`; rolling the
window by one byte updates it (`roll_spec`); `Hash::forward` / `Hash::reverse` /
`Finder::new` / `FinderRev::new` compute it.
-/
import MemchrModel.Model.RabinKarp
import MemchrModel.Proofs.IsEqualLemmas

namespace Memchr.RabinKarp

open Memchr

/-- the hash of a byte string: `add` every byte, starting from `Hash::new()` -/
def H (l : List UInt8) : UInt32 := l.foldl Hash.add 0

/-- `2^k` computed the way `Finder::new` does (`wrapping_shl(1)` starting from 1) -/
def pow2 : Nat → UInt32
  | 0 => 1
  | k + 1 => pow2 k <<< 1

/-- the finder `Finder::new` builds for a needle with these bytes -/
def Finder.spec (l : List UInt8) : Finder := { hash := H l, hash2pow := pow2 (l.length - 1) }

/-- `wrapping_shl(1)` is multiplication by 2 -/
theorem shl_one (x : UInt32) : x <<< 1 = x * 2 := by
  apply UInt32.toNat_inj.mp
  rw [UInt32.toNat_shiftLeft, UInt32.toNat_mul]
  simp [Nat.shiftLeft_eq]

theorem add_eq (h : Hash) (b : UInt8) : Hash.add h b = h * 2 + b.toUInt32 := by
  simp only [Hash.add, shl_one]

theorem pow2_succ (k : Nat) : pow2 (k + 1) = pow2 k * 2 := by
  simp only [pow2, shl_one]

@[simp] theorem H_nil : H [] = 0 := rfl

theorem foldl_add (acc : UInt32) (l : List UInt8) :
    l.foldl Hash.add acc = acc * pow2 l.length + H l := by
  induction l generalizing acc with
  | nil => simp [pow2]
  | cons a t ih =>
    simp only [H, List.foldl_cons, List.length_cons]
    rw [ih (Hash.add acc a), ih (Hash.add 0 a), add_eq, add_eq, pow2_succ]
    simp only [H]
    grind

theorem H_cons (a : UInt8) (t : List UInt8) : H (a :: t) = a.toUInt32 * pow2 t.length + H t := by
  simp only [H, List.foldl_cons]
  rw [foldl_add, add_eq]
  simp only [H]
  grind

theorem H_append_one (t : List UInt8) (b : UInt8) : H (t ++ [b]) = Hash.add (H t) b := by
  simp [H, List.foldl_append]

/-- rolling: removing the first byte and appending a new one -/
theorem roll_spec (f : Finder) (a b : UInt8) (t : List UInt8)
    (hf : f.hash2pow = pow2 t.length) : Hash.roll (H (a :: t)) f a b = H (t ++ [b]) := by
  rw [H_append_one, Hash.roll, Hash.del, hf, H_cons]
  congr 1
  grind

/-- rolling a forward window -/
theorem roll_window_fwd (f : Finder) (m : Mem) (cur nlen : Nat) (hn : 1 ≤ nlen)
    (hf : f.hash2pow = pow2 (nlen - 1)) :
    Hash.roll (H (m.window cur nlen)) f (m.byteAt cur) (m.byteAt (cur + nlen)) =
      H (m.window (cur + 1) nlen) := by
  obtain ⟨k, rfl⟩ : ∃ k, nlen = k + 1 := ⟨nlen - 1, by omega⟩
  rw [Mem.window_succ m cur k, Mem.window_succ_last m (cur + 1) k]
  have : cur + 1 + k = cur + (k + 1) := by omega
  rw [this]
  refine roll_spec f _ _ _ ?_
  simpa using hf

/-- rolling a reverse window (`cur` is the start of the new window) -/
theorem roll_window_rev (f : Finder) (m : Mem) (cur nlen : Nat) (hn : 1 ≤ nlen)
    (hf : f.hash2pow = pow2 (nlen - 1)) :
    Hash.roll (H (m.window (cur + 1) nlen).reverse) f (m.byteAt (cur + nlen)) (m.byteAt cur) =
      H (m.window cur nlen).reverse := by
  obtain ⟨k, rfl⟩ : ∃ k, nlen = k + 1 := ⟨nlen - 1, by omega⟩
  rw [Mem.window_succ m cur k, Mem.window_succ_last m (cur + 1) k]
  have : cur + 1 + k = cur + (k + 1) := by omega
  rw [this]
  simp only [List.reverse_append, List.reverse_cons, List.reverse_nil, List.nil_append,
    List.singleton_append]
  refine roll_spec f _ _ _ ?_
  simpa using hf

/-! ### `Hash::forward`, `Hash::reverse` -/

theorem forwardLoop_run (m : Mem) (end_ start : Nat) (hash : Hash) (c : Ctr)
    (h1 : m.base ≤ start) (h2 : start ≤ end_) (h3 : end_ ≤ m.base + m.bytes.size) :
    ∃ c', Hash.forwardLoop m end_ start hash c =
        .ok ((m.window start (end_ - start)).foldl Hash.add hash) c' ∧
      c'.steps = c.steps + (end_ - start) := by
  fun_induction Hash.forwardLoop m end_ start hash generalizing c with
  | case1 start hash h ih =>
    simp only [M.bind_run, tick_run]
    rw [Mem.read_ok m start _ h1 (by omega)]
    simp only []
    rw [Mem.padd_ok m _ start 1 h1 (by omega)]
    simp only [M.pure_run]
    obtain ⟨c', e, hs⟩ := ih (m.byteAt start)
      { steps := c.steps + 1, loads := ⟨m.region, start - m.base, 1, false⟩ :: c.loads }
      (by omega) (by omega)
    refine ⟨c', ?_, by simp only at hs; omega⟩
    rw [e]
    have : end_ - start = (end_ - (start + 1)) + 1 := by omega
    rw [this, Mem.window_succ, List.foldl_cons]
  | case2 start hash h =>
    have : end_ - start = 0 := by omega
    rw [this]
    exact ⟨c, rfl, rfl⟩

theorem forward_run (m : Mem) (start end_ : Nat) (c : Ctr)
    (h1 : m.base ≤ start) (h2 : start ≤ end_) (h3 : end_ ≤ m.base + m.bytes.size) :
    ∃ c', Hash.forward m start end_ c = .ok (H (m.window start (end_ - start))) c' ∧
      c'.steps = c.steps + (end_ - start) :=
  forwardLoop_run m end_ start Hash.new c h1 h2 h3

theorem reverseLoop_run (m : Mem) (start end_ : Nat) (hash : Hash) (c : Ctr)
    (h1 : m.base ≤ start) (h2 : start ≤ end_) (h3 : end_ ≤ m.base + m.bytes.size) :
    ∃ c', Hash.reverseLoop m start end_ hash c =
        .ok ((m.window start (end_ - start)).reverse.foldl Hash.add hash) c' ∧
      c'.steps = c.steps + (end_ - start) := by
  fun_induction Hash.reverseLoop m start end_ hash generalizing c with
  | case1 end_ hash h ih =>
    simp only [M.bind_run, tick_run]
    rw [Mem.psub_ok m _ end_ 1 (by omega) h3]
    simp only [M.pure_run]
    rw [Mem.read_ok m (end_ - 1) _ (by omega) (by omega)]
    simp only []
    obtain ⟨c', e, hs⟩ := ih (m.byteAt (end_ - 1))
      { steps := c.steps + 1, loads := ⟨m.region, end_ - 1 - m.base, 1, false⟩ :: c.loads }
      (by omega) (by omega)
    refine ⟨c', ?_, by simp only at hs; omega⟩
    rw [e]
    have h4 : end_ - start = (end_ - 1 - start) + 1 := by omega
    have h5 : start + (end_ - 1 - start) = end_ - 1 := by omega
    rw [h4, Mem.window_succ_last, List.reverse_append, h5]
    rfl
  | case2 end_ hash h =>
    have : end_ - start = 0 := by omega
    rw [this]
    exact ⟨c, rfl, rfl⟩

theorem reverse_run (m : Mem) (start end_ : Nat) (c : Ctr)
    (h1 : m.base ≤ start) (h2 : start ≤ end_) (h3 : end_ ≤ m.base + m.bytes.size) :
    ∃ c', Hash.reverse m start end_ c = .ok (H (m.window start (end_ - start)).reverse) c' ∧
      c'.steps = c.steps + (end_ - start) :=
  reverseLoop_run m start end_ Hash.new c h1 h2 h3

/-! ### `Finder::new`, `FinderRev::new` -/

theorem newLoop_run (rest : List UInt8) (s : Finder) (c : Ctr) :
    newLoop rest s c =
      .ok { hash := rest.foldl Hash.add s.hash, hash2pow := s.hash2pow * pow2 rest.length }
        { c with steps := c.steps + rest.length } := by
  induction rest generalizing s c with
  | nil => simp [newLoop, pow2]
  | cons b t ih =>
    simp only [newLoop, M.bind_run, tick_run, ih, List.foldl_cons, List.length_cons, pow2_succ,
      shl_one]
    congr 2
    · grind
    · simp only [Nat.add_assoc, Nat.add_comm 1]

/-- `Finder::new` / `FinderRev::new` on a byte sequence: the finder `Finder.spec`, one tick
per byte after the first, no load -/
theorem newOfBytes_run (l : List UInt8) (c : Ctr) :
    newOfBytes l c = .ok (Finder.spec l) { c with steps := c.steps + (l.length - 1) } := by
  cases l with
  | nil => simp [newOfBytes, Finder.spec, pow2, Hash.new]
  | cons a t =>
    simp only [newOfBytes, newLoop_run, Finder.spec, List.length_cons, Nat.add_sub_cancel, H,
      List.foldl_cons, Hash.new]
    congr 2
    grind

theorem Finder.new_run (needle : Slice) (c : Ctr) :
    Finder.new needle c =
      .ok (Finder.spec needle.toList) { c with steps := c.steps + (needle.len - 1) } := by
  rw [Finder.new, newOfBytes_run, Slice.toList_length]

theorem FinderRev.new_run (needle : Slice) (c : Ctr) :
    FinderRev.new needle c =
      .ok ⟨Finder.spec needle.toList.reverse⟩
        { c with steps := c.steps + (needle.len - 1) } := by
  simp only [FinderRev.new, M.bind_run, newOfBytes_run, List.length_reverse,
    Slice.toList_length, M.pure_run]

end Memchr.RabinKarp
