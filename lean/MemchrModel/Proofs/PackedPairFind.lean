/-
Packed pair `find`: the tail, the main loop (search needle fits in the region: "good"; search
needle longer than the region up to the end of the haystack: "bad") and the run of `find`.
Everything here is for an arbitrary search needle; `Proofs/PackedPair.lean` specialises to the
construction needle.
-/
import MemchrModel.Proofs.PackedPairLemmas

namespace Memchr.PackedPair

open Memchr Memchr.Generic

variable {V : VecImpl}

/-- the geometry of a `find` call: `start ≤ max = end - min_haystack_len`, everything inside
the region, and `min_haystack_len` covers both vector loads -/
structure Geom (V : VecImpl) (f : Finder) (hm : Mem) (start end_ max : Nat) : Prop where
  hb : hm.base ≤ start
  hsm : start ≤ max
  hme : max + f.minHaystackLen = end_
  he : end_ ≤ hm.base + hm.bytes.size
  hmin : Max.max f.index1 f.index2 + V.bytes ≤ f.minHaystackLen
  hmin2 : V.bytes < f.minHaystackLen

/-- no hit at an address in `[lo, hi)` -/
def NoHitIn (f : Finder) (hm : Mem) (needle : Slice) (end_ lo hi : Nat) : Prop :=
  ∀ a, lo ≤ a → a < hi → ¬ HitAt f hm needle end_ a

/-- `find` returns the offset of the lowest hit at an address in `[start, lim)` -/
def FindRes (f : Finder) (hm : Mem) (needle : Slice) (start end_ lim : Nat) :
    Option Nat → Prop
  | some x => start + x < lim ∧ HitAt f hm needle end_ (start + x) ∧
      NoHitIn f hm needle end_ start (start + x)
  | none => NoHitIn f hm needle end_ start lim

/-- what `MoveMask::all_zeros_except_least_significant(0)` is known to be -/
def IsAll (L : Lawful V) (all : V.Mask) : Prop :=
  ∀ m, L.wf m → L.wf (V.mand m all) ∧ ∀ i, L.bit (V.mand m all) i = L.bit m i

theorem matched_run (hm : Mem) (start cur k : Nat) (c : Ctr) (h1 : hm.base ≤ start)
    (h2 : start ≤ cur) (h3 : cur ≤ hm.base + hm.bytes.size) :
    matched hm start cur k c = .ok (cur - start + k) c := by
  unfold matched
  rw [Mem.distance_ok hm _ cur start h1 h2 h3]
  rfl

/-! ### the tail -/

theorem findTail_good (L : Lawful V) (f : Finder) (hm : Mem) (needle : Slice)
    (start end_ max cur : Nat) (c : Ctr) (G : Geom V f hm start end_ max) (hv : needle.Valid)
    (hgood : hm.base + needle.len ≤ end_) (h1 : max < cur) (h2 : cur ≤ max + V.bytes)
    (hno : NoHitIn f hm needle end_ start cur) :
    ∃ r c', findTail V f hm needle start end_ max cur c = .ok r c' ∧
      FindRes f hm needle start end_ (max + V.bytes) r ∧
      c'.steps ≤ c.steps + chunkCost V needle := by
  obtain ⟨hb, hsm, hme, he, hmin, hmin2⟩ := G
  have hlt : cur < end_ := by omega
  have hd := Mem.distance_ok hm "find: end.distance(cur)" end_ cur (by omega) (by omega) he
  have hda1 : decide (end_ - cur < f.minHaystackLen) = true := by simp; omega
  unfold findTail
  simp only [hlt, if_true, hd, pure_bind', dbgAssert_ok _ hda1]
  by_cases hrem : end_ - cur < needle.len
  · refine ⟨none, c, by simp only [hrem, if_true, M.pure_run], ?_, Nat.le_add_right _ _⟩
    intro a ha1 ha2 hh
    by_cases hac : a < cur
    · exact hno a ha1 hac hh
    · have := hh.2.1
      omega
  · have hda2 : decide (max < cur) = true := by simp; omega
    have hd2 := Mem.distance_ok hm "find: cur.distance(max)" cur max (by omega) (by omega)
      (by omega)
    have hda3 : decide (cur - max > 0) = true := by simp; omega
    simp only [hrem, if_false, dbgAssert_ok _ hda2, pure_bind', hd2, dbgAssert_ok _ hda3]
    by_cases hov : cur - max < V.bytes
    · have hge : ¬ cur - max ≥ V.bytes := by omega
      have hda4 : decide (cur - max < V.bytes) = true := by simp; omega
      obtain ⟨km, hkm, hprop⟩ := L.allExceptLS_spec (cur - max) c hov
      have hrep := MaskRep.movemask L (candF f hm max)
      obtain ⟨w1, w2, w3⟩ := hprop _ hrep.1
      obtain ⟨r, c', hfc, hres, hcost⟩ := findInChunk_good L f hm needle max end_ km
        (fun i => L.bit (V.mand (V.movemask (bvec V.bytes (candF f hm max))) km) i) c hv
        (by omega) (by omega) he hgood ⟨w1, fun i _ => rfl⟩
      simp only [hge, if_false, dbgAssert_ok _ hda4, pure_bind']
      rw [bind_ok hkm, bind_ok hfc]
      cases r with
      | some k =>
        obtain ⟨a1, a2, a3, a4⟩ := hres
        refine ⟨some (max - start + k), c', ?_, ?_, hcost⟩
        · show (matched hm start max k >>= fun r => pure (some r)) c' = _
          rw [bind_ok (matched_run hm start max k c' hb hsm (by omega))]
          rfl
        · have e : start + (max - start + k) = max + k := by omega
          have hcand : candA f hm (max + k) = true := by
            have := w2 k a2
            rw [hrep.2 k a1] at this
            exact this
          show _ ∧ _ ∧ _
          rw [e]
          refine ⟨by omega, ⟨hcand, a3⟩, ?_⟩
          intro a ha1 ha2 hh
          by_cases hac : a < cur
          · exact hno a ha1 hac hh
          · have hj : a = max + (a - max) := by omega
            have hg : L.bit (V.mand (V.movemask (bvec V.bytes (candF f hm max))) km) (a - max)
                = true := by
              rw [w3 (a - max) (by omega), hrep.2 (a - max) (by omega)]
              show candA f hm (max + (a - max)) = true
              rw [← hj]; exact hh.1
            apply a4 (a - max) (by omega) hg
            rw [← hj]; exact hh.2
      | none =>
        refine ⟨none, c', rfl, ?_, hcost⟩
        intro a ha1 ha2 hh
        by_cases hac : a < cur
        · exact hno a ha1 hac hh
        · have hj : a = max + (a - max) := by omega
          have hg : L.bit (V.mand (V.movemask (bvec V.bytes (candF f hm max))) km) (a - max)
              = true := by
            rw [w3 (a - max) (by omega), hrep.2 (a - max) (by omega)]
            show candA f hm (max + (a - max)) = true
            rw [← hj]; exact hh.1
          apply hres (a - max) (by omega) hg
          rw [← hj]; exact hh.2
    · have hge : cur - max ≥ V.bytes := by omega
      have hcur : cur = max + V.bytes := by omega
      refine ⟨none, c, by simp only [hge, if_true, M.pure_run], ?_, Nat.le_add_right _ _⟩
      rw [← hcur]; exact hno

/-! ### the main loop -/

theorem findLoop_good (L : Lawful V) (f : Finder) (hm : Mem) (needle : Slice)
    (start end_ max : Nat) (all : V.Mask) (cur : Nat) (c : Ctr)
    (G : Geom V f hm start end_ max) (hv : needle.Valid)
    (hgood : hm.base + needle.len ≤ end_) (hall : IsAll L all)
    (h1 : start ≤ cur) (h2 : cur ≤ max + V.bytes) (hno : NoHitIn f hm needle end_ start cur) :
    ∃ r c', findLoop V f hm needle start end_ max all cur c = .ok r c' ∧
      FindRes f hm needle start end_ (max + V.bytes) r ∧
      c'.steps ≤ c.steps + ((max + V.bytes - cur) / V.bytes + 1) * chunkCost V needle := by
  have hpos := V.bytes_pos
  fun_induction findLoop V f hm needle start end_ max all cur generalizing c with
  | case1 cur h ih =>
    obtain ⟨hb, hsm, hme, he, hmin, hmin2⟩ := G
    have hrep := MaskRep.movemask L (candF f hm cur)
    obtain ⟨w1, w2⟩ := hall _ hrep.1
    obtain ⟨r, c1, hfc, hres, hcost⟩ := findInChunk_good L f hm needle cur end_ all
      (candF f hm cur) c hv (by omega) (by omega) he hgood
      ⟨w1, fun i hi => by rw [w2 i, hrep.2 i hi]⟩
    rw [bind_ok hfc]
    have hdiv : (max + V.bytes - cur) / V.bytes = (max - cur) / V.bytes + 1 := by
      have : max + V.bytes - cur = (max - cur) + V.bytes := by omega
      rw [this, Nat.add_div_right _ hpos]
    cases r with
    | some k =>
      obtain ⟨a1, a2, a3, a4⟩ := hres
      refine ⟨some (cur - start + k), c1, ?_, ?_, ?_⟩
      · show (matched hm start cur k >>= fun r => pure (some r)) c1 = _
        rw [bind_ok (matched_run hm start cur k c1 hb h1 (by omega))]
        rfl
      · have e : start + (cur - start + k) = cur + k := by omega
        show _ ∧ _ ∧ _
        rw [e]
        refine ⟨by omega, ⟨a2, a3⟩, ?_⟩
        intro a ha1 ha2 hh
        by_cases hac : a < cur
        · exact hno a ha1 hac hh
        · have hj : a = cur + (a - cur) := by omega
          apply a4 (a - cur) (by omega)
          · show candA f hm (cur + (a - cur)) = true
            rw [← hj]; exact hh.1
          · rw [← hj]; exact hh.2
      · have : chunkCost V needle ≤
            ((max + V.bytes - cur) / V.bytes + 1) * chunkCost V needle := by
          rw [Nat.add_mul, Nat.one_mul]; exact Nat.le_add_left _ _
        omega
    | none =>
      have hpa := Mem.padd_ok hm "find: cur.add(V::BYTES)" cur V.bytes (by omega) (by omega)
      have hno' : NoHitIn f hm needle end_ start (cur + V.bytes) := by
        intro a ha1 ha2 hh
        by_cases hac : a < cur
        · exact hno a ha1 hac hh
        · have hj : a = cur + (a - cur) := by omega
          apply hres (a - cur) (by omega)
          · show candA f hm (cur + (a - cur)) = true
            rw [← hj]; exact hh.1
          · rw [← hj]; exact hh.2
      have e1 : max + V.bytes - (cur + V.bytes) = max - cur := by omega
      simp only [hpa, pure_bind']
      obtain ⟨r, c', hrun, hfr, hc'⟩ := ih c1 (by omega) (by omega) hno'
      refine ⟨r, c', hrun, hfr, ?_⟩
      rw [e1] at hc'
      rw [hdiv]
      have : ((max - cur) / V.bytes + 1 + 1) * chunkCost V needle =
          ((max - cur) / V.bytes + 1) * chunkCost V needle + chunkCost V needle := by
        rw [Nat.add_mul _ 1, Nat.one_mul]
      omega
  | case2 cur h =>
    have hsmall : max + V.bytes - cur < V.bytes := by omega
    have hdiv : (max + V.bytes - cur) / V.bytes = 0 := Nat.div_eq_of_lt hsmall
    obtain ⟨r, c', hrun, hfr, hc'⟩ := findTail_good L f hm needle start end_ max cur c G hv
      hgood (by omega) h2 hno
    refine ⟨r, c', hrun, hfr, ?_⟩
    rw [hdiv, Nat.zero_add, Nat.one_mul]; exact hc'

theorem findLoop_bad (L : Lawful V) (f : Finder) (hm : Mem) (needle : Slice)
    (start end_ max : Nat) (all : V.Mask) (cur : Nat) (c : Ctr)
    (G : Geom V f hm start end_ max) (hbad : end_ < hm.base + needle.len) (hall : IsAll L all)
    (h1 : start ≤ cur) (h2 : cur ≤ max + V.bytes) :
    ((∃ a, cur ≤ a ∧ a ≤ max + (a - cur) % V.bytes ∧ candA f hm a = true) ∧
      findLoop V f hm needle start end_ max all cur c =
        .fault (.ptrOob "find_in_chunk: end.sub(needle.len())")) ∨
    ((∀ a, cur ≤ a → a ≤ max + (a - cur) % V.bytes → candA f hm a = false) ∧
      ∃ c', findLoop V f hm needle start end_ max all cur c = .ok none c') := by
  have hpos := V.bytes_pos
  fun_induction findLoop V f hm needle start end_ max all cur generalizing c with
  | case1 cur h ih =>
    obtain ⟨hb, hsm, hme, he, hmin, hmin2⟩ := G
    have hrep := MaskRep.movemask L (candF f hm cur)
    obtain ⟨w1, w2⟩ := hall _ hrep.1
    rcases findInChunk_bad L f hm needle cur end_ all (candF f hm cur) c (by omega) (by omega)
      he hbad ⟨w1, fun i hi => by rw [w2 i, hrep.2 i hi]⟩ with
      ⟨⟨j, hj, hgj⟩, hrun⟩ | ⟨hnone, c1, hrun, -⟩
    · left
      refine ⟨⟨cur + j, by omega, ?_, hgj⟩, ?_⟩
      · have : cur + j - cur = j := by omega
        rw [this, Nat.mod_eq_of_lt hj]; omega
      · simp only [M.bind_run, hrun]
    · have hpa := Mem.padd_ok hm "find: cur.add(V::BYTES)" cur V.bytes (by omega) (by omega)
      rw [bind_ok hrun]
      simp only [hpa, pure_bind']
      have hmodeq : ∀ a, cur + V.bytes ≤ a →
          (a - cur) % V.bytes = (a - (cur + V.bytes)) % V.bytes := by
        intro a ha
        have : a - cur = (a - (cur + V.bytes)) + V.bytes := by omega
        rw [this, Nat.add_mod_right]
      rcases ih c1 (by omega) (by omega) with
        ⟨⟨a, ha1, ha2, ha3⟩, hrun'⟩ | ⟨hnone', c', hrun'⟩
      · left
        exact ⟨⟨a, by omega, by rw [hmodeq a ha1]; exact ha2, ha3⟩, hrun'⟩
      · right
        refine ⟨?_, c', hrun'⟩
        intro a ha1 ha2
        by_cases hac : a < cur + V.bytes
        · have hj : a = cur + (a - cur) := by omega
          have := hnone (a - cur) (by omega)
          rw [hj]; exact this
        · exact hnone' a (by omega) (by rw [← hmodeq a (by omega)]; exact ha2)
  | case2 cur h =>
    obtain ⟨hb, hsm, hme, he, hmin, hmin2⟩ := G
    right
    constructor
    · intro a ha1 ha2
      have := Nat.mod_le (a - cur) V.bytes
      omega
    · have hlt : cur < end_ := by omega
      have hd := Mem.distance_ok hm "find: end.distance(cur)" end_ cur (by omega) (by omega) he
      have hda1 : decide (end_ - cur < f.minHaystackLen) = true := by simp; omega
      have hrem : end_ - cur < needle.len := by omega
      refine ⟨c, ?_⟩
      unfold findTail
      simp only [hlt, if_true, hd, pure_bind', dbgAssert_ok _ hda1, hrem, M.pure_run]

end Memchr.PackedPair
