/-
Pair selection with a ranker that has interior state (`Model/PairImpure.lean`): property C19
does not depend on the ranker being a function of the byte.
-/
import MemchrModel.Proofs.Pair
import MemchrModel.Model.PairImpure

namespace Memchr.Pair

open Memchr

/-- Loop invariant of the scan with a stateful ranker: `index1 ≠ index2`, both `< i`.  It does
not mention any rank value, so it holds whatever the ranker answers (and however its answers
change from call to call). -/
theorem scanLoopS_correct {σ : Type} (needle : Slice) (rank : σ → UInt8 → UInt8 × σ)
    (stop i : Nat) (rare1 index1 rare2 index2 : UInt8) (s : σ) (c : Ctr)
    (hstop : stop ≤ 255) (hi : i ≤ stop)
    (hne : index1 ≠ index2) (h1 : index1.toNat < i) (h2 : index2.toNat < i) :
    ∃ j1 j2 s' c', scanLoopS needle rank stop i rare1 index1 rare2 index2 s c
        = .ok (j1, j2, s') c' ∧
      j1 ≠ j2 ∧ j1.toNat < stop ∧ j2.toNat < stop ∧
      c'.steps = c.steps + (stop - i) ∧ c'.loads = c.loads := by
  fun_induction scanLoopS needle rank stop i rare1 index1 rare2 index2 s generalizing c with
  | case1 i rare1 index1 rare2 index2 s hlt ihA ihB ihC =>
    have hi255 : i ≤ 255 := by omega
    have hto := toNat_ofNat_le hi255
    have hsteps : ∀ c' : Ctr, c'.steps = c.steps + 1 + (stop - (i + 1)) →
        c'.steps = c.steps + (stop - i) := fun c' h => by omega
    simp only [bind, M.bind, tick, u8TryFrom_ok _ hi255, pure]
    rcases rank s (needle.getD i) with ⟨rb, s1⟩
    rcases rank s1 rare1 with ⟨rr1, s2⟩
    simp only []
    by_cases hA : rb < rr1
    · obtain ⟨j1, j2, s', c', hrun, a1, a2, a3, a4, a5⟩ :=
        ihA s2 (UInt8.ofNat i) { c with steps := c.steps + 1 } (by omega)
          (ne_of_toNat_lt (by rw [hto]; exact h1)).symm (by rw [hto]; omega) (by omega)
      refine ⟨j1, j2, s', c', ?_, a1, a2, a3, hsteps c' a4, a5⟩
      simp only [hA, if_true]
      exact hrun
    · by_cases hN : (needle.getD i != rare1) = true
      · simp only [hA, if_false, hN, if_true]
        rcases rank s2 (needle.getD i) with ⟨rb', s3⟩
        rcases rank s3 rare2 with ⟨rr2, s4⟩
        simp only []
        by_cases hB : rb' < rr2
        · obtain ⟨j1, j2, s', c', hrun, a1, a2, a3, a4, a5⟩ :=
            ihB s4 (UInt8.ofNat i) { c with steps := c.steps + 1 } (by omega)
              (ne_of_toNat_lt (by rw [hto]; exact h1)) (by omega) (by rw [hto]; omega)
          refine ⟨j1, j2, s', c', ?_, a1, a2, a3, hsteps c' a4, a5⟩
          simp only [hB, if_true]
          exact hrun
        · obtain ⟨j1, j2, s', c', hrun, a1, a2, a3, a4, a5⟩ :=
            ihC s4 { c with steps := c.steps + 1 } (by omega) hne (by omega) (by omega)
          refine ⟨j1, j2, s', c', ?_, a1, a2, a3, hsteps c' a4, a5⟩
          simp only [hB, if_false]
          exact hrun
      · obtain ⟨j1, j2, s', c', hrun, a1, a2, a3, a4, a5⟩ :=
          ihC s2 { c with steps := c.steps + 1 } (by omega) hne (by omega) (by omega)
        refine ⟨j1, j2, s', c', ?_, a1, a2, a3, hsteps c' a4, a5⟩
        simp only [hA, if_false, hN]
        exact hrun
  | case2 i rare1 index1 rare2 index2 s hge =>
    exact ⟨index1, index2, s, c, rfl, hne, by omega, by omega, by omega, rfl⟩

/-- **C19** `Pair::with_ranker(needle, ranker)` for every needle and every ranker WITH INTERIOR
STATE (any state type, any transition function, any initial state): no fault, `None` exactly
when `needle.len() < 2`, otherwise two distinct offsets inside the needle, both `<= 254`; at
most `min(needle.len(), 255)` steps and no raw load. -/
theorem withRankerS_correct {σ : Type} (needle : Slice) (rank : σ → UInt8 → UInt8 × σ) (s0 : σ)
    (c : Ctr) :
    ∃ r s' c', withRankerS needle rank s0 c = .ok (r, s') c' ∧
      (r = none ↔ needle.len < 2) ∧
      (∀ p, r = some p → p.ValidFor needle ∧ p.index1.toNat ≤ 254 ∧ p.index2.toNat ≤ 254) ∧
      c'.steps ≤ c.steps + min needle.len 255 ∧ c'.loads = c.loads := by
  unfold withRankerS
  by_cases hlen : needle.len ≤ 1
  · refine ⟨none, s0, c, by simp [hlen], by simp; omega, by simp, by omega, rfl⟩
  · have h0 : 0 < needle.len := by omega
    have h1 : 1 < needle.len := by omega
    have hmax := pairScanMax_le
    have hmax2 := pairScanMax_ge
    have fin : ∀ (r1 i1 r2 i2 : UInt8) (s : σ), i1 ≠ i2 → i1.toNat < 2 → i2.toNat < 2 →
        ∃ r s' c', (do
            let (index1, index2, s) ←
              scanLoopS needle rank (min needle.len Generated.pairScanMax)
                Generated.pairScanSkip r1 i1 r2 i2 s
            assert "with_ranker: assert_ne!(index1, index2)" (index1 != index2)
            pure (some (Pair.mk index1 index2), s) : M (Option Pair × σ)) c = .ok (r, s') c' ∧
          (r = none ↔ needle.len < 2) ∧
          (∀ p, r = some p → p.ValidFor needle ∧ p.index1.toNat ≤ 254 ∧ p.index2.toNat ≤ 254) ∧
          c'.steps ≤ c.steps + min needle.len 255 ∧ c'.loads = c.loads := by
      intro r1 i1 r2 i2 s hne hi1 hi2
      obtain ⟨j1, j2, s', c', hrun, a1, a2, a3, a4, a5⟩ :=
        scanLoopS_correct needle rank (min needle.len Generated.pairScanMax) 2 r1 i1 r2 i2 s c
          (by omega) (by omega) hne hi1 hi2
      rw [← pairScanSkip_eq] at hrun
      have hbne : (j1 != j2) = true := bne_iff_ne.mpr a1
      refine ⟨some ⟨j1, j2⟩, s', c', ?_, by simp; omega, ?_, by omega, a5⟩
      · simp only [bind, M.bind, hrun, hbne, assert_true, pure, M.pure]
      · intro p hp
        cases hp
        exact ⟨⟨a1, by show j1.toNat < _; omega, by show j2.toNat < _; omega⟩,
          by show j1.toNat ≤ _; omega, by show j2.toNat ≤ _; omega⟩
    simp only [hlen, if_false, Slice.get, h0, h1, if_true, bind, M.bind, pure, M.pure]
    rcases rank s0 (needle.getD 1) with ⟨q2, s1⟩
    rcases rank s1 (needle.getD 0) with ⟨q1, s2⟩
    simp only []
    by_cases hs : q2 < q1
    · simp only [hs, if_true]
      exact fin _ 1 _ 0 s2 (by decide) (by decide) (by decide)
    · simp only [hs, if_false]
      exact fin _ 0 _ 1 s2 (by decide) (by decide) (by decide)

/-! ### a pure ranker is the special case `σ = Unit` -/

/-- forget the (trivial) ranker state of a run -/
def withUnit {α : Type} : Res α → Res (α × Unit)
  | .ok a c => .ok (a, ()) c
  | .fault e => .fault e

theorem scanLoopS_pure (needle : Slice) (f : UInt8 → UInt8) (stop i : Nat)
    (rare1 index1 rare2 index2 : UInt8) (c : Ctr) :
    scanLoopS needle (fun _ b => (f b, ())) stop i rare1 index1 rare2 index2 () c =
      (match scanLoop needle f stop i rare1 index1 rare2 index2 c with
        | .ok (j1, j2) c' => .ok (j1, j2, ()) c'
        | .fault e => .fault e) := by
  fun_induction scanLoop needle f stop i rare1 index1 rare2 index2 generalizing c with
  | case1 i rare1 index1 rare2 index2 hlt ihA ihB ihC =>
    rw [scanLoopS]
    simp only [hlt, dite_true, bind, M.bind, tick, pure]
    by_cases hA : f (needle.getD i) < f rare1
    · simp only [hA, if_true]
      cases hu : u8TryFrom "with_ranker: index1 = u8::try_from(i).unwrap()" i
          { c with steps := c.steps + 1 } with
      | ok i8 c1 => simp only [M.bind, hu]; exact ihA i8 c1
      | fault e => simp only [M.bind, hu]
    · by_cases hN : (needle.getD i != rare1) = true
      · by_cases hB : f (needle.getD i) < f rare2
        · simp only [hA, if_false, hN, hB, if_true, Bool.true_and, decide_true]
          cases hu : u8TryFrom "with_ranker: index2 = u8::try_from(i).unwrap()" i
              { c with steps := c.steps + 1 } with
          | ok i8 c1 => simp only [M.bind, hu]; exact ihB i8 c1
          | fault e => simp only [M.bind, hu]
        · simp only [hA, if_false, hN, hB, if_true, Bool.true_and, decide_false]
          exact ihC _
      · simp only [hA, if_false, hN, Bool.false_and]
        exact ihC _
  | case2 i rare1 index1 rare2 index2 hge =>
    rw [scanLoopS]
    simp only [hge, dite_false]
    rfl

/-- With `σ := Unit` and a ranker that ignores its state the stateful model IS the pure model
`withRanker`: same fault, or the same answer with the same counter. -/
theorem withRankerS_pure (needle : Slice) (f : UInt8 → UInt8) (c : Ctr) :
    withRankerS needle (fun _ b => (f b, ())) () c = withUnit (withRanker needle f c) := by
  unfold withRankerS withRanker
  by_cases hlen : needle.len ≤ 1
  · simp only [hlen, if_true]; rfl
  · have h0 : 0 < needle.len := by omega
    have h1 : 1 < needle.len := by omega
    simp only [hlen, if_false, Slice.get, h0, h1, if_true, bind, M.bind, pure, M.pure]
    rw [scanLoopS_pure]
    cases scanLoop needle f (min needle.len Generated.pairScanMax) Generated.pairScanSkip
        (if f (needle.getD 1) < f (needle.getD 0) then needle.getD 1 else needle.getD 0)
        (if f (needle.getD 1) < f (needle.getD 0) then 1 else 0)
        (if f (needle.getD 1) < f (needle.getD 0) then needle.getD 0 else needle.getD 1)
        (if f (needle.getD 1) < f (needle.getD 0) then 0 else 1) c with
    | fault e => rfl
    | ok a c1 =>
      obtain ⟨j1, j2⟩ := a
      simp only [withUnit]
      by_cases hj : (j1 != j2) = true
      · simp only [hj, assert_true]; rfl
      · have hj' : (j1 != j2) = false := by simpa using hj
        simp only [hj', assert_false]; rfl

/-- the same statement through `Functor.map` -/
theorem withRankerS_pure_map (needle : Slice) (f : UInt8 → UInt8) (c : Ctr) :
    withRankerS needle (fun _ b => (f b, ())) () c =
      ((fun r => (r, ())) <$> withRanker needle f) c := by
  rw [withRankerS_pure, M.map_run]
  cases withRanker needle f c <;> rfl

end Memchr.Pair
