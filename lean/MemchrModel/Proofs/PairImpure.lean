/-
Pair selection with a ranker that has interior state (`Model/PairImpure.lean`): property C19
does not depend on the ranker being a function of the byte.
-/
import MemchrModel.Proofs.Pair
import MemchrModel.Model.PairImpure

namespace Memchr.Pair

open Memchr

theorem scanLoopS_correct {σ : Type} (needle : Slice) (rank : σ → UInt8 → UInt8 × σ)
    (stop i : Nat) (rare1 index1 rare2 index2 : UInt8) (s : σ) (c : Ctr)
    (hstop : stop ≤ 255) (hi : i ≤ stop)
    (hne : index1 ≠ index2) (h1 : index1.toNat < i) (h2 : index2.toNat < i) :
    ∃ j1 j2 s' c', scanLoopS needle rank stop i rare1 index1 rare2 index2 s c
        = .ok (j1, j2, s') c' ∧
      j1 ≠ j2 ∧ j1.toNat < stop ∧ j2.toNat < stop ∧
      c'.steps = c.steps + (stop - i) ∧ c'.loads = c.loads := by
  fun_induction scanLoopS needle rank stop i rare1 index1 rare2 index2 s generalizing c with
  | case1 => trace_state; sorry
  | case2 => sorry
