/-
Discharging `TwoWayOk` (the only hypothesis of `Proofs/Searcher.lean` / `Proofs/Memmem.lean`)
from the Two-Way proofs, and the resulting UNCONDITIONAL forms of C03, C04, C08, C10, C16, C17
for the substring API.

* forward: `TwoWay.cert_fwd` (`Proofs/TwoWayCert.lean`: `Finder::new` returns normally and its
  values satisfy `CertFwd`, for every needle) + `TwoWay.find_ok_of_cert` (`Proofs/TwoWay.lean`);
* reverse: `TwoWay.cert_rev` (`Proofs/TwoWayRevCert.lean`) + `TwoWay.finderRev_new_spec`
  (byte set without false negatives) + `TwoWay.rfind_eq_of_cert` (`Proofs/TwoWayRev.lean`).
-/
import MemchrModel.Proofs.Memmem
import MemchrModel.Proofs.TwoWayCert
import MemchrModel.Proofs.TwoWayRevCert

namespace Memchr.Memmem

open Memchr

/-- what `Proofs/Searcher.lean` assumes about forward Two-Way holds -/
theorem twoWayFwdOk : TwoWayFwdOk where
  new_ok := fun n hn _ c => by
    obtain ⟨tw, c', h, _⟩ := TwoWay.cert_fwd n hn c
    exact ⟨tw, c', h⟩
  find_ok := fun n0 n hay tw c0 c0' hn0 hn hh hb _ _ hnew pre hpre c => by
    obtain ⟨tw', c1, e, hcert⟩ := TwoWay.cert_fwd n0 hn0 c0
    rw [hnew] at e
    cases e
    exact TwoWay.find_ok_of_cert n0 n hay tw c0 c0' hn0 hn hh hb hnew hcert pre
      (fun p hp => hpre p hp) c

/-- what `Proofs/Searcher.lean` assumes about reverse Two-Way holds -/
theorem twoWayRevOk : TwoWayRevOk where
  new_ok := fun n hn _ c => by
    obtain ⟨tw, c', h, _⟩ := TwoWay.cert_rev n hn c
    exact ⟨tw, c', h⟩
  rfind_ok := fun n0 n hay tw c0 c0' hn0 hn hh hb _ _ hnew c => by
    obtain ⟨tw', c1, e, hcert⟩ := TwoWay.cert_rev n0 hn0 c0
    rw [hnew] at e
    cases e
    obtain ⟨tw'', c2, e2, _, hbs, _⟩ := TwoWay.finderRev_new_spec n0 c0 hn0
    rw [hnew] at e2
    cases e2
    have harr : n.toArray = n0.toArray := toArray_congr hn hn0 hb
    obtain ⟨c', h, _⟩ := TwoWay.rfind_eq_of_cert tw n hay c hn hh (by rw [harr]; exact hcert)
      (by rw [harr]; exact hbs)
    exact ⟨c', h⟩

theorem twoWayOk : TwoWayOk := ⟨twoWayFwdOk, twoWayRevOk⟩

/-! ### the unconditional master theorems -/

/-- **C03.find, every branch, unconditional**: for every configuration, prefilter setting,
ranker, needle, haystack and EVERY prefilter state, `Searcher::new` returns normally and
`Searcher::find` returns the leftmost occurrence without a fault. -/
theorem C03.find_all (cfg : Api.Cfg) (pf : PrefilterConfig) (rank : UInt8 → UInt8)
    (needle hay : Slice) (hn : needle.Valid) (hh : hay.Valid) (st : PrefilterState) (c : Ctr) :
    ∃ s c1, Searcher.new cfg pf rank needle c = .ok s c1 ∧ ∀ c2, ∃ st' c3,
      s.find cfg st hay needle c2 = .ok (Spec.leftmost hay.toArray needle.toArray, st') c3 :=
  C03.find_partial twoWayFwdOk cfg pf rank needle hay hn hh st c

/-- **C03** `FinderBuilder` / `Finder::new` + `find` -/
theorem C03.builder_find_all (cfg : Api.Cfg) (b : FinderBuilder) (rank : UInt8 → UInt8)
    (needle hay : Slice) (hn : needle.Valid) (hh : hay.Valid) (c : Ctr) :
    ∃ c', (b.buildForwardWithRanker cfg rank needle >>= fun f => f.find cfg hay) c =
      .ok (Spec.leftmost hay.toArray needle.toArray) c' :=
  C03.builder_find cfg b rank needle hay hn hh (fun _ => twoWayFwdOk) c

/-- **C03.oneshot, unconditional** `memmem::find` -/
theorem C03.oneshot_all (cfg : Api.Cfg) (needle hay : Slice) (hn : needle.Valid) (hh : hay.Valid)
    (c : Ctr) :
    ∃ c', Memmem.find cfg hay needle c = .ok (Spec.leftmost hay.toArray needle.toArray) c' :=
  C03.oneshot_partial twoWayFwdOk cfg needle hay hn hh c

/-- **C04.rfind, unconditional** -/
theorem C04.rfind_all (cfg : Api.Cfg) (needle hay : Slice) (hn : needle.Valid) (hh : hay.Valid)
    (c : Ctr) :
    ∃ s c1, SearcherRev.new needle c = .ok s c1 ∧ ∀ c2, ∃ c3,
      s.rfind cfg hay needle c2 = .ok (Spec.rightmost hay.toArray needle.toArray) c3 :=
  C04.rfind_partial twoWayRevOk cfg needle hay hn hh c

/-- **C04** `FinderRev::new(needle).rfind(haystack)` -/
theorem C04.finder_rfind_all (cfg : Api.Cfg) (needle hay : Slice) (hn : needle.Valid)
    (hh : hay.Valid) (c : Ctr) :
    ∃ c', (FinderRev.new needle >>= fun f => f.rfind cfg hay) c =
      .ok (Spec.rightmost hay.toArray needle.toArray) c' :=
  C04.finder_rfind cfg needle hay hn hh (fun _ => twoWayRevOk) c

/-- **C04.oneshot, unconditional** `memmem::rfind` -/
theorem C04.oneshot_all (cfg : Api.Cfg) (needle hay : Slice) (hn : needle.Valid) (hh : hay.Valid)
    (c : Ctr) :
    ∃ c', Memmem.rfind cfg hay needle c = .ok (Spec.rightmost hay.toArray needle.toArray) c' :=
  C04.oneshot_partial twoWayRevOk cfg needle hay hn hh c

/-- **C10 (+ C09), unconditional**: any two configurations, prefilter settings, rankers and
prefilter states give the same value. -/
theorem C10.find_indep_all (cfg cfg' : Api.Cfg) (pf pf' : PrefilterConfig)
    (rank rank' : UInt8 → UInt8) (needle hay : Slice) (hn : needle.Valid) (hh : hay.Valid)
    (st st' : PrefilterState) (c c' : Ctr) :
    ∃ s s' c1 c1', Searcher.new cfg pf rank needle c = .ok s c1 ∧
      Searcher.new cfg' pf' rank' needle c' = .ok s' c1' ∧
      ∀ c2 c2', ∃ v t t' c3 c3', s.find cfg st hay needle c2 = .ok (v, t) c3 ∧
        s'.find cfg' st' hay needle c2' = .ok (v, t') c3' :=
  C10.find_indep_partial twoWayFwdOk cfg cfg' pf pf' rank rank' needle hay hn hh st st' c c'

theorem C10.builder_indep_all (cfg cfg' : Api.Cfg) (b b' : FinderBuilder)
    (rank rank' : UInt8 → UInt8) (needle hay : Slice) (hn : needle.Valid) (hh : hay.Valid)
    (c c' : Ctr) :
    ∃ v c1 c1', (b.buildForwardWithRanker cfg rank needle >>= fun f => f.find cfg hay) c =
        .ok v c1 ∧
      (b'.buildForwardWithRanker cfg' rank' needle >>= fun f => f.find cfg' hay) c' =
        .ok v c1' :=
  C10.builder_indep_partial twoWayFwdOk cfg cfg' b b' rank rank' needle hay hn hh c c'

/-- **C08.find_iter, unconditional** -/
theorem C08.find_iter_all (cfg : Api.Cfg) (b : FinderBuilder) (rank : UInt8 → UInt8)
    (needle hay : Slice) (hn : needle.Valid) (hh : hay.Valid) (k : Nat) (h : Heap) (c : Ctr) :
    ∃ it' h' c', (b.buildForwardWithRanker cfg rank needle >>= fun f =>
        FindIter.run cfg (List.replicate k .next) (f.findIter hay) h) c =
        .ok ((List.range k).map
          (fun i => Out.idx ((Spec.greedyFwd hay.toArray needle.toArray)[i]?)), it', h') c' ∧
      h'.allocs = h.allocs :=
  C08.find_iter_partial twoWayFwdOk cfg b rank needle hay hn hh k h c

/-- **C08.rfind_iter, unconditional** -/
theorem C08.rfind_iter_all (cfg : Api.Cfg) (needle hay : Slice) (hn : needle.Valid)
    (hh : hay.Valid) (k : Nat) (h : Heap) (c : Ctr) :
    ∃ it' h' c', (FinderRev.new needle >>= fun f =>
        FindRevIter.run cfg (List.replicate k .next) (f.rfindIter hay) h) c =
        .ok ((List.range k).map
          (fun i => Out.idx ((Spec.greedyRev hay.toArray needle.toArray)[i]?)), it', h') c' ∧
      h'.allocs = h.allocs :=
  C08.rfind_iter_partial twoWayRevOk cfg needle hay hn hh k h c

/-- **C16 + C17 + C03 for a `FinderBuilder` finder, unconditional**: build, then any operation
sequence: observations `refFinder`, allocations `refAllocs` from a borrowed needle. -/
theorem C16.finder_run_all (cfg : Api.Cfg) (b : FinderBuilder) (rank : UInt8 → UInt8)
    (needle : Slice) (hn : needle.Valid) (ops : List FinderOp) (hops : ∀ op ∈ ops, op.Ok)
    (h : Heap) (c : Ctr) :
    ∃ f' h' c', (b.buildForwardWithRanker cfg rank needle >>= fun f => Finder.run cfg ops f h) c =
        .ok (refFinder needle.toArray ops, f', h') c' ∧
      h'.allocs = h.allocs + refAllocs needle.len .borrowed (ops.map FinderOp.own) := by
  obtain ⟨f, c1, hb, hg, ho, _, _⟩ :=
    FinderBuilder.build_ok cfg b rank needle hn (fun _ => twoWayFwdOk) c
  obtain ⟨f', h', c', hr, _, _, ha⟩ :=
    Finder.run_ok cfg needle hn ops hops f hg (fun _ => twoWayFwdOk) h c1
  exact ⟨f', h', c', by rw [TwoWay.bind_ok hb, hr], by rw [ha, ho]⟩

end Memchr.Memmem

section AxiomCheck
open Memchr.Memmem
#print axioms twoWayOk
#print axioms C03.find_all
#print axioms C03.builder_find_all
#print axioms C03.oneshot_all
#print axioms C04.rfind_all
#print axioms C04.finder_rfind_all
#print axioms C04.oneshot_all
#print axioms C10.find_indep_all
#print axioms C10.builder_indep_all
#print axioms C08.find_iter_all
#print axioms C08.rfind_iter_all
#print axioms C16.finder_run_all
end AxiomCheck
