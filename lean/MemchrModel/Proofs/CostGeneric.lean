/-
C13, byte search, part 1: step counts of the generic vector routines
`One/Two/Three<V>::{find_raw, rfind_raw}` (`src/arch/generic/memchr.rs`) and of the
byte-by-byte helpers, in the refined form "steps <= bytes that had to be looked at".

`upto r end` is the address one past the last byte a forward search had to look at
(`p + 1` for the answer `Some(p)`, `end` for `None`); `downto r start` is the lowest address a
reverse search had to look at.  The theorems are the value theorems of
`Proofs/MemchrGenericFind.lean` / `...Rfind.lean` with one more conjunct.
-/
import MemchrModel.Proofs.CostBase
import MemchrModel.Proofs.MemchrGeneric
import MemchrModel.Proofs.Sensible
import MemchrModel.Proofs.Neon

namespace Memchr

/-- the mask operations of `V` never tick -/
structure TickFree (V : VecImpl) : Prop where
  firstOffset : ∀ m, Free (V.firstOffset m) (fun _ => True)
  lastOffset : ∀ m, Free (V.lastOffset m) (fun _ => True)
  clearLSB : ∀ m, Free (V.clearLSB m) (fun _ => True)
  allExceptLS : ∀ n, Free (V.allExceptLS n) (fun _ => True)

theorem Sensible.tickFree (bytes : Nat) (h : 0 < bytes) : TickFree (Sensible.impl bytes h) where
  firstOffset m := (Free.pure _).mono (fun _ _ => trivial)
  lastOffset m := by
    show Free (Sensible.lastOffset m) _
    unfold Sensible.lastOffset
    exact Free.bind (Free.csub _ _ _) (fun a _ => (Free.csub _ _ _).mono (fun _ _ => trivial))
  clearLSB m := by
    show Free (Sensible.clearLSB m) _
    unfold Sensible.clearLSB
    split
    · intro c a c' e; cases e
    · exact (Free.pure _).mono (fun _ _ => trivial)
  allExceptLS n := by
    show Free (Sensible.allExceptLS n) _
    unfold Sensible.allExceptLS
    refine Free.bind (Free.dbgAssert _ _) (fun _ _ => ?_)
    split
    · exact (Free.pure _).mono (fun _ _ => trivial)
    · intro c a c' e; cases e

theorem Neon.tickFree : TickFree Neon.impl where
  firstOffset m := (Free.pure _).mono (fun _ _ => trivial)
  lastOffset m := by
    show Free (Neon.lastOffset m) _
    unfold Neon.lastOffset
    exact Free.bind (Free.csub _ _ _) (fun a _ => (Free.csub _ _ _).mono (fun _ _ => trivial))
  clearLSB m := by
    show Free (Neon.clearLSB m) _
    unfold Neon.clearLSB
    split
    · intro c a c' e; cases e
    · exact (Free.pure _).mono (fun _ _ => trivial)
  allExceptLS n := by
    show Free (Neon.allExceptLS n) _
    unfold Neon.allExceptLS
    refine Free.bind (Free.dbgAssert _ _) (fun _ _ => ?_)
    split
    · dsimp only
      split
      · intro c a c' e; cases e
      · exact (Free.pure _).mono (fun _ _ => trivial)
    · intro c a c' e; cases e

theorem Sensible.tickFree_sse2 : TickFree Sensible.sse2 := Sensible.tickFree 16 _
theorem Sensible.tickFree_avx2 : TickFree Sensible.avx2 := Sensible.tickFree 32 _
theorem Sensible.tickFree_simd128 : TickFree Sensible.simd128 := Sensible.tickFree 16 _

namespace Generic

/-- one past the last address a forward search looked at -/
def upto (r : Option Nat) (end_ : Nat) : Nat :=
  match r with
  | some p => p + 1
  | none => end_

/-- the lowest address a reverse search looked at -/
def downto (r : Option Nat) (start : Nat) : Nat :=
  match r with
  | some p => p
  | none => start

/-! ### the byte-by-byte helpers: one step per byte looked at -/

theorem fwdByteLoop_costs (m : Mem) (confirm : UInt8 → Bool) (end_ ptr : Nat) :
    Costs (fwdByteLoop m confirm end_ ptr) (fun r k =>
      (∀ p, r = some p → ptr ≤ p ∧ p < end_) ∧ k + ptr = max ptr (upto r end_)) := by
  fun_induction fwdByteLoop m confirm end_ ptr with
  | case1 ptr h ih =>
    cstep; cstep
    split
    · apply Costs.pure
      refine ⟨fun p hp => ?_, ?_⟩
      · cases hp; omega
      · simp only [upto]; omega
    · cstep
      apply ih.mono
      intro r k ⟨h1, h2⟩
      refine ⟨fun p hp => ?_, ?_⟩
      · have := h1 p hp; omega
      · cases r with
        | none => simp only [upto] at h2 ⊢; omega
        | some p => have := h1 p rfl; simp only [upto] at h2 ⊢; omega
  | case2 ptr h =>
    apply Costs.pure
    refine ⟨nofun, ?_⟩
    simp only [upto]; omega

theorem fwdByteByByte_costs (m : Mem) (confirm : UInt8 → Bool) (start end_ : Nat) :
    Costs (fwdByteByByte m confirm start end_) (fun r k =>
      (∀ p, r = some p → start ≤ p ∧ p < end_) ∧ k + start = upto r end_) := by
  unfold fwdByteByByte
  cstep
  rename_i h
  simp only [decide_eq_true_eq] at h
  apply (fwdByteLoop_costs m confirm end_ start).mono
  intro r k ⟨h1, h2⟩
  refine ⟨h1, ?_⟩
  cases r with
  | none => simp only [upto] at h2 ⊢; omega
  | some p => have := h1 p rfl; simp only [upto] at h2 ⊢; omega

theorem revByteLoop_costs (m : Mem) (confirm : UInt8 → Bool) (start ptr : Nat) :
    Costs (revByteLoop m confirm start ptr) (fun r k =>
      (∀ p, r = some p → start ≤ p ∧ p < ptr) ∧ k + min ptr (downto r start) = ptr) := by
  fun_induction revByteLoop m confirm start ptr with
  | case1 ptr h ih =>
    cstep; cstep; cstep
    split
    · apply Costs.pure
      refine ⟨fun p hp => ?_, ?_⟩
      · cases hp; omega
      · simp only [downto]; omega
    · apply ih.mono
      intro r k ⟨h1, h2⟩
      refine ⟨fun p hp => ?_, ?_⟩
      · have := h1 p hp; omega
      · cases r with
        | none => simp only [downto] at h2 ⊢; omega
        | some p => have := h1 p rfl; simp only [downto] at h2 ⊢; omega
  | case2 ptr h =>
    apply Costs.pure
    refine ⟨nofun, ?_⟩
    simp only [downto]; omega

theorem revByteByByte_costs (m : Mem) (confirm : UInt8 → Bool) (start end_ : Nat) :
    Costs (revByteByByte m confirm start end_) (fun r k =>
      (∀ p, r = some p → start ≤ p ∧ p < end_) ∧ k + downto r start = end_) := by
  unfold revByteByByte
  cstep
  rename_i h
  simp only [decide_eq_true_eq] at h
  apply (revByteLoop_costs m confirm start end_).mono
  intro r k ⟨h1, h2⟩
  refine ⟨h1, ?_⟩
  cases r with
  | none => simp only [downto] at h2 ⊢; omega
  | some p => have := h1 p rfl; simp only [downto] at h2 ⊢; omega

/-! ### chunk-level pieces: one step each -/

variable {V : VecImpl}

theorem searchChunk_costs (ns : Needles) (m : Mem) (cur : Nat) (topos : V.Mask → M Nat)
    (ht : ∀ mask, Free (topos mask) (fun _ => True)) :
    Costs (searchChunk V ns m cur topos) (fun _ k => k = 1) := by
  unfold searchChunk
  cstep
  unfold VecImpl.loadU
  cstep
  dsimp only
  split
  · apply Costs.free_bind (ht _)
    intro off _
    cstep
    exact Costs.pure rfl
  · exact Costs.pure rfl

theorem loadChunks_free (m : Mem) (cur u : Nat) :
    Free (loadChunks V m cur u) (fun _ => True) := by
  induction u generalizing cur with
  | zero => exact (Free.pure _).mono (fun _ _ => trivial)
  | succ k ih =>
    unfold loadChunks VecImpl.loadA
    refine Free.bind (Free.loadA _ _ _ _) (fun a _ => ?_)
    refine Free.bind (ih _) (fun rest _ => ?_)
    exact (Free.pure _).mono (fun _ _ => trivial)

theorem hitPtr_free (m : Mem) (fn : String) (cur a : Nat) (topos : V.Mask → M Nat)
    (ht : ∀ mask, Free (topos mask) (fun _ => True)) (mask : V.Mask) :
    Free (hitPtr V m fn cur a topos mask) (fun _ => True) := by
  unfold hitPtr
  refine Free.bind (Free.padd _ _ _ _) (fun _ _ => ?_)
  refine Free.bind (ht _) (fun _ _ => ?_)
  refine Free.bind (Free.padd _ _ _ _) (fun _ _ => ?_)
  exact (Free.pure _).mono (fun _ _ => trivial)

theorem blockHit_free (m : Mem) (fn : String) (cur : Nat) (topos : V.Mask → M Nat)
    (ht : ∀ mask, Free (topos mask) (fun _ => True))
    (l : List (Nat × (Vec × List Vec))) : Free (blockHit V m fn cur topos l) (fun _ => True) := by
  induction l with
  | nil => exact (Free.pure _).mono (fun _ _ => trivial)
  | cons x xs ih =>
    obtain ⟨a, e⟩ := x
    cases xs with
    | nil =>
      unfold blockHit
      refine Free.bind (Free.dbgAssert _ _) (fun _ _ => ?_)
      exact hitPtr_free m fn cur a topos ht _
    | cons y ys =>
      unfold blockHit
      dsimp only
      split
      · exact hitPtr_free m fn cur a topos ht _
      · exact ih

theorem block_costs (ns : Needles) (u : Nat) (rev : Bool) (m : Mem) (cur : Nat)
    (topos : V.Mask → M Nat) (ht : ∀ mask, Free (topos mask) (fun _ => True)) :
    Costs (block V ns u rev m cur topos) (fun _ k => k = 1) := by
  unfold block
  cstep
  apply Costs.free_bind (loadChunks_free m cur u)
  intro chunks _
  dsimp only
  split
  · exact Costs.of_free (blockHit_free m _ cur topos ht _) (fun _ _ => rfl)
  · exact Costs.pure rfl

/-- `searchChunk` adds at most one step -/
theorem searchChunk_steps (ns : Needles) (m : Mem) (cur : Nat) (topos : V.Mask → M Nat)
    (ht : ∀ mask, Free (topos mask) (fun _ => True)) {c c' : Ctr} {r : Option Nat}
    (h : searchChunk V ns m cur topos c = .ok r c') : c'.steps ≤ c.steps + 1 := by
  obtain ⟨k, e, rfl⟩ := searchChunk_costs ns m cur topos ht c r c' h
  exact e

theorem block_steps (ns : Needles) (u : Nat) (rev : Bool) (m : Mem) (cur : Nat)
    (topos : V.Mask → M Nat) (ht : ∀ mask, Free (topos mask) (fun _ => True)) {c c' : Ctr}
    {r : Option Nat} (h : block V ns u rev m cur topos c = .ok r c') :
    c'.steps ≤ c.steps + 1 := by
  obtain ⟨k, e, rfl⟩ := block_costs ns u rev m cur topos ht c r c' h
  exact e

/-- a first hit lies at or after a hit-free prefix -/
theorem FirstRes.ge {m : Mem} {p : UInt8 → Bool} {lo hi cur x : Nat}
    (h : FirstRes m p lo hi (some x)) (hno : NoHit m p lo cur) : cur ≤ x := by
  obtain ⟨a1, a2, a3, a4⟩ := h
  by_cases hx : x < cur
  · have := hno x a1 hx
    rw [a3] at this
    cases this
  · omega

/-- a last hit lies before a hit-free suffix -/
theorem LastRes.lt {m : Mem} {p : UInt8 → Bool} {lo hi cur x : Nat}
    (h : LastRes m p lo hi (some x)) (hno : NoHit m p cur hi) : x < cur := by
  obtain ⟨a1, a2, a3, a4⟩ := h
  by_cases hx : x < cur
  · exact hx
  · have := hno x (by omega) a2
    rw [a3] at this
    cases this

/-! ### `find_raw` -/

theorem fwdLoop1_cost (L : Lawful V) (T : TickFree V) (ns : Needles) (m : Mem)
    (lo end_ cur : Nat) (c : Ctr)
    (hb : m.base ≤ lo) (hlc : lo ≤ cur) (hce : cur ≤ end_) (hle : lo + V.bytes ≤ end_)
    (he : end_ ≤ m.base + m.bytes.size) (hno : NoHit m ns.confirm lo cur) :
    ∃ r c', fwdLoop1 V ns m end_ (end_ - V.bytes) cur c = .ok r c' ∧
      FirstRes m ns.confirm lo end_ r ∧ c'.steps + cur ≤ c.steps + upto r end_ := by
  have hpos := V.bytes_pos
  generalize hlim : end_ - V.bytes = lim
  fun_induction fwdLoop1 V ns m end_ lim cur generalizing c with
  | case1 cur h ih =>
    have hd := Mem.distance_ok m "find_raw: end.distance(cur)" end_ cur (by omega) (by omega) he
    have hda : decide (end_ - cur ≥ V.bytes) = true := by simp; omega
    obtain ⟨r, c1, hsc, hres⟩ := searchChunk_first L ns m cur c (by omega) (by omega)
    have hst := searchChunk_steps ns m cur V.firstOffset T.firstOffset hsc
    simp only [hd, pure_bind', dbgAssert_ok _ hda, bind_ok hsc]
    cases r with
    | some p =>
      have hfr : FirstRes m ns.confirm lo end_ (some p) :=
        hres.extend hno (Nat.le_refl _) hlc (by omega)
      refine ⟨some p, c1, rfl, hfr, ?_⟩
      have := FirstRes.ge hfr hno
      simp only [upto]; omega
    | none =>
      have hpa := Mem.padd_ok m "find_raw: cur.add(V::BYTES)" cur V.bytes (by omega) (by omega)
      simp only [hpa, pure_bind']
      obtain ⟨r, c', hrun, hfr, hc⟩ := ih c1 (by omega) (by omega) (hno.union hres (Nat.le_refl _))
      exact ⟨r, c', hrun, hfr, by omega⟩
  | case2 cur h h2 =>
    have hd := Mem.distance_ok m "find_raw: end.distance(cur) (tail)" end_ cur
      (by omega) (by omega) he
    have hda : decide (end_ - cur < V.bytes) = true := by simp; omega
    have hcs := csub_of_le "find_raw: V::BYTES - end.distance(cur)"
      (a := V.bytes) (b := end_ - cur) (by omega)
    have hps := Mem.psub_ok m "find_raw: cur.sub(V::BYTES - end.distance(cur))" cur
      (V.bytes - (end_ - cur)) (by omega) (by omega)
    have hcur' : cur - (V.bytes - (end_ - cur)) = end_ - V.bytes := by omega
    have hd2 := Mem.distance_ok m "find_raw: end.distance(cur) (tail 2)" end_ (end_ - V.bytes)
      (by omega) (by omega) he
    have hda2 : (end_ - (end_ - V.bytes) == V.bytes) = true := by simp; omega
    obtain ⟨r, c1, hsc, hres⟩ := searchChunk_first L ns m (end_ - V.bytes) c (by omega) (by omega)
    have hst := searchChunk_steps ns m (end_ - V.bytes) V.firstOffset T.firstOffset hsc
    simp only [hd, pure_bind', dbgAssert_ok _ hda, hcs, hps, hcur', hd2, dbgAssert_ok _ hda2]
    have e : end_ - V.bytes + V.bytes = end_ := by omega
    rw [e] at hres
    cases r with
    | some p =>
      have hfr : FirstRes m ns.confirm lo end_ (some p) :=
        hres.extend hno (by omega) (by omega) (Nat.le_refl _)
      refine ⟨some p, c1, hsc, hfr, ?_⟩
      have := FirstRes.ge hfr hno
      simp only [upto]; omega
    | none =>
      refine ⟨none, c1, hsc, hno.union hres (by omega), ?_⟩
      simp only [upto]; omega
  | case3 cur h h2 =>
    have : cur = end_ := by omega
    subst this
    exact ⟨none, c, rfl, hno, by simp only [upto]; omega⟩

theorem fwdLoopN_cost (L : Lawful V) (T : TickFree V) (ns : Needles) (u : Nat) (hu : 0 < u)
    (m : Mem) (lo end_ cur : Nat) (c : Ctr)
    (hb : m.base ≤ lo) (hlc : lo ≤ cur) (hce : cur ≤ end_) (hle : lo + V.bytes ≤ end_)
    (hue : u * V.bytes ≤ end_) (hal : cur % V.bytes = 0)
    (he : end_ ≤ m.base + m.bytes.size) (hno : NoHit m ns.confirm lo cur) :
    ∃ r c', fwdLoopN V ns u hu m end_ (end_ - u * V.bytes) (end_ - V.bytes) cur c = .ok r c' ∧
      FirstRes m ns.confirm lo end_ r ∧ c'.steps + cur ≤ c.steps + upto r end_ := by
  have hpos := V.bytes_pos
  have hupos : 0 < u * V.bytes := Nat.mul_pos hu hpos
  generalize hlim : end_ - u * V.bytes = limN
  fun_induction fwdLoopN V ns u hu m end_ limN (end_ - V.bytes) cur generalizing c with
  | case1 cur h ih =>
    have hda : (cur % V.bytes == 0) = true := by simp [hal]
    obtain ⟨r, c1, hbl, hres⟩ := block_first L ns u m cur c (by omega) (by omega) (fun _ => hal)
    have hst := block_steps ns u false m cur V.firstOffset T.firstOffset hbl
    simp only [dbgAssert_ok _ hda, pure_bind', bind_ok hbl]
    cases r with
    | some p =>
      have hfr : FirstRes m ns.confirm lo end_ (some p) :=
        hres.extend hno (Nat.le_refl _) hlc (by omega)
      refine ⟨some p, c1, rfl, hfr, ?_⟩
      have := FirstRes.ge hfr hno
      simp only [upto]; omega
    | none =>
      have hpa := Mem.padd_ok m "find_raw: cur.add(Self::LOOP_SIZE)" cur (u * V.bytes)
        (by omega) (by omega)
      simp only [hpa, pure_bind']
      obtain ⟨r, c', hrun, hfr, hc⟩ := ih c1 (by omega) (by omega)
        (by rw [Nat.add_mul_mod_self_right]; exact hal) (hno.union hres (Nat.le_refl _))
      exact ⟨r, c', hrun, hfr, by omega⟩
  | case2 cur h =>
    exact fwdLoop1_cost L T ns m lo end_ cur c hb hlc hce hle he hno

/-- **`find_raw`, cost form.**  For every lawful, tick-free `V`, every needle set, unroll factor,
region and window of at least `V::BYTES` bytes: the first needle byte, and at most one step per
byte looked at (`steps <= upto r end - start`). -/
theorem findRaw_cost (L : Lawful V) (T : TickFree V) (ns : Needles) (u : Nat) (hu : 0 < u)
    (m : Mem) (start end_ : Nat) (c : Ctr)
    (hs : m.base ≤ start) (he : end_ ≤ m.base + m.bytes.size) (hlen : start + V.bytes ≤ end_) :
    ∃ r c', findRaw V ns u hu m start end_ c = .ok r c' ∧
      FirstRes m ns.confirm start end_ r ∧ c'.steps + start ≤ c.steps + upto r end_ := by
  have hpos := V.bytes_pos
  have hmod : start % V.bytes < V.bytes := Nat.mod_lt _ hpos
  have hda1 : decide (V.bytes ≤ 32) = true := by simp [L.bytes_le]
  have hd := Mem.distance_ok m "find_raw: end.distance(start)" end_ start hs (by omega) he
  have hda2 : decide (end_ - start ≥ V.bytes) = true := by simp; omega
  obtain ⟨r, c1, hsc, hres⟩ := searchChunk_first L ns m start c hs (by omega)
  have hst := searchChunk_steps ns m start V.firstOffset T.firstOffset hsc
  unfold findRaw
  simp only [dbgAssert_ok _ hda1, pure_bind', hd, dbgAssert_ok _ hda2, bind_ok hsc]
  cases r with
  | some p =>
    have hfr : FirstRes m ns.confirm start end_ (some p) :=
      hres.extend (NoHit.empty m _ (Nat.le_refl start)) (by omega) (Nat.le_refl _) (by omega)
    refine ⟨some p, c1, rfl, hfr, ?_⟩
    have := hfr.1
    simp only [upto]; omega
  | none =>
    have hcs := csub_of_le "find_raw: V::BYTES - (start & V::ALIGN)"
      (a := V.bytes) (b := start &&& V.align) (by rw [and_align L]; omega)
    have hpa := Mem.padd_ok m "find_raw: start.add(V::BYTES - (start & V::ALIGN))" start
      (V.bytes - (start &&& V.align)) hs (by rw [and_align L]; omega)
    have hps := Mem.psub_ok m "find_raw: end.sub(V::BYTES)" end_ V.bytes (by omega) he
    have hda3 : (decide (start + (V.bytes - (start &&& V.align)) > start) &&
        decide (end_ - V.bytes ≥ start)) = true := by
      rw [and_align L]; simp; omega
    have hal : (start + (V.bytes - (start &&& V.align))) % V.bytes = 0 := by
      rw [and_align L]; exact align_up_mod _ _ hpos
    have hno : NoHit m ns.confirm start (start + (V.bytes - (start &&& V.align))) := by
      apply NoHit.mono hres (Nat.le_refl _)
      rw [and_align L]; omega
    have hcur1 : start < start + (V.bytes - (start &&& V.align)) := by
      rw [and_align L]; omega
    have hcur2 : start + (V.bytes - (start &&& V.align)) ≤ end_ := by
      rw [and_align L]; omega
    simp only [hcs, pure_bind', hpa, hps, dbgAssert_ok _ hda3]
    by_cases hbig : end_ - start ≥ u * V.bytes
    · have hps2 := Mem.psub_ok m "find_raw: end.sub(Self::LOOP_SIZE)" end_ (u * V.bytes)
        (by omega) he
      simp only [hbig, if_true, hps2, pure_bind']
      obtain ⟨r, c', hrun, hfr, hc⟩ := fwdLoopN_cost L T ns u hu m start end_ _ c1 hs
        (Nat.le_of_lt hcur1) hcur2 hlen (by omega) hal he hno
      exact ⟨r, c', hrun, hfr, by omega⟩
    · simp only [hbig, if_false]
      obtain ⟨r, c', hrun, hfr, hc⟩ := fwdLoop1_cost L T ns m start end_ _ c1 hs
        (Nat.le_of_lt hcur1) hcur2 hlen he hno
      exact ⟨r, c', hrun, hfr, by omega⟩

/-! ### `rfind_raw` -/

theorem revLoop1_cost (L : Lawful V) (T : TickFree V) (ns : Needles) (m : Mem)
    (start hi cur : Nat) (c : Ctr)
    (hb : m.base ≤ start) (hsc : start ≤ cur) (hch : cur ≤ hi) (hle : start + V.bytes ≤ hi)
    (he : hi ≤ m.base + m.bytes.size) (hno : NoHit m ns.confirm cur hi) :
    ∃ r c', revLoop1 V ns m start cur c = .ok r c' ∧ LastRes m ns.confirm start hi r ∧
      c'.steps + downto r start ≤ c.steps + cur := by
  have hpos := V.bytes_pos
  fun_induction revLoop1 V ns m start cur generalizing c with
  | case1 cur h ih =>
    have hd := Mem.distance_ok m "rfind_raw: cur.distance(start)" cur start hb (by omega)
      (by omega)
    have hda : decide (cur - start ≥ V.bytes) = true := by simp; omega
    have hps := Mem.psub_ok m "rfind_raw: cur.sub(V::BYTES)" cur V.bytes (by omega) (by omega)
    obtain ⟨r, c1, hrun, hres⟩ := searchChunk_last L ns m (cur - V.bytes) c (by omega) (by omega)
    have hst := searchChunk_steps ns m (cur - V.bytes) V.lastOffset T.lastOffset hrun
    have e : cur - V.bytes + V.bytes = cur := by omega
    rw [e] at hres
    simp only [hd, pure_bind', dbgAssert_ok _ hda, hps, bind_ok hrun]
    cases r with
    | some p =>
      have hlr : LastRes m ns.confirm start hi (some p) :=
        hres.extend hno (Nat.le_refl _) hch (by omega)
      refine ⟨some p, c1, rfl, hlr, ?_⟩
      have := LastRes.lt hlr hno
      simp only [downto]; omega
    | none =>
      obtain ⟨r, c', hrun', hlr, hc⟩ := ih c1 (by omega) (by omega)
        (NoHit.union hres hno (Nat.le_refl _))
      exact ⟨r, c', hrun', hlr, by omega⟩
  | case2 cur h h2 =>
    have hd := Mem.distance_ok m "rfind_raw: cur.distance(start) (head)" cur start hb (by omega)
      (by omega)
    have hda : decide (cur - start < V.bytes) = true := by simp; omega
    obtain ⟨r, c1, hrun, hres⟩ := searchChunk_last L ns m start c hb (by omega)
    have hst := searchChunk_steps ns m start V.lastOffset T.lastOffset hrun
    simp only [hd, pure_bind', dbgAssert_ok _ hda]
    cases r with
    | some p =>
      have hlr : LastRes m ns.confirm start hi (some p) :=
        hres.extend hno (by omega) hle (Nat.le_refl _)
      refine ⟨some p, c1, hrun, hlr, ?_⟩
      have := LastRes.lt hlr hno
      simp only [downto]; omega
    | none =>
      refine ⟨none, c1, hrun, NoHit.union hres hno (by omega), ?_⟩
      simp only [downto]; omega
  | case3 cur h h2 =>
    have : cur = start := by omega
    subst this
    exact ⟨none, c, rfl, hno, by simp only [downto]; omega⟩

theorem revLoopN_cost (L : Lawful V) (T : TickFree V) (ns : Needles) (u : Nat) (hu : 0 < u)
    (m : Mem) (start hi cur : Nat) (c : Ctr)
    (hb : m.base ≤ start) (hsc : start ≤ cur) (hch : cur ≤ hi) (hle : start + V.bytes ≤ hi)
    (hal : cur % V.bytes = 0)
    (he : hi ≤ m.base + m.bytes.size) (hno : NoHit m ns.confirm cur hi) :
    ∃ r c', revLoopN V ns u hu m start cur c = .ok r c' ∧ LastRes m ns.confirm start hi r ∧
      c'.steps + downto r start ≤ c.steps + cur := by
  have hpos := V.bytes_pos
  have hupos : 0 < u * V.bytes := Nat.mul_pos hu hpos
  fun_induction revLoopN V ns u hu m start cur generalizing c with
  | case1 cur h ih =>
    have hda : (cur % V.bytes == 0) = true := by simp [hal]
    have hps := Mem.psub_ok m "rfind_raw: cur.sub(Self::LOOP_SIZE)" cur (u * V.bytes)
      (by omega) (by omega)
    have hal' : (cur - u * V.bytes) % V.bytes = 0 := by
      rw [Nat.mul_comm, Nat.sub_mul_mod (by rw [Nat.mul_comm]; omega)]; exact hal
    obtain ⟨r, c1, hbl, hres⟩ := block_last L ns u m (cur - u * V.bytes) c (by omega) (by omega)
      (fun _ => hal')
    have hst := block_steps ns u true m (cur - u * V.bytes) V.lastOffset T.lastOffset hbl
    have e : cur - u * V.bytes + u * V.bytes = cur := by omega
    rw [e] at hres
    simp only [dbgAssert_ok _ hda, pure_bind', hps, bind_ok hbl]
    cases r with
    | some p =>
      have hlr : LastRes m ns.confirm start hi (some p) :=
        hres.extend hno (Nat.le_refl _) hch (by omega)
      refine ⟨some p, c1, rfl, hlr, ?_⟩
      have := LastRes.lt hlr hno
      simp only [downto]; omega
    | none =>
      obtain ⟨r, c', hrun', hlr, hc⟩ := ih c1 (by omega) (by omega) hal'
        (NoHit.union hres hno (Nat.le_refl _))
      exact ⟨r, c', hrun', hlr, by omega⟩
  | case2 cur h =>
    exact revLoop1_cost L T ns m start hi cur c hb hsc hch hle he hno

/-- **`rfind_raw`, cost form**: the last needle byte, and at most one step per byte looked at
plus one (`steps <= end - downto r start + 1`). -/
theorem rfindRaw_cost (L : Lawful V) (T : TickFree V) (ns : Needles) (u : Nat) (hu : 0 < u)
    (m : Mem) (start end_ : Nat) (c : Ctr)
    (hs : m.base ≤ start) (he : end_ ≤ m.base + m.bytes.size) (hlen : start + V.bytes ≤ end_) :
    ∃ r c', rfindRaw V ns u hu m start end_ c = .ok r c' ∧
      LastRes m ns.confirm start end_ r ∧ c'.steps + downto r start ≤ c.steps + end_ + 1 := by
  have hpos := V.bytes_pos
  have hmod : end_ % V.bytes < V.bytes := Nat.mod_lt _ hpos
  have hda1 : decide (V.bytes ≤ 32) = true := by simp [L.bytes_le]
  have hd := Mem.distance_ok m "rfind_raw: end.distance(start)" end_ start hs (by omega) he
  have hda2 : decide (end_ - start ≥ V.bytes) = true := by simp; omega
  have hps := Mem.psub_ok m "rfind_raw: end.sub(V::BYTES)" end_ V.bytes (by omega) he
  obtain ⟨r, c1, hsc, hres⟩ := searchChunk_last L ns m (end_ - V.bytes) c (by omega) (by omega)
  have hst := searchChunk_steps ns m (end_ - V.bytes) V.lastOffset T.lastOffset hsc
  have e : end_ - V.bytes + V.bytes = end_ := by omega
  rw [e] at hres
  unfold rfindRaw
  simp only [dbgAssert_ok _ hda1, pure_bind', hd, dbgAssert_ok _ hda2, hps, bind_ok hsc]
  cases r with
  | some p =>
    have hlr : LastRes m ns.confirm start end_ (some p) :=
      hres.extend (NoHit.empty m _ (Nat.le_refl end_)) (Nat.le_refl _) (Nat.le_refl _) (by omega)
    refine ⟨some p, c1, rfl, hlr, ?_⟩
    have := hlr.2.1
    simp only [downto]; omega
  | none =>
    have hps2 := Mem.psub_ok m "rfind_raw: end.sub(end & V::ALIGN)" end_ (end_ &&& V.align)
      (by rw [and_align L]; omega) he
    have hda3 : (decide (start ≤ end_ - (end_ &&& V.align)) &&
        decide (end_ - (end_ &&& V.align) ≤ end_)) = true := by
      rw [and_align L]; simp; omega
    have hpa := Mem.padd_ok m "rfind_raw: start.add(V::BYTES)" start V.bytes hs (by omega)
    have hal : (end_ - (end_ &&& V.align)) % V.bytes = 0 := by
      rw [and_align L]; exact align_down_mod _ _
    have hno : NoHit m ns.confirm (end_ - (end_ &&& V.align)) end_ := by
      apply NoHit.mono hres _ (Nat.le_refl _)
      rw [and_align L]; omega
    have hcur1 : start ≤ end_ - (end_ &&& V.align) := by rw [and_align L]; omega
    have hcur2 : end_ - (end_ &&& V.align) ≤ end_ := by omega
    simp only [hps2, pure_bind', dbgAssert_ok _ hda3, hpa]
    by_cases hbig : end_ - start ≥ u * V.bytes
    · have hpa2 := Mem.padd_ok m "rfind_raw: start.add(Self::LOOP_SIZE)" start (u * V.bytes)
        hs (by omega)
      simp only [hbig, if_true, hpa2, pure_bind']
      obtain ⟨r, c', hrun, hlr, hc⟩ := revLoopN_cost L T ns u hu m start end_ _ c1 hs hcur1 hcur2
        hlen hal he hno
      exact ⟨r, c', hrun, hlr, by omega⟩
    · simp only [hbig, if_false]
      obtain ⟨r, c', hrun, hlr, hc⟩ := revLoop1_cost L T ns m start end_ _ c1 hs hcur1 hcur2
        hlen he hno
      exact ⟨r, c', hrun, hlr, by omega⟩

end Generic

end Memchr
