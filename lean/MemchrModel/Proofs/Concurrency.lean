/-
C15.any_schedule: whatever the number of threads, the interleaving of their loads / stores /
calls and whichever previously stored value each relaxed load of `FN` returns, every call made
through the `unsafe_ifunc!` cell returns what the implementation chosen by `detect` returns,
hence the specified value.

Invariant: every value ever stored in `FN` (and every value a thread holds from a load) is
`detect` or `find_<x86Detect cfg>`.
-/
import MemchrModel.Model.Concurrency
import MemchrModel.Proofs.MemchrApi

namespace Memchr.Concurrency

open Memchr Memchr.Api

/-- `v` is `detect` or the implementation `detect` chooses -/
def Good (cfg : Cfg) (v : FnVal) : Prop := v = .detect ∨ v = .impl (x86Detect cfg)

structure Inv {Args R : Type} (I : Ifunc Args R) (cfg : Cfg) (P : Args → Res R → Prop)
    (st : State Args R) : Prop where
  stored : ∀ v ∈ st.stored, Good cfg v
  pending : ∀ t v, st.pending t = some v → Good cfg v
  results : ∀ r ∈ st.results, P r.2.1 r.2.2

section
variable {Args R : Type} {I : Ifunc Args R} {cfg : Cfg} {P : Args → Res R → Prop}

theorem inv_init (queue : Nat → List Args) : Inv I cfg P (init queue) where
  stored := by
    intro v hv
    simp only [init, List.mem_singleton] at hv
    exact Or.inl hv
  pending := by intro t v h; simp [init] at h
  results := by intro r h; simp [init] at h

theorem upd_some {α : Type} {f : Nat → Option α} {t t' : Nat} {v : Option α} {w : α}
    (h : upd f t v t' = some w) : (t' = t ∧ v = some w) ∨ f t' = some w := by
  unfold upd at h
  split at h
  · exact Or.inl ⟨by assumption, h⟩
  · exact Or.inr h

theorem inv_step (hP : ∀ a, P a (I.run (x86Detect cfg) a {})) {st : State Args R}
    (h : Inv I cfg P st) (tid idx : Nat) : Inv I cfg P (step I cfg st tid idx) := by
  unfold step
  split
  · exact h
  · rename_i a rest _
    split
    · -- load
      refine ⟨h.stored, ?_, h.results⟩
      intro t v hv
      rcases upd_some hv with ⟨_, hv⟩ | hv
      · simp only [Option.some.injEq] at hv
        subst hv
        by_cases hlt : idx % st.stored.length < st.stored.length
        · rw [List.getD_eq_getElem?_getD, List.getElem?_eq_getElem hlt]
          exact h.stored _ (List.getElem_mem hlt)
        · rw [List.getD_eq_getElem?_getD, List.getElem?_eq_none (by omega)]
          exact Or.inl rfl
      · exact h.pending t v hv
    · -- `detect`
      refine ⟨?_, ?_, ?_⟩
      · intro v hv
        rcases List.mem_append.mp hv with hv | hv
        · exact h.stored v hv
        · simp only [List.mem_singleton] at hv
          exact Or.inr hv
      · intro t v hv
        rcases upd_some hv with ⟨_, hv⟩ | hv
        · cases hv
        · exact h.pending t v hv
      · intro r hr
        rcases List.mem_cons.mp hr with rfl | hr
        · exact hP a
        · exact h.results r hr
    · -- `find_<b>`
      rename_i b hpend
      have hb : b = x86Detect cfg := by
        rcases h.pending tid _ hpend with h1 | h1
        · cases h1
        · exact FnVal.impl.inj h1
      refine ⟨h.stored, ?_, ?_⟩
      · intro t v hv
        rcases upd_some hv with ⟨_, hv⟩ | hv
        · cases hv
        · exact h.pending t v hv
      · intro r hr
        rcases List.mem_cons.mp hr with rfl | hr
        · rw [hb]; exact hP a
        · exact h.results r hr

theorem inv_run (hP : ∀ a, P a (I.run (x86Detect cfg) a {})) (sched : Schedule)
    {st : State Args R} (h : Inv I cfg P st) : Inv I cfg P (runSchedule I cfg st sched) := by
  induction sched generalizing st with
  | nil => exact h
  | cons s rest ih =>
    obtain ⟨tid, idx⟩ := s
    exact ih (inv_step hP h tid idx)

/-- C15.any_schedule (general form): if the implementation chosen by `detect` satisfies `P` on
every argument tuple, then in every state reachable from the initial one by ANY schedule (any
number of threads, any per-thread call sequence, any interleaving, any choice of load results)
every completed call satisfies `P`; in particular no call ever ran an implementation other
than the chosen one. -/
theorem any_schedule (I : Ifunc Args R) (cfg : Cfg) (P : Args → Res R → Prop)
    (hP : ∀ a, P a (I.run (x86Detect cfg) a {})) (queue : Nat → List Args) (sched : Schedule) :
    ∀ r ∈ (runSchedule I cfg (init queue) sched).results, P r.2.1 r.2.2 :=
  (inv_run hP sched (inv_init queue)).results

end

/-- C15 for `memchr_raw`, `memrchr_raw`, `memchr2_raw`, ...: every call on a window inside its
region returns the specified first / last needle position, without fault. -/
theorem C15_find (rev : Bool) (cfg : Cfg) (queue : Nat → List FindArgs) (sched : Schedule) :
    ∀ r ∈ (runSchedule (findIfunc rev) cfg (init queue) sched).results,
      r.2.1.m.base ≤ r.2.1.start → r.2.1.end_ ≤ r.2.1.m.base + r.2.1.m.bytes.size →
      ∃ c', r.2.2 = .ok (specFind r.2.1.ns rev r.2.1.m r.2.1.start r.2.1.end_) c' :=
  any_schedule (findIfunc rev) cfg
    (fun a res => a.m.base ≤ a.start → a.end_ ≤ a.m.base + a.m.bytes.size →
      ∃ c', res = .ok (specFind a.ns rev a.m a.start a.end_) c')
    (fun a hs he => rawFind_correct (x86Detect cfg) a.ns rev a.m a.start a.end_ {} hs he)
    queue sched

/-- C15 for `count_raw` -/
theorem C15_count (cfg : Cfg) (queue : Nat → List CountArgs) (sched : Schedule) :
    ∀ r ∈ (runSchedule countIfunc cfg (init queue) sched).results,
      r.2.1.m.base ≤ r.2.1.start → r.2.1.end_ ≤ r.2.1.m.base + r.2.1.m.bytes.size →
      ∃ c', r.2.2 = .ok (specCount r.2.1.n1 r.2.1.m r.2.1.start r.2.1.end_) c' :=
  any_schedule countIfunc cfg
    (fun a res => a.m.base ≤ a.start → a.end_ ≤ a.m.base + a.m.bytes.size →
      ∃ c', res = .ok (specCount a.n1 a.m a.start a.end_) c')
    (fun a hs he => rawCount_correct (x86Detect cfg) a.n1 a.m a.start a.end_ {} hs he)
    queue sched

/-! ### the model is not vacuous: calls do complete -/

/-- A concrete two-thread race: both threads load `detect` before either stores; thread 1 then
makes a second call whose load sees the initial (stale) `detect` again; thread 0's second call
sees a stored implementation. All four calls complete (by `C15_find` each with the specified
result, here `some 1002`), and `FN` has been stored to three times with the same value. -/
example :
    let m : Mem := ⟨0, 1001, #[0x62, 0x61, 0x62, 0x61]⟩
    let a : FindArgs := ⟨⟨0x61, []⟩, m, 1001, 1005⟩
    let cfg : Cfg := { arch := .x86_64, ctSse2 := true, ctAvx2 := false, ctNeon := false,
                       std := true, cpuAvx2 := true }
    let st := runSchedule (findIfunc false) cfg (init (fun t => if t < 2 then [a, a] else []))
      [(0, 0), (1, 0), (0, 0), (1, 0), (1, 0), (1, 0), (0, 2), (0, 0)]
    st.results.map (fun r => r.1) = [0, 1, 1, 0]
    ∧ st.stored = [.detect, .impl .avx2, .impl .avx2, .impl .avx2] := by
  decide

end Memchr.Concurrency

#print axioms Memchr.Concurrency.any_schedule
#print axioms Memchr.Concurrency.C15_find
#print axioms Memchr.Concurrency.C15_count
