/-
Master theorems for the generic vector `find_raw` / `rfind_raw` / `count_raw`
(`src/arch/generic/memchr.rs`), for every lawful vector implementation, every needle set,
every unroll factor, every memory region (every base address, hence every alignment) and
every window `[start, end)` of at least `V::BYTES` bytes inside it.

`= .ok (spec) c'` means: the run returns normally (no out-of-bounds or misaligned load, no
pointer arithmetic leaving the allocation, no overflow, no debug assertion failure) and the
value is the naive specification.
-/
import MemchrModel.Base.Lemmas
import MemchrModel.Spec.Byte
import MemchrModel.Model.MemchrGeneric
import MemchrModel.Proofs.MemchrGenericFind
import MemchrModel.Proofs.MemchrGenericRfind
import MemchrModel.Proofs.MemchrGenericCount

namespace Memchr.Generic

open Memchr

theorem findRaw_correct (V : VecImpl) (L : Lawful V) (ns : Needles) (u : Nat) (hu : 0 < u)
    (m : Mem) (start end_ : Nat) (c : Ctr)
    (hs : m.base ≤ start) (he : end_ ≤ m.base + m.bytes.size) (hlen : start + V.bytes ≤ end_) :
    ∃ c', findRaw V ns u hu m start end_ c =
      .ok ((Spec.firstIdx ns.confirm (m.window start (end_ - start))).map (start + ·)) c' := by
  obtain ⟨r, c', hrun, hres⟩ := findRaw_spec L ns u hu m start end_ c hs he hlen
  exact ⟨c', by rw [hrun, hres.eq_spec]⟩

theorem rfindRaw_correct (V : VecImpl) (L : Lawful V) (ns : Needles) (u : Nat) (hu : 0 < u)
    (m : Mem) (start end_ : Nat) (c : Ctr)
    (hs : m.base ≤ start) (he : end_ ≤ m.base + m.bytes.size) (hlen : start + V.bytes ≤ end_) :
    ∃ c', rfindRaw V ns u hu m start end_ c =
      .ok ((Spec.lastIdx ns.confirm (m.window start (end_ - start))).map (start + ·)) c' := by
  obtain ⟨r, c', hrun, hres⟩ := rfindRaw_spec L ns u hu m start end_ c hs he hlen
  exact ⟨c', by rw [hrun, hres.eq_spec]⟩

theorem countRaw_correct (V : VecImpl) (L : Lawful V) (n1 : UInt8) (u : Nat) (hu : 0 < u)
    (m : Mem) (start end_ : Nat) (c : Ctr)
    (hs : m.base ≤ start) (he : end_ ≤ m.base + m.bytes.size) (hlen : start + V.bytes ≤ end_) :
    ∃ c', countRaw V n1 u hu m start end_ c =
      .ok (Spec.countP (· == n1) (m.window start (end_ - start))) c' :=
  countRaw_spec L n1 u hu m start end_ c hs he hlen

end Memchr.Generic

