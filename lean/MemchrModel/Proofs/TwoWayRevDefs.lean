/-
Shared definitions for the Two-Way proofs (reverse direction, `FinderRev`): the decidable
certificate `CertRev` about the needle alone under which the reverse search loops
(`rfind_small_imp`, `rfind_large_imp`) are correct - the mirror image of `CertFwd` -, the
`SoundPreRev` facts that soundness of a reported match needs, and the executable checker
`certRevCheck` with the proof that it decides the certificate.

Mirror image.  The reverse searcher compares `x[..crit]` first, right to left, then
`x[crit..]` left to right, and moves its window to the left.  Under `t ↦ |x| - 1 - t` a local
repetition at `crit` (`LR`, a symmetric notion) is a local repetition at `|x| - crit` of the
reversed needle and a period stays a period, so the only clause that changes is
`crit < k`, which becomes `|x| - crit < k` (`Proofs/TwoWayRevBridge.lean`:
`certRev_iff_certFwd_reverse`).
-/
import MemchrModel.Proofs.TwoWayDefs

namespace Memchr.TwoWay

/-- the critical-factorisation property used by the reverse loops: the critical position is
inside the needle, and every local repetition at `crit` is a period of the whole needle and
exceeds the length `|x| - crit` of the right part -/
def CoreRev (x : Array UInt8) (crit : Nat) : Prop :=
  crit ≤ x.size ∧ ∀ k, 1 ≤ k → LR x crit k → Per x k ∧ x.size - crit < k

/-- The certificate for the reverse search loops: a statement about the needle alone.
`Small period`: `period` is the smallest period.  `Large shift`: `shift` is at most the
smallest period (and positive when the needle is not empty; `FinderRev::new` yields
`Large { shift: 0 }` for the empty needle, which never enters a loop). -/
def CertRev (x : Array UInt8) (crit : Nat) (shift : Shift) : Prop :=
  CoreRev x crit ∧
  match shift with
  | .large s => (0 < x.size → 1 ≤ s) ∧ ∀ k, Per x k → s ≤ k
  | .small p => Per x p ∧ ∀ k, Per x k → p ≤ k

/-- What soundness of a reported match (`rfind_sound`) needs about the `TwoWay` value instead
of a certificate: `1 <= critical_pos <= len`, the shift value is in `[1, len]`; in the `Small`
case additionally that `period` really is a period of the needle with
`len - critical_pos <= period`.  `FinderRev::new` establishes all of it
(`Proofs/TwoWayRevNew.lean`). -/
def SoundPreRev (x : Array UInt8) (crit : Nat) : Shift → Prop
  | .large s => 1 ≤ crit ∧ crit ≤ x.size ∧ 1 ≤ s ∧ s ≤ x.size
  | .small p => 1 ≤ crit ∧ crit ≤ x.size ∧ Per x p ∧ x.size ≤ crit + p ∧ p ≤ x.size

/-! ### consequences -/

theorem CoreRev.crit_le {x : Array UInt8} {crit : Nat} (h : CoreRev x crit) : crit ≤ x.size :=
  h.1

/-- the critical position of a non-empty needle is positive -/
theorem CoreRev.crit_pos {x : Array UInt8} {crit : Nat} (h : CoreRev x crit) (hn : 0 < x.size) :
    1 ≤ crit := by
  have := (h.2 x.size hn (lr_of_size_le x crit (Nat.le_refl _))).2
  omega

/-- the right part is shorter than every period -/
theorem CoreRev.lt_per {x : Array UInt8} {crit p : Nat} (h : CoreRev x crit) (hp : Per x p) :
    x.size - crit < p :=
  (h.2 p hp.1 (hp.lr crit)).2

/-! ### the executable checker -/

def coreRevCheck (x : Array UInt8) (crit : Nat) : Bool :=
  decide (crit ≤ x.size) &&
  (List.range (x.size + 2)).all (fun k =>
    !decide (1 ≤ k) || !lrCheck x crit k || (perCheck x k && decide (x.size - crit < k)))

def certRevCheck (x : Array UInt8) (crit : Nat) (shift : Shift) : Bool :=
  coreRevCheck x crit &&
  match shift with
  | .large s => (!decide (0 < x.size) || decide (1 ≤ s)) && minPerCheck x s
  | .small p => perCheck x p && minPerCheck x p

theorem coreRevCheck_iff (x : Array UInt8) (crit : Nat) :
    coreRevCheck x crit = true ↔ CoreRev x crit := by
  simp only [coreRevCheck, CoreRev, List.all_eq_true, List.mem_range, Bool.or_eq_true,
    Bool.not_eq_true', decide_eq_false_iff_not, Bool.and_eq_true, decide_eq_true_eq, perCheck_iff]
  constructor
  · rintro ⟨hc, h⟩
    refine ⟨hc, fun k h1 hlr => ?_⟩
    by_cases hk : k < x.size + 2
    · rcases h k hk with (h' | h') | h'
      · exact absurd h1 h'
      · have := (lrCheck_iff x crit k).mpr hlr
        rw [this] at h'; cases h'
      · exact h'
    · exact ⟨per_of_size_le x h1 (by omega), by omega⟩
  · rintro ⟨hc, h⟩
    refine ⟨hc, fun k _ => ?_⟩
    by_cases h1 : 1 ≤ k
    · by_cases hlr : lrCheck x crit k = true
      · exact Or.inr (h k h1 ((lrCheck_iff x crit k).mp hlr))
      · exact Or.inl (Or.inr (by simpa using hlr))
    · exact Or.inl (Or.inl h1)

/-- the checker decides the certificate -/
theorem certRevCheck_iff (x : Array UInt8) (crit : Nat) (shift : Shift) :
    certRevCheck x crit shift = true ↔ CertRev x crit shift := by
  cases shift with
  | small p =>
    simp only [certRevCheck, CertRev, Bool.and_eq_true, coreRevCheck_iff, perCheck_iff,
      minPerCheck_iff]
  | large s =>
    simp only [certRevCheck, CertRev, Bool.and_eq_true, coreRevCheck_iff, minPerCheck_iff,
      Bool.or_eq_true, Bool.not_eq_true', decide_eq_false_iff_not, decide_eq_true_eq]
    constructor
    · rintro ⟨h1, h2, h3⟩
      exact ⟨h1, fun hn => by rcases h2 with h | h; exact absurd hn h; exact h, h3⟩
    · rintro ⟨h1, h2, h3⟩
      refine ⟨h1, ?_, h3⟩
      by_cases hn : 0 < x.size
      · exact Or.inr (h2 hn)
      · exact Or.inl hn

instance (x : Array UInt8) (crit : Nat) (shift : Shift) : Decidable (CertRev x crit shift) :=
  decidable_of_iff _ (certRevCheck_iff x crit shift)

end Memchr.TwoWay
