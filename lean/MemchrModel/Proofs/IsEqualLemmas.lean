/-
Bridging lemmas between `Slice.toList`, `Slice.getD`, `Slice.toArray`, `Mem.window` and
`Mem.byteAt`, and splitting lemmas for `Mem.window`.
-/
import MemchrModel.Base.Lemmas
import MemchrModel.Base.Slice
import MemchrModel.Spec.Substr

namespace Memchr

namespace Mem

theorem window_zero (m : Mem) (a : Nat) : m.window a 0 = [] := rfl

theorem window_one (m : Mem) (a : Nat) : m.window a 1 = [m.byteAt a] := by
  simp [window, List.range_succ]

/-- a window is the concatenation of two adjacent windows -/
theorem window_add (m : Mem) (a k n : Nat) :
    m.window a (k + n) = m.window a k ++ m.window (a + k) n := by
  apply List.ext_getElem
  · simp
  · intro i h1 h2
    rw [window_getElem]
    by_cases hi : i < k
    · rw [List.getElem_append_left (by simpa using hi), window_getElem]
    · rw [List.getElem_append_right (by simpa using hi), window_getElem]
      simp only [window_length]
      congr 1; omega

theorem window_succ (m : Mem) (a n : Nat) :
    m.window a (n + 1) = m.byteAt a :: m.window (a + 1) n := by
  rw [Nat.add_comm n 1, window_add, window_one]; rfl

theorem window_succ_last (m : Mem) (a n : Nat) :
    m.window a (n + 1) = m.window a n ++ [m.byteAt (a + n)] := by
  rw [window_add, window_one]

/-- two windows of the same length are equal iff they are bytewise equal -/
theorem window_eq_iff (mx my : Mem) (x y n : Nat) :
    mx.window x n = my.window y n ↔ ∀ i, i < n → mx.byteAt (x + i) = my.byteAt (y + i) := by
  constructor
  · intro h i hi
    have h1 := window_getElem? mx x n i hi
    have h2 := window_getElem? my y n i hi
    rw [h] at h1
    rw [h1] at h2
    exact Option.some.inj h2
  · intro h
    apply List.ext_getElem
    · simp
    · intro i h1 h2
      rw [window_getElem, window_getElem]
      exact h i (by simpa using h1)

/-- equality of two windows splits at any point -/
theorem window_add_eq_iff (mx my : Mem) (x y k n : Nat) :
    mx.window x (k + n) = my.window y (k + n) ↔
      mx.window x k = my.window y k ∧ mx.window (x + k) n = my.window (y + k) n := by
  rw [window_add, window_add]
  constructor
  · intro h
    exact List.append_inj h (by simp)
  · rintro ⟨h1, h2⟩
    rw [h1, h2]

end Mem

namespace Slice

@[simp] theorem toList_length (s : Slice) : s.toList.length = s.len := by
  simp [toList]

theorem toList_getElem (s : Slice) (i : Nat) (h : i < s.toList.length) :
    s.toList[i] = s.getD i := by
  simp [toList]

theorem toList_getElem? (s : Slice) (i : Nat) (h : i < s.len) :
    s.toList[i]? = some (s.getD i) := by
  simp [toList, h]

/-- byte `i` of a slice is the byte of its region at address `s.ptr + i` -/
theorem getD_eq_byteAt (s : Slice) (i : Nat) : s.getD i = s.mem.byteAt (s.ptr + i) := by
  simp only [getD, Mem.byteAt, ptr]
  congr 2
  omega

/-- the bytes of a slice are the window of its region at `s.ptr` (no validity needed: both
sides read 0 outside the region) -/
theorem toList_eq_window (s : Slice) : s.toList = s.mem.window s.ptr s.len := by
  simp only [toList, Mem.window]
  apply List.map_congr_left
  intro i _
  exact getD_eq_byteAt s i

@[simp] theorem toArray_size {s : Slice} (h : s.Valid) : s.toArray.size = s.len := by
  unfold Valid at h
  simp only [toArray, Array.size_extract]
  omega

theorem toArray_getElem? {s : Slice} (h : s.Valid) (i : Nat) (hi : i < s.len) :
    s.toArray[i]? = some (s.getD i) := by
  unfold Valid at h
  have h1 : s.off + i < s.mem.bytes.size := by omega
  simp only [toArray, getD, Array.getElem?_extract]
  have : i < min (s.off + s.len) s.mem.bytes.size - s.off := by omega
  simp [this, h1]

theorem toArray_getElem?_of_le {s : Slice} (h : s.Valid) (i : Nat) (hi : s.len ≤ i) :
    s.toArray[i]? = none := by
  rw [Array.getElem?_eq_none_iff, toArray_size h]
  exact hi

/-- `Slice.toArray` and `Slice.toList` hold the same bytes -/
theorem toArray_toList {s : Slice} (h : s.Valid) : s.toArray.toList = s.toList := by
  apply List.ext_getElem?
  intro i
  by_cases hi : i < s.len
  · rw [toList_getElem? s i hi, Array.getElem?_toList, toArray_getElem? h i hi]
  · have h1 : s.toArray.toList.length ≤ i := by
      have := toArray_size h
      simp only [Array.length_toList]; omega
    have h2 : s.toList.length ≤ i := by simp; omega
    rw [List.getElem?_eq_none h1, List.getElem?_eq_none h2]

/-- byte `i` of a valid slice, as a byte of its region -/
theorem toArray_getElem?_byteAt {s : Slice} (h : s.Valid) (i : Nat) (hi : i < s.len) :
    s.toArray[i]? = some (s.mem.byteAt (s.ptr + i)) := by
  rw [toArray_getElem? h i hi, getD_eq_byteAt]

/-- pointer range of a valid slice lies in its region -/
theorem Valid.ptr_le {s : Slice} (_h : s.Valid) : s.mem.base ≤ s.ptr := by
  simp [ptr]

theorem Valid.endPtr_le {s : Slice} (h : s.Valid) :
    s.ptr + s.len ≤ s.mem.base + s.mem.bytes.size := by
  unfold Valid at h
  simp only [ptr]; omega

/-- an occurrence of the needle slice in the haystack slice, in terms of memory windows -/
theorem occAt_iff_window {h n : Slice} (hh : h.Valid) (hn : n.Valid) (i : Nat) :
    Spec.OccAt h.toArray n.toArray i ↔
      i + n.len ≤ h.len ∧ h.mem.window (h.ptr + i) n.len = n.mem.window n.ptr n.len := by
  unfold Spec.OccAt
  rw [toArray_size hh, toArray_size hn, Mem.window_eq_iff]
  constructor
  · rintro ⟨h1, h2⟩
    refine ⟨h1, fun k hk => ?_⟩
    have := h2 k hk
    rw [toArray_getElem?_byteAt hh (i + k) (by omega), toArray_getElem?_byteAt hn k hk] at this
    rw [Nat.add_assoc]
    exact Option.some.inj this
  · rintro ⟨h1, h2⟩
    refine ⟨h1, fun k hk => ?_⟩
    rw [toArray_getElem?_byteAt hh (i + k) (by omega), toArray_getElem?_byteAt hn k hk,
      ← Nat.add_assoc, h2 k hk]

end Slice

end Memchr
