/-
Two-Way, forward direction: the constructor `Finder::new`.  It never faults, costs at most
`6 * len + 2` steps, yields a byte set without false negatives, a critical position inside the
needle and a positive shift; in the `Small` case the stored `period` is a period of the needle
with `critical_pos <= period` (from the `Suffix::forward` loop invariants (I0), (I1) of DESIGN
section 8 and `Shift::forward`'s own `is_suffix` test).  This is exactly `SoundPre`, the
hypothesis of `find_sound`.  (That the values also satisfy the certificate `CertFwd` is T1-T3,
`Proofs/TwoWayCert*.lean`.)
-/
import MemchrModel.Proofs.TwoWayLemmas
import MemchrModel.Proofs.IsEqual

namespace Memchr.TwoWay

open Memchr

/-! ### `ApproximateByteSet::new` -/

theorem u64_and_or_right (a b m : UInt64) : (a ||| b) &&& m = (a &&& m) ||| (b &&& m) := by
  apply UInt64.toBitVec_inj.1
  simp only [UInt64.toBitVec_and, UInt64.toBitVec_or]
  ext i hi
  simp [Bool.and_or_distrib_right]

theorem shl_ne_zero : ∀ k, k < 64 → (1 : UInt64) <<< k.toUInt64 ≠ 0 := by decide

theorem bsMask_ne_zero (b : UInt8) : bsMask b ≠ 0 :=
  shl_ne_zero _ (Nat.mod_lt _ (by decide))

theorem has_or_left {bits m : UInt64} {b : UInt8} (h : bits &&& bsMask b ≠ 0) :
    (bits ||| m) &&& bsMask b ≠ 0 := by
  rw [u64_and_or_right]
  intro h0
  exact h (UInt64.or_eq_zero_iff.mp h0).1

theorem has_or_self (bits : UInt64) (b : UInt8) : (bits ||| bsMask b) &&& bsMask b ≠ 0 := by
  rw [u64_and_or_right, UInt64.and_self]
  intro h0
  exact bsMask_ne_zero b (UInt64.or_eq_zero_iff.mp h0).2

theorem newLoop_spec (needle : Slice) (i : Nat) (bits : UInt64) (c : Ctr) (hi : i ≤ needle.len)
    (hinv : ∀ t, t < i → bits &&& bsMask (needle.getD t) ≠ 0) :
    ∃ bits', ApproximateByteSet.newLoop needle i bits c =
        .ok bits' { c with steps := c.steps + (needle.len - i) } ∧
      ∀ t, t < needle.len → bits' &&& bsMask (needle.getD t) ≠ 0 := by
  fun_induction ApproximateByteSet.newLoop needle i bits generalizing c with
  | case1 i bits h b ih =>
    have hm : b.toNat % Generated.byteSetModulus < 64 := Nat.mod_lt _ (by decide)
    rw [bind_ok (tick_run 1 c)]
    simp only [shl1_ok _ hm, pure_bind']
    obtain ⟨bits', e, h1⟩ := ih _ { c with steps := c.steps + 1 } (by omega) (by
      intro t ht
      by_cases hti : t = i
      · subst hti; exact has_or_self bits (needle.getD t)
      · exact has_or_left (hinv t (by omega)))
    refine ⟨bits', ?_, h1⟩
    refine Eq.trans (show _ = _ from e) ?_
    congr 2
    simp only; omega
  | case2 i bits h =>
    refine ⟨bits, ?_, fun t ht => hinv t (by omega)⟩
    have : needle.len - i = 0 := by omega
    simp [this]

theorem byteset_new_spec (needle : Slice) (c : Ctr) :
    ∃ bs, ApproximateByteSet.new needle c = .ok bs { c with steps := c.steps + needle.len } ∧
      ∀ t, t < needle.len → bs.has (needle.getD t) = true := by
  obtain ⟨bits, e, h⟩ := newLoop_spec needle 0 0 c (Nat.zero_le _) (fun t ht => by omega)
  refine ⟨⟨bits⟩, ?_, ?_⟩
  · simp only [ApproximateByteSet.new, bind_ok e]; rfl
  · intro t ht
    simpa [ApproximateByteSet.has] using h t ht

/-! ### `Suffix::forward` -/

theorem cmp_push_eq {kind : SuffixKind} {a b : UInt8} (h : kind.cmp a b = .push) : a = b := by
  have key : ¬ b < a → ¬ b > a → a = b := by
    intro h1 h2
    rw [gt_iff_lt] at h2
    rw [UInt8.lt_iff_toNat_lt] at h1 h2
    exact UInt8.toNat_inj.mp (by omega)
  cases kind <;> simp only [SuffixKind.cmp] at h <;> split at h <;> try cases h
  all_goals (split at h <;> try cases h)
  all_goals (rename_i h1 h2; first | exact key h1 h2 | exact key h2 h1)

/-- invariants (I0), (I1) of DESIGN section 8 for the state `(suffix, candidate_start, offset)`
of the `Suffix::forward` loop -/
structure SufInv (n : Slice) (s : Suffix) (j k : Nat) : Prop where
  lt : s.pos < j
  kp : k < s.period
  dvd : s.period ∣ j - s.pos
  le : j + k ≤ n.len
  per : ∀ t, s.pos ≤ t → t + s.period < j + k → n.getD t = n.getD (t + s.period)

/-- iterating the period inside the examined window -/
theorem SufInv.per_mul {n : Slice} {s : Suffix} {j k : Nat} (h : SufInv n s j k) (t m : Nat)
    (ht : s.pos ≤ t) (hm : t + m * s.period < j + k) : n.getD t = n.getD (t + m * s.period) := by
  induction m with
  | zero => simp
  | succ m ih =>
    have h1 : t + m * s.period < j + k := by
      rw [Nat.succ_mul] at hm; omega
    rw [ih h1, h.per (t + m * s.period) (by omega) (by rw [Nat.succ_mul] at hm; omega)]
    congr 1
    rw [Nat.succ_mul]; omega

/-- `Push`: the byte at `L = j + k` equals the byte one period earlier -/
theorem SufInv.push_eq {n : Slice} {s : Suffix} {j k : Nat} (h : SufInv n s j k)
    (heq : n.getD (s.pos + k) = n.getD (j + k)) :
    n.getD (j + k - s.period) = n.getD (j + k) := by
  obtain ⟨m, hm⟩ := h.dvd
  have hlt := h.lt
  have hkp := h.kp
  have hm1 : 1 ≤ m := by
    rcases Nat.eq_zero_or_pos m with h0 | h0
    · subst h0; simp at hm; omega
    · exact h0
  have hmm : s.period * m = (m - 1) * s.period + s.period := by
    rw [Nat.mul_comm, ← Nat.succ_mul]; congr 1; omega
  have e : s.pos + k + (m - 1) * s.period = j + k - s.period := by omega
  have := h.per_mul (s.pos + k) (m - 1) (by omega) (by omega)
  rw [← heq, this, e]

theorem SufInv.extend {n : Slice} {s : Suffix} {j k : Nat} (h : SufInv n s j k)
    (heq : n.getD (s.pos + k) = n.getD (j + k)) :
    ∀ t, s.pos ≤ t → t + s.period < j + k + 1 → n.getD t = n.getD (t + s.period) := by
  intro t ht1 ht2
  by_cases hlt : t + s.period < j + k
  · exact h.per t ht1 hlt
  · have e : t = j + k - s.period := by omega
    have := h.push_eq heq
    rw [e, this]
    congr 1
    have := h.kp
    have := h.lt
    obtain ⟨m, hm⟩ := h.dvd
    omega

theorem forwardLoop_spec (n : Slice) (kind : SuffixKind) (s : Suffix) (j k : Nat) (c : Ctr)
    (h : SufInv n s j k) :
    ∃ s' c', Suffix.forwardLoop n kind s j k c = .ok s' c' ∧
      c'.steps + (s.pos + j + k) ≤ c.steps + 2 * n.len ∧ c'.loads = c.loads ∧
      1 ≤ s'.period ∧ s'.pos + s'.period ≤ n.len ∧
      ∀ t, s'.pos ≤ t → t + s'.period < n.len → n.getD t = n.getD (t + s'.period) := by
  fun_induction Suffix.forwardLoop n kind s j k generalizing c with
  | case1 s j k hlt ih1 ih2 ih3 ih4 =>
    have hpl := h.lt
    have hkp := h.kp
    have hpk : s.pos + k < n.len := by omega
    rw [bind_ok (tick_run 1 c)]
    simp only [get_ok n _ hpk, get_ok n _ hlt, pure_bind']
    cases hc : kind.cmp (n.getD (s.pos + k)) (n.getD (j + k)) with
    | accept =>
      simp only []
      obtain ⟨s', c', e, h1, h2, h3⟩ := ih1 { c with steps := c.steps + 1 }
        ⟨by simp, by simp, by simp, by omega, fun t ht1 ht2 => by simp at ht1 ht2; omega⟩
      refine ⟨s', c', e, ?_, h2, h3⟩
      obtain ⟨m, hm⟩ := h.dvd
      have : s.period ≤ j - s.pos := by
        rcases Nat.eq_zero_or_pos m with h0 | h0
        · subst h0; simp at hm; omega
        · rw [hm]; exact Nat.le_mul_of_pos_right _ h0
      simp only at h1; omega
    | skip =>
      simp only [csub_of_le _ (show s.pos ≤ j + (k + 1) by omega), pure_bind']
      obtain ⟨s', c', e, h1, h2, h3⟩ := ih2 (j + (k + 1) - s.pos) { c with steps := c.steps + 1 }
        ⟨by simp only; omega, by simp only; omega, by simp, by omega,
          fun t ht1 ht2 => by simp only at ht1 ht2; omega⟩
      refine ⟨s', c', e, ?_, h2, h3⟩
      simp only at h1; omega
    | push =>
      have heq := cmp_push_eq hc
      simp only []
      by_cases hp : k + 1 = s.period
      · simp only [hp, dite_true]
        obtain ⟨s', c', e, h1, h2, h3⟩ := ih3 hp { c with steps := c.steps + 1 }
          ⟨by omega, by omega, by
            obtain ⟨m, hm⟩ := h.dvd
            exact ⟨m + 1, by rw [Nat.mul_succ]; omega⟩, by omega,
            fun t ht1 ht2 => h.extend heq t ht1 (by omega)⟩
        refine ⟨s', c', e, ?_, h2, h3⟩
        simp only at h1; omega
      · simp only [hp, dite_false]
        obtain ⟨s', c', e, h1, h2, h3⟩ := ih4 { c with steps := c.steps + 1 }
          ⟨hpl, by omega, h.dvd, by omega, fun t ht1 ht2 => h.extend heq t ht1 (by omega)⟩
        refine ⟨s', c', e, ?_, h2, h3⟩
        simp only at h1; omega
  | case2 s j k hlt =>
    have hpl := h.lt
    have hle := h.le
    have hkp := h.kp
    have hL : j + k = n.len := by omega
    obtain ⟨m, hm⟩ := h.dvd
    have : s.period ≤ j - s.pos := by
      rcases Nat.eq_zero_or_pos m with h0 | h0
      · subst h0; simp at hm; omega
      · rw [hm]; exact Nat.le_mul_of_pos_right _ h0
    refine ⟨s, c, rfl, by omega, rfl, by omega, by omega, ?_⟩
    intro t ht1 ht2
    exact h.per t ht1 (by omega)

/-- `Suffix::forward(needle, kind)` on a non-empty needle: never faults, at most
`2 * len` steps, and the result is a position inside the needle together with a period of the
suffix starting there. -/
theorem suffix_forward_spec (n : Slice) (kind : SuffixKind) (c : Ctr) (hn : 0 < n.len) :
    ∃ s' c', Suffix.forward n kind c = .ok s' c' ∧
      c'.steps ≤ c.steps + 2 * n.len ∧ c'.loads = c.loads ∧
      1 ≤ s'.period ∧ s'.pos + s'.period ≤ n.len ∧
      ∀ t, s'.pos ≤ t → t + s'.period < n.len → n.getD t = n.getD (t + s'.period) := by
  obtain ⟨s', c', e, h1, h2, h3⟩ := forwardLoop_spec n kind { pos := 0, period := 1 } 1 0 c
    ⟨by simp, by simp, by simp, by omega, fun t ht1 ht2 => by simp at ht2⟩
  exact ⟨s', c', e, by omega, h2, h3⟩

theorem suffix_forward_empty (n : Slice) (kind : SuffixKind) (c : Ctr) (hn : n.len = 0) :
    Suffix.forward n kind c = .ok { pos := 0, period := 1 } c := by
  unfold Suffix.forward Suffix.forwardLoop
  simp [hn]

/-! ### `Shift::forward` -/

theorem shift_forward_spec (n : Slice) (p crit : Nat) (c : Ctr) (hnv : n.Valid)
    (hcrit : crit < n.len) (hp1 : 1 ≤ p) (hcp : crit + p ≤ n.len)
    (hper : ∀ t, crit ≤ t → t + p < n.len → n.getD t = n.getD (t + p)) :
    ∃ sh c', Shift.forward n p crit c = .ok sh c' ∧ c'.steps ≤ c.steps + n.len / 4 + 2 ∧
      SoundPre n.toArray crit sh ∧ (∀ s, sh = .large s → n.len ≤ 2 * s) := by
  have hsz : n.toArray.size = n.len := Slice.toArray_size hnv
  unfold Shift.forward
  simp only [csub_of_le _ (Nat.le_of_lt hcrit), pure_bind']
  by_cases h2 : crit * 2 ≥ n.len
  · simp only [h2, if_true]
    exact ⟨_, c, rfl, by omega, by simp only [SoundPre]; omega,
      fun s hs => by cases hs; omega⟩
  · simp only [h2, if_false, Slice.take, Slice.drop, Nat.le_of_lt hcrit, if_true, pure_bind',
      show p ≤ n.len - crit by omega]
    have hvu : (⟨n.mem, n.off, crit⟩ : Slice).Valid := by
      unfold Slice.Valid at *; simp only; omega
    have hvv : (⟨n.mem, n.off + crit, p⟩ : Slice).Valid := by
      unfold Slice.Valid at *; simp only; omega
    obtain ⟨c', e, hs⟩ := IsEqual.isSuffix_correct ⟨n.mem, n.off + crit, p⟩ ⟨n.mem, n.off, crit⟩ c
      hvv hvu
    rw [bind_ok e]
    have hs' : c'.steps ≤ c.steps + n.len / 4 + 2 := by
      simp only at hs
      have : crit / 4 ≤ n.len / 4 := Nat.div_le_div_right (Nat.le_of_lt hcrit)
      omega
    by_cases hsuf : (⟨n.mem, n.off, crit⟩ : Slice).toList <:+
        (⟨n.mem, n.off + crit, p⟩ : Slice).toList
    · simp only [hsuf, decide_true, Bool.not_true, Bool.false_eq_true, if_false]
      refine ⟨_, c', rfl, hs', ?_, nofun⟩
      have hlen : crit ≤ p := by
        have := hsuf.length_le
        simpa using this
      refine ⟨by omega, ?_, hlen, by omega⟩
      apply per_of_getD hnv hp1
      intro t ht
      by_cases htc : t < crit
      · rw [List.suffix_iff_eq_drop] at hsuf
        have h1 : (⟨n.mem, n.off, crit⟩ : Slice).toList[t]? = some (n.getD t) := by
          rw [Slice.toList_getElem? _ t htc]; rfl
        rw [hsuf, List.getElem?_drop] at h1
        simp only [Slice.toList_length] at h1
        rw [Slice.toList_getElem? _ _ (show p - crit + t < p by omega)] at h1
        have h2 := Option.some.inj h1
        rw [← h2]
        simp only [Slice.getD]
        rw [show n.off + crit + (p - crit + t) = n.off + (t + p) by omega]
      · exact hper t (by omega) ht
    · simp only [hsuf, decide_false, Bool.not_false, if_true]
      exact ⟨_, c', rfl, hs', by simp only [SoundPre]; omega, fun s hs => by cases hs; omega⟩

/-! ### `Finder::new` -/

theorem mem_toArray_getD {n : Slice} (hnv : n.Valid) {b : UInt8} (hb : b ∈ n.toArray) :
    ∃ t, t < n.len ∧ n.getD t = b := by
  obtain ⟨i, hi⟩ := Array.mem_iff_getElem?.mp hb
  by_cases hlt : i < n.len
  · rw [Slice.toArray_getElem? hnv i hlt] at hi
    exact ⟨i, hlt, Option.some.inj hi⟩
  · rw [Slice.toArray_getElem?_of_le hnv i (by omega)] at hi
    cases hi

/-- **Constructor.**  `Finder::new(needle)` never faults, takes at most `6 * len + 2` steps,
its byte set has no false negatives, `critical_pos <= len`, for a non-empty needle the
result satisfies `SoundPre` (`critical_pos < len`, shift value `>= 1`; `Small`: `period` is a
period of the needle and `critical_pos <= period <= len`), and a `Large` shift is at least
half the length. -/
theorem finder_new_spec (needle : Slice) (c : Ctr) (hnv : needle.Valid) :
    ∃ tw c', Finder.new needle c = .ok tw c' ∧
      c'.steps ≤ c.steps + 6 * needle.len + 2 ∧
      (∀ b, b ∈ needle.toArray → tw.byteset.has b = true) ∧
      tw.criticalPos ≤ needle.len ∧
      (0 < needle.len → SoundPre needle.toArray tw.criticalPos tw.shift) ∧
      (∀ s, tw.shift = .large s → needle.len ≤ 2 * s) := by
  obtain ⟨bs, ebs, hbs⟩ := byteset_new_spec needle c
  have hbs' : ∀ b, b ∈ needle.toArray → bs.has b = true := by
    intro b hb
    obtain ⟨t, ht, e⟩ := mem_toArray_getD hnv hb
    rw [← e]; exact hbs t ht
  unfold Finder.new
  rw [bind_ok ebs]
  by_cases h0 : needle.len = 0
  · rw [bind_ok (suffix_forward_empty needle _ _ h0), bind_ok (suffix_forward_empty needle _ _ h0)]
    simp only [Nat.lt_irrefl, if_false, Shift.forward, h0, csub_of_le _ (Nat.le_refl 0),
      pure_bind', Nat.zero_mul, ge_iff_le, Nat.le_refl, if_true]
    exact ⟨_, _, rfl, by simp, hbs', by simp, fun h => by first | omega | exact h.elim,
      fun s hs => by omega⟩
  · have hn : 0 < needle.len := Nat.pos_of_ne_zero h0
    obtain ⟨s1, c1, e1, hs1, _, hp1, hl1, hper1⟩ :=
      suffix_forward_spec needle .minimal { c with steps := c.steps + needle.len } hn
    obtain ⟨s2, c2, e2, hs2, _, hp2, hl2, hper2⟩ := suffix_forward_spec needle .maximal c1 hn
    rw [bind_ok e1, bind_ok e2]
    by_cases hgt : s1.pos > s2.pos
    · simp only [hgt, if_true]
      obtain ⟨sh, c3, e3, hs3, hsp, hlg⟩ := shift_forward_spec needle s1.period s1.pos c2 hnv
        (by omega) hp1 hl1 hper1
      rw [bind_ok e3]
      refine ⟨_, c3, rfl, ?_, hbs', by simp only; omega, fun _ => hsp, hlg⟩
      simp only at hs1
      have := Nat.div_le_self needle.len 4
      omega
    · simp only [hgt, if_false]
      obtain ⟨sh, c3, e3, hs3, hsp, hlg⟩ := shift_forward_spec needle s2.period s2.pos c2 hnv
        (by omega) hp2 hl2 hper2
      rw [bind_ok e3]
      refine ⟨_, c3, rfl, ?_, hbs', by simp only; omega, fun _ => hsp, hlg⟩
      simp only at hs1
      have := Nat.div_le_self needle.len 4
      omega

/-- non-vacuity of the only hypothesis (`#eval` of the model on this needle, "abaab":
`crit=2 shift=small:3 steps=15`, as the Rust) -/
example : (Slice.ofMem ⟨1, 4096, "abaab".toUTF8.data⟩).Valid := by
  unfold Slice.Valid; decide

end Memchr.TwoWay
