/-
Bridging lemmas for the property files `Props/C03, C04, C08, C10, C16, C17` and the Two-Way /
meta-searcher extensions of `Props/C05, C09, C11, C12, C13, C14`.

* The greedy specifications `Spec.greedyFwd` / `Spec.greedyRev` re-read in plain terms: the fuel
  argument is irrelevant once it is large enough, the unfolding equations "leftmost occurrence at
  or after `pos`, then resume right after its end" (and the mirror image), what the inner
  `leftmostFrom` / `rightmostBelow` calls mean pointwise, the empty-needle lists
  `[0, 1, .., len]` / `[len, .., 0]`, length bounds.
* The iterators in an arbitrary reachable state (for `size_hint`), the top-level
  `memmem::rfind_iter`.

Nothing here is about the Rust code itself; every statement is a consequence of a master
theorem of `Proofs/Memmem.lean` / `Proofs/SearcherTwoWay.lean` or of the definitions in
`Spec/Substr.lean`.
-/
import MemchrModel.Proofs.SearcherTwoWay

namespace Memchr.Bridge3

open Memchr Memchr.Memmem
open Memchr.TwoWay (bind_ok)

/-! ### `Spec.greedyFwd` in plain terms -/

/-- the list has at most `fuel` entries -/
theorem greedyFwdFrom_length_le_fuel (hay x : Array UInt8) : ∀ (fuel pos : Nat),
    (Spec.greedyFwdFrom hay x pos fuel).length ≤ fuel := by
  intro fuel
  induction fuel with
  | zero => intro pos; simp [Spec.greedyFwdFrom]
  | succ f ih =>
    intro pos
    cases hl : Spec.leftmostFrom hay x pos (hay.size + 1 - pos) with
    | none => rw [greedyFwdFrom_none hl]; simp
    | some i =>
      rw [greedyFwdFrom_some hl, List.length_cons]
      have := ih (i + max 1 x.size)
      omega

/-- any two sufficient amounts of fuel give the same list -/
theorem greedyFwdFrom_fuel (hay x : Array UInt8) : ∀ (fuel fuel' pos : Nat),
    hay.size + 1 - pos ≤ fuel → hay.size + 1 - pos ≤ fuel' →
    Spec.greedyFwdFrom hay x pos fuel = Spec.greedyFwdFrom hay x pos fuel' := by
  intro fuel
  induction fuel with
  | zero =>
    intro fuel' pos h1 _
    rw [greedyFwdFrom_past (by omega), greedyFwdFrom_past (by omega)]
  | succ f ih =>
    intro fuel' pos h1 h2
    cases hl : Spec.leftmostFrom hay x pos (hay.size + 1 - pos) with
    | none => rw [greedyFwdFrom_none hl, greedyFwdFrom_none hl]
    | some i =>
      obtain ⟨hi, hi2, _, _⟩ := (Spec.leftmostFrom_eq_some_iff _ _ _ _ _).mp hl
      obtain ⟨f', rfl⟩ : ∃ f', fuel' = f' + 1 := ⟨fuel' - 1, by omega⟩
      rw [greedyFwdFrom_some hl, greedyFwdFrom_some hl,
        ih f' (i + max 1 x.size) (by omega) (by omega)]

/-- what the inner search of the greedy sequence means: the least occurrence at or after `pos` -/
theorem leftmostFrom_pos_some_iff (hay x : Array UInt8) (pos r : Nat) :
    Spec.leftmostFrom hay x pos (hay.size + 1 - pos) = some r ↔
      pos ≤ r ∧ Spec.OccAt hay x r ∧ ∀ j, pos ≤ j → j < r → ¬ Spec.OccAt hay x j := by
  rw [Spec.leftmostFrom_eq_some_iff]
  constructor
  · rintro ⟨h1, _, h3, h4⟩; exact ⟨h1, h3, h4⟩
  · rintro ⟨h1, h3, h4⟩
    exact ⟨h1, by have := h3.le_size; omega, h3, h4⟩

/-- ... and `None` iff no occurrence starts at or after `pos` -/
theorem leftmostFrom_pos_none_iff (hay x : Array UInt8) (pos : Nat) :
    Spec.leftmostFrom hay x pos (hay.size + 1 - pos) = none ↔
      ∀ j, pos ≤ j → ¬ Spec.OccAt hay x j := by
  rw [Spec.leftmostFrom_eq_none_iff]
  constructor
  · intro h j hj ho
    exact h j hj (by have := ho.le_size; omega) ho
  · intro h j hj _
    exact h j hj

/-- the unfolding equation of the forward greedy sequence with the standard fuel `len + 1` on
both sides -/
theorem greedyFwdFrom_unfold (hay x : Array UInt8) (pos : Nat) :
    Spec.greedyFwdFrom hay x pos (hay.size + 1) =
      match Spec.leftmostFrom hay x pos (hay.size + 1 - pos) with
      | none => []
      | some i => i :: Spec.greedyFwdFrom hay x (i + max 1 x.size) (hay.size + 1) := by
  cases hl : Spec.leftmostFrom hay x pos (hay.size + 1 - pos) with
  | none => rw [greedyFwdFrom_none hl]
  | some i =>
    rw [greedyFwdFrom_some hl]
    simp only [List.cons.injEq, true_and]
    exact greedyFwdFrom_fuel hay x _ _ _ (by omega) (by omega)

/-- the empty needle, forward: every offset `0 ..= len` exactly once, ascending -/
theorem greedyFwd_empty (hay x : Array UInt8) (hx : x.size = 0) :
    Spec.greedyFwd hay x = List.range (hay.size + 1) := by
  unfold Spec.greedyFwd
  rw [greedyFwdFrom_empty hx (hay.size + 1) 0 (Nat.zero_le _) (by omega)]
  simp

/-- at most `len + 1` matches -/
theorem greedyFwd_length_le (hay x : Array UInt8) :
    (Spec.greedyFwd hay x).length ≤ hay.size + 1 :=
  greedyFwdFrom_length_le_fuel hay x _ 0

/-- a non-empty needle has at most `len / needle.len` non-overlapping matches -/
theorem greedyFwd_length_le_div (hay x : Array UInt8) (hx : 0 < x.size) :
    (Spec.greedyFwd hay x).length ≤ hay.size / x.size :=
  greedyFwdFrom_length_le hx (hay.size + 1) 0

/-! ### `Spec.greedyRev` in plain terms -/

theorem greedyRevFrom_length_le_fuel (hay x : Array UInt8) : ∀ (fuel bound : Nat),
    (Spec.greedyRevFrom hay x bound fuel).length ≤ fuel := by
  intro fuel
  induction fuel with
  | zero => intro bound; simp [Spec.greedyRevFrom]
  | succ f ih =>
    intro bound
    simp only [Spec.greedyRevFrom]
    split
    · simp
    · split
      · simp
      · rename_i i _
        split
        · split
          · simp
          · rw [List.length_cons]; have := ih (i - 1); omega
        · rw [List.length_cons]; have := ih i; omega

/-- any two sufficient amounts of fuel give the same list -/
theorem greedyRevFrom_fuel (hay x : Array UInt8) : ∀ (fuel fuel' bound : Nat),
    bound + 1 ≤ fuel → bound + 1 ≤ fuel' →
    Spec.greedyRevFrom hay x bound fuel = Spec.greedyRevFrom hay x bound fuel' := by
  intro fuel
  induction fuel with
  | zero => intro fuel' bound h1 _; omega
  | succ f ih =>
    intro fuel' bound h1 h2
    obtain ⟨f', rfl⟩ : ∃ f', fuel' = f' + 1 := ⟨fuel' - 1, by omega⟩
    simp only [Spec.greedyRevFrom]
    split
    · rfl
    · rename_i hb
      cases hr : Spec.rightmostBelow hay x (bound - x.size + 1) with
      | none => rfl
      | some i =>
        obtain ⟨hi, _, _⟩ := (Spec.rightmostBelow_eq_some_iff _ _ _ _).mp hr
        simp only []
        split
        · split
          · rfl
          · rw [ih f' (i - 1) (by omega) (by omega)]
        · rw [ih f' i (by omega) (by omega)]

/-- what the inner search of the reverse greedy sequence means: the greatest occurrence that
ends at or before `bound` -/
theorem rightmostBelow_bound_some_iff (hay x : Array UInt8) (bound r : Nat)
    (hb : x.size ≤ bound) :
    Spec.rightmostBelow hay x (bound - x.size + 1) = some r ↔
      r + x.size ≤ bound ∧ Spec.OccAt hay x r ∧
        ∀ j, r < j → j + x.size ≤ bound → ¬ Spec.OccAt hay x j := by
  rw [Spec.rightmostBelow_eq_some_iff]
  constructor
  · rintro ⟨h1, h2, h3⟩; exact ⟨by omega, h2, fun j hj hjb => h3 j hj (by omega)⟩
  · rintro ⟨h1, h2, h3⟩; exact ⟨by omega, h2, fun j hj hjb => h3 j hj (by omega)⟩

/-- ... and `None` iff no occurrence ends at or before `bound` -/
theorem rightmostBelow_bound_none_iff (hay x : Array UInt8) (bound : Nat)
    (hb : x.size ≤ bound) :
    Spec.rightmostBelow hay x (bound - x.size + 1) = none ↔
      ∀ j, j + x.size ≤ bound → ¬ Spec.OccAt hay x j := by
  rw [Spec.rightmostBelow_eq_none_iff]
  constructor
  · intro h j hj; exact h j (by omega)
  · intro h j hj; exact h j (by omega)

/-- one step of the definition -/
theorem greedyRevFrom_succ (hay x : Array UInt8) (bound fuel : Nat) :
    Spec.greedyRevFrom hay x bound (fuel + 1) =
      if bound < x.size then [] else
      match Spec.rightmostBelow hay x (bound - x.size + 1) with
      | none => []
      | some i =>
        if x.size = 0 then
          (if i = 0 then [i] else i :: Spec.greedyRevFrom hay x (i - 1) fuel)
        else i :: Spec.greedyRevFrom hay x i fuel := rfl

/-- the unfolding equation of the reverse greedy sequence with the standard fuel `len + 1` on
both sides, for every bound inside the haystack -/
theorem greedyRevFrom_unfold (hay x : Array UInt8) (bound : Nat) (hb : bound ≤ hay.size) :
    Spec.greedyRevFrom hay x bound (hay.size + 1) =
      if bound < x.size then [] else
      match Spec.rightmostBelow hay x (bound - x.size + 1) with
      | none => []
      | some i =>
        if x.size = 0 then
          (if i = 0 then [i] else i :: Spec.greedyRevFrom hay x (i - 1) (hay.size + 1))
        else i :: Spec.greedyRevFrom hay x i (hay.size + 1) := by
  rw [greedyRevFrom_succ]
  split
  · rfl
  · cases hr : Spec.rightmostBelow hay x (bound - x.size + 1) with
    | none => rfl
    | some i =>
      obtain ⟨hi, _, _⟩ := (Spec.rightmostBelow_eq_some_iff _ _ _ _).mp hr
      simp only []
      split
      · split
        · rfl
        · rw [greedyRevFrom_fuel hay x hay.size (hay.size + 1) (i - 1) (by omega) (by omega)]
      · rw [greedyRevFrom_fuel hay x hay.size (hay.size + 1) i (by omega) (by omega)]

/-- the empty needle from a bound inside the haystack: `[bound, bound - 1, .., 0]` -/
theorem greedyRevFrom_empty (hay x : Array UInt8) (hx : x.size = 0) : ∀ (fuel bound : Nat),
    bound ≤ hay.size → bound + 1 ≤ fuel →
    Spec.greedyRevFrom hay x bound fuel = (List.range (bound + 1)).reverse := by
  intro fuel
  induction fuel with
  | zero => intro bound _ h; omega
  | succ f ih =>
    intro bound hb hf
    have hr : Spec.rightmostBelow hay x (bound - x.size + 1) = some bound := by
      rw [Spec.rightmostBelow_eq_some_iff]
      exact ⟨by omega, (occAt_empty hx bound).mpr hb, fun j h1 h2 => by omega⟩
    simp only [Spec.greedyRevFrom, hx, Nat.not_lt_zero, if_false, if_true]
    rw [hx] at hr
    rw [hr]
    simp only []
    by_cases h0 : bound = 0
    · subst h0; simp
    · simp only [h0, if_false]
      rw [ih (bound - 1) (by omega) (by omega)]
      have : bound - 1 + 1 = bound := by omega
      rw [this, List.range_succ, List.reverse_append]
      simp

/-- the empty needle, reverse: every offset `len ..= 0` exactly once, descending -/
theorem greedyRev_empty (hay x : Array UInt8) (hx : x.size = 0) :
    Spec.greedyRev hay x = (List.range (hay.size + 1)).reverse :=
  greedyRevFrom_empty hay x hx (hay.size + 1) hay.size (Nat.le_refl _) (Nat.le_refl _)

/-- at most `len + 1` matches -/
theorem greedyRev_length_le (hay x : Array UInt8) :
    (Spec.greedyRev hay x).length ≤ hay.size + 1 :=
  greedyRevFrom_length_le_fuel hay x _ _

/-! ### the iterators in an arbitrary reachable state -/

/-- Every state a `FinderBuilder`-built `find_iter` can reach by any sequence of `next`,
`size_hint`, `clone`, `into_owned` is a good state (`FindIter.GoodFor`: same haystack, finder for
the same needle bytes; any position, any prefilter state, any ownership). -/
theorem findIter_reachable_good (cfg : Api.Cfg) (b : FinderBuilder) (rank : UInt8 → UInt8)
    (needle hay : Slice) (hn : needle.Valid) (hh : hay.Valid) (ops : List IterOp) (h : Heap)
    (c : Ctr) :
    ∃ outs it' h' c', (b.buildForwardWithRanker cfg rank needle >>= fun f =>
        FindIter.run cfg ops (f.findIter hay) h) c = .ok (outs, it', h') c' ∧
      it'.GoodFor needle hay := by
  obtain ⟨f, c1, hb, hg, _, _, _⟩ :=
    FinderBuilder.build_ok cfg b rank needle hn (fun _ => twoWayFwdOk) c
  obtain ⟨g, _, _, _⟩ := Finder.findIter_good hg hay
  obtain ⟨it', h', c', hr, hg', _⟩ := FindIter.run_ok cfg needle hay hn hh ops (f.findIter hay) g
    (fun _ => twoWayFwdOk) h c1
  exact ⟨_, it', h', c', by rw [bind_ok hb, hr], hg'⟩

/-- In every good state of a forward iterator: the later `next()` calls return the entries of
one list `L` (then `None` forever), and `size_hint()` brackets the length of `L`.  `L` is the
greedy sequence from the iterator's position. -/
theorem findIter_size_hint_future (cfg : Api.Cfg) {n0 hay : Slice} (hn0 : n0.Valid)
    (hh : hay.Valid) {it : FindIter} (hg : it.GoodFor n0 hay) :
    ∃ L : List Nat,
      L = Spec.greedyFwdFrom hay.toArray n0.toArray it.pos (hay.toArray.size + 1) ∧
      (∀ (k : Nat) (h : Heap) (c : Ctr), ∃ it' h' c',
        FindIter.run cfg (List.replicate k .next) it h c =
          .ok ((List.range k).map (fun i => Out.idx (L[i]?)), it', h') c' ∧
        it'.GoodFor n0 hay) ∧
      it.sizeHint.1 ≤ L.length ∧ ∀ hi, it.sizeHint.2 = some hi → L.length ≤ hi := by
  refine ⟨_, rfl, fun k h c => ?_, C08.size_hint hn0 hh hg⟩
  obtain ⟨it', h', c', hr, hg', _⟩ := FindIter.run_ok cfg n0 hay hn0 hh
    (List.replicate k .next) it hg (fun _ => twoWayFwdOk) h c
  rw [refFwd_nexts _ _ k it.pos (hay.toArray.size + 1) (by omega)] at hr
  exact ⟨it', h', c', hr, hg'⟩

/-- the top-level `memmem::rfind_iter(haystack, needle)` (it moves the finder into the
iterator): `k` calls of `next()` return the first `k` entries of `Spec.greedyRev` and then `None`
forever; no fault, no allocation -/
theorem top_rfind_iter (cfg : Api.Cfg) (needle hay : Slice) (hn : needle.Valid)
    (hh : hay.Valid) (k : Nat) (h : Heap) (c : Ctr) :
    ∃ it' h' c', (Memmem.rfindIter hay needle >>= fun it =>
        FindRevIter.run cfg (List.replicate k .next) it h) c =
        .ok ((List.range k).map
          (fun i => Out.idx ((Spec.greedyRev hay.toArray needle.toArray)[i]?)), it', h') c' ∧
      h'.allocs = h.allocs := by
  obtain ⟨f, c1, hb, hg, ho, _⟩ := FinderRev.new_ok needle hn (fun _ => twoWayRevOk) c
  obtain ⟨it', h', c', hr, _, ha⟩ := FindRevIter.run_ok cfg needle hay hn hh
    (List.replicate k .next) (FindRevIter.new hay f)
    ⟨rfl, hg, fun p hp => by cases hp; exact Nat.le_refl _⟩ (fun _ => twoWayRevOk) h c1
  have hp : (FindRevIter.new hay f).pos = some hay.len := rfl
  rw [hp, ← Slice.toArray_size hh, refRev_greedy] at hr
  refine ⟨it', h', c', by simp only [Memmem.rfindIter, bind, M.bind, hb, pure, M.pure]; exact hr, ?_⟩
  rw [ha]
  show _ + refAllocs needle.len f.needle.own _ = _
  rw [ho, refAllocs_borrowed _ _ (by simp [IterOp.own])]
  rfl

/-- `FinderBuilder` finder, `find_iter(haystack)`, then ANY operation sequence (`next`,
`size_hint`, `clone`, `into_owned`): the observations are those of the reference machine `refFwd`
from position 0, and the allocator is called exactly `refAllocs` times from a borrowed needle -/
theorem findIter_run_all (cfg : Api.Cfg) (b : FinderBuilder) (rank : UInt8 → UInt8)
    (needle hay : Slice) (hn : needle.Valid) (hh : hay.Valid) (ops : List IterOp) (h : Heap)
    (c : Ctr) :
    ∃ it' h' c', (b.buildForwardWithRanker cfg rank needle >>= fun f =>
        FindIter.run cfg ops (f.findIter hay) h) c =
        .ok (refFwd hay.toArray needle.toArray ops 0, it', h') c' ∧
      h'.allocs = h.allocs + refAllocs needle.len .borrowed (ops.map IterOp.own) := by
  obtain ⟨f, c1, hb, hg, _, _, _⟩ :=
    FinderBuilder.build_ok cfg b rank needle hn (fun _ => twoWayFwdOk) c
  obtain ⟨g, p, o, _⟩ := Finder.findIter_good hg hay
  obtain ⟨it', h', c', hr, _, ha⟩ := FindIter.run_ok cfg needle hay hn hh ops (f.findIter hay) g
    (fun _ => twoWayFwdOk) h c1
  rw [p] at hr
  rw [o] at ha
  exact ⟨it', h', c', by rw [bind_ok hb, hr], ha⟩

/-- the same for `FinderRev::new(needle).rfind_iter(haystack)` and the reference machine
`refRev` from the state `Some(haystack.len())` -/
theorem rfindIter_run_all (cfg : Api.Cfg) (needle hay : Slice) (hn : needle.Valid)
    (hh : hay.Valid) (ops : List IterOp) (h : Heap) (c : Ctr) :
    ∃ it' h' c', (FinderRev.new needle >>= fun f =>
        FindRevIter.run cfg ops (f.rfindIter hay) h) c =
        .ok (refRev hay.toArray needle.toArray ops (some hay.len), it', h') c' ∧
      h'.allocs = h.allocs + refAllocs needle.len .borrowed (ops.map IterOp.own) := by
  obtain ⟨f, c1, hb, hg, _, _⟩ := FinderRev.new_ok needle hn (fun _ => twoWayRevOk) c
  obtain ⟨g, p, o, _⟩ := FinderRev.rfindIter_good hg hay
  obtain ⟨it', h', c', hr, _, ha⟩ := FindRevIter.run_ok cfg needle hay hn hh ops (f.rfindIter hay) g
    (fun _ => twoWayRevOk) h c1
  rw [p] at hr
  rw [o] at ha
  exact ⟨it', h', c', by rw [bind_ok hb, hr], ha⟩

/-- an iterator operation sequence without `into_owned` costs no allocation from a borrowed
needle -/
theorem refAllocs_iter_borrowed (len : Nat) (ops : List IterOp) (hno : IterOp.intoOwned ∉ ops) :
    refAllocs len .borrowed (ops.map IterOp.own) = 0 := by
  apply refAllocs_borrowed
  intro hm
  obtain ⟨op, hop, he⟩ := List.mem_map.mp hm
  cases op <;> simp [IterOp.own] at he
  exact hno hop

/-- a finder operation sequence without `into_owned` costs no allocation from a borrowed
needle -/
theorem refAllocs_finder_borrowed (len : Nat) (ops : List FinderOp)
    (hno : FinderOp.intoOwned ∉ ops) :
    refAllocs len .borrowed (ops.map FinderOp.own) = 0 := by
  apply refAllocs_borrowed
  intro hm
  obtain ⟨op, hop, he⟩ := List.mem_map.mp hm
  cases op <;> simp [FinderOp.own] at he
  exact hno hop

/-! ### C16 / C17 for `FinderRev`: the op machine against its reference -/

/-- reference outputs of a `FinderRev` op sequence (`find` is `rfind`): a function of the needle
bytes and the ops -/
def refFinderRev (x : Array UInt8) : List FinderOp → List Out
  | [] => []
  | .find hay :: ops => .idx (Spec.rightmost hay.toArray x) :: refFinderRev x ops
  | .needle :: ops => .bytes x :: refFinderRev x ops
  | .asRef :: ops => refFinderRev x ops
  | .intoOwned :: ops => refFinderRev x ops
  | .clone :: ops => refFinderRev x ops

/-- Any operation sequence on a reverse finder for the bytes of `n0` returns normally; its
observations are `refFinderRev` and the allocator is called exactly `refAllocs` times (mirror of
`Finder.run_ok`). -/
theorem finderRev_run_ok (cfg : Api.Cfg) (n0 : Slice) (hn0 : n0.Valid) (ops : List FinderOp)
    (hops : ∀ op ∈ ops, op.Ok) (f : FinderRev) (hg : f.GoodFor n0) (h : Heap) (c : Ctr) :
    ∃ f' h' c', FinderRev.run cfg ops f h c = .ok (refFinderRev n0.toArray ops, f', h') c' ∧
      f'.GoodFor n0 ∧ f'.searcher = f.searcher ∧
      h'.allocs = h.allocs + refAllocs n0.len f.needle.own (ops.map FinderOp.own) := by
  induction ops generalizing f h c with
  | nil => exact ⟨f, h, c, rfl, hg, rfl, rfl⟩
  | cons op ops ih =>
    have hops' : ∀ op ∈ ops, op.Ok := fun o ho => hops o (List.mem_cons_of_mem _ ho)
    have hop : op.Ok := hops op List.mem_cons_self
    have fin : ∀ (o : Option Out) (f1 : FinderRev) (h1 : Heap) (c1 : Ctr),
        FinderRev.step cfg op f h c = .ok (o, f1, h1) c1 → f1.GoodFor n0 →
        f1.searcher = f.searcher →
        f1.needle.own = (FinderOp.own op).next f.needle.own →
        h1.allocs = h.allocs + (FinderOp.own op).cost n0.len f.needle.own →
        o.toList ++ refFinderRev n0.toArray ops = refFinderRev n0.toArray (op :: ops) →
        ∃ f' h' c', FinderRev.run cfg (op :: ops) f h c =
            .ok (refFinderRev n0.toArray (op :: ops), f', h') c' ∧
          f'.GoodFor n0 ∧ f'.searcher = f.searcher ∧
          h'.allocs = h.allocs + refAllocs n0.len f.needle.own ((op :: ops).map FinderOp.own) := by
      intro o f1 h1 c1 hstep hg1 hs1 ho1 ha1 hout
      obtain ⟨f', h', c', hr, a, b, d⟩ := ih hops' f1 hg1 h1 c1
      refine ⟨f', h', c', ?_, a, b.trans hs1, ?_⟩
      · simp only [FinderRev.run, bind_ok hstep, bind_ok hr]
        rw [← hout]; rfl
      · rw [d, ha1, ho1]; simp only [List.map_cons, refAllocs]; omega
    cases op with
    | find hay =>
      obtain ⟨c1, h1⟩ := FinderRev.rfind_ok cfg hg hn0 (fun _ => twoWayRevOk) hay hop c
      exact fin _ f h c1 (by simp only [FinderRev.step, bind_ok h1]; rfl) hg rfl rfl
        (by simp [FinderOp.own, OwnOp.cost_other]) rfl
    | asRef =>
      obtain ⟨a, b, d⟩ := FinderRev.asRef_good hg
      exact fin none _ h c rfl a b d (by simp [FinderOp.own, OwnOp.cost_asRef]) rfl
    | intoOwned =>
      obtain ⟨a, b, d, e⟩ := FinderRev.intoOwned_good hg h
      exact fin none _ _ c rfl a b d e rfl
    | clone =>
      obtain ⟨a, b, d, e⟩ := FinderRev.clone_good hg h
      exact fin none _ _ c rfl a b d e rfl
    | needle =>
      exact fin (some (.bytes f.needleSlice.toArray)) f h c rfl hg rfl rfl
        (by simp [FinderOp.own, OwnOp.cost_other]) (by rw [FinderRev.needle_ok hg hn0]; rfl)

/-- `FinderRev::new(needle)`, then any operation sequence: observations `refFinderRev`,
allocations `refAllocs` from a borrowed needle -/
theorem finderRev_run_all (cfg : Api.Cfg) (needle : Slice) (hn : needle.Valid)
    (ops : List FinderOp) (hops : ∀ op ∈ ops, op.Ok) (h : Heap) (c : Ctr) :
    ∃ f' h' c', (FinderRev.new needle >>= fun f => FinderRev.run cfg ops f h) c =
        .ok (refFinderRev needle.toArray ops, f', h') c' ∧
      h'.allocs = h.allocs + refAllocs needle.len .borrowed (ops.map FinderOp.own) := by
  obtain ⟨f, c1, hb, hg, ho, _⟩ := FinderRev.new_ok needle hn (fun _ => twoWayRevOk) c
  obtain ⟨f', h', c', hr, _, _, ha⟩ := finderRev_run_ok cfg needle hn ops hops f hg h c1
  exact ⟨f', h', c', by rw [bind_ok hb, hr], by rw [ha, ho]⟩

theorem refFinderRev_filter (x : Array UInt8) (ops : List FinderOp) :
    refFinderRev x ops = refFinderRev x (ops.filter (fun o => !o.isConv)) := by
  induction ops with
  | nil => rfl
  | cons op ops ih => cases op <;> simp [refFinderRev, FinderOp.isConv, ih]

/-- C16 for reverse finders: two reverse finders for the same needle bytes under operation
sequences that agree up to `as_ref` / `clone` / `into_owned` observe the same values -/
theorem finderRev_pure (cfg cfg' : Api.Cfg) (n0 : Slice) (hn0 : n0.Valid)
    (ops ops' : List FinderOp) (hops : ∀ op ∈ ops, op.Ok) (hops' : ∀ op ∈ ops', op.Ok)
    (hsame : ops.filter (fun o => !o.isConv) = ops'.filter (fun o => !o.isConv))
    (f f' : FinderRev) (hg : f.GoodFor n0) (hg' : f'.GoodFor n0) (h h' : Heap) (c c' : Ctr) :
    ∃ outs f1 h1 c1 f1' h1' c1', FinderRev.run cfg ops f h c = .ok (outs, f1, h1) c1 ∧
      FinderRev.run cfg' ops' f' h' c' = .ok (outs, f1', h1') c1' := by
  obtain ⟨f1, h1, c1, hr, _⟩ := finderRev_run_ok cfg n0 hn0 ops hops f hg h c
  obtain ⟨f1', h1', c1', hr', _⟩ := finderRev_run_ok cfg' n0 hn0 ops' hops' f' hg' h' c'
  refine ⟨_, f1, h1, c1, f1', h1', c1', hr, ?_⟩
  rw [hr', refFinderRev_filter _ ops, refFinderRev_filter _ ops', hsame]

/-! ### C11: the prefilter strategies `Searcher::new` builds -/

/-- `Searcher::new` returns normally, and whenever the searcher it returns carries a prefilter
strategy (kind `TwoWayWithPrefilter`), that strategy is as `Prefilter::fallback` /
`Prefilter::<isa>` build it for this needle (`Prefilter.GoodFor`) and is sound
(`PreSound`) under the same configuration -/
theorem searcher_new_prefilter_sound (cfg : Api.Cfg) (pf : PrefilterConfig)
    (rank : UInt8 → UInt8) (n : Slice) (hn : n.Valid) (c : Ctr) :
    ∃ s c', Searcher.new cfg pf rank n c = .ok s c' ∧
      ∀ tw p, s.kind = .twoWayWithPrefilter tw p →
        p.GoodFor n ∧ PreSound n.toArray (p.find cfg) := by
  obtain ⟨s, c', h, hg, _⟩ := Searcher.new_ok cfg pf rank n hn (fun _ => twoWayFwdOk) c
  refine ⟨s, c', h, fun tw p hk => ?_⟩
  have h2 := hg.2
  rw [hk] at h2
  exact ⟨h2.2.2, Prefilter.find_sound cfg hn h2.2.2⟩

/-! ### C14: Two-Way with an arbitrary (possibly unsound) prefilter -/

/-- `twoway::Finder::new(needle)` then `find_with_prefilter` with ANY optional prefilter whose
strategy merely returns normally on the tails of the haystack (it may be unsound: skip matches,
report garbage): the run never faults and a reported `Some(q)` is an occurrence of the needle -/
theorem twoway_find_any_prefilter (needle haystack : Slice) (pre : Option Pre) (c : Ctr)
    (strat : Slice → M (Option Nat)) (hnv : needle.Valid) (hhv : haystack.Valid)
    (hpre : TwoWay.PreOK strat pre)
    (htotal : pre ≠ none → ∀ a, a ≤ haystack.len → ∀ c, ∃ r c',
      strat (TwoWay.tailFrom haystack a) c = .ok r c') :
    ∃ r pre' c', (TwoWay.Finder.new needle >>= fun tw =>
        TwoWay.Finder.findWithPrefilter tw pre haystack needle) c = .ok (r, pre') c' ∧
      ∀ q, r = some q → Spec.OccAt haystack.toArray needle.toArray q := by
  obtain ⟨tw, c1, e1, _, _, _, hsp, _⟩ := TwoWay.finder_new_spec needle c hnv
  obtain ⟨r, pre', c2, e2, h1, _⟩ :=
    TwoWay.find_sound tw needle haystack pre c1 strat hnv hhv hsp hpre htotal
  exact ⟨r, pre', c2, by rw [bind_ok e1]; exact e2, h1⟩

/-! ### C13: the cost of one Two-Way search with an already constructed finder -/

/-- a finder returned by `twoway::Finder::new(needle)`, searched (any number of times, each from
any counter state): the leftmost occurrence in at most `3 * haystack.len + 2 * needle.len + 1`
steps per search -/
theorem twoway_search_cost (needle haystack : Slice) (tw : TwoWay.TwoWay) (c0 c0' : Ctr)
    (hnv : needle.Valid) (hhv : haystack.Valid)
    (hnew : TwoWay.Finder.new needle c0 = .ok tw c0') (c : Ctr) :
    ∃ c', TwoWay.Finder.find tw haystack needle c =
        .ok (Spec.leftmost haystack.toArray needle.toArray) c' ∧
      c'.steps ≤ c.steps + 3 * haystack.len + 2 * needle.len + 1 := by
  obtain ⟨tw1, c1, e1, hcert⟩ := TwoWay.cert_fwd needle hnv c0
  rw [hnew] at e1; cases e1
  obtain ⟨tw2, c2, e2, _, hbs, _, _, hhalf⟩ := TwoWay.finder_new_spec needle c0 hnv
  rw [hnew] at e2; cases e2
  obtain ⟨c', e, hb⟩ := TwoWay.find_eq_of_cert_nopre tw needle haystack c hnv hhv hcert hbs
  exact ⟨c', e, hb hhalf⟩

/-- the same for a finder returned by `twoway::FinderRev::new(needle)` -/
theorem twoway_rsearch_cost (needle haystack : Slice) (tw : TwoWay.TwoWay) (c0 c0' : Ctr)
    (hnv : needle.Valid) (hhv : haystack.Valid)
    (hnew : TwoWay.FinderRev.new needle c0 = .ok tw c0') (c : Ctr) :
    ∃ c', TwoWay.FinderRev.rfind tw haystack needle c =
        .ok (Spec.rightmost haystack.toArray needle.toArray) c' ∧
      c'.steps ≤ c.steps + 3 * haystack.len + 2 * needle.len + 1 := by
  obtain ⟨tw1, c1, e1, hcert⟩ := TwoWay.cert_rev needle hnv c0
  rw [hnew] at e1; cases e1
  obtain ⟨tw2, c2, e2, _, hbs, _, _, hhalf⟩ := TwoWay.finderRev_new_spec needle c0 hnv
  rw [hnew] at e2; cases e2
  obtain ⟨c', e, hb⟩ := TwoWay.rfind_eq_of_cert tw needle haystack c hnv hhv hcert hbs
  exact ⟨c', e, hb hhalf⟩

end Memchr.Bridge3

section AxiomCheck
open Memchr.Bridge3
#print axioms greedyFwdFrom_unfold
#print axioms greedyFwd_empty
#print axioms greedyRevFrom_unfold
#print axioms greedyRev_empty
#print axioms findIter_reachable_good
#print axioms findIter_size_hint_future
#print axioms top_rfind_iter
#print axioms findIter_run_all
#print axioms rfindIter_run_all
#print axioms finderRev_run_ok
#print axioms searcher_new_prefilter_sound
#print axioms twoway_find_any_prefilter
#print axioms twoway_search_cost
#print axioms twoway_rsearch_cost
#print axioms finderRev_run_all
#print axioms finderRev_pure
end AxiomCheck
