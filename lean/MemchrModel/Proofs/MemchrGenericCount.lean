/-
`count_raw`: counting lemmas, loop lemmas and the master theorem.
-/
import MemchrModel.Proofs.MemchrGenericLemmas

namespace Memchr.Generic

open Memchr

/-- number of bytes satisfying `p` at addresses `[lo, hi)` -/
def cnt (m : Mem) (p : UInt8 → Bool) (lo hi : Nat) : Nat :=
  Spec.countP p (m.window lo (hi - lo))

theorem window_add (m : Mem) (a n k : Nat) :
    m.window a (n + k) = m.window a n ++ m.window (a + n) k := by
  simp only [Mem.window, List.range_add, List.map_append, List.map_map]
  congr 1
  apply List.map_congr_left
  intro i _
  simp [Nat.add_assoc]

theorem cnt_split (m : Mem) (p : UInt8 → Bool) {lo mid hi : Nat} (h1 : lo ≤ mid) (h2 : mid ≤ hi) :
    cnt m p lo hi = cnt m p lo mid + cnt m p mid hi := by
  unfold cnt Spec.countP
  have e1 : hi - lo = (mid - lo) + (hi - mid) := by omega
  have e2 : lo + (mid - lo) = mid := by omega
  rw [e1, window_add, List.countP_append, e2]

theorem cnt_self (m : Mem) (p : UInt8 → Bool) (lo : Nat) : cnt m p lo lo = 0 := by
  simp [cnt, Spec.countP, Mem.window]

theorem cnt_one (m : Mem) (p : UInt8 → Bool) (lo : Nat) :
    cnt m p lo (lo + 1) = if p (m.byteAt lo) then 1 else 0 := by
  have : lo + 1 - lo = 1 := by omega
  simp [cnt, Spec.countP, Mem.window, this, List.range_succ, List.countP_cons]

variable {V : VecImpl}

theorem countOnes_chunk (L : Lawful V) (n1 : UInt8) (m : Mem) (a : Nat) :
    V.countOnes (V.movemask (Vec.cmpeq (Vec.splat V.bytes n1) (m.window a V.bytes)))
      = cnt m (· == n1) a (a + V.bytes) := by
  rw [cmpeq_splat_window, (MaskRep.movemask L _).countOnes]
  unfold cnt Spec.countP Mem.window
  rw [Nat.add_sub_cancel_left, List.countP_map, List.countP_eq_length_filter]
  rfl

theorem countChunks_addrs (L : Lawful V) (n1 : UInt8) (m : Mem) (cur u count : Nat) :
    countChunks V n1 ((chunkAddrs V cur u).map (fun a => m.window a V.bytes)) count
      = count + cnt m (· == n1) cur (cur + u * V.bytes) := by
  induction u generalizing cur count with
  | zero => simp [countChunks, chunkAddrs, cnt_self]
  | succ k ih =>
    have e : (k + 1) * V.bytes = k * V.bytes + V.bytes := Nat.succ_mul k V.bytes
    have ih' := ih (cur + V.bytes)
      (count + V.countOnes (V.movemask (Vec.cmpeq (Vec.splat V.bytes n1) (m.window cur V.bytes))))
    unfold countChunks at ih' ⊢
    simp only [chunkAddrs, List.map_cons, List.foldl_cons]
    rw [ih', countOnes_chunk L,
      cnt_split m _ (lo := cur) (mid := cur + V.bytes) (hi := cur + (k + 1) * V.bytes)
        (by omega) (by omega)]
    have e2 : cur + V.bytes + k * V.bytes = cur + (k + 1) * V.bytes := by omega
    rw [e2]
    omega

theorem countByteLoop_spec (m : Mem) (p : UInt8 → Bool) (end_ ptr count : Nat) (c : Ctr)
    (hb : m.base ≤ ptr) (hpe : ptr ≤ end_) (he : end_ ≤ m.base + m.bytes.size) :
    ∃ c', countByteLoop m p end_ ptr count c = .ok (count + cnt m p ptr end_) c' := by
  fun_induction countByteLoop m p end_ ptr count generalizing c with
  | case1 ptr count h ih =>
    have hr := Mem.read_ok m ptr { c with steps := c.steps + 1 } hb (by omega)
    have hpa := Mem.padd_ok m "count_byte_by_byte: ptr.offset(1)" ptr 1 hb (by omega)
    simp only [M.bind_run, tick_run, hr, hpa, M.pure_run]
    obtain ⟨c', hrun⟩ := ih (m.byteAt ptr)
      { steps := c.steps + 1, loads := ⟨m.region, ptr - m.base, 1, false⟩ :: c.loads }
      (by omega) (by omega)
    simp only [dite_eq_ite] at hrun
    refine ⟨c', ?_⟩
    rw [hrun, cnt_split m p (lo := ptr) (mid := ptr + 1) (hi := end_) (by omega) (by omega),
      cnt_one]
    congr 1
    split <;> omega
  | case2 ptr count h =>
    have : ptr = end_ := by omega
    subst this
    exact ⟨c, by simp [cnt_self]⟩

theorem countByteByByte_spec (m : Mem) (p : UInt8 → Bool) (start end_ : Nat) (c : Ctr)
    (hb : m.base ≤ start) (hpe : start ≤ end_) (he : end_ ≤ m.base + m.bytes.size) :
    ∃ c', countByteByByte m p start end_ c = .ok (cnt m p start end_) c' := by
  have hda : decide (start ≤ end_) = true := by simp [hpe]
  obtain ⟨c', h⟩ := countByteLoop_spec m p end_ start 0 c hb hpe he
  refine ⟨c', ?_⟩
  unfold countByteByByte
  simp only [dbgAssert_ok _ hda, pure_bind', h, Nat.zero_add]

theorem countLoop1_spec (L : Lawful V) (n1 : UInt8) (m : Mem) (end_ cur count : Nat) (c : Ctr)
    (hb : m.base ≤ cur) (hce : cur ≤ end_) (hle : V.bytes ≤ end_)
    (he : end_ ≤ m.base + m.bytes.size) :
    ∃ c', countLoop1 V n1 m end_ (end_ - V.bytes) cur count c =
      .ok (count + cnt m (· == n1) cur end_) c' := by
  generalize hlim : end_ - V.bytes = lim
  fun_induction countLoop1 V n1 m end_ lim cur count generalizing c with
  | case1 cur count h ih =>
    have hd := Mem.distance_ok m "count_raw: end.distance(cur)" end_ cur (by omega) (by omega) he
    have hda : decide (end_ - cur ≥ V.bytes) = true := by simp; omega
    have hl := Mem.loadU_ok m cur V.bytes { c with steps := c.steps + 1 } hb (by omega)
    have hpa := Mem.padd_ok m "count_raw: cur.add(V::BYTES)" cur V.bytes hb (by omega)
    simp only [M.bind_run, tick_run, hd, M.pure_run, dbgAssert_ok _ hda, VecImpl.loadU, hl, hpa]
    obtain ⟨c', hrun⟩ := ih (m.window cur V.bytes)
      { steps := c.steps + 1, loads := ⟨m.region, cur - m.base, V.bytes, false⟩ :: c.loads }
      (by omega) (by omega)
    refine ⟨c', ?_⟩
    rw [hrun]
    simp only [countChunks, List.foldl_cons, List.foldl_nil, countOnes_chunk L]
    rw [cnt_split m _ (lo := cur) (mid := cur + V.bytes) (hi := end_) (by omega) (by omega)]
    congr 1
    omega
  | case2 cur count h =>
    obtain ⟨c', hrun⟩ := countByteByByte_spec m (fun b => b == n1) cur end_ c hb hce he
    exact ⟨c', by simp only [bind_ok hrun]; rfl⟩

theorem countLoopN_spec (L : Lawful V) (n1 : UInt8) (u : Nat) (hu : 0 < u) (m : Mem)
    (end_ cur count : Nat) (c : Ctr)
    (hb : m.base ≤ cur) (hce : cur ≤ end_) (hle : V.bytes ≤ end_) (hue : u * V.bytes ≤ end_)
    (hal : cur % V.bytes = 0) (he : end_ ≤ m.base + m.bytes.size) :
    ∃ c', countLoopN V n1 u hu m end_ (end_ - u * V.bytes) (end_ - V.bytes) cur count c =
      .ok (count + cnt m (· == n1) cur end_) c' := by
  generalize hlim : end_ - u * V.bytes = limN
  fun_induction countLoopN V n1 u hu m end_ limN (end_ - V.bytes) cur count generalizing c with
  | case1 cur count h ih =>
    have hda : (cur % V.bytes == 0) = true := by simp [hal]
    obtain ⟨c1, hl⟩ := loadChunks_ok (V := V) m cur u { c with steps := c.steps + 1 } hb
      (by omega) (fun _ => hal)
    have hpa := Mem.padd_ok m "count_raw: cur.add(Self::LOOP_SIZE)" cur (u * V.bytes) hb
      (by omega)
    simp only [M.bind_run, tick_run, dbgAssert_ok _ hda, M.pure_run, hl, hpa]
    obtain ⟨c', hrun⟩ := ih ((chunkAddrs V cur u).map (fun a => m.window a V.bytes)) c1
      (by omega) (by omega) (by rw [Nat.add_mul_mod_self_right]; exact hal)
    refine ⟨c', ?_⟩
    rw [hrun, countChunks_addrs L,
      cnt_split m _ (lo := cur) (mid := cur + u * V.bytes) (hi := end_) (by omega) (by omega)]
    congr 1
    omega
  | case2 cur count h =>
    exact countLoop1_spec L n1 m end_ cur count c hb hce hle he

theorem countRaw_spec (L : Lawful V) (n1 : UInt8) (u : Nat) (hu : 0 < u)
    (m : Mem) (start end_ : Nat) (c : Ctr)
    (hs : m.base ≤ start) (he : end_ ≤ m.base + m.bytes.size) (hlen : start + V.bytes ≤ end_) :
    ∃ c', countRaw V n1 u hu m start end_ c = .ok (cnt m (· == n1) start end_) c' := by
  have hpos := V.bytes_pos
  have hmod : start % V.bytes < V.bytes := Nat.mod_lt _ hpos
  have hda1 : decide (V.bytes ≤ 32) = true := by simp [L.bytes_le]
  have hd := Mem.distance_ok m "count_raw: end.distance(start)" end_ start hs (by omega) he
  have hda2 : decide (end_ - start ≥ V.bytes) = true := by simp; omega
  have hcs := csub_of_le "count_raw: V::BYTES - (start & V::ALIGN)"
    (a := V.bytes) (b := start &&& V.align) (by rw [and_align L]; omega)
  have hpa := Mem.padd_ok m "count_raw: start.add(V::BYTES - (start & V::ALIGN))" start
    (V.bytes - (start &&& V.align)) hs (by rw [and_align L]; omega)
  have hcur1 : start ≤ start + (V.bytes - (start &&& V.align)) := by omega
  have hcur2 : start + (V.bytes - (start &&& V.align)) ≤ end_ := by
    rw [and_align L]; omega
  obtain ⟨c1, hbb⟩ := countByteByByte_spec m (fun b => b == n1) start
    (start + (V.bytes - (start &&& V.align))) c hs hcur1 (by omega)
  have hps := Mem.psub_ok m "count_raw: end.sub(V::BYTES)" end_ V.bytes (by omega) he
  have hda3 : (decide (start + (V.bytes - (start &&& V.align)) > start) &&
      decide (end_ - V.bytes ≥ start)) = true := by
    rw [and_align L]; simp; omega
  have hal : (start + (V.bytes - (start &&& V.align))) % V.bytes = 0 := by
    rw [and_align L]; exact align_up_mod _ _ hpos
  have hsplit := cnt_split m (· == n1) hcur1 hcur2
  unfold countRaw
  simp only [dbgAssert_ok _ hda1, pure_bind', hd, dbgAssert_ok _ hda2, hcs, hpa, bind_ok hbb, hps,
    dbgAssert_ok _ hda3]
  rw [hsplit]
  by_cases hbig : end_ - start ≥ u * V.bytes
  · have hps2 := Mem.psub_ok m "count_raw: end.sub(Self::LOOP_SIZE)" end_ (u * V.bytes)
      (by omega) he
    simp only [hbig, if_true, hps2, pure_bind']
    exact countLoopN_spec L n1 u hu m end_ _ _ c1 (by omega) hcur2 (by omega) (by omega) hal he
  · simp only [hbig, if_false]
    exact countLoop1_spec L n1 m end_ _ _ c1 (by omega) hcur2 (by omega) he

end Memchr.Generic
