/-
Word combinatorics behind Two-Way (DESIGN section 8, T1-T3), independent of the executable
model and of the search direction.

A word is a function `x : Nat → α` together with a length `n` (only the values `x t`, `t < n`,
matter); the alphabet order is an abstract strict total order `lt` (`<` on bytes for
`SuffixKind::Maximal`, `>` for `SuffixKind::Minimal`).  The reverse searcher instantiates the
same statements with the mirrored word `fun t => needle[n - 1 - t]`.

* `Mis lt x L s i`: inside the window `[0, L)` the suffix starting at `s` loses to the suffix
  starting at `i` by a strict mismatch (common prefix, then a strictly smaller letter);
  `Bord x L s i`: `x[s..L)` is a prefix of the suffix at `i`; `PerW x i L p`: `x[i..L)` has
  period `p`.
* `Win lt x n i L p`: the loop invariant (I0)-(I4) of the maximal-suffix computation
  (`Suffix::forward`) for the window `x[i..L)` with current period `p`, and its preservation
  by the three kinds of step (`Win.push`, `Win.skip`, `Win.accept`), lemma (B) (`Win.lemmaB`).
* `MaxSuf lt x n i`: `i` starts the maximal suffix; `crit_core` (T1, critical factorisation
  in the strong form): every local repetition at the larger of the two maximal-suffix starts
  (for `lt` and for the flipped order) is longer than that position and is a period of `x`.
* `lr_of_per_add`, `per_of_short_per` (T3): what `Shift::forward` needs: if `x` has a period
  shorter than the right part `x[c..n)`, then the smallest period `p` of the right part is a
  period of `x` and `c < p` (so the `is_suffix` test of `Shift::forward` succeeds).

Lemma (A) of DESIGN section 8 (Fine-Wilf step) turned out not to be needed: `Accept` handles
the borders in `(i, j)` by the mismatch at offset `k` alone, and T3 follows from T1 applied to
the remainder `k mod p` (a local repetition at `c`, hence a period, contradicting minimality).
No imports: everything here is Lean core.
-/

namespace Memchr.TwoWay.Words

/-- a strict total order -/
structure StrictTotal {α : Type} (lt : α → α → Prop) : Prop where
  irrefl : ∀ a, ¬ lt a a
  trans : ∀ a b c, lt a b → lt b c → lt a c
  tri : ∀ a b, lt a b ∨ a = b ∨ lt b a

namespace StrictTotal

variable {α : Type} {lt : α → α → Prop}

theorem asymm (h : StrictTotal lt) {a b : α} (h1 : lt a b) (h2 : lt b a) : False :=
  h.irrefl a (h.trans a b a h1 h2)

theorem ne (h : StrictTotal lt) {a b : α} (h1 : lt a b) (h2 : a = b) : False := by
  subst h2; exact h.irrefl a h1

/-- the reversed order is a strict total order too -/
theorem flip (h : StrictTotal lt) : StrictTotal (fun a b => lt b a) :=
  ⟨h.irrefl, fun a b c h1 h2 => h.trans c b a h2 h1, fun a b => by
    rcases h.tri a b with h1 | h1 | h1
    · exact Or.inr (Or.inr h1)
    · exact Or.inr (Or.inl h1)
    · exact Or.inl h1⟩

end StrictTotal

section

variable {α : Type} (lt : α → α → Prop) (x : Nat → α)

/-- inside the window `[0, L)` the suffix at `s` loses to the suffix at `i` by a strict
mismatch: a common prefix of length `t`, then `x[s + t] < x[i + t]` -/
def Mis (L s i : Nat) : Prop :=
  ∃ t, s + t < L ∧ i + t < L ∧ (∀ u, u < t → x (s + u) = x (i + u)) ∧ lt (x (s + t)) (x (i + t))

/-- `x[s..L)` is a prefix of the suffix at `i` (for `i < s`: a border of `x[i..L)`) -/
def Bord (L s i : Nat) : Prop := ∀ u, s + u < L → x (s + u) = x (i + u)

/-- `p` is a period of the window `x[i..L)` -/
def PerW (i L p : Nat) : Prop := ∀ t, i ≤ t → t + p < L → x t = x (t + p)

/-- `k` is a local repetition of `x[0..n)` at position `c` -/
def LRF (n c k : Nat) : Prop := ∀ t, c ≤ t + k → t < c → t + k < n → x t = x (t + k)

end

section

variable {α : Type} {lt : α → α → Prop} {x : Nat → α}

theorem Mis.mono {L L' s i : Nat} (h : Mis lt x L s i) (hL : L ≤ L') : Mis lt x L' s i := by
  obtain ⟨t, h1, h2, h3, h4⟩ := h
  exact ⟨t, by omega, by omega, h3, h4⟩

theorem Mis.trans (ho : StrictTotal lt) {L a b c : Nat} (h1 : Mis lt x L a b)
    (h2 : Mis lt x L b c) : Mis lt x L a c := by
  obtain ⟨t1, ha1, hb1, e1, l1⟩ := h1
  obtain ⟨t2, hb2, hc2, e2, l2⟩ := h2
  rcases Nat.lt_trichotomy t1 t2 with h | h | h
  · exact ⟨t1, ha1, by omega, fun u hu => (e1 u hu).trans (e2 u (by omega)), by
      rw [← e2 t1 h]; exact l1⟩
  · subst h
    exact ⟨t1, ha1, hc2, fun u hu => (e1 u hu).trans (e2 u hu), ho.trans _ _ _ l1 l2⟩
  · exact ⟨t2, by omega, hc2, fun u hu => (e1 u (by omega)).trans (e2 u hu), by
      rw [e1 t2 h]; exact l2⟩

theorem Mis.asymm (ho : StrictTotal lt) {L a b : Nat} (h1 : Mis lt x L a b)
    (h2 : Mis lt x L b a) : False := by
  obtain ⟨t1, _, _, e1, l1⟩ := h1
  obtain ⟨t2, _, _, e2, l2⟩ := h2
  rcases Nat.lt_trichotomy t1 t2 with h | h | h
  · exact ho.ne l1 (e2 t1 h).symm
  · subst h; exact ho.asymm l1 l2
  · exact ho.ne l2 (e1 t2 h).symm

/-- a suffix that loses by a mismatch is not extended by the winner -/
theorem Mis.not_bord (ho : StrictTotal lt) {L a b : Nat} (h1 : Mis lt x L a b)
    (h2 : Bord x L b a) : False := by
  obtain ⟨t, _, hb, _, l⟩ := h1
  exact ho.ne l (h2 t hb).symm

theorem Mis.not_bord' (ho : StrictTotal lt) {L a b : Nat} (h1 : Mis lt x L a b)
    (h2 : Bord x L a b) : False := by
  obtain ⟨t, ha, _, _, l⟩ := h1
  exact ho.ne l (h2 t ha)

theorem PerW.mono {i i' L L' p : Nat} (h : PerW x i L p) (hi : i ≤ i') (hL : L' ≤ L) :
    PerW x i' L' p :=
  fun t h1 h2 => h t (by omega) (by omega)

/-- iterating a period inside the window -/
theorem PerW.mul {i L p : Nat} (h : PerW x i L p) (t m : Nat) (ht : i ≤ t)
    (hm : t + p * m < L) : x t = x (t + p * m) := by
  induction m with
  | zero => simp
  | succ m ih =>
    rw [Nat.mul_succ] at hm
    rw [ih (by omega), h (t + p * m) (by omega) (by omega), Nat.mul_succ]
    congr 1
    omega

theorem Bord.perW {L s i : Nat} (h : Bord x L s i) (his : i ≤ s) : PerW x i L (s - i) := by
  intro t h1 h2
  have := h (t - i) (by omega)
  rw [show s + (t - i) = t + (s - i) by omega, show i + (t - i) = t by omega] at this
  exact this.symm

theorem PerW.bord {i L q : Nat} (h : PerW x i L q) : Bord x L (i + q) i := by
  intro u hu
  have := h (i + u) (by omega) (by omega)
  rw [this]; congr 1; omega

/-! ### the loop invariant of the maximal-suffix computation -/

/-- Invariants (I0)-(I4) of DESIGN section 8 for the window `x[i..L)` (`L = candidate_start +
offset` bytes examined) with current period `p`, inside the word `x[0..n)`:
`p` is the smallest period of `x[i..L)`, every suffix starting before `i` loses to the one at
`i` by a mismatch somewhere in `x`, and every suffix starting inside `(i, L)` either loses by a
mismatch inside the window or is a border of the window. -/
structure Win (lt : α → α → Prop) (x : Nat → α) (n i L p : Nat) : Prop where
  ip : i + p ≤ L
  p1 : 1 ≤ p
  le : L ≤ n
  per : PerW x i L p
  minp : ∀ q, 1 ≤ q → q < p → ¬ PerW x i L q
  left : ∀ s, s < i → Mis lt x n s i
  right : ∀ s, i < s → s < L → Mis lt x L s i ∨ Bord x L s i

variable {n i L p : Nat}

/-- the start state `(pos, candidate_start, offset, period) = (0, 1, 0, 1)` -/
theorem Win.init (hn : 1 ≤ n) : Win lt x n 0 1 1 :=
  ⟨by omega, by omega, hn, fun t _ h => by omega, fun q h1 h2 => by omega,
    fun s hs => by omega, fun s h1 h2 => by omega⟩

theorem Win.right' (w : Win lt x n i L p) (s : Nat) (h1 : i < s) (h2 : s ≤ L) :
    Mis lt x L s i ∨ Bord x L s i := by
  by_cases h : s < L
  · exact w.right s h1 h
  · exact Or.inr (fun u hu => by omega)

/-- every period of the window is at least `p` -/
theorem Win.le_per (w : Win lt x n i L p) {q : Nat} (hq1 : 1 ≤ q) (hq : PerW x i L q) :
    p ≤ q := by
  rcases Nat.lt_or_ge q p with h | h
  · exact absurd hq (w.minp q hq1 h)
  · exact h

/-- **Lemma (B)**: the longest border has the smallest next letter: for every period `q` of
the window, `x[L - p] <= x[L - q]` -/
theorem Win.lemmaB (ho : StrictTotal lt) (w : Win lt x n i L p) {q a b : Nat} (hq1 : 1 ≤ q)
    (hq : PerW x i L q) (hb : i ≤ b) (hbq : b + q = L) (hap : a + p = L) :
    ¬ lt (x b) (x a) := by
  intro hlt
  have hpq := w.le_per hq1 hq
  have hip := w.ip
  have hp1 := w.p1
  by_cases hqp : q = p
  · have : a = b := by omega
    subst this; exact ho.irrefl _ hlt
  · -- the suffix at `i + (q - p)` agrees with the one at `i` on `b - i` letters
    have hpre : ∀ u, u < b - i → x (i + (q - p) + u) = x (i + u) := by
      intro u hu
      rw [w.per (i + (q - p) + u) (by omega) (by omega),
        hq (i + u) (by omega) (by omega)]
      congr 1; omega
    have ea : i + (q - p) + (b - i) = a := by omega
    have eb : i + (b - i) = b := by omega
    rcases w.right (i + (q - p)) (by omega) (by omega) with hm | hbd
    · obtain ⟨t, h1, h2, h3, h4⟩ := hm
      rcases Nat.lt_trichotomy t (b - i) with h | h | h
      · exact ho.ne h4 (hpre t h)
      · subst h; rw [ea, eb] at h4; exact ho.asymm h4 hlt
      · have := h3 (b - i) h
        rw [ea, eb] at this
        exact ho.ne hlt this.symm
    · have := hbd (b - i) (by omega)
      rw [ea, eb] at this
      exact ho.ne hlt this.symm

/-- (B) for a border given as such -/
theorem Win.bord_not_lt (ho : StrictTotal lt) (w : Win lt x n i L p) {s a : Nat} (h1 : i < s)
    (h2 : s ≤ L) (hbd : Bord x L s i) (hap : a + p = L) : ¬ lt (x (i + (L - s))) (x a) :=
  w.lemmaB ho (q := s - i) (by omega) (hbd.perW (by omega)) (by omega) (by omega) hap

/-- `Push` (the two compared bytes are equal, i.e. `x[L] = x[L - p]`): the window grows by one
byte and keeps its period -/
theorem Win.push (ho : StrictTotal lt) (w : Win lt x n i L p) (hL : L < n) {a : Nat}
    (hap : a + p = L) (heq : x L = x a) : Win lt x n i (L + 1) p := by
  have hip := w.ip
  refine ⟨by omega, w.p1, by omega, ?_, ?_, w.left, ?_⟩
  · intro t h1 h2
    by_cases h : t + p < L
    · exact w.per t h1 h
    · have : t = a := by omega
      subst this; rw [hap]; exact heq.symm
  · intro q h1 h2 hq
    exact w.minp q h1 h2 (hq.mono (Nat.le_refl _) (by omega))
  · intro s h1 h2
    rcases w.right' s h1 (by omega) with hm | hbd
    · exact Or.inl (hm.mono (by omega))
    · have hB := w.bord_not_lt ho h1 (by omega) hbd hap
      have es : s + (L - s) = L := by omega
      rcases ho.tri (x L) (x (i + (L - s))) with h | h | h
      · refine Or.inl ⟨L - s, by omega, by omega, fun u hu => hbd u (by omega), ?_⟩
        rw [es]; exact h
      · refine Or.inr (fun u hu => ?_)
        by_cases hu' : s + u < L
        · exact hbd u hu'
        · have : u = L - s := by omega
          subst this; rw [es]; exact h
      · rw [heq] at h; exact absurd h hB

/-- `Skip` (the candidate byte is smaller: `x[L] < x[L - p]`): the window grows by one byte
and becomes unbordered, the new period is its length -/
theorem Win.skip (ho : StrictTotal lt) (w : Win lt x n i L p) (hL : L < n) {a : Nat}
    (hap : a + p = L) (hlt : lt (x L) (x a)) : Win lt x n i (L + 1) (L + 1 - i) := by
  have hip := w.ip
  have hp1 := w.p1
  -- the new byte is strictly smaller than the byte after every border
  have key : ∀ s, i < s → s ≤ L → Bord x L s i → lt (x L) (x (i + (L - s))) := by
    intro s h1 h2 hbd
    have hB := w.bord_not_lt ho h1 h2 hbd hap
    rcases ho.tri (x L) (x (i + (L - s))) with h | h | h
    · exact h
    · rw [h] at hlt; exact absurd hlt hB
    · exact absurd (ho.trans _ _ _ h hlt) hB
  refine ⟨by omega, by omega, by omega, fun t h1 h2 => by omega, ?_, w.left, ?_⟩
  · intro q h1 h2 hq
    have hq' : PerW x i L q := hq.mono (Nat.le_refl _) (by omega)
    have := key (i + q) (by omega) (by omega) hq'.bord
    rw [show i + (L - (i + q)) = L - q by omega, hq (L - q) (by omega) (by omega),
      show L - q + q = L by omega] at this
    exact ho.irrefl _ this
  · intro s h1 h2
    rcases w.right' s h1 (by omega) with hm | hbd
    · exact Or.inl (hm.mono (by omega))
    · refine Or.inl ⟨L - s, by omega, by omega, fun u hu => hbd u (by omega), ?_⟩
      rw [show s + (L - s) = L by omega]
      exact key s h1 (by omega) hbd

/-- `Accept` (the candidate byte is larger): the candidate `j` (a border start: `x[j..j+k) =
x[i..i+k)`, `L = j + k`) becomes the new suffix start with the one-byte window `x[j..j+1)` -/
theorem Win.accept (ho : StrictTotal lt) (w : Win lt x n i L p) {j k : Nat} (hij : i < j)
    (hjk : j + k = L) (hL : L < n) (hpre : ∀ u, u < k → x (i + u) = x (j + u))
    (hlt : lt (x (i + k)) (x (j + k))) : Win lt x n j (j + 1) 1 := by
  have hMij : Mis lt x n i j := ⟨k, by omega, by omega, hpre, hlt⟩
  refine ⟨by omega, by omega, by omega, fun t h1 h2 => by omega, fun q h1 h2 => by omega, ?_,
    fun s h1 h2 => by omega⟩
  intro s hs
  rcases Nat.lt_trichotomy s i with h | h | h
  · exact (w.left s h).trans ho hMij
  · subst h; exact hMij
  · rcases w.right s h (by omega) with hm | hbd
    · exact (hm.mono w.le).trans ho hMij
    · refine ⟨k, by omega, by omega, fun u hu => ?_, ?_⟩
      · rw [hbd u (by omega)]; exact hpre u hu
      · rw [hbd k (by omega)]; exact hlt

/-! ### maximal suffixes and the critical factorisation (T1) -/

/-- `i` starts the maximal suffix of `x[0..n)` for the order `lt` (a proper prefix is smaller):
every longer suffix loses by a mismatch, every shorter one loses by a mismatch or is a prefix -/
structure MaxSuf (lt : α → α → Prop) (x : Nat → α) (n i : Nat) : Prop where
  left : ∀ s, s < i → Mis lt x n s i
  right : ∀ s, i < s → s < n → Mis lt x n s i ∨ Bord x n s i

/-- the loop invariant at exit (`L = n`) -/
theorem Win.maxSuf (w : Win lt x n i n p) : MaxSuf lt x n i := ⟨w.left, w.right⟩

/-- **T1 (critical factorisation, strong form).**  Let `c` start the maximal suffix for `lt`,
`d <= c` start the maximal suffix for the reversed order (only its `right` half is needed).
Then every local repetition `k >= 1` at `c` is longer than `c` and is a period of `x`. -/
theorem crit_core (ho : StrictTotal lt) {n c d : Nat} (h1 : MaxSuf lt x n c)
    (h2 : ∀ s, d < s → s < n → Mis (fun a b => lt b a) x n s d ∨ Bord x n s d) (hdc : d ≤ c)
    {k : Nat} (hk : 1 ≤ k) (hlr : LRF x n c k) : c < k ∧ PerW x 0 n k := by
  have hck : c < k := by
    rcases Nat.lt_or_ge c k with h | h
    · exact h
    · exfalso
      -- the suffix at `c - k` starts with the repetition
      obtain ⟨t, ht1, ht2, ht3, ht4⟩ := h1.left (c - k) (by omega)
      rcases Nat.lt_or_ge t k with htk | htk
      · have := hlr (c - k + t) (by omega) (by omega) (by omega)
        rw [show c - k + t + k = c + t by omega] at this
        exact ho.ne ht4 this
      · -- shift the mismatch by `k`: the suffix at `c` loses to the one at `c + k`
        have hM : Mis lt x n c (c + k) := by
          refine ⟨t - k, by omega, by omega, fun u hu => ?_, ?_⟩
          · have := ht3 (u + k) (by omega)
            rw [show c - k + (u + k) = c + u by omega] at this
            rw [this]; congr 1; omega
          · rw [show c - k + t = c + (t - k) by omega,
              show c + t = c + k + (t - k) by omega] at ht4
            exact ht4
        rcases h1.right (c + k) (by omega) (by omega) with hm | hbd
        · exact hM.asymm ho hm
        · exact hM.not_bord ho hbd
  refine ⟨hck, ?_⟩
  intro t _ htk
  rcases Nat.lt_or_ge t c with htc | htc
  · exact hlr t (by omega) htc htk
  · rcases h1.right (c + k) (by omega) (by omega) with hm | hbd
    · exfalso
      obtain ⟨t0, ht1, ht2, ht3, ht4⟩ := hm
      -- under the reversed order the suffix at `d` loses to the one at `d + k`
      have hM : Mis (fun a b => lt b a) x n d (d + k) := by
        refine ⟨c - d + t0, by omega, by omega, fun u hu => ?_, ?_⟩
        · by_cases hu' : d + u < c
          · rw [hlr (d + u) (by omega) hu' (by omega)]; congr 1; omega
          · have := ht3 (u - (c - d)) (by omega)
            rw [show c + k + (u - (c - d)) = d + k + u by omega,
              show c + (u - (c - d)) = d + u by omega] at this
            exact this.symm
        · rw [show d + (c - d + t0) = c + t0 by omega,
            show d + k + (c - d + t0) = c + k + t0 by omega]
          exact ht4
      rcases h2 (d + k) (by omega) (by omega) with hm' | hbd'
      · exact hM.asymm ho.flip hm'
      · exact hM.not_bord ho.flip hbd'
    · have := hbd (t - c) (by omega)
      rw [show c + k + (t - c) = t + k by omega, show c + (t - c) = t by omega] at this
      exact this.symm

/-! ### deciding the period (T3) -/

/-- if `k = r + p * m` is a period of `x`, shorter than `x[c..n)`, and `p` is a period of
`x[c..n)`, then `r` is a local repetition at `c` -/
theorem lr_of_per_add {n c p k r m : Nat} (hk : PerW x 0 n k) (hck : c + k ≤ n)
    (hp : PerW x c n p) (e : k = r + p * m) : LRF x n c r := by
  intro t h1 h2 h3
  rw [hk t (Nat.zero_le _) (by omega), hp.mul (t + r) m h1 (by omega)]
  congr 1; omega

/-- **T3, key step.**  Let `c` satisfy the conclusion of T1 and let `p` be the smallest period
of `x[c..n)`.  If `x` has a period `k` shorter than `x[c..n)`, then `p` itself is a period of
`x` and `c < p`. -/
theorem per_of_short_per {n c p k : Nat}
    (hcore : ∀ k, 1 ≤ k → LRF x n c k → c < k ∧ PerW x 0 n k)
    (hp1 : 1 ≤ p) (hp : PerW x c n p) (hmin : ∀ q, 1 ≤ q → q < p → ¬ PerW x c n q)
    (hk1 : 1 ≤ k) (hk : PerW x 0 n k) (hck : c + k ≤ n) : c < p ∧ PerW x 0 n p := by
  have e : k = k % p + p * (k / p) := (Nat.mod_add_div k p).symm
  have hr : k % p = 0 := by
    rcases Nat.eq_zero_or_pos (k % p) with h | h
    · exact h
    · exfalso
      have := (hcore (k % p) h (lr_of_per_add hk hck hp e)).2
      exact hmin (k % p) h (Nat.mod_lt _ hp1) (this.mono (Nat.zero_le _) (Nat.le_refl _))
  rw [hr, Nat.zero_add] at e
  have hm : 1 ≤ k / p := by
    rcases Nat.eq_zero_or_pos (k / p) with h | h
    · rw [h] at e; omega
    · exact h
  refine hcore p hp1 (lr_of_per_add (m := k / p - 1) hk hck hp ?_)
  have : p * (k / p) = p * (k / p - 1) + p := by
    rw [← Nat.mul_succ]; congr 1; omega
  omega

end

end Memchr.TwoWay.Words
