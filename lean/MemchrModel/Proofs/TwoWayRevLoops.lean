/-
Two-Way, reverse direction: the comparison loops of `rfind_small_imp` / `rfind_large_imp`, the
mirror images of the combinatorial facts (a)-(c) of DESIGN section 8, and the two outer search
loops relative to an abstract loop invariant (`LoopInvRev`, as `LoopInv` in
`Proofs/TwoWayLoops.lean`).

Coordinates: `pos` is the *end* of the current window as in the Rust, the window is
`haystack[pos - nlen .. pos)`; `MatchR haystack needle (pos - nlen) lo hi` says that the needle
bytes `[lo, hi)` equal the haystack bytes under them.
-/
import MemchrModel.Proofs.TwoWayRevDefs
import MemchrModel.Proofs.TwoWayLemmas

namespace Memchr.TwoWay

open Memchr

/-! ### the combinatorial facts, mirrored -/

/-- an occurrence at `q - k` (written `q' + k = q`) whose right part overlaps a matched left
part `[i, crit)` at `q` makes `k` a local repetition at `crit` -/
theorem lr_of_occ_rev {h n : Slice} (hn : n.Valid) {crit q q' i k : Nat} (hq : q' + k = q)
    (hm : MatchR h n q i crit) (hk : i + k ≤ crit ∨ i = 0) (hocc : Occ h n q') :
    LR n.toArray crit k := by
  apply lr_of_getD hn
  intro t h1 h2 h3
  have e1 := hocc.2 (t + k) h3
  have e2 := hm t (by omega) h2
  rw [e2, ← e1]
  congr 1; omega

/-- (a) after the left part `x[i..crit)` matched at `q` and `x[i-1]` mismatched, no occurrence
starts in `[q - (crit - i), q]` -/
theorem no_occ_left_mismatch {h n : Slice} (hn : n.Valid) {crit q q' i k : Nat}
    (hcore : CoreRev n.toArray crit) (hq : q' + k = q) (hm : MatchR h n q i crit)
    (hi : 0 < i) (hic : i ≤ crit)
    (hne : n.getD (i - 1) ≠ h.getD (q + (i - 1))) (hk : k ≤ crit - i) : ¬ Occ h n q' := by
  intro hocc
  have hcn : crit ≤ n.len := by have := hcore.1; rwa [Slice.toArray_size hn] at this
  by_cases hk0 : k = 0
  · subst hk0
    have := hocc.2 (i - 1) (by omega)
    rw [show q' = q by omega] at this
    exact hne this.symm
  · have hlr := lr_of_occ_rev hn hq hm (Or.inl (by omega)) hocc
    have hper := (hcore.2 k (by omega) hlr).1
    have e1 := per_getD hn hper (i - 1) (by omega)
    have e2 := hocc.2 (i - 1 + k) (by omega)
    rw [show q' + (i - 1 + k) = q + (i - 1) by omega] at e2
    exact hne (by rw [e1, e2])

/-- (b) after a full left match at `q`, no occurrence starts in `(q - s, q)` when `s` is at
most the smallest period -/
theorem no_occ_after_left_match {h n : Slice} (hn : n.Valid) {crit q q' s k : Nat}
    (hcore : CoreRev n.toArray crit) (hq : q' + k = q) (hm : MatchR h n q 0 crit)
    (hmin : ∀ k, Per n.toArray k → s ≤ k) (hk1 : 1 ≤ k) (hks : k < s) :
    ¬ Occ h n q' := by
  intro hocc
  have hlr := lr_of_occ_rev hn hq hm (Or.inr rfl) hocc
  have := hmin k (hcore.2 k hk1 hlr).1
  omega

/-- (c) the period memory: after a full left match at `q`, the bytes `[p, |x|)` match at
`q - p` -/
theorem memory_after_period_rev {h n : Slice} {crit q q' p : Nat} (hq : q' + p = q)
    (hper : ∀ t, t + p < n.len → n.getD t = n.getD (t + p)) (hcp : n.len ≤ crit + p)
    (hm : MatchR h n q 0 crit) : MatchR h n q' p n.len := by
  intro t ht1 ht2
  have := hper (t - p) (by omega)
  rw [show t - p + p = t by omega] at this
  rw [← this, hm (t - p) (Nat.zero_le _) (by omega)]
  congr 1; omega

/-- byte-set skip: if the haystack byte under the needle's first position is not in the set,
no occurrence starts in `(q - |x|, q]` -/
theorem no_occ_byteset_rev {h n : Slice} {bs : ApproximateByteSet} {q q' k : Nat}
    (hq : q' + k = q)
    (hbs : ∀ t, t < n.len → bs.has (n.getD t) = true)
    (hnc : bs.has (h.getD q) = false) (hk : k < n.len) :
    ¬ Occ h n q' := by
  intro hocc
  have e := hocc.2 k hk
  rw [hq] at e
  rw [e, hbs _ hk] at hnc
  cases hnc

/-! ### the comparison loops -/

theorem revCmp_spec (fn : String) (n h : Slice) (pos i : Nat) (c : Ctr)
    (hb : n.len ≤ pos) (hp : pos ≤ h.len) (hi : i ≤ n.len) :
    ∃ i' c', FinderRev.revCmp fn n h pos i c = .ok i' c' ∧ i' ≤ i ∧
      MatchR h n (pos - n.len) i' i ∧
      (0 < i' → n.getD (i' - 1) ≠ h.getD (pos - n.len + (i' - 1))) ∧
      c'.steps = c.steps + (i - i') ∧ c'.loads = c.loads := by
  fun_induction FinderRev.revCmp fn n h pos i generalizing c with
  | case1 i hi0 ih =>
    have e : pos - n.len + i - 1 = pos - n.len + (i - 1) := by omega
    simp only [csub_of_le _ (show 1 ≤ i by omega), csub_of_le _ hb,
      csub_of_le _ (show 1 ≤ pos - n.len + i by omega), pure_bind',
      get_ok n _ (show i - 1 < n.len by omega),
      e, get_ok h _ (show pos - n.len + (i - 1) < h.len by omega)]
    by_cases hab : n.getD (i - 1) = h.getD (pos - n.len + (i - 1))
    · simp only [hab, beq_self_eq_true, if_true, M.bind_run, tick_run]
      obtain ⟨i', c', e, h1, h2, h3, h4, h5⟩ := ih { c with steps := c.steps + 1 } (by omega)
      refine ⟨i', c', e, by omega, ?_, h3, ?_, h5⟩
      · intro t ht1 ht2
        by_cases hti : t = i - 1
        · subst hti; exact hab
        · exact h2 t ht1 (by omega)
      · simp only at h4; omega
    · have : (n.getD (i - 1) == h.getD (pos - n.len + (i - 1))) = false := by simpa using hab
      simp only [this, Bool.false_eq_true, if_false, M.pure_run]
      exact ⟨i, c, rfl, Nat.le_refl _, MatchR.empty _ _ _ _, fun _ => hab, by simp, rfl⟩
  | case2 i hi0 =>
    exact ⟨i, c, rfl, Nat.le_refl _, MatchR.empty _ _ _ _, fun h => absurd h hi0, by simp, rfl⟩

theorem revFwdCmp_spec (fn : String) (n h : Slice) (pos bound j : Nat) (c : Ctr)
    (hb : n.len ≤ pos) (hp : pos ≤ h.len) (hbd : bound ≤ n.len) :
    ∃ j' c', FinderRev.revFwdCmp fn n h pos bound j c = .ok j' c' ∧ j ≤ j' ∧
      (j ≤ bound → j' ≤ bound) ∧ (bound ≤ j → j' = j) ∧ MatchR h n (pos - n.len) j j' ∧
      (j' < bound → n.getD j' ≠ h.getD (pos - n.len + j')) ∧
      c'.steps = c.steps + (j' - j) ∧ c'.loads = c.loads := by
  fun_induction FinderRev.revFwdCmp fn n h pos bound j generalizing c with
  | case1 j hj ih =>
    simp only [csub_of_le _ hb, pure_bind', get_ok n _ (show j < n.len by omega),
      get_ok h _ (show pos - n.len + j < h.len by omega)]
    by_cases hab : n.getD j = h.getD (pos - n.len + j)
    · simp only [hab, beq_self_eq_true, if_true, M.bind_run, tick_run]
      obtain ⟨j', c', e, h1, h2, _, h3, h4, h5, h6⟩ := ih { c with steps := c.steps + 1 }
      refine ⟨j', c', e, by omega, fun _ => h2 (by omega), fun hh => by omega, ?_, h4, ?_, h6⟩
      · intro t ht1 ht2
        by_cases htj : t = j
        · subst htj; exact hab
        · exact h3 t (by omega) ht2
      · simp only at h5; omega
    · have : (n.getD j == h.getD (pos - n.len + j)) = false := by simpa using hab
      simp only [this, Bool.false_eq_true, if_false, M.pure_run]
      exact ⟨j, c, rfl, Nat.le_refl _, fun h => h, fun _ => rfl, MatchR.empty _ _ _ _,
        fun _ => hab, by simp, rfl⟩
  | case2 j hj =>
    exact ⟨j, c, rfl, Nat.le_refl _, fun h => h, fun _ => rfl, MatchR.empty _ _ _ _,
      fun h => absurd h hj, by simp, rfl⟩

/-! ### the outer loops -/

/-- closure properties of an abstract loop invariant `Inv pos` (`pos` the window end) under the
ways the reverse loops move `pos` down (`step` is `period` resp. `shift`), and of `Done` -/
structure LoopInvRev (tw : TwoWay) (needle haystack : Slice) (step : Nat) (Inv : Nat → Prop)
    (Done : Prop) : Prop where
  done : ∀ pos, Inv pos → pos < needle.len → Done
  bs : ∀ pos, Inv pos → needle.len ≤ pos → pos ≤ haystack.len →
    tw.byteset.has (haystack.getD (pos - needle.len)) = false → Inv (pos - needle.len)
  left : ∀ pos i, Inv pos → needle.len ≤ pos → pos ≤ haystack.len → 0 < i →
    i ≤ tw.criticalPos → MatchR haystack needle (pos - needle.len) i tw.criticalPos →
    needle.getD (i - 1) ≠ haystack.getD (pos - needle.len + (i - 1)) →
    Inv (pos - (tw.criticalPos - i + 1))
  right : ∀ pos m, Inv pos → needle.len ≤ pos → pos ≤ haystack.len →
    MatchR haystack needle (pos - needle.len) 0 tw.criticalPos → m < needle.len →
    needle.getD m ≠ haystack.getD (pos - needle.len + m) → Inv (pos - step)

theorem largeLoop_spec_rev (tw : TwoWay) (needle haystack : Slice) (hn : 0 < needle.len)
    (s : Nat) (Inv : Nat → Prop) (Done : Prop)
    (hc1 : 1 ≤ tw.criticalPos) (hcn : tw.criticalPos ≤ needle.len) (hs1 : 1 ≤ s)
    (hsn : s ≤ needle.len) (hI : LoopInvRev tw needle haystack s Inv Done)
    (pos : Nat) (c : Ctr) (hpos : pos ≤ haystack.len) (hinv : Inv pos) :
    ∃ r c', FinderRev.largeLoop tw needle haystack hn s (needle.getD 0) pos c = .ok r c' ∧
      (∀ q, r = some q → Inv (q + needle.len) ∧ Occ haystack needle q) ∧ (r = none → Done) ∧
      (needle.len ≤ 2 * s → c'.steps ≤ c.steps + 3 * pos + needle.len + 1) := by
  fun_induction FinderRev.largeLoop tw needle haystack hn s (needle.getD 0) pos generalizing c with
  | case1 pos h ih1 ih2 ih3 =>
    rw [bind_ok (tick_run 1 c)]
    simp only [csub_of_le _ h, pure_bind',
      get_ok haystack _ (show pos - needle.len < haystack.len by omega)]
    rw [bind_ok (contains_run _ _ _)]
    cases hin : tw.byteset.has (haystack.getD (pos - needle.len)) with
    | false =>
      simp only [Bool.not_false, if_true]
      obtain ⟨r, c', e, h1, h2, h3⟩ := ih1 { c with steps := c.steps + 1 } (by omega)
        (hI.bs _ hinv h hpos hin)
      refine ⟨r, c', e, h1, h2, fun hs => ?_⟩
      have := h3 hs
      simp only at this; omega
    | true =>
      simp only [Bool.not_true, Bool.false_eq_true, if_false]
      obtain ⟨i, c2, e2, hi1, hi2, hi3, hstep2, _⟩ :=
        revCmp_spec "rfind_large_imp" needle haystack pos tw.criticalPos
          { c with steps := c.steps + 1 } h hpos hcn
      rw [bind_ok e2]
      simp only at hstep2
      by_cases hi0 : i > 0
      · simp only [hi0, if_true, csub_of_le _ hi1, pure_bind',
          csub_of_le _ (show tw.criticalPos - i + 1 ≤ pos by omega)]
        obtain ⟨r, c', e, h1, h2, h3⟩ := ih2 (tw.criticalPos - i) c2 (by omega)
          (hI.left pos i hinv h hpos hi0 hi1 hi2 (hi3 hi0))
        refine ⟨r, c', e, h1, h2, fun hs => ?_⟩
        have := h3 hs
        omega
      · have hi00 : i = 0 := by omega
        subst hi00
        have hx0 : (needle.getD 0 != haystack.getD (pos - needle.len)) = false := by
          have := hi2 0 (Nat.le_refl _) (by omega)
          simpa using this
        simp only [hi0, if_false, hx0, Bool.false_eq_true]
        obtain ⟨j, c3, e3, hj1, hj2, _, hj3, hj4, hstep3, _⟩ :=
          revFwdCmp_spec "rfind_large_imp" needle haystack pos needle.len tw.criticalPos c2 h hpos
            (Nat.le_refl _)
        rw [bind_ok e3]
        have hjle := hj2 hcn
        by_cases hjn : j = needle.len
        · simp only [hjn, if_true]
          refine ⟨some (pos - needle.len), c3, rfl, ?_, nofun, fun _ => ?_⟩
          · intro q hq; cases hq
            rw [Nat.sub_add_cancel h]
            exact ⟨hinv, (hi2.append (hjn ▸ hj3)).occ (by omega)⟩
          · omega
        · have hs0 : ¬ s = 0 := by omega
          simp only [hjn, if_false, csub_of_le _ (show s ≤ pos by omega), pure_bind', hs0,
            dite_false]
          obtain ⟨r, c', e, h1, h2, h3⟩ := ih3 hs0 c3 (by omega)
            (hI.right pos j hinv h hpos hi2 (by omega) (hj4 (by omega)))
          refine ⟨r, c', e, h1, h2, fun hs => ?_⟩
          have := h3 hs
          omega
  | case2 pos h =>
    exact ⟨none, c, rfl, nofun, fun _ => hI.done pos hinv (by omega), fun _ => by omega⟩

theorem smallLoop_spec_rev (tw : TwoWay) (needle haystack : Slice) (hn : 0 < needle.len)
    (p : Nat) (Inv : Nat → Prop) (Done : Prop)
    (hc1 : 1 ≤ tw.criticalPos) (hcn : tw.criticalPos ≤ needle.len) (hp1 : 1 ≤ p)
    (hpn : p ≤ needle.len) (hcp : needle.len ≤ tw.criticalPos + p)
    (hper : ∀ t, t + p < needle.len → needle.getD t = needle.getD (t + p))
    (hI : LoopInvRev tw needle haystack p Inv Done)
    (pos shift : Nat) (c : Ctr) (hpos : pos ≤ haystack.len) (hinv : Inv pos)
    (hs1 : 1 ≤ shift) (hsn : shift ≤ needle.len)
    (hmem : needle.len ≤ pos → MatchR haystack needle (pos - needle.len) shift needle.len) :
    ∃ r c', FinderRev.smallLoop tw needle haystack hn p (needle.getD 0) pos shift c = .ok r c' ∧
      (∀ q, r = some q → Inv (q + needle.len) ∧ Occ haystack needle q) ∧ (r = none → Done) ∧
      c'.steps ≤ c.steps + 3 * pos + needle.len + 1 + min tw.criticalPos shift := by
  fun_induction FinderRev.smallLoop tw needle haystack hn p (needle.getD 0) pos shift
    generalizing c with
  | case1 pos shift h ih1 ih2 ih3 =>
    rw [bind_ok (tick_run 1 c)]
    simp only [csub_of_le _ h, pure_bind',
      get_ok haystack _ (show pos - needle.len < haystack.len by omega)]
    rw [bind_ok (contains_run _ _ _)]
    cases hin : tw.byteset.has (haystack.getD (pos - needle.len)) with
    | false =>
      simp only [Bool.not_false, if_true]
      obtain ⟨r, c', e, h1, h2, h3⟩ := ih1 { c with steps := c.steps + 1 } (by omega)
        (hI.bs _ hinv h hpos hin) hn (Nat.le_refl _) (fun _ => MatchR.empty _ _ _ _)
      refine ⟨r, c', e, h1, h2, ?_⟩
      simp only at h3; omega
    | true =>
      simp only [Bool.not_true, Bool.false_eq_true, if_false]
      obtain ⟨i, c2, e2, hi1, hi2, hi3, hstep2, _⟩ :=
        revCmp_spec "rfind_small_imp" needle haystack pos (min tw.criticalPos shift)
          { c with steps := c.steps + 1 } h hpos (by omega)
      rw [bind_ok e2]
      simp only at hstep2
      -- the left part `[i, crit)` matches (compared below `min crit shift`, memory from `shift`)
      have hleft : MatchR haystack needle (pos - needle.len) i tw.criticalPos := by
        intro t ht1 ht2
        by_cases hts : t < min tw.criticalPos shift
        · exact hi2 t ht1 hts
        · exact hmem h t (by omega) (by omega)
      by_cases hi0 : i > 0
      · simp only [hi0, if_true, csub_of_le _ (show i ≤ tw.criticalPos by omega), pure_bind',
          csub_of_le _ (show tw.criticalPos - i + 1 ≤ pos by omega)]
        obtain ⟨r, c', e, h1, h2, h3⟩ := ih2 (tw.criticalPos - i) c2 (by omega)
          (hI.left pos i hinv h hpos hi0 (by omega) hleft (hi3 hi0)) hn (Nat.le_refl _)
          (fun _ => MatchR.empty _ _ _ _)
        refine ⟨r, c', e, h1, h2, ?_⟩
        omega
      · have hi00 : i = 0 := by omega
        subst hi00
        have hx0 : (needle.getD 0 != haystack.getD (pos - needle.len)) = false := by
          have := hleft 0 (Nat.le_refl _) (by omega)
          simpa using this
        simp only [hi0, if_false, hx0, Bool.false_eq_true]
        obtain ⟨j, c3, e3, hj1, hj2, hj2', hj3, hj4, hstep3, _⟩ :=
          revFwdCmp_spec "rfind_small_imp" needle haystack pos shift tw.criticalPos c2 h hpos hsn
        rw [bind_ok e3]
        have hjn : j ≤ needle.len := by
          by_cases hcs : tw.criticalPos ≤ shift
          · have := hj2 hcs; omega
          · have := hj2' (by omega); omega
        by_cases hjs : j ≥ shift
        · simp only [hjs, if_true]
          refine ⟨some (pos - needle.len), c3, rfl, ?_, nofun, by omega⟩
          intro q hq; cases hq
          rw [Nat.sub_add_cancel h]
          refine ⟨hinv, MatchR.occ ?_ (by omega)⟩
          intro t _ ht
          by_cases ht1 : t < tw.criticalPos
          · exact hleft t (Nat.zero_le _) ht1
          · by_cases ht2 : t < j
            · exact hj3 t (by omega) ht2
            · exact hmem h t (by omega) ht
        · have hp0 : ¬ p = 0 := by omega
          simp only [hjs, if_false, csub_of_le _ (show p ≤ pos by omega), pure_bind', hp0,
            dite_false]
          obtain ⟨r, c', e, h1, h2, h3⟩ := ih3 j hp0 c3 (by omega)
            (hI.right pos j hinv h hpos hleft (by omega) (hj4 (by omega))) hp1 hpn
            (fun hge => memory_after_period_rev (q := pos - needle.len) (by omega) hper hcp hleft)
          refine ⟨r, c', e, h1, h2, ?_⟩
          omega
  | case2 pos shift h =>
    exact ⟨none, c, rfl, nofun, fun _ => hI.done pos hinv (by omega), by omega⟩

end Memchr.TwoWay
