/-
The adaptive prefilter state machine (`PrefilterState`) never faults (after the F1 fix), and
the pre-fix version overflows on a state that a search can reach.
-/
import MemchrModel.Model.Prefilter

namespace Memchr.PrefilterState

/-- after the fix `is_effective` returns normally from every state -/
theorem isEffective_total (s : PrefilterState) (c : Ctr) :
    ∃ b s', s.isEffective c = .ok (b, s') c := by
  unfold isEffective
  by_cases h1 : s.isInert = true
  · exact ⟨false, s, by simp [h1]⟩
  · by_cases h2 : s.skipsM1 < MIN_SKIPS
    · exact ⟨true, s, by simp [h1, h2]⟩
    · simp only [h1, h2, Bool.false_eq_true, if_false]
      split
      · exact ⟨true, s, rfl⟩
      · exact ⟨false, { s with skips := 0 }, rfl⟩

/-- F1: the state after `2^29` prefilter calls whose skipped bytes saturated -/
def f1State : PrefilterState := ⟨(2 ^ 29 + 1 : Nat).toUInt32, 0xFFFFFFFF⟩

theorem minSkipBytes_toNat : MIN_SKIP_BYTES.toNat = 8 := by decide

/-- F1 (the defect): before the fix `is_effective` overflowed in that state -/
theorem f1_before_fix (c : Ctr) :
    f1State.isEffectiveBeforeFix c =
      .fault (.overflow "PrefilterState::is_effective: MIN_SKIP_BYTES * self.skips()") := by
  have h1 : f1State.isInert = false := by decide
  have h2 : ¬ (f1State.skipsM1 < MIN_SKIPS) := by decide
  have h3 : f1State.skipsM1.toNat = 2 ^ 29 := by decide
  unfold isEffectiveBeforeFix
  rw [if_neg (by rw [h1]; exact Bool.false_ne_true), if_neg h2]
  simp only [h3, minSkipBytes_toNat]
  rfl

theorem toNat_toUInt32 (n : Nat) (h : n < 2 ^ 32) : n.toUInt32.toNat = n := by
  simp [Nat.toUInt32, UInt32.toNat_ofNat']; omega

theorem satAdd_one (a : UInt32) (h : a.toNat + 1 < 2 ^ 32) : (satAdd a 1).toNat = a.toNat + 1 := by
  unfold satAdd
  have e2 : (1 : UInt32).toNat = 1 := by decide
  rw [if_neg (by rw [e2]; omega), UInt32.toNat_add, e2]
  omega

/-- `k` prefilter calls that each skipped at least `2^32` bytes (a candidate-free haystack of
4 GiB or more, or any mix that saturates `skipped`) from the initial state -/
def afterCalls : Nat → PrefilterState
  | 0 => new
  | k + 1 => (afterCalls k).update (2 ^ 32)

theorem afterCalls_eq (k : Nat) (hk : 1 ≤ k) (hk2 : k + 1 < 2 ^ 32) :
    afterCalls k = ⟨(k + 1).toUInt32, 0xFFFFFFFF⟩ := by
  induction k with
  | zero => omega
  | succ k ih =>
    by_cases h0 : k = 0
    · subst h0; decide
    · have ih' := ih (by omega) (by omega)
      have e1 : (k + 1).toUInt32.toNat = k + 1 := toNat_toUInt32 _ (by omega)
      have e3 : (k + 1 + 1).toUInt32.toNat = k + 1 + 1 := toNat_toUInt32 _ (by omega)
      have hs : satAdd (k + 1).toUInt32 1 = (k + 1 + 1).toUInt32 := by
        apply UInt32.toNat_inj.mp
        rw [satAdd_one _ (by rw [e1]; omega), e1, e3]
      show (afterCalls k).update (2 ^ 32) = _
      rw [ih']
      unfold update
      rw [if_pos (Nat.le_refl _)]
      show PrefilterState.mk (satAdd (k + 1).toUInt32 1) _ = _
      rw [hs]

/-- the overflow state is reached by `2^29` such calls from `PrefilterState::new()` -/
theorem f1_reachable : afterCalls (2 ^ 29) = f1State :=
  afterCalls_eq (2 ^ 29) (by decide) (by decide)

theorem skipsM1_toNat (s : PrefilterState) (k : Nat) (hs : s.skips.toNat = k + 1) :
    s.skipsM1.toNat = k := by
  have e2 : (1 : UInt32).toNat = 1 := by decide
  unfold skipsM1 satSub
  rw [if_neg (by rw [UInt32.lt_iff_toNat_lt, hs, e2]; omega),
    UInt32.toNat_sub_of_le _ _ (by rw [UInt32.le_iff_toNat_le, hs, e2]; omega), hs, e2]
  omega

theorem isInert_false (s : PrefilterState) (k : Nat) (hs : s.skips.toNat = k + 1) :
    s.isInert = false := by
  unfold isInert
  apply beq_false_of_ne
  intro h
  rw [h] at hs
  have : (0 : UInt32).toNat = 0 := by decide
  omega

/-- any non-inert state with fewer than `2^29` recorded skips and saturated `skipped` is judged
effective (and left unchanged) by the pre-fix `is_effective` -/
theorem beforeFix_true (s : PrefilterState) (k : Nat) (hs : s.skips.toNat = k + 1)
    (hsk : s.skipped.toNat = 2 ^ 32 - 1) (hk : k < 2 ^ 29) (c : Ctr) :
    s.isEffectiveBeforeFix c = .ok (true, s) c := by
  unfold isEffectiveBeforeFix
  rw [if_neg (by rw [isInert_false s k hs]; exact Bool.false_ne_true)]
  by_cases h2 : s.skipsM1 < MIN_SKIPS
  · rw [if_pos h2]; rfl
  · rw [if_neg h2]
    simp only [skipsM1_toNat s k hs, minSkipBytes_toNat, hsk]
    rw [if_neg (by omega), if_pos (by omega)]
    rfl

/-- ... and until then `is_effective` kept answering `true` (so the prefilter really was
called again): for every `1 ≤ k < 2^29` the pre-fix version returns `true` unchanged. -/
theorem f1_stays_effective (k : Nat) (hk : 1 ≤ k) (hk2 : k < 2 ^ 29) (c : Ctr) :
    (afterCalls k).isEffectiveBeforeFix c = .ok (true, afterCalls k) c := by
  apply beforeFix_true _ k _ _ hk2
  · rw [afterCalls_eq k hk (by omega)]
    exact toNat_toUInt32 _ (by omega)
  · rw [afterCalls_eq k hk (by omega)]
    show (0xFFFFFFFF : UInt32).toNat = 2 ^ 32 - 1
    decide

/-- the fixed `is_effective` agrees with the pre-fix one wherever the latter does not overflow -/
theorem isEffective_eq_beforeFix (s : PrefilterState) (c : Ctr)
    (h : MIN_SKIP_BYTES.toNat * s.skipsM1.toNat < 2 ^ 32) :
    s.isEffective c = s.isEffectiveBeforeFix c := by
  unfold isEffective isEffectiveBeforeFix
  by_cases h1 : s.isInert = true
  · rw [if_pos h1, if_pos h1]
  · rw [if_neg h1, if_neg h1]
    by_cases h2 : s.skipsM1 < MIN_SKIPS
    · rw [if_pos h2, if_pos h2]
    · rw [if_neg h2, if_neg h2]
      have hmin : min (MIN_SKIP_BYTES.toNat * s.skipsM1.toNat) (2 ^ 32 - 1)
          = MIN_SKIP_BYTES.toNat * s.skipsM1.toNat := by omega
      have hno : ¬ (MIN_SKIP_BYTES.toNat * s.skipsM1.toNat ≥ 2 ^ 32) := by omega
      simp only [hmin, if_neg hno]

end Memchr.PrefilterState
