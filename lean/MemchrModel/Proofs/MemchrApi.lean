/-
C01.raw / C02.raw / C07.raw: every backend's `find_raw` / `rfind_raw` / `count_raw` equals the
naive specification on EVERY window `[start, end)` of every memory region, including
`start >= end` (result `none` / `0`) and windows shorter than a vector.

C09.agree: the slice forms `memchr cfg ..` return the same specified value for every build /
CPU configuration.

The SWAR backend's correctness comes from `Proofs/Swar.lean`; the structure `SwarOk` lists
exactly the five statements used and `swarOk` discharges it.
-/
import MemchrModel.Base.Lemmas
import MemchrModel.Spec.Byte
import MemchrModel.Model.MemchrApi
import MemchrModel.Proofs.MemchrGeneric
import MemchrModel.Proofs.Sensible
import MemchrModel.Proofs.Neon
import MemchrModel.Proofs.SwarLemmas
import MemchrModel.Proofs.Swar

namespace Memchr.Api

open Memchr Memchr.Generic

/-! ### specifications on an address window -/

/-- address of the first needle byte in `[start, end_)` -/
def specFirst (ns : Needles) (m : Mem) (start end_ : Nat) : Option Nat :=
  (Spec.firstIdx ns.confirm (m.window start (end_ - start))).map (start + ·)

/-- address of the last needle byte in `[start, end_)` -/
def specLast (ns : Needles) (m : Mem) (start end_ : Nat) : Option Nat :=
  (Spec.lastIdx ns.confirm (m.window start (end_ - start))).map (start + ·)

/-- number of bytes equal to `n1` in `[start, end_)` -/
def specCount (n1 : UInt8) (m : Mem) (start end_ : Nat) : Nat :=
  Spec.countP (· == n1) (m.window start (end_ - start))

def specFind (ns : Needles) (rev : Bool) (m : Mem) (start end_ : Nat) : Option Nat :=
  if rev then specLast ns m start end_ else specFirst ns m start end_

theorem specFirst_empty (ns : Needles) (m : Mem) {start end_ : Nat} (h : end_ ≤ start) :
    specFirst ns m start end_ = none := by
  have : end_ - start = 0 := by omega
  simp [specFirst, this, Mem.window, Spec.firstIdx]

theorem specLast_empty (ns : Needles) (m : Mem) {start end_ : Nat} (h : end_ ≤ start) :
    specLast ns m start end_ = none := by
  have : end_ - start = 0 := by omega
  simp [specLast, this, Mem.window, Spec.lastIdx]

theorem specCount_empty (n1 : UInt8) (m : Mem) {start end_ : Nat} (h : end_ ≤ start) :
    specCount n1 m start end_ = 0 := by
  have : end_ - start = 0 := by omega
  simp [specCount, this, Mem.window, Spec.countP]

/-! ### what is needed from the SWAR proofs -/

/-- The statements about `src/arch/all/memchr.rs` used here (to be discharged from
`Proofs/Swar.lean`). -/
structure SwarOk : Prop where
  one_find : ∀ (n1 : UInt8) (m : Mem) (start end_ : Nat) (c : Ctr),
    m.base ≤ start → end_ ≤ m.base + m.bytes.size →
    ∃ c', Swar.One.findRaw n1 m start end_ c = .ok (specFirst ⟨n1, []⟩ m start end_) c'
  one_rfind : ∀ (n1 : UInt8) (m : Mem) (start end_ : Nat) (c : Ctr),
    m.base ≤ start → end_ ≤ m.base + m.bytes.size →
    ∃ c', Swar.One.rfindRaw n1 m start end_ c = .ok (specLast ⟨n1, []⟩ m start end_) c'
  one_count : ∀ (n1 : UInt8) (m : Mem) (start end_ : Nat) (c : Ctr),
    m.base ≤ start → end_ ≤ m.base + m.bytes.size →
    ∃ c', Swar.One.countRaw n1 m start end_ c = .ok (specCount n1 m start end_) c'
  multi_find : ∀ (ns : Needles) (m : Mem) (start end_ : Nat) (c : Ctr),
    m.base ≤ start → end_ ≤ m.base + m.bytes.size →
    ∃ c', Swar.Multi.findRaw ns m start end_ c = .ok (specFirst ns m start end_) c'
  multi_rfind : ∀ (ns : Needles) (m : Mem) (start end_ : Nat) (c : Ctr),
    m.base ≤ start → end_ ≤ m.base + m.bytes.size →
    ∃ c', Swar.Multi.rfindRaw ns m start end_ c = .ok (specLast ns m start end_) c'

theorem swarOk : SwarOk where
  one_find := fun n1 m start end_ c hs he =>
    Swar.One.findRaw_correct n1 m start end_ c (fun _ => ⟨hs, he⟩)
  one_rfind := fun n1 m start end_ c hs he =>
    Swar.One.rfindRaw_correct n1 m start end_ c (fun _ => ⟨hs, he⟩)
  one_count := fun n1 m start end_ c hs he =>
    Swar.One.countRaw_correct n1 m start end_ c (fun _ => ⟨hs, he⟩)
  multi_find := fun ns m start end_ c hs he =>
    Swar.Multi.findRaw_correct ns m start end_ c (fun _ => ⟨hs, he⟩)
  multi_rfind := fun ns m start end_ c hs he =>
    Swar.Multi.rfindRaw_correct ns m start end_ c (fun _ => ⟨hs, he⟩)

/-! ### 1a. single-vector wrappers -/

theorem wrapFind_correct (V : VecImpl) (L : Lawful V) (ns : Needles) (m : Mem)
    (start end_ : Nat) (c : Ctr) (hs : m.base ≤ start) (he : end_ ≤ m.base + m.bytes.size) :
    ∃ c', wrapFind V ns m start end_ c = .ok (specFirst ns m start end_) c' := by
  unfold wrapFind
  by_cases hge : start ≥ end_
  · simp only [hge, if_true, M.pure_run, specFirst_empty ns m hge]
    exact ⟨c, rfl⟩
  · have hlt : start < end_ := by omega
    simp only [hge, if_false, bind, pure]
    rw [Mem.distance_ok m _ end_ start hs (by omega) he]
    simp only [pure, M.bind, M.pure]
    by_cases hd : end_ - start < V.bytes
    · simp only [hd, if_true]
      obtain ⟨r, c', hrun, hres⟩ :=
        Swar.fwdByteByByte_spec m ns.confirm start end_ c hs (by omega) he
      exact ⟨c', by rw [hrun, hres.eq_spec]; rfl⟩
    · simp only [hd, if_false]
      exact findRaw_correct V L ns _ _ m start end_ c hs he (by omega)

theorem wrapRfind_correct (V : VecImpl) (L : Lawful V) (ns : Needles) (m : Mem)
    (start end_ : Nat) (c : Ctr) (hs : m.base ≤ start) (he : end_ ≤ m.base + m.bytes.size) :
    ∃ c', wrapRfind V ns m start end_ c = .ok (specLast ns m start end_) c' := by
  unfold wrapRfind
  by_cases hge : start ≥ end_
  · simp only [hge, if_true, M.pure_run, specLast_empty ns m hge]
    exact ⟨c, rfl⟩
  · have hlt : start < end_ := by omega
    simp only [hge, if_false, bind, pure]
    rw [Mem.distance_ok m _ end_ start hs (by omega) he]
    simp only [pure, M.bind, M.pure]
    by_cases hd : end_ - start < V.bytes
    · simp only [hd, if_true]
      obtain ⟨r, c', hrun, hres⟩ :=
        Swar.revByteByByte_spec m ns.confirm start end_ c hs (by omega) he
      exact ⟨c', by rw [hrun, hres.eq_spec]; rfl⟩
    · simp only [hd, if_false]
      exact rfindRaw_correct V L ns _ _ m start end_ c hs he (by omega)

theorem wrapCount_correct (V : VecImpl) (L : Lawful V) (n1 : UInt8) (m : Mem)
    (start end_ : Nat) (c : Ctr) (hs : m.base ≤ start) (he : end_ ≤ m.base + m.bytes.size) :
    ∃ c', wrapCount V n1 m start end_ c = .ok (specCount n1 m start end_) c' := by
  unfold wrapCount
  by_cases hge : start ≥ end_
  · simp only [hge, if_true, M.pure_run, specCount_empty n1 m hge]
    exact ⟨c, rfl⟩
  · have hlt : start < end_ := by omega
    simp only [hge, if_false, bind, pure]
    rw [Mem.distance_ok m _ end_ start hs (by omega) he]
    simp only [pure, M.bind, M.pure]
    by_cases hd : end_ - start < V.bytes
    · simp only [hd, if_true]
      exact countByteByByte_spec m _ start end_ c hs (by omega) he
    · simp only [hd, if_false]
      exact countRaw_correct V L n1 _ _ m start end_ c hs he (by omega)

/-! ### 1b. AVX2 wrapper -/

theorem avx2Find_correct (ns : Needles) (m : Mem)
    (start end_ : Nat) (c : Ctr) (hs : m.base ≤ start) (he : end_ ≤ m.base + m.bytes.size) :
    ∃ c', avx2Find ns m start end_ c = .ok (specFirst ns m start end_) c' := by
  unfold avx2Find
  by_cases hge : start ≥ end_
  · simp only [hge, if_true, M.pure_run, specFirst_empty ns m hge]
    exact ⟨c, rfl⟩
  · have hlt : start < end_ := by omega
    simp only [hge, if_false, bind, pure]
    rw [Mem.distance_ok m _ end_ start hs (by omega) he]
    simp only [pure, M.bind, M.pure]
    by_cases hd : end_ - start < Sensible.avx2.bytes
    · simp only [hd, if_true]
      by_cases hd' : end_ - start < Sensible.sse2.bytes
      · simp only [hd', if_true]
        obtain ⟨r, c', hrun, hres⟩ :=
          Swar.fwdByteByByte_spec m ns.confirm start end_ c hs (by omega) he
        exact ⟨c', by rw [hrun, hres.eq_spec]; rfl⟩
      · simp only [hd', if_false]
        exact findRaw_correct _ Sensible.lawful_sse2 ns _ _ m start end_ c hs he (by omega)
    · simp only [hd, if_false]
      exact findRaw_correct _ Sensible.lawful_avx2 ns _ _ m start end_ c hs he (by omega)

theorem avx2Rfind_correct (ns : Needles) (m : Mem)
    (start end_ : Nat) (c : Ctr) (hs : m.base ≤ start) (he : end_ ≤ m.base + m.bytes.size) :
    ∃ c', avx2Rfind ns m start end_ c = .ok (specLast ns m start end_) c' := by
  unfold avx2Rfind
  by_cases hge : start ≥ end_
  · simp only [hge, if_true, M.pure_run, specLast_empty ns m hge]
    exact ⟨c, rfl⟩
  · have hlt : start < end_ := by omega
    simp only [hge, if_false, bind, pure]
    rw [Mem.distance_ok m _ end_ start hs (by omega) he]
    simp only [pure, M.bind, M.pure]
    by_cases hd : end_ - start < Sensible.avx2.bytes
    · simp only [hd, if_true]
      by_cases hd' : end_ - start < Sensible.sse2.bytes
      · simp only [hd', if_true]
        obtain ⟨r, c', hrun, hres⟩ :=
          Swar.revByteByByte_spec m ns.confirm start end_ c hs (by omega) he
        exact ⟨c', by rw [hrun, hres.eq_spec]; rfl⟩
      · simp only [hd', if_false]
        exact rfindRaw_correct _ Sensible.lawful_sse2 ns _ _ m start end_ c hs he (by omega)
    · simp only [hd, if_false]
      exact rfindRaw_correct _ Sensible.lawful_avx2 ns _ _ m start end_ c hs he (by omega)

theorem avx2Count_correct (n1 : UInt8) (m : Mem)
    (start end_ : Nat) (c : Ctr) (hs : m.base ≤ start) (he : end_ ≤ m.base + m.bytes.size) :
    ∃ c', avx2Count n1 m start end_ c = .ok (specCount n1 m start end_) c' := by
  unfold avx2Count
  by_cases hge : start ≥ end_
  · simp only [hge, if_true, M.pure_run, specCount_empty n1 m hge]
    exact ⟨c, rfl⟩
  · have hlt : start < end_ := by omega
    simp only [hge, if_false, bind, pure]
    rw [Mem.distance_ok m _ end_ start hs (by omega) he]
    simp only [pure, M.bind, M.pure]
    by_cases hd : end_ - start < Sensible.avx2.bytes
    · simp only [hd, if_true]
      by_cases hd' : end_ - start < Sensible.sse2.bytes
      · simp only [hd', if_true]
        exact countByteByByte_spec m _ start end_ c hs (by omega) he
      · simp only [hd', if_false]
        exact countRaw_correct _ Sensible.lawful_sse2 n1 _ _ m start end_ c hs he (by omega)
    · simp only [hd, if_false]
      exact countRaw_correct _ Sensible.lawful_avx2 n1 _ _ m start end_ c hs he (by omega)

/-! ### 1c. every backend -/

theorem swarFind_correct (ns : Needles) (rev : Bool) (m : Mem)
    (start end_ : Nat) (c : Ctr) (hs : m.base ≤ start) (he : end_ ≤ m.base + m.bytes.size) :
    ∃ c', swarFind ns rev m start end_ c = .ok (specFind ns rev m start end_) c' := by
  obtain ⟨n1, rest⟩ := ns
  unfold swarFind specFind
  cases rest with
  | nil =>
    cases rev with
    | false => exact swarOk.one_find n1 m start end_ c hs he
    | true => exact swarOk.one_rfind n1 m start end_ c hs he
  | cons n2 rest =>
    cases rev with
    | false => exact swarOk.multi_find _ m start end_ c hs he
    | true => exact swarOk.multi_rfind _ m start end_ c hs he

/-- C01.raw (`rev = false`) and C02.raw (`rev = true`): every backend's `find_raw` /
`rfind_raw` returns exactly the first / last needle position of the window, without fault, for
every window inside the region (also empty, reversed and sub-vector windows). -/
theorem rawFind_correct (b : Backend) (ns : Needles) (rev : Bool) (m : Mem)
    (start end_ : Nat) (c : Ctr) (hs : m.base ≤ start) (he : end_ ≤ m.base + m.bytes.size) :
    ∃ c', rawFind b ns rev m start end_ c = .ok (specFind ns rev m start end_) c' := by
  cases b with
  | swar => exact swarFind_correct ns rev m start end_ c hs he
  | avx2 =>
    cases rev with
    | false => exact avx2Find_correct ns m start end_ c hs he
    | true => exact avx2Rfind_correct ns m start end_ c hs he
  | sse2 =>
    cases rev with
    | false => exact wrapFind_correct _ Sensible.lawful_sse2 ns m start end_ c hs he
    | true => exact wrapRfind_correct _ Sensible.lawful_sse2 ns m start end_ c hs he
  | neon =>
    cases rev with
    | false => exact wrapFind_correct _ Neon.lawful ns m start end_ c hs he
    | true => exact wrapRfind_correct _ Neon.lawful ns m start end_ c hs he
  | simd128 =>
    cases rev with
    | false => exact wrapFind_correct _ Sensible.lawful_simd128 ns m start end_ c hs he
    | true => exact wrapRfind_correct _ Sensible.lawful_simd128 ns m start end_ c hs he

/-- C07.raw -/
theorem rawCount_correct (b : Backend) (n1 : UInt8) (m : Mem)
    (start end_ : Nat) (c : Ctr) (hs : m.base ≤ start) (he : end_ ≤ m.base + m.bytes.size) :
    ∃ c', rawCount b n1 m start end_ c = .ok (specCount n1 m start end_) c' := by
  cases b with
  | swar => exact swarOk.one_count n1 m start end_ c hs he
  | avx2 => exact avx2Count_correct n1 m start end_ c hs he
  | sse2 => exact wrapCount_correct _ Sensible.lawful_sse2 n1 m start end_ c hs he
  | neon => exact wrapCount_correct _ Neon.lawful n1 m start end_ c hs he
  | simd128 => exact wrapCount_correct _ Sensible.lawful_simd128 n1 m start end_ c hs he

/-- C01.raw with the specification spelled out -/
theorem C01_raw (b : Backend) (ns : Needles) (m : Mem) (start end_ : Nat) (c : Ctr)
    (hs : m.base ≤ start) (he : end_ ≤ m.base + m.bytes.size) :
    ∃ c', rawFind b ns false m start end_ c =
      .ok ((Spec.firstIdx ns.confirm (m.window start (end_ - start))).map (start + ·)) c' :=
  rawFind_correct b ns false m start end_ c hs he

/-- C02.raw with the specification spelled out -/
theorem C02_raw (b : Backend) (ns : Needles) (m : Mem) (start end_ : Nat) (c : Ctr)
    (hs : m.base ≤ start) (he : end_ ≤ m.base + m.bytes.size) :
    ∃ c', rawFind b ns true m start end_ c =
      .ok ((Spec.lastIdx ns.confirm (m.window start (end_ - start))).map (start + ·)) c' :=
  rawFind_correct b ns true m start end_ c hs he

/-- C07.raw with the specification spelled out -/
theorem C07_raw (b : Backend) (n1 : UInt8) (m : Mem) (start end_ : Nat) (c : Ctr)
    (hs : m.base ≤ start) (he : end_ ≤ m.base + m.bytes.size) :
    ∃ c', rawCount b n1 m start end_ c =
      .ok (Spec.countP (· == n1) (m.window start (end_ - start))) c' :=
  rawCount_correct b n1 m start end_ c hs he

/-- a reversed window needs no hypothesis at all: nothing is dereferenced -/
theorem rawFind_reversed (b : Backend) (ns : Needles) (rev : Bool) (m : Mem) (start end_ : Nat)
    (c : Ctr) (h : end_ ≤ start) : rawFind b ns rev m start end_ c = .ok none c := by
  have hge : start ≥ end_ := h
  cases b <;> cases rev <;>
    simp [rawFind, wrapFind, wrapRfind, avx2Find, avx2Rfind, swarFind, Swar.One.findRaw,
      Swar.One.rfindRaw, Swar.Multi.findRaw, Swar.Multi.rfindRaw, hge] <;>
    (generalize ns.rest = r; cases r <;> rfl)

/-- hypotheses are satisfiable: a 40-byte region at an odd base address, a 5-byte window -/
example : ∃ (m : Mem) (start end_ : Nat), m.base ≤ start ∧ end_ ≤ m.base + m.bytes.size ∧
    start < end_ :=
  ⟨⟨0, 1001, Array.replicate 40 0⟩, 1003, 1008, by decide, by simp, by decide⟩

/-! ### 1d. dispatch -/

/-- the monadic dispatch (with the `debug_assert!(is_available())` of `defraw!`) runs the
backend chosen by `select` -/
theorem memchrRaw_eq_select (cfg : Cfg) (ns : Needles) (rev : Bool) (m : Mem) (start end_ : Nat) :
    memchrRaw cfg ns rev m start end_ = rawFind (select cfg) ns rev m start end_ := by
  unfold memchrRaw select
  cases harch : cfg.arch with
  | x86_64 => rfl
  | wasm32simd128 =>
    have : simd128Available cfg = true := by simp [simd128Available, harch]
    simp only [this, dbgAssert_true]
    rfl
  | aarch64 =>
    by_cases hn : cfg.ctNeon = true
    · have : neonAvailable cfg = true := by simp [neonAvailable, hn]
      simp only [hn, if_true, this, dbgAssert_true]
      rfl
    · simp only [hn]
      rfl
  | other => rfl

theorem countRaw_eq_select (cfg : Cfg) (n1 : UInt8) (m : Mem) (start end_ : Nat) :
    countRaw cfg n1 m start end_ = rawCount (select cfg) n1 m start end_ := by
  unfold countRaw select
  cases harch : cfg.arch with
  | x86_64 => rfl
  | wasm32simd128 =>
    have : simd128Available cfg = true := by simp [simd128Available, harch]
    simp only [this, dbgAssert_true]
    rfl
  | aarch64 =>
    by_cases hn : cfg.ctNeon = true
    · have : neonAvailable cfg = true := by simp [neonAvailable, hn]
      simp only [hn, if_true, this, dbgAssert_true]
      rfl
    · simp only [hn]
      rfl
  | other => rfl

/-- `select` never picks an implementation whose `is_available()` is false (this is the
`#[target_feature]` safety obligation of `unsafe_ifunc!` / `defraw!`). -/
theorem select_available (cfg : Cfg) :
    (select cfg = .avx2 → cfg.arch = .x86_64 ∧ avx2Available cfg = true) ∧
    (select cfg = .sse2 → cfg.arch = .x86_64 ∧ sse2Available cfg = true) ∧
    (select cfg = .neon → cfg.arch = .aarch64 ∧ neonAvailable cfg = true) ∧
    (select cfg = .simd128 → cfg.arch = .wasm32simd128 ∧ simd128Available cfg = true) := by
  unfold select x86Detect
  cases harch : cfg.arch <;> simp only [] <;>
    (repeat' split) <;> simp_all [neonAvailable, simd128Available]

/-! ### 1e. slice forms -/

/-- index (relative to the slice) of the first / last needle byte of the slice -/
def specIdx (ns : Needles) (rev : Bool) (hay : Slice) : Option Nat :=
  if rev then Spec.lastIdx ns.confirm (hay.mem.window hay.ptr hay.len)
  else Spec.firstIdx ns.confirm (hay.mem.window hay.ptr hay.len)

theorem specIdx_lt {ns : Needles} {rev : Bool} {hay : Slice} {i : Nat}
    (h : specIdx ns rev hay = some i) : i < hay.len := by
  unfold specIdx at h
  cases rev with
  | false =>
    simp only [Bool.false_eq_true, if_false] at h
    obtain ⟨hl, _⟩ := Spec.firstIdx_eq_some_iff.mp h
    simpa using hl
  | true =>
    simp only [if_true] at h
    obtain ⟨hl, _⟩ := Spec.lastIdx_eq_some_iff.mp h
    simpa using hl

theorem specFind_slice (ns : Needles) (rev : Bool) (hay : Slice) :
    specFind ns rev hay.mem hay.ptr (hay.ptr + hay.len) =
      (specIdx ns rev hay).map (hay.ptr + ·) := by
  unfold specFind specIdx specFirst specLast
  rw [Nat.add_sub_cancel_left]
  cases rev <;> simp

theorem searchSliceWithRaw_correct (hay : Slice) (hv : hay.Valid)
    (f : Nat → Nat → M (Option Nat)) (r : Option Nat) (c : Ctr)
    (hf : ∃ c', f hay.ptr (hay.ptr + hay.len) c = .ok (r.map (hay.ptr + ·)) c')
    (hr : ∀ i, r = some i → i < hay.len) :
    ∃ c', searchSliceWithRaw hay f c = .ok r c' := by
  obtain ⟨c', hf⟩ := hf
  have hv' : hay.off + hay.len ≤ hay.mem.bytes.size := hv
  unfold searchSliceWithRaw
  simp only [bind, pure]
  rw [Mem.padd_ok hay.mem _ hay.ptr hay.len (by simp [Slice.ptr]) (by simp [Slice.ptr]; omega)]
  simp only [pure, M.bind, M.pure, hf]
  cases r with
  | none => exact ⟨c', rfl⟩
  | some i =>
    have hi := hr i rfl
    simp only [Option.map_some]
    rw [Mem.distance_ok hay.mem _ (hay.ptr + i) hay.ptr (by simp [Slice.ptr]) (by omega)
      (by simp [Slice.ptr]; omega)]
    have e : hay.ptr + i - hay.ptr = i := by omega
    rw [e]
    exact ⟨c', rfl⟩

/-- the wrapper modules' `find` / `rfind` on a slice -/
theorem sliceFind_correct (b : Backend) (ns : Needles) (rev : Bool) (hay : Slice)
    (hv : hay.Valid) (c : Ctr) :
    ∃ c', sliceFind b ns rev hay c = .ok (specIdx ns rev hay) c' := by
  have hv' : hay.off + hay.len ≤ hay.mem.bytes.size := hv
  apply searchSliceWithRaw_correct hay hv _ _ c
  · rw [← specFind_slice]
    exact rawFind_correct b ns rev hay.mem _ _ c (by simp [Slice.ptr])
      (by simp [Slice.ptr]; omega)
  · intro i hi; exact specIdx_lt hi

theorem sliceCount_correct (b : Backend) (n1 : UInt8) (hay : Slice)
    (hv : hay.Valid) (c : Ctr) :
    ∃ c', sliceCount b n1 hay c =
      .ok (Spec.countP (· == n1) (hay.mem.window hay.ptr hay.len)) c' := by
  have hv' : hay.off + hay.len ≤ hay.mem.bytes.size := hv
  unfold sliceCount
  simp only [bind]
  rw [Mem.padd_ok hay.mem _ hay.ptr hay.len (by simp [Slice.ptr]) (by simp [Slice.ptr]; omega)]
  simp only [pure, M.bind, M.pure]
  have := rawCount_correct b n1 hay.mem hay.ptr (hay.ptr + hay.len) c (by simp [Slice.ptr])
    (by simp [Slice.ptr]; omega)
  unfold specCount at this
  rw [Nat.add_sub_cancel_left] at this
  exact this

/-- the public `memchr` / `memrchr` / `memchr2` / ... for a given configuration -/
theorem memchr_correct (cfg : Cfg) (ns : Needles) (rev : Bool) (hay : Slice)
    (hv : hay.Valid) (c : Ctr) :
    ∃ c', memchr cfg ns rev hay c = .ok (specIdx ns rev hay) c' := by
  have h := sliceFind_correct (select cfg) ns rev hay hv c
  unfold sliceFind at h
  unfold memchr
  have e : memchrRaw cfg ns rev hay.mem = rawFind (select cfg) ns rev hay.mem := by
    funext s e; exact memchrRaw_eq_select cfg ns rev hay.mem s e
  rw [e]; exact h

theorem count_correct (cfg : Cfg) (n1 : UInt8) (hay : Slice)
    (hv : hay.Valid) (c : Ctr) :
    ∃ c', count cfg n1 hay c =
      .ok (Spec.countP (· == n1) (hay.mem.window hay.ptr hay.len)) c' := by
  have hv' : hay.off + hay.len ≤ hay.mem.bytes.size := hv
  unfold count Iter.count Iter.new
  simp only []
  rw [countRaw_eq_select]
  have := rawCount_correct (select cfg) n1 hay.mem hay.ptr (hay.ptr + hay.len) c
    (by simp [Slice.ptr]) (by simp [Slice.ptr]; omega)
  unfold specCount at this
  rw [Nat.add_sub_cancel_left] at this
  exact this

/-- C09.agree: any two build / CPU configurations return the same value (the specified one,
an index `< hay.len` when present), for forward and reverse search with 1-3 (indeed any
number of) needles, on every valid slice; none of them faults. -/
theorem C09_agree (cfg1 cfg2 : Cfg) (ns : Needles) (rev : Bool) (hay : Slice)
    (hv : hay.Valid) (c1 c2 : Ctr) :
    ∃ v c1' c2', memchr cfg1 ns rev hay c1 = .ok v c1' ∧ memchr cfg2 ns rev hay c2 = .ok v c2' ∧
      v = specIdx ns rev hay ∧ ∀ i, v = some i → i < hay.len := by
  obtain ⟨c1', h1⟩ := memchr_correct cfg1 ns rev hay hv c1
  obtain ⟨c2', h2⟩ := memchr_correct cfg2 ns rev hay hv c2
  exact ⟨_, c1', c2', h1, h2, rfl, fun i hi => specIdx_lt hi⟩

theorem C09_agree_count (cfg1 cfg2 : Cfg) (n1 : UInt8) (hay : Slice)
    (hv : hay.Valid) (c1 c2 : Ctr) :
    ∃ v c1' c2', count cfg1 n1 hay c1 = .ok v c1' ∧ count cfg2 n1 hay c2 = .ok v c2' ∧
      v = Spec.countP (· == n1) (hay.mem.window hay.ptr hay.len) := by
  obtain ⟨c1', h1⟩ := count_correct cfg1 n1 hay hv c1
  obtain ⟨c2', h2⟩ := count_correct cfg2 n1 hay hv c2
  exact ⟨_, c1', c2', h1, h2, rfl⟩

/-- a valid, non-trivial slice: bytes 3..13 of a 40-byte region at an odd address -/
example : (⟨⟨0, 1001, Array.replicate 40 0⟩, 3, 10⟩ : Slice).Valid := by
  simp [Slice.Valid]

end Memchr.Api

#print axioms Memchr.Api.swarOk
#print axioms Memchr.Api.rawFind_correct
#print axioms Memchr.Api.rawCount_correct
#print axioms Memchr.Api.C01_raw
#print axioms Memchr.Api.C02_raw
#print axioms Memchr.Api.C07_raw
#print axioms Memchr.Api.memchrRaw_eq_select
#print axioms Memchr.Api.select_available
#print axioms Memchr.Api.sliceFind_correct
#print axioms Memchr.Api.sliceCount_correct
#print axioms Memchr.Api.memchr_correct
#print axioms Memchr.Api.count_correct
#print axioms Memchr.Api.C09_agree
#print axioms Memchr.Api.C09_agree_count
