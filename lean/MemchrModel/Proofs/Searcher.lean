/-
The substring meta searcher (`Model/Searcher.lean`): C03 / C04 at the `Searcher` level, C11 for
every prefilter strategy `Searcher::new` can build, C09 / C10 at the `Searcher` level.

What is assumed and where.  Rabin-Karp (`Proofs/RabinKarp.lean`), the packed-pair searchers
(`Proofs/PackedPair.lean`), pair selection (`Proofs/Pair.lean`), the portable packed-pair
prefilter (`Proofs/PairFallback.lean`; its loop is re-proved here without the cost part, since
no cost bound for the dispatching `memchr` is available) and the top-level `memchr` /
`memrchr` (`Proofs/MemchrApi.lean`: `memchr_correct`) are used as proved theorems.  The only
hypothesis is `TwoWayOk` (below): what is needed from Two-Way.  Theorems that take it are
named `..._partial`; the others are unconditional.
-/
import MemchrModel.Model.Searcher
import MemchrModel.Proofs.MemchrApi
import MemchrModel.Proofs.PackedPair
import MemchrModel.Proofs.PairFallback
import MemchrModel.Proofs.RabinKarp
import MemchrModel.Proofs.TwoWayLemmas
import MemchrModel.Proofs.Neon
import MemchrModel.Proofs.Swar

namespace Memchr.Memmem

open Memchr
open Memchr.TwoWay (bind_ok pure_bind' get_ok Occ occ_iff)

/-! ### the top-level `memchr` / `memrchr` -/

theorem confirm_one (b : UInt8) : (⟨b, []⟩ : Needles).confirm = fun x => x == b :=
  Swar.One.confirm_eq b

theorem topMemchr_ok (cfg : Api.Cfg) (b : UInt8) (hay : Slice) (hv : hay.Valid) (c : Ctr) :
    ∃ c', topMemchr cfg b hay c = .ok (Spec.firstIdx (· == b) hay.toList) c' := by
  obtain ⟨c', h⟩ := Api.memchr_correct cfg ⟨b, []⟩ false hay hv c
  refine ⟨c', ?_⟩
  unfold topMemchr
  rw [h]
  simp only [Api.specIdx, Bool.false_eq_true, if_false, confirm_one, Slice.toList_eq_window]

theorem topMemrchr_ok (cfg : Api.Cfg) (b : UInt8) (hay : Slice) (hv : hay.Valid) (c : Ctr) :
    ∃ c', topMemrchr cfg b hay c = .ok (Spec.lastIdx (· == b) hay.toList) c' := by
  obtain ⟨c', h⟩ := Api.memchr_correct cfg ⟨b, []⟩ true hay hv c
  refine ⟨c', ?_⟩
  unfold topMemrchr
  rw [h]
  simp only [Api.specIdx, if_true, confirm_one, Slice.toList_eq_window]

/-- `arch::all::memchr::One::new(b).find(haystack)` (the portable SWAR `One`) -/
theorem swarOneFind_ok (b : UInt8) (hay : Slice) (hv : hay.Valid) (c : Ctr) :
    ∃ c', Api.searchSliceWithRaw hay (Swar.One.findRaw b hay.mem) c =
      .ok (Spec.firstIdx (· == b) hay.toList) c' := by
  obtain ⟨c', h⟩ := Api.sliceFind_correct .swar ⟨b, []⟩ false hay hv c
  refine ⟨c', ?_⟩
  have e : Api.sliceFind .swar ⟨b, []⟩ false hay =
      Api.searchSliceWithRaw hay (Swar.One.findRaw b hay.mem) := rfl
  rw [← e, h]
  simp only [Api.specIdx, Bool.false_eq_true, if_false, confirm_one, Slice.toList_eq_window]

/-! ### facts about the specification -/

theorem same_bytes {n n0 : Slice} (hb : n.toList = n0.toList) :
    n.len = n0.len ∧ ∀ i, i < n.len → n.getD i = n0.getD i := by
  have hl : n.len = n0.len := by simpa using congrArg List.length hb
  refine ⟨hl, fun i hi => ?_⟩
  have h1 := Slice.toList_getElem? n i hi
  have h2 := Slice.toList_getElem? n0 i (by omega)
  rw [hb, h2] at h1
  exact (Option.some.inj h1).symm

theorem toArray_congr {n n0 : Slice} (hn : n.Valid) (hn0 : n0.Valid) (hb : n.toList = n0.toList) :
    n.toArray = n0.toArray := by
  apply Array.ext'
  rw [Slice.toArray_toList hn, Slice.toArray_toList hn0, hb]

/-- a needle longer than the haystack does not occur -/
theorem not_occAt_of_short {hay needle : Array UInt8} (h : hay.size < needle.size) (q : Nat) :
    ¬ Spec.OccAt hay needle q := fun ho => by have := ho.1; omega

theorem leftmost_of_short {hay needle : Array UInt8} (h : hay.size < needle.size) :
    Spec.leftmost hay needle = none :=
  (Spec.leftmost_eq_none_iff _ _).mpr (not_occAt_of_short h)

theorem rightmost_of_short {hay needle : Array UInt8} (h : hay.size < needle.size) :
    Spec.rightmost hay needle = none :=
  (Spec.rightmost_eq_none_iff _ _).mpr (not_occAt_of_short h)

theorem occAt_empty {hay needle : Array UInt8} (h : needle.size = 0) (q : Nat) :
    Spec.OccAt hay needle q ↔ q ≤ hay.size := by
  unfold Spec.OccAt
  rw [h]
  constructor
  · rintro ⟨h1, _⟩; omega
  · intro h1; exact ⟨by omega, fun k hk => by omega⟩

/-- the empty needle matches at offset 0 of every haystack, including the empty one -/
theorem leftmost_empty {hay needle : Array UInt8} (h : needle.size = 0) :
    Spec.leftmost hay needle = some 0 :=
  (Spec.leftmost_eq_some_iff _ _ _).mpr ⟨(occAt_empty h 0).mpr (Nat.zero_le _), fun j hj => by omega⟩

/-- the empty needle's last match is at `haystack.len()` -/
theorem rightmost_empty {hay needle : Array UInt8} (h : needle.size = 0) :
    Spec.rightmost hay needle = some hay.size :=
  (Spec.rightmost_eq_some_iff _ _ _).mpr
    ⟨(occAt_empty h _).mpr (Nat.le_refl _), fun j hj ho => by
      have := (occAt_empty h j).mp ho; omega⟩

/-- occurrences of a one byte needle -/
theorem occ_one {hay needle : Slice} (h1 : needle.len = 1) (q : Nat) :
    Occ hay needle q ↔ q < hay.len ∧ hay.getD q = needle.getD 0 := by
  unfold Occ
  rw [h1]
  constructor
  · rintro ⟨a, b⟩
    exact ⟨by omega, by simpa using b 0 (by omega)⟩
  · rintro ⟨a, b⟩
    refine ⟨by omega, fun t ht => ?_⟩
    have : t = 0 := by omega
    subst this
    simpa using b

theorem leftmost_one {hay needle : Slice} (hh : hay.Valid) (hn : needle.Valid)
    (h1 : needle.len = 1) :
    Spec.leftmost hay.toArray needle.toArray =
      Spec.firstIdx (· == needle.getD 0) hay.toList := by
  cases hf : Spec.firstIdx (· == needle.getD 0) hay.toList with
  | none =>
    rw [Spec.leftmost_eq_none_iff]
    intro j ho
    rw [occ_iff hh hn, occ_one h1] at ho
    rw [Spec.firstIdx_eq_none_iff] at hf
    have hj : j < hay.toList.length := by simpa using ho.1
    have := hf _ (List.getElem_mem hj)
    rw [Slice.toList_getElem] at this
    simp [ho.2] at this
  | some k =>
    rw [Spec.firstIdx_eq_some_iff] at hf
    obtain ⟨hk, hp, hnk⟩ := hf
    rw [Spec.leftmost_eq_some_iff]
    refine ⟨?_, fun j hj ho => ?_⟩
    · rw [occ_iff hh hn, occ_one h1]
      rw [Slice.toList_getElem] at hp
      exact ⟨by simpa using hk, by simpa using hp⟩
    · rw [occ_iff hh hn, occ_one h1] at ho
      have := hnk j hj
      rw [Slice.toList_getElem] at this
      simp [ho.2] at this

theorem rightmost_one {hay needle : Slice} (hh : hay.Valid) (hn : needle.Valid)
    (h1 : needle.len = 1) :
    Spec.rightmost hay.toArray needle.toArray =
      Spec.lastIdx (· == needle.getD 0) hay.toList := by
  cases hf : Spec.lastIdx (· == needle.getD 0) hay.toList with
  | none =>
    rw [Spec.rightmost_eq_none_iff]
    intro j ho
    rw [occ_iff hh hn, occ_one h1] at ho
    rw [Spec.lastIdx_eq_none_iff] at hf
    have hj : j < hay.toList.length := by simpa using ho.1
    have := hf _ (List.getElem_mem hj)
    rw [Slice.toList_getElem] at this
    simp [ho.2] at this
  | some k =>
    rw [Spec.lastIdx_eq_some_iff] at hf
    obtain ⟨hk, hp, hnk⟩ := hf
    rw [Spec.rightmost_eq_some_iff]
    refine ⟨?_, fun j hj ho => ?_⟩
    · rw [occ_iff hh hn, occ_one h1]
      rw [Slice.toList_getElem] at hp
      exact ⟨by simpa using hk, by simpa using hp⟩
    · rw [occ_iff hh hn, occ_one h1] at ho
      have := hnk j (by simpa using ho.1) hj
      rw [Slice.toList_getElem] at this
      simp [ho.2] at this

/-! ### C11: what Two-Way needs from a prefilter strategy -/

/-- A prefilter strategy for the needle bytes `x` is sound: on every valid haystack slice it
returns normally, and every occurrence `q` of the needle forces an answer `Some(a)` with
`a <= q` (so `None` means "no occurrence", and the search may resume at `a`). -/
def PreSound (x : Array UInt8) (strat : Slice → M (Option Nat)) : Prop :=
  ∀ (hay : Slice), hay.Valid → ∀ c, ∃ r c', strat hay c = .ok r c' ∧
    ∀ q, Spec.OccAt hay.toArray x q → ∃ a, r = some a ∧ a ≤ q

theorem PreSound.none_sound {x : Array UInt8} {strat : Slice → M (Option Nat)}
    (h : PreSound x strat) (hay : Slice) (hv : hay.Valid) (c c' : Ctr)
    (hr : strat hay c = .ok none c') (q : Nat) : ¬ Spec.OccAt hay.toArray x q := fun ho => by
  obtain ⟨r, c'', e, hs⟩ := h hay hv c
  rw [hr] at e
  cases e
  obtain ⟨a, ha, _⟩ := hs q ho
  cases ha

/-! #### the portable packed-pair prefilter with a `memchr` that is only known to return the
right value (no cost bound) -/

/-- the external `memchr` returns the offset of the first `b` and never faults -/
def MemchrVal (memchr : UInt8 → Slice → M (Option Nat)) : Prop :=
  ∀ (b : UInt8) (s : Slice) (c : Ctr), s.Valid →
    ∃ c', memchr b s c = .ok (Spec.firstIdx (· == b) s.toList) c'

theorem topMemchr_val (cfg : Api.Cfg) : MemchrVal (topMemchr cfg) :=
  fun b s c hv => topMemchr_ok cfg b s hv c

open Fallback in
/-- `Fallback.findPrefilterLoop_correct` without the cost part -/
theorem fallbackLoop_val {memchr : UInt8 → Slice → M (Option Nat)}
    (hm : MemchrVal memchr) (f : Fallback.Finder) (hay : Slice) (hv : hay.Valid)
    (index1 index2 i : Nat) (c : Ctr) (hi : i ≤ hay.len)
    (hinv : ∀ q, Cand f.byte1 f.byte2 index1 index2 hay q → i ≤ q + index1) :
    ∃ r c', findPrefilterLoop memchr f hay index1 index2 i c = .ok r c' ∧
      PreRes f.byte1 f.byte2 index1 index2 hay r := by
  fun_induction findPrefilterLoop memchr f hay index1 index2 i generalizing c with
  | case2 i hgt => exact absurd hi hgt
  | case1 i _ ihA =>
    obtain ⟨c2, hmem⟩ := hm f.byte1 ⟨hay.mem, hay.off + i, hay.len - i⟩
      { c with steps := c.steps + 1 } (drop_valid hv hi)
    simp only [bind, drop_ok hay _ hi, pure]
    have hrun : ∀ (g : Option Nat → M (Option Nat)),
        M.bind (tick 1) (fun _ => M.bind (M.pure (⟨hay.mem, hay.off + i, hay.len - i⟩ : Slice))
          (fun sub => M.bind (memchr f.byte1 sub) g)) c =
        g (Spec.firstIdx (· == f.byte1) (Slice.toList ⟨hay.mem, hay.off + i, hay.len - i⟩)) c2 := by
      intro g
      simp only [M.bind, tick_run, M.pure, hmem]
    rw [hrun]
    cases hfi : Spec.firstIdx (· == f.byte1) (Slice.toList ⟨hay.mem, hay.off + i, hay.len - i⟩) with
    | none =>
      have hno := firstIdx_drop_none hfi
      refine ⟨none, c2, rfl, ?_⟩
      intro q hq
      exact hno (q + index1) (hinv q hq) hq.1 hq.2.1
    | some k =>
      obtain ⟨hk, hbyte, hfirst⟩ := firstIdx_drop_some hfi
      have hge : ∀ q, Cand f.byte1 f.byte2 index1 index2 hay q → i + k ≤ q + index1 := by
        intro q hq
        have h1 := hinv q hq
        by_cases hlt : q + index1 < i + k
        · have := hfirst (q + index1 - i) (by omega)
          have e' : i + (q + index1 - i) = q + index1 := by omega
          rw [e'] at this
          exact absurd hq.2.1 this
        · omega
      have hcont : (∀ q, Cand f.byte1 f.byte2 index1 index2 hay q → q + index1 ≠ i + k) →
          ∃ r c', findPrefilterLoop memchr f hay index1 index2 (i + k + 1) c2 = .ok r c' ∧
            PreRes f.byte1 f.byte2 index1 index2 hay r := by
        intro hne
        exact ihA k c2 (by omega) (fun q hq => by
          have := hge q hq; have := hne q hq; omega)
      dsimp only
      by_cases hsub : i + k < index1
      · simp only [hsub, if_true]
        exact hcont (fun q hq => by omega)
      · simp only [hsub, if_false, get?_eq]
        by_cases hin : i + k - index1 + index2 < hay.len
        · simp only [hin, if_true]
          by_cases hb : hay.getD (i + k - index1 + index2) = f.byte2
          · have hbne : (hay.getD (i + k - index1 + index2) != f.byte2) = false := by
              simp [hb]
            simp only [hbne, Bool.false_eq_true, if_false]
            refine ⟨some (i + k - index1), c2, rfl, ⟨?_, ?_, hin, hb⟩, ?_⟩
            · omega
            · have e' : i + k - index1 + index1 = i + k := by omega
              rw [e']; exact hbyte
            · intro q hq
              have := hge q hq; omega
          · have hbne : (hay.getD (i + k - index1 + index2) != f.byte2) = true := by
              simp [hb]
            simp only [hbne, if_true]
            refine hcont (fun q hq hqe => hb ?_)
            have e' : q = i + k - index1 := by omega
            rw [← e']; exact hq.2.2.2
        · simp only [hin, if_false]
          refine hcont (fun q hq hqe => hin ?_)
          have e' : q = i + k - index1 := by omega
          rw [← e']; exact hq.2.2.1

/-- **C11, portable prefilter with the dispatching `memchr`.** A `Fallback.Finder` holding a
pair valid for the needle and the needle's two bytes at those offsets is a sound strategy. -/
theorem fallback_sound {memchr : UInt8 → Slice → M (Option Nat)} (hm : MemchrVal memchr)
    (needle : Slice) (hvn : needle.Valid) (f : Fallback.Finder) (hp : f.pair.ValidFor needle)
    (hb1 : f.byte1 = needle.getD f.pair.index1.toNat)
    (hb2 : f.byte2 = needle.getD f.pair.index2.toNat) :
    PreSound needle.toArray (Fallback.findPrefilter memchr f) := by
  intro hay hvh c
  obtain ⟨r, c', h1, h2⟩ := fallbackLoop_val hm f hay hvh
    f.pair.index1.toNat f.pair.index2.toNat 0 c (Nat.zero_le _) (fun _ _ => Nat.zero_le _)
  refine ⟨r, c', h1, fun q hq => ?_⟩
  have hc := Fallback.cand_of_occAt hvn hvh hp hq
  rw [← hb1, ← hb2] at hc
  cases r with
  | none => exact absurd hc (h2 q)
  | some a => exact ⟨a, rfl, h2.2 q hc⟩

/-! #### `find_simple` -/

/-- **C11, short-haystack path.** `find_simple` for a prefilter whose `rarest_byte` is the
needle's byte at `rarest_offset`: the first position of that byte minus its needle offset
(saturating) is at most every occurrence start. -/
theorem findSimple_sound (needle : Slice) (hvn : needle.Valid) (p : Prefilter)
    (hoff : p.rarestOffset.toNat < needle.len)
    (hbyte : p.rarestByte = needle.getD p.rarestOffset.toNat) :
    PreSound needle.toArray p.findSimple := by
  intro hay hvh c
  obtain ⟨c', h⟩ := swarOneFind_ok p.rarestByte hay hvh c
  refine ⟨_, c', by simp only [Prefilter.findSimple, bind_ok h]; rfl, fun q hq => ?_⟩
  rw [occ_iff hvh hvn] at hq
  obtain ⟨hq1, hq2⟩ := hq
  have hb := hq2 _ hoff
  cases hf : Spec.firstIdx (· == p.rarestByte) hay.toList with
  | none =>
    rw [Spec.firstIdx_eq_none_iff] at hf
    have hj : q + p.rarestOffset.toNat < hay.toList.length := by simp; omega
    have := hf _ (List.getElem_mem hj)
    rw [Slice.toList_getElem] at this
    simp [hb, hbyte] at this
  | some k =>
    refine ⟨k - p.rarestOffset.toNat, rfl, ?_⟩
    rw [Spec.firstIdx_eq_some_iff] at hf
    obtain ⟨hk, _, hnk⟩ := hf
    by_cases hle : k ≤ q + p.rarestOffset.toNat
    · omega
    · have := hnk (q + p.rarestOffset.toNat) (by omega)
      rw [Slice.toList_getElem] at this
      simp [hb, hbyte] at this

/-! ### the per-ISA packed-pair wrappers -/

/-- a wrapper finder built by `with_pair(n, pair)` from a pair valid for `n` -/
def VecFinder.GoodFor (n : Slice) (vf : VecFinder) : Prop :=
  vf.pair.ValidFor n ∧
  match vf with
  | .avx2 p s a =>
    s = PackedPair.mkFinder Sensible.sse2 n p.index1.toNat p.index2.toNat ∧
    a = PackedPair.mkFinder Sensible.avx2 n p.index1.toNat p.index2.toNat
  | .sse2 p f => f = PackedPair.mkFinder Sensible.sse2 n p.index1.toNat p.index2.toNat
  | .neon p f => f = PackedPair.mkFinder Neon.impl n p.index1.toNat p.index2.toNat
  | .simd128 p f => f = PackedPair.mkFinder Sensible.simd128 n p.index1.toNat p.index2.toNat

theorem mkFinder_congr (V : VecImpl) {n n0 : Slice} (hb : n.toList = n0.toList) {i1 i2 : Nat}
    (h1 : i1 < n0.len) (h2 : i2 < n0.len) :
    PackedPair.mkFinder V n i1 i2 = PackedPair.mkFinder V n0 i1 i2 := by
  obtain ⟨hl, hg⟩ := same_bytes hb
  simp only [PackedPair.mkFinder, hl, hg i1 (by omega), hg i2 (by omega)]

theorem ValidFor.congr {p : Pair} {n n0 : Slice} (hb : n.toList = n0.toList)
    (h : p.ValidFor n0) : p.ValidFor n := by
  obtain ⟨hl, _⟩ := same_bytes hb
  exact ⟨h.ne, by rw [hl]; exact h.lt1, by rw [hl]; exact h.lt2⟩

/-- `GoodFor` only depends on the needle's bytes -/
theorem VecFinder.GoodFor.congr {n n0 : Slice} (hb : n.toList = n0.toList) {vf : VecFinder}
    (h : vf.GoodFor n0) : vf.GoodFor n := by
  obtain ⟨hp, hm⟩ := h
  refine ⟨ValidFor.congr hb hp, ?_⟩
  cases vf with
  | avx2 p s a =>
    have hp' : p.ValidFor n0 := hp
    obtain ⟨h1, h2⟩ := hm
    exact ⟨by rw [mkFinder_congr _ hb hp'.lt1 hp'.lt2]; exact h1,
      by rw [mkFinder_congr _ hb hp'.lt1 hp'.lt2]; exact h2⟩
  | sse2 p f =>
    have hp' : p.ValidFor n0 := hp
    show f = _
    rw [mkFinder_congr _ hb hp'.lt1 hp'.lt2]; exact hm
  | neon p f =>
    have hp' : p.ValidFor n0 := hp
    show f = _
    rw [mkFinder_congr _ hb hp'.lt1 hp'.lt2]; exact hm
  | simd128 p f =>
    have hp' : p.ValidFor n0 := hp
    show f = _
    rw [mkFinder_congr _ hb hp'.lt1 hp'.lt2]; exact hm

theorem idx_ne {p : Pair} {n : Slice} (h : p.ValidFor n) : p.index1.toNat ≠ p.index2.toNat :=
  fun e => h.ne (UInt8.toNat_inj.mp e)

/-- `<isa>::packedpair::Finder::with_pair`: `None` iff the ISA is unavailable; never faults for
a valid pair -/
theorem VecFinder.withPair_run (cfg : Api.Cfg) (k : VecKind) (n : Slice) (pair : Pair)
    (hp : pair.ValidFor n) (c : Ctr) :
    (k.isAvailable cfg = false ∧ VecFinder.withPair cfg k n pair c = .ok none c) ∨
    (k.isAvailable cfg = true ∧ ∃ vf, VecFinder.withPair cfg k n pair c = .ok (some vf) c ∧
      vf.GoodFor n ∧ vf.kind = k ∧ vf.pair = pair) := by
  unfold VecFinder.withPair
  cases ha : k.isAvailable cfg with
  | false => exact Or.inl ⟨rfl, by simp⟩
  | true =>
    refine Or.inr ⟨rfl, ?_⟩
    simp only [if_true]
    cases k <;>
      simp only [bind, M.bind, PackedPair.new_ok n _ _ _ hp.lt1 hp.lt2, pure, M.pure] <;>
      exact ⟨_, rfl, ⟨hp, by simp⟩, rfl, rfl⟩

theorem sse2_bytes : Sensible.sse2.bytes = 16 := rfl
theorem avx2_bytes : Sensible.avx2.bytes = 32 := rfl

/-- **C12 for the wrappers.** `find` on a haystack of at least `min_haystack_len()` bytes
returns the leftmost occurrence (for `avx2` this covers the routing to its SSE2 finder). -/
theorem VecFinder.find_ok {n : Slice} {vf : VecFinder} (hg : vf.GoodFor n) (hay : Slice)
    (hh : hay.Valid) (hn : n.Valid) (hlen : vf.minHaystackLen ≤ hay.len) (c : Ctr) :
    ∃ c', vf.find hay n c = .ok (Spec.leftmost hay.toArray n.toArray) c' := by
  obtain ⟨hp, hm⟩ := hg
  have key : ∀ (V : VecImpl) (L : Lawful V),
      (PackedPair.mkFinder V n vf.pair.index1.toNat vf.pair.index2.toNat).minHaystackLen ≤ hay.len →
      ∃ c', PackedPair.find V (PackedPair.mkFinder V n vf.pair.index1.toNat vf.pair.index2.toNat)
        hay n c = .ok (Spec.leftmost hay.toArray n.toArray) c' := by
    intro V L hl
    obtain ⟨c', h, _⟩ := PackedPair.find_correct L hay n hh hn _ _ (idx_ne hp) hp.lt1 hp.lt2 _ c c
      (PackedPair.new_ok n _ _ c hp.lt1 hp.lt2) hl c
    exact ⟨c', h⟩
  cases vf with
  | avx2 p s a =>
    obtain ⟨rfl, rfl⟩ := hm
    simp only [VecFinder.find]
    split
    · exact key Sensible.sse2 Sensible.lawful_sse2 hlen
    · rename_i h
      exact key Sensible.avx2 Sensible.lawful_avx2 (Nat.le_of_not_lt h)
  | sse2 p f => subst hm; exact key Sensible.sse2 Sensible.lawful_sse2 hlen
  | neon p f => subst hm; exact key Neon.impl Neon.lawful hlen
  | simd128 p f => subst hm; exact key Sensible.simd128 Sensible.lawful_simd128 hlen

/-- **C11 for the wrappers.** `find_prefilter` on a haystack of at least `min_haystack_len()`
bytes is sound. -/
theorem VecFinder.findPrefilter_ok {n : Slice} {vf : VecFinder} (hg : vf.GoodFor n) (hay : Slice)
    (hh : hay.Valid) (hn : n.Valid) (hlen : vf.minHaystackLen ≤ hay.len) (c : Ctr) :
    ∃ r c', vf.findPrefilter hay c = .ok r c' ∧
      ∀ q, Spec.OccAt hay.toArray n.toArray q → ∃ a, r = some a ∧ a ≤ q := by
  obtain ⟨hp, hm⟩ := hg
  have key : ∀ (V : VecImpl) (L : Lawful V),
      (PackedPair.mkFinder V n vf.pair.index1.toNat vf.pair.index2.toNat).minHaystackLen ≤ hay.len →
      ∃ r c', PackedPair.findPrefilter V
        (PackedPair.mkFinder V n vf.pair.index1.toNat vf.pair.index2.toNat) hay c = .ok r c' ∧
        ∀ q, Spec.OccAt hay.toArray n.toArray q → ∃ a, r = some a ∧ a ≤ q := by
    intro V L hl
    obtain ⟨r, c', h, _, h2, _⟩ := PackedPair.findPrefilter_sound L hay n hh hn _ _ (idx_ne hp)
      hp.lt1 hp.lt2 _ c c (PackedPair.new_ok n _ _ c hp.lt1 hp.lt2) hl c
    exact ⟨r, c', h, h2⟩
  cases vf with
  | avx2 p s a =>
    obtain ⟨rfl, rfl⟩ := hm
    simp only [VecFinder.findPrefilter]
    split
    · exact key Sensible.sse2 Sensible.lawful_sse2 hlen
    · rename_i h
      exact key Sensible.avx2 Sensible.lawful_avx2 (Nat.le_of_not_lt h)
  | sse2 p f => subst hm; exact key Sensible.sse2 Sensible.lawful_sse2 hlen
  | neon p f => subst hm; exact key Neon.impl Neon.lawful hlen
  | simd128 p f => subst hm; exact key Sensible.simd128 Sensible.lawful_simd128 hlen

/-! ### C11: every prefilter strategy `Searcher::new` builds is sound -/

/-- a prefilter strategy as `Prefilter::fallback` / `Prefilter::<isa>` build it for the needle
`n` -/
def Prefilter.GoodFor (n : Slice) (p : Prefilter) : Prop :=
  p.rarestOffset.toNat < n.len ∧ p.rarestByte = n.getD p.rarestOffset.toNat ∧
  match p.kind with
  | .fallback f =>
    f.pair.ValidFor n ∧ f.byte1 = n.getD f.pair.index1.toNat ∧ f.byte2 = n.getD f.pair.index2.toNat
  | .vec vf => vf.GoodFor n

theorem Prefilter.GoodFor.congr {n n0 : Slice} (hb : n.toList = n0.toList) {p : Prefilter}
    (h : p.GoodFor n0) : p.GoodFor n := by
  obtain ⟨hl, hg⟩ := same_bytes hb
  obtain ⟨h1, h2, h3⟩ := h
  refine ⟨by omega, by rw [h2, hg _ (by omega)], ?_⟩
  obtain ⟨kind, rb, ro⟩ := p
  cases kind with
  | fallback f =>
    obtain ⟨a, b, c⟩ := h3
    exact ⟨ValidFor.congr hb a, by rw [b, hg _ (by have := a.lt1; omega)],
      by rw [c, hg _ (by have := a.lt2; omega)]⟩
  | vec vf => exact VecFinder.GoodFor.congr hb h3

/-- **C11 (`Prefilter.find_sound`).** Every prefilter strategy built by `Searcher::new` is
sound in the sense Two-Way needs, for every configuration: the vector kinds through
`PackedPair.findPrefilter_sound` when the haystack has at least `min_haystack_len()` bytes and
through `find_simple` otherwise, the fallback kind through the portable prefilter with the
dispatching `memchr`. -/
theorem Prefilter.find_sound (cfg : Api.Cfg) {n : Slice} (hn : n.Valid) {p : Prefilter}
    (hg : p.GoodFor n) : PreSound n.toArray (p.find cfg) := by
  obtain ⟨h1, h2, h3⟩ := hg
  have hsimple := findSimple_sound n hn p h1 h2
  obtain ⟨kind, rb, ro⟩ := p
  cases kind with
  | fallback f =>
    obtain ⟨a, b, c⟩ := h3
    exact fallback_sound (topMemchr_val cfg) n hn f a b c
  | vec vf =>
    intro hay hvh c
    simp only [Prefilter.find]
    split
    · exact hsimple hay hvh c
    · rename_i hlen
      exact VecFinder.findPrefilter_ok h3 hay hvh hn (Nat.le_of_not_lt hlen) c

/-! ### what is assumed about Two-Way -/

/-- Forward Two-Way: for every needle of at least two bytes `Finder::new` returns normally, and
the finder it returns, run by `find_with_prefilter` with no prefilter or with any sound one in
any state, on any haystack at least as long as the needle, for a search needle holding the same
bytes as the construction needle, returns the leftmost occurrence and does not fault. -/
structure TwoWayFwdOk : Prop where
  new_ok : ∀ (n : Slice), n.Valid → 2 ≤ n.len → ∀ c, ∃ tw c', TwoWay.Finder.new n c = .ok tw c'
  find_ok : ∀ (n0 n hay : Slice) (tw : TwoWay.TwoWay) (c0 c0' : Ctr),
    n0.Valid → n.Valid → hay.Valid → n.toList = n0.toList → 2 ≤ n.len → n.len ≤ hay.len →
    TwoWay.Finder.new n0 c0 = .ok tw c0' →
    ∀ (pre : Option Pre), (∀ p, pre = some p → PreSound n.toArray p.strat) → ∀ c,
      ∃ pre' c', TwoWay.Finder.findWithPrefilter tw pre hay n c =
        .ok (Spec.leftmost hay.toArray n.toArray, pre') c'

/-- Reverse Two-Way, likewise with the rightmost occurrence. -/
structure TwoWayRevOk : Prop where
  new_ok : ∀ (n : Slice), n.Valid → 2 ≤ n.len → ∀ c, ∃ tw c', TwoWay.FinderRev.new n c = .ok tw c'
  rfind_ok : ∀ (n0 n hay : Slice) (tw : TwoWay.TwoWay) (c0 c0' : Ctr),
    n0.Valid → n.Valid → hay.Valid → n.toList = n0.toList → 2 ≤ n.len → n.len ≤ hay.len →
    TwoWay.FinderRev.new n0 c0 = .ok tw c0' →
    ∀ c, ∃ c', TwoWay.FinderRev.rfind tw hay n c = .ok (Spec.rightmost hay.toArray n.toArray) c'

/-- everything that is assumed about Two-Way (`Model/TwoWay.lean`) -/
structure TwoWayOk : Prop where
  fwd : TwoWayFwdOk
  rev : TwoWayRevOk

/-! ### searchers built by `Searcher::new` -/

/-- `tw` is the value `twoway::Finder::new` returned for a needle with the bytes of `n` -/
def TwBuilt (n : Slice) (tw : TwoWay.TwoWay) : Prop :=
  ∃ n0 c0 c0', n0.Valid ∧ n.toList = n0.toList ∧ TwoWay.Finder.new n0 c0 = .ok tw c0'

/-- what `Searcher::new(.., needle)` returns, for a needle with the bytes of `n` -/
def Searcher.GoodFor (n : Slice) (s : Searcher) : Prop :=
  s.rabinkarp = RabinKarp.Finder.spec n.toList ∧
  match s.kind with
  | .empty => n.len = 0
  | .oneByte b => n.len = 1 ∧ b = n.getD 0
  | .twoWay tw => 2 ≤ n.len ∧ TwBuilt n tw
  | .twoWayWithPrefilter tw p => 2 ≤ n.len ∧ TwBuilt n tw ∧ p.GoodFor n
  | .packed vf => vf.GoodFor n

/-- the strategy is one of the two Two-Way kinds -/
def Searcher.usesTwoWay (s : Searcher) : Prop :=
  match s.kind with
  | .twoWay _ => True
  | .twoWayWithPrefilter _ _ => True
  | _ => False

theorem TwBuilt.congr {n n0 : Slice} (hb : n.toList = n0.toList) {tw : TwoWay.TwoWay}
    (h : TwBuilt n0 tw) : TwBuilt n tw := by
  obtain ⟨n1, c0, c0', a, b, c⟩ := h
  exact ⟨n1, c0, c0', a, hb.trans b, c⟩

/-- `GoodFor` only depends on the needle's bytes (C16: the needle may have moved) -/
theorem Searcher.GoodFor.congr {n n0 : Slice} (hb : n.toList = n0.toList) {s : Searcher}
    (h : s.GoodFor n0) : s.GoodFor n := by
  obtain ⟨hl, hg⟩ := same_bytes hb
  obtain ⟨h1, h2⟩ := h
  refine ⟨by rw [h1, hb], ?_⟩
  obtain ⟨kind, rk⟩ := s
  cases kind with
  | empty => exact hl.trans h2
  | oneByte b => exact ⟨hl.trans h2.1, by rw [h2.2, hg 0 (by have := h2.1; omega)]⟩
  | twoWay tw => exact ⟨by have := h2.1; omega, h2.2.congr hb⟩
  | twoWayWithPrefilter tw p => exact ⟨by have := h2.1; omega, h2.2.1.congr hb, h2.2.2.congr hb⟩
  | packed vf => exact VecFinder.GoodFor.congr hb h2

theorem rk_find_ok (rk : RabinKarp.Finder) (hay n : Slice) (hh : hay.Valid) (hn : n.Valid)
    (hrk : rk = RabinKarp.Finder.spec n.toList) (c : Ctr) :
    ∃ c', rk.find hay n c = .ok (Spec.leftmost hay.toArray n.toArray) c' := by
  obtain ⟨c', h, _⟩ := RabinKarp.find_correct_of_spec rk hay n c hh hn hrk
  exact ⟨c', h⟩

/-- **C03 at the `Searcher` level.** A searcher built for the bytes of `n` returns the leftmost
occurrence of `n` in every valid haystack, from every prefilter state, without a fault.
`TwoWayFwdOk` is only needed when the strategy is one of the Two-Way kinds. -/
theorem Searcher.find_good (cfg : Api.Cfg) {n : Slice} {s : Searcher} (hg : s.GoodFor n)
    (htw : s.usesTwoWay → TwoWayFwdOk) (hay : Slice) (hh : hay.Valid) (hn : n.Valid)
    (st : PrefilterState) (c : Ctr) :
    ∃ st' c', s.find cfg st hay n c = .ok (Spec.leftmost hay.toArray n.toArray, st') c' := by
  obtain ⟨hrk, hk⟩ := hg
  unfold Searcher.find
  by_cases hshort : hay.len < n.len
  · simp only [hshort, if_true]
    rw [leftmost_of_short (by rw [Slice.toArray_size hh, Slice.toArray_size hn]; exact hshort)]
    exact ⟨st, c, rfl⟩
  · simp only [hshort, if_false]
    obtain ⟨kind, rk⟩ := s
    cases kind with
    | empty =>
      rw [leftmost_empty (by rw [Slice.toArray_size hn]; exact hk)]
      exact ⟨st, c, rfl⟩
    | oneByte b =>
      obtain ⟨h1, rfl⟩ := hk
      obtain ⟨c', h⟩ := topMemchr_ok cfg (n.getD 0) hay hh c
      rw [leftmost_one hh hn h1]
      exact ⟨st, c', by simp only [bind_ok h]; rfl⟩
    | twoWay tw =>
      obtain ⟨h2, n0, c0, c0', hv0, hb, hnew⟩ := hk
      simp only [Searcher.kindTwoWay]
      split
      · obtain ⟨c', h⟩ := rk_find_ok rk hay n hh hn hrk c
        exact ⟨st, c', by simp only [bind_ok h]; rfl⟩
      · obtain ⟨pre', c', h⟩ := (htw trivial).find_ok n0 n hay tw c0 c0' hv0 hn hh hb h2
          (by omega) hnew none (by intro p hp; cases hp) c
        exact ⟨st, c', by simp only [TwoWay.Finder.find, bind, M.bind, h, pure, M.pure]⟩
    | twoWayWithPrefilter tw p =>
      obtain ⟨h2, ⟨n0, c0, c0', hv0, hb, hnew⟩, hp⟩ := hk
      simp only [Searcher.kindTwoWayWithPrefilter]
      split
      · obtain ⟨c', h⟩ := rk_find_ok rk hay n hh hn hrk c
        exact ⟨st, c', by simp only [bind_ok h]; rfl⟩
      · obtain ⟨pre', c', h⟩ := (htw trivial).find_ok n0 n hay tw c0 c0' hv0 hn hh hb h2
          (by omega) hnew (some { state := st, strat := p.find cfg })
          (by intro q hq; cases hq; exact Prefilter.find_sound cfg hn hp) c
        simp only [bind_ok h]
        cases pre' with
        | none => exact ⟨_, c', rfl⟩
        | some q => exact ⟨_, c', rfl⟩
    | packed vf =>
      simp only [Searcher.kindPacked]
      split
      · obtain ⟨c', h⟩ := rk_find_ok rk hay n hh hn hrk c
        exact ⟨st, c', by simp only [bind_ok h]; rfl⟩
      · rename_i hlen
        obtain ⟨c', h⟩ := VecFinder.find_ok hk hay hh hn (Nat.le_of_not_lt hlen) c
        exact ⟨st, c', by simp only [bind_ok h]; rfl⟩

/-! ### `Searcher::new` -/

theorem Searcher.twoway_ok (tw : TwoWayFwdOk) (n : Slice) (hn : n.Valid) (h2 : 2 ≤ n.len)
    (rk : RabinKarp.Finder) (hrk : rk = RabinKarp.Finder.spec n.toList)
    (prestrat : Option Prefilter) (hp : ∀ p, prestrat = some p → p.GoodFor n) (c : Ctr) :
    ∃ s c', Searcher.twoway n rk prestrat c = .ok s c' ∧ s.GoodFor n ∧ s.usesTwoWay := by
  obtain ⟨t, c', h⟩ := tw.new_ok n hn h2 c
  unfold Searcher.twoway
  simp only [bind_ok h]
  cases prestrat with
  | none => exact ⟨_, c', rfl, ⟨hrk, h2, n, c, c', hn, rfl, h⟩, trivial⟩
  | some p => exact ⟨_, c', rfl, ⟨hrk, h2, ⟨n, c, c', hn, rfl, h⟩, hp p rfl⟩, trivial⟩

theorem Prefilter.ofVec_ok {n : Slice} {vf : VecFinder} (hg : vf.GoodFor n) (c : Ctr) :
    ∃ p, Prefilter.ofVec vf n c = .ok p c ∧ p.GoodFor n := by
  have hlt := hg.1.lt1
  exact ⟨_, by simp only [Prefilter.ofVec, get_ok _ _ hlt, pure_bind']; rfl, hlt, rfl, hg⟩

theorem Prefilter.fallback_ok (rank : UInt8 → UInt8) {pair : Pair} {n : Slice}
    (hp : pair.ValidFor n) (c : Ctr) :
    ∃ r, Prefilter.fallback rank pair n c = .ok r c ∧ ∀ p, r = some p → p.GoodFor n := by
  unfold Prefilter.fallback
  simp only [get_ok _ _ hp.lt1, pure_bind']
  split
  · exact ⟨none, rfl, nofun⟩
  · simp only [bind_ok (Fallback.withPair_ok n pair hp c)]
    exact ⟨_, rfl, fun p h => by cases h; exact ⟨hp.lt1, rfl, hp, rfl, rfl⟩⟩

theorem Searcher.withVec_ok (pf : PrefilterConfig) (n : Slice) (hn : n.Valid) (h2 : 2 ≤ n.len)
    (rk : RabinKarp.Finder) (hrk : rk = RabinKarp.Finder.spec n.toList) {vf : VecFinder}
    (hg : vf.GoodFor n) (htw : doPackedSearch n = false → TwoWayFwdOk) (c : Ctr) :
    ∃ s c', Searcher.withVec pf n rk vf c = .ok s c' ∧ s.GoodFor n ∧
      (s.usesTwoWay → doPackedSearch n = false) := by
  unfold Searcher.withVec
  cases hd : doPackedSearch n with
  | true => exact ⟨_, c, rfl, ⟨hrk, hg⟩, fun h => by cases h⟩
  | false =>
    simp only [Bool.false_eq_true, if_false]
    cases hpf : pf.isNone with
    | true =>
      obtain ⟨s, c', h, a, _⟩ := Searcher.twoway_ok (htw hd) n hn h2 rk hrk none nofun c
      exact ⟨s, c', by simpa using h, a, fun _ => trivial⟩
    | false =>
      obtain ⟨p, hp, hpg⟩ := Prefilter.ofVec_ok hg c
      obtain ⟨s, c', h, a, _⟩ := Searcher.twoway_ok (htw hd) n hn h2 rk hrk (some p)
        (fun q hq => by cases hq; exact hpg) c
      exact ⟨s, c', by simp only [Bool.false_eq_true, if_false, bind_ok hp]; exact h, a,
        fun _ => trivial⟩

theorem Searcher.withFallback_ok (tw : TwoWayFwdOk) (pf : PrefilterConfig)
    (rank : UInt8 → UInt8) {pair : Pair} (n : Slice) (hn : n.Valid) (h2 : 2 ≤ n.len)
    (hp : pair.ValidFor n) (rk : RabinKarp.Finder) (hrk : rk = RabinKarp.Finder.spec n.toList)
    (c : Ctr) :
    ∃ s c', Searcher.withFallback pf rank pair n rk c = .ok s c' ∧ s.GoodFor n := by
  unfold Searcher.withFallback
  cases hpf : pf.isNone with
  | true =>
    obtain ⟨s, c', h, a, _⟩ := Searcher.twoway_ok tw n hn h2 rk hrk none nofun c
    exact ⟨s, c', by simpa using h, a⟩
  | false =>
    obtain ⟨r, hr, hrg⟩ := Prefilter.fallback_ok rank hp (n := n) c
    obtain ⟨s, c', h, a, _⟩ := Searcher.twoway_ok tw n hn h2 rk hrk r hrg c
    exact ⟨s, c', by simp only [Bool.false_eq_true, if_false, bind_ok hr]; exact h, a⟩

/-- `Searcher::new` can reach `Searcher::twoway` for this configuration and needle: at least
two bytes and no vector finder, or a needle outside `do_packed_search`'s range -/
def reachesTwoWay (cfg : Api.Cfg) (n : Slice) : Prop :=
  2 ≤ n.len ∧ (vecKind cfg = none ∨ doPackedSearch n = false)

/-- `Searcher::new`, every branch: it returns normally (no `debug_assert`, no index panic) a
searcher that is good for the needle; the Two-Way kinds are only chosen when `reachesTwoWay`,
and only then is anything assumed about Two-Way (its constructor must return). -/
theorem Searcher.new_ok (cfg : Api.Cfg) (pf : PrefilterConfig) (rank : UInt8 → UInt8)
    (n : Slice) (hn : n.Valid) (htw : reachesTwoWay cfg n → TwoWayFwdOk) (c : Ctr) :
    ∃ s c', Searcher.new cfg pf rank n c = .ok s c' ∧ s.GoodFor n ∧
      (s.usesTwoWay → reachesTwoWay cfg n) := by
  unfold Searcher.new
  simp only [bind_ok (RabinKarp.Finder.new_run n c)]
  generalize hc1 : ({ c with steps := c.steps + (n.len - 1) } : Ctr) = c1
  by_cases hle : n.len ≤ 1
  · simp only [hle, if_true]
    by_cases h0 : n.len = 0
    · simp only [h0, if_true]
      exact ⟨_, c1, rfl, ⟨rfl, h0⟩, fun h => by cases h⟩
    · have h1 : n.len = 1 := by omega
      have hb : (1 == n.len) = true := by simp [h1]
      simp only [h0, if_false, hb, dbgAssert_true, pure_bind', get_ok _ _ (show 0 < n.len by omega)]
      exact ⟨_, c1, rfl, ⟨rfl, h1, rfl⟩, fun h => by cases h⟩
  · have h2 : 2 ≤ n.len := by omega
    simp only [hle, if_false]
    obtain ⟨r, c2, hr, hnone, hsome, _, _⟩ := Pair.withRanker_correct n rank c1
    simp only [bind_ok hr]
    cases r with
    | none => exact absurd (hnone.mp rfl) (by omega)
    | some pair =>
      obtain ⟨hp, _, _⟩ := hsome pair rfl
      have hne : (pair.index1 != pair.index2) = true := bne_iff_ne.mpr hp.ne
      simp only [hne, dbgAssert_true, pure_bind']
      -- the two kinds of arm
      have vecArm : ∀ (vf : VecFinder), vf.GoodFor n → (vecKind cfg).isSome = true →
          ∃ s c', Searcher.withVec pf n (RabinKarp.Finder.spec n.toList) vf c2 = .ok s c' ∧
            s.GoodFor n ∧ (s.usesTwoWay → reachesTwoWay cfg n) := by
        intro vf hg _
        obtain ⟨s, c', h, a, b⟩ := Searcher.withVec_ok pf n hn h2 _ rfl hg
          (fun hd => htw ⟨h2, Or.inr hd⟩) c2
        exact ⟨s, c', h, a, fun hu => ⟨h2, Or.inr (b hu)⟩⟩
      have fbArm : vecKind cfg = none →
          ∃ s c', Searcher.withFallback pf rank pair n (RabinKarp.Finder.spec n.toList) c2 =
            .ok s c' ∧ s.GoodFor n ∧ (s.usesTwoWay → reachesTwoWay cfg n) := by
        intro hv
        obtain ⟨s, c', h, a⟩ := Searcher.withFallback_ok (htw ⟨h2, Or.inl hv⟩) pf rank n hn h2 hp
          _ rfl c2
        exact ⟨s, c', h, a, fun _ => ⟨h2, Or.inl hv⟩⟩
      cases hblk : cfgBlock cfg with
      | x86Sse2 =>
        simp only []
        rcases VecFinder.withPair_run cfg .avx2 n pair hp c2 with ⟨ha, h⟩ | ⟨ha, vf, h, hg, _, _⟩
        · simp only [bind_ok h]
          rcases VecFinder.withPair_run cfg .sse2 n pair hp c2 with ⟨hs, h'⟩ | ⟨hs, vf, h', hg, _, _⟩
          · simp only [bind_ok h']
            exact fbArm (by simp [vecKind, hblk, ha, hs])
          · simp only [bind_ok h']
            exact vecArm vf hg (by simp [vecKind, hblk, ha, hs])
        · simp only [bind_ok h]
          exact vecArm vf hg (by simp [vecKind, hblk, ha])
      | wasmSimd128 =>
        simp only []
        rcases VecFinder.withPair_run cfg .simd128 n pair hp c2 with ⟨ha, h⟩ | ⟨ha, vf, h, hg, _, _⟩
        · simp only [bind_ok h]
          exact fbArm (by simp [vecKind, hblk, ha])
        · simp only [bind_ok h]
          exact vecArm vf hg (by simp [vecKind, hblk, ha])
      | aarch64 =>
        simp only []
        rcases VecFinder.withPair_run cfg .neon n pair hp c2 with ⟨ha, h⟩ | ⟨ha, vf, h, hg, _, _⟩
        · simp only [bind_ok h]
          exact fbArm (by simp [vecKind, hblk, ha])
        · simp only [bind_ok h]
          exact vecArm vf hg (by simp [vecKind, hblk, ha])
      | other =>
        simp only []
        exact fbArm (by simp [vecKind, hblk])

/-! ### C03 / C10 / C09 for `Searcher::new(..).find(..)` -/

/-- General form: for every configuration, prefilter setting, ranker, needle and haystack, and
EVERY prefilter state, `Searcher::new` returns normally and the searcher finds the leftmost
occurrence without a fault, also for any other slice `n` holding the needle's bytes.
`TwoWayFwdOk` is needed exactly when `reachesTwoWay cfg n0`. -/
theorem Searcher.new_find (cfg : Api.Cfg) (pf : PrefilterConfig) (rank : UInt8 → UInt8)
    (n0 : Slice) (hn0 : n0.Valid) (htw : reachesTwoWay cfg n0 → TwoWayFwdOk) (c : Ctr) :
    ∃ s c1, Searcher.new cfg pf rank n0 c = .ok s c1 ∧ s.GoodFor n0 ∧
      ∀ (n hay : Slice), n.Valid → hay.Valid → n.toList = n0.toList →
        ∀ (st : PrefilterState) (c2 : Ctr), ∃ st' c3,
          s.find cfg st hay n c2 = .ok (Spec.leftmost hay.toArray n.toArray, st') c3 := by
  obtain ⟨s, c1, h, hg, hu⟩ := Searcher.new_ok cfg pf rank n0 hn0 htw c
  refine ⟨s, c1, h, hg, fun n hay hn hh hb st c2 => ?_⟩
  exact Searcher.find_good cfg (hg.congr hb) (fun u => htw (hu u)) hay hh hn st c2

/-- **C03.find**, the branches of `Searcher::new` that never reach Two-Way (the empty needle,
one byte, and the packed kinds - needles of 2..=32 bytes when the configuration has a vector
finder - including their Rabin-Karp fallback for short haystacks): unconditional. -/
theorem C03.find (cfg : Api.Cfg) (pf : PrefilterConfig) (rank : UInt8 → UInt8)
    (needle hay : Slice) (hn : needle.Valid) (hh : hay.Valid)
    (hbranch : needle.len ≤ 1 ∨ ((vecKind cfg).isSome = true ∧ doPackedSearch needle = true))
    (st : PrefilterState) (c : Ctr) :
    ∃ s c1, Searcher.new cfg pf rank needle c = .ok s c1 ∧ ∀ c2, ∃ st' c3,
      s.find cfg st hay needle c2 = .ok (Spec.leftmost hay.toArray needle.toArray, st') c3 := by
  have hno : ¬ reachesTwoWay cfg needle := by
    rintro ⟨h2, h⟩
    rcases hbranch with h1 | ⟨hv, hd⟩
    · omega
    · rcases h with h | h
      · rw [h] at hv; cases hv
      · rw [h] at hd; cases hd
  obtain ⟨s, c1, h, _, hf⟩ := Searcher.new_find cfg pf rank needle hn (fun r => absurd r hno) c
  exact ⟨s, c1, h, fun c2 => hf needle hay hn hh rfl st c2⟩

/-- **C03.find**, all branches; the Two-Way branches under `TwoWayFwdOk`.
FULL STATEMENT (what remains to be shown is `TwoWayFwdOk` itself): the same without `tw`. -/
theorem C03.find_partial (tw : TwoWayFwdOk) (cfg : Api.Cfg) (pf : PrefilterConfig)
    (rank : UInt8 → UInt8) (needle hay : Slice) (hn : needle.Valid) (hh : hay.Valid)
    (st : PrefilterState) (c : Ctr) :
    ∃ s c1, Searcher.new cfg pf rank needle c = .ok s c1 ∧ ∀ c2, ∃ st' c3,
      s.find cfg st hay needle c2 = .ok (Spec.leftmost hay.toArray needle.toArray, st') c3 := by
  obtain ⟨s, c1, h, _, hf⟩ := Searcher.new_find cfg pf rank needle hn (fun _ => tw) c
  exact ⟨s, c1, h, fun c2 => hf needle hay hn hh rfl st c2⟩

/-- the empty needle is found at offset 0 of every haystack, the empty one included -/
theorem C03.find_empty (cfg : Api.Cfg) (pf : PrefilterConfig) (rank : UInt8 → UInt8)
    (needle hay : Slice) (hn : needle.Valid) (hh : hay.Valid) (h0 : needle.len = 0)
    (st : PrefilterState) (c : Ctr) :
    ∃ s c1, Searcher.new cfg pf rank needle c = .ok s c1 ∧ ∀ c2, ∃ st' c3,
      s.find cfg st hay needle c2 = .ok (some 0, st') c3 := by
  have := C03.find cfg pf rank needle hay hn hh (Or.inl (by omega)) st c
  rwa [leftmost_empty (by rw [Slice.toArray_size hn]; exact h0)] at this

/-- **C10 (+ C09) at the searcher level**: two searchers built for the same needle with any two
configurations, prefilter settings and rankers, started in any two prefilter states, return the
same value.  Unconditional when neither construction reaches Two-Way. -/
theorem C10.find_indep (cfg cfg' : Api.Cfg) (pf pf' : PrefilterConfig)
    (rank rank' : UInt8 → UInt8) (needle hay : Slice) (hn : needle.Valid) (hh : hay.Valid)
    (htw : reachesTwoWay cfg needle ∨ reachesTwoWay cfg' needle → TwoWayFwdOk)
    (st st' : PrefilterState) (c c' : Ctr) :
    ∃ s s' c1 c1', Searcher.new cfg pf rank needle c = .ok s c1 ∧
      Searcher.new cfg' pf' rank' needle c' = .ok s' c1' ∧
      ∀ c2 c2', ∃ v t t' c3 c3', s.find cfg st hay needle c2 = .ok (v, t) c3 ∧
        s'.find cfg' st' hay needle c2' = .ok (v, t') c3' := by
  obtain ⟨s, c1, h, _, hf⟩ := Searcher.new_find cfg pf rank needle hn (fun r => htw (Or.inl r)) c
  obtain ⟨s', c1', h', _, hf'⟩ :=
    Searcher.new_find cfg' pf' rank' needle hn (fun r => htw (Or.inr r)) c'
  refine ⟨s, s', c1, c1', h, h', fun c2 c2' => ?_⟩
  obtain ⟨t, c3, e⟩ := hf needle hay hn hh rfl st c2
  obtain ⟨t', c3', e'⟩ := hf' needle hay hn hh rfl st' c2'
  exact ⟨_, t, t', c3, c3', e, e'⟩

theorem C10.find_indep_partial (tw : TwoWayFwdOk) (cfg cfg' : Api.Cfg)
    (pf pf' : PrefilterConfig) (rank rank' : UInt8 → UInt8) (needle hay : Slice)
    (hn : needle.Valid) (hh : hay.Valid) (st st' : PrefilterState) (c c' : Ctr) :
    ∃ s s' c1 c1', Searcher.new cfg pf rank needle c = .ok s c1 ∧
      Searcher.new cfg' pf' rank' needle c' = .ok s' c1' ∧
      ∀ c2 c2', ∃ v t t' c3 c3', s.find cfg st hay needle c2 = .ok (v, t) c3 ∧
        s'.find cfg' st' hay needle c2' = .ok (v, t') c3' :=
  C10.find_indep cfg cfg' pf pf' rank rank' needle hay hn hh (fun _ => tw) st st' c c'

/-! ### `Searcher::new` depends on the configuration only through `vecKind` -/

/-- `Finder::with_pair_impl(needle, pair)` of the ISA `k` -/
def VecFinder.build (k : VecKind) (needle : Slice) (pair : Pair) : M VecFinder :=
  match k with
  | .avx2 => do
    let sse2 ← PackedPair.Finder.new Sensible.sse2 needle pair.index1.toNat pair.index2.toNat
    let avx2 ← PackedPair.Finder.new Sensible.avx2 needle pair.index1.toNat pair.index2.toNat
    pure (.avx2 pair sse2 avx2)
  | .sse2 => do
    let f ← PackedPair.Finder.new Sensible.sse2 needle pair.index1.toNat pair.index2.toNat
    pure (.sse2 pair f)
  | .neon => do
    let f ← PackedPair.Finder.new Neon.impl needle pair.index1.toNat pair.index2.toNat
    pure (.neon pair f)
  | .simd128 => do
    let f ← PackedPair.Finder.new Sensible.simd128 needle pair.index1.toNat pair.index2.toNat
    pure (.simd128 pair f)

/-- `if let Some(pp) = <isa>::Finder::with_pair(needle, pair) { A(pp) } else { B }` -/
theorem VecFinder.withPair_bind {α : Type} (cfg : Api.Cfg) (k : VecKind) (n : Slice) (pair : Pair)
    (A : VecFinder → M α) (B : M α) :
    (VecFinder.withPair cfg k n pair >>= fun r => match r with | some pp => A pp | none => B) =
      if k.isAvailable cfg then VecFinder.build k n pair >>= A else B := by
  unfold VecFinder.withPair
  cases ha : k.isAvailable cfg with
  | false => rfl
  | true =>
    simp only [if_true]
    funext c
    cases k <;> simp only [VecFinder.build, bind, M.bind, pure, M.pure]
    · cases PackedPair.Finder.new Sensible.sse2 n pair.index1.toNat pair.index2.toNat c with
      | fault e => rfl
      | ok s c1 =>
        simp only []
        cases PackedPair.Finder.new Sensible.avx2 n pair.index1.toNat pair.index2.toNat c1 <;> rfl
    · cases PackedPair.Finder.new Sensible.sse2 n pair.index1.toNat pair.index2.toNat c <;> rfl
    · cases PackedPair.Finder.new Neon.impl n pair.index1.toNat pair.index2.toNat c <;> rfl
    · cases PackedPair.Finder.new Sensible.simd128 n pair.index1.toNat pair.index2.toNat c <;> rfl

/-- the part of `Searcher::new` after the pair has been chosen, as a function of `vecKind cfg` -/
def Searcher.afterPair (k : Option VecKind) (pf : PrefilterConfig)
    (rank : UInt8 → UInt8) (n : Slice) (rk : RabinKarp.Finder) (pair : Pair) : M Searcher :=
  match k with
  | some k => VecFinder.build k n pair >>= Searcher.withVec pf n rk
  | none => Searcher.withFallback pf rank pair n rk

/-- `Searcher::new` with the cfg chain replaced by its summary `vecKind cfg` -/
def Searcher.newK (k : Option VecKind) (prefilter : PrefilterConfig) (rank : UInt8 → UInt8)
    (needle : Slice) : M Searcher := do
  let rabinkarp ← RabinKarp.Finder.new needle
  if needle.len ≤ 1 then
    if needle.len = 0 then pure { kind := .empty, rabinkarp := rabinkarp }
    else do
      dbgAssert "Searcher::new: debug_assert_eq!(1, needle.len())" (1 == needle.len)
      let b ← needle.get "Searcher::new: needle[0]" 0
      pure { kind := .oneByte b, rabinkarp := rabinkarp }
  else
  match ← Pair.withRanker needle rank with
  | none => Searcher.twoway needle rabinkarp none
  | some pair => do
    dbgAssert "Searcher::new: pair offsets should not be equivalent"
      (pair.index1 != pair.index2)
    Searcher.afterPair k prefilter rank needle rabinkarp pair

/-- `Searcher::new` depends on the configuration only through `vecKind` -/
theorem Searcher.new_eq_newK (cfg : Api.Cfg) (pf : PrefilterConfig) (rank : UInt8 → UInt8)
    (n : Slice) : Searcher.new cfg pf rank n = Searcher.newK (vecKind cfg) pf rank n := by
  have key : ∀ (rk : RabinKarp.Finder) (pair : Pair),
      (match cfgBlock cfg with
      | .x86Sse2 => do
        match ← VecFinder.withPair cfg .avx2 n pair with
        | some pp => Searcher.withVec pf n rk pp
        | none =>
          match ← VecFinder.withPair cfg .sse2 n pair with
          | some pp => Searcher.withVec pf n rk pp
          | none => Searcher.withFallback pf rank pair n rk
      | .wasmSimd128 => do
        match ← VecFinder.withPair cfg .simd128 n pair with
        | some pp => Searcher.withVec pf n rk pp
        | none => Searcher.withFallback pf rank pair n rk
      | .aarch64 => do
        match ← VecFinder.withPair cfg .neon n pair with
        | some pp => Searcher.withVec pf n rk pp
        | none => Searcher.withFallback pf rank pair n rk
      | .other => Searcher.withFallback pf rank pair n rk) =
      Searcher.afterPair (vecKind cfg) pf rank n rk pair := by
    intro rk pair
    simp only [VecFinder.withPair_bind]
    unfold vecKind Searcher.afterPair
    cases cfgBlock cfg <;> simp only []
    · cases VecKind.isAvailable cfg .avx2 <;> cases VecKind.isAvailable cfg .sse2 <;> simp
    · cases VecKind.isAvailable cfg .simd128 <;> simp
    · cases VecKind.isAvailable cfg .neon <;> simp
  unfold Searcher.new Searcher.newK
  congr 1
  funext rk
  split
  · rfl
  · congr 1
    funext r
    cases r with
    | none => rfl
    | some pair =>
      show (dbgAssert _ _ >>= fun _ => _) = (dbgAssert _ _ >>= fun _ => _)
      congr 1
      funext _
      exact key rk pair

/-- C09: two configurations with the same `vecKind` build the same searcher (same value, same
steps, same faults), for every prefilter setting, ranker and needle. -/
theorem Searcher.new_eq_of_vecKind (cfg cfg' : Api.Cfg) (h : vecKind cfg = vecKind cfg')
    (pf : PrefilterConfig) (rank : UInt8 → UInt8) (n : Slice) :
    Searcher.new cfg pf rank n = Searcher.new cfg' pf rank n := by
  rw [Searcher.new_eq_newK, Searcher.new_eq_newK, h]

/-! ### C04: `SearcherRev` -/

/-- `tw` is the value `twoway::FinderRev::new` returned for a needle with the bytes of `n` -/
def TwRevBuilt (n : Slice) (tw : TwoWay.TwoWay) : Prop :=
  ∃ n0 c0 c0', n0.Valid ∧ n.toList = n0.toList ∧ TwoWay.FinderRev.new n0 c0 = .ok tw c0'

/-- what `SearcherRev::new(needle)` returns, for a needle with the bytes of `n` -/
def SearcherRev.GoodFor (n : Slice) (s : SearcherRev) : Prop :=
  s.rabinkarp.inner = RabinKarp.Finder.spec n.toList.reverse ∧
  match s.kind with
  | .empty => n.len = 0
  | .oneByte b => n.len = 1 ∧ b = n.getD 0
  | .twoWay tw => 2 ≤ n.len ∧ TwRevBuilt n tw

def SearcherRev.usesTwoWay (s : SearcherRev) : Prop :=
  match s.kind with
  | .twoWay _ => True
  | _ => False

theorem SearcherRev.GoodFor.congr {n n0 : Slice} (hb : n.toList = n0.toList) {s : SearcherRev}
    (h : s.GoodFor n0) : s.GoodFor n := by
  obtain ⟨hl, hg⟩ := same_bytes hb
  obtain ⟨h1, h2⟩ := h
  refine ⟨by rw [h1, hb], ?_⟩
  obtain ⟨kind, rk⟩ := s
  cases kind with
  | empty => exact hl.trans h2
  | oneByte b => exact ⟨hl.trans h2.1, by rw [h2.2, hg 0 (by have := h2.1; omega)]⟩
  | twoWay tw =>
    obtain ⟨a, n1, c0, c0', b, c, d⟩ := h2
    exact ⟨by omega, n1, c0, c0', b, hb.trans c, d⟩

/-- **C04 at the `SearcherRev` level.** -/
theorem SearcherRev.rfind_good (cfg : Api.Cfg) {n : Slice} {s : SearcherRev} (hg : s.GoodFor n)
    (htw : s.usesTwoWay → TwoWayRevOk) (hay : Slice) (hh : hay.Valid) (hn : n.Valid) (c : Ctr) :
    ∃ c', s.rfind cfg hay n c = .ok (Spec.rightmost hay.toArray n.toArray) c' := by
  obtain ⟨hrk, hk⟩ := hg
  unfold SearcherRev.rfind
  by_cases hshort : hay.len < n.len
  · simp only [hshort, if_true]
    rw [rightmost_of_short (by rw [Slice.toArray_size hh, Slice.toArray_size hn]; exact hshort)]
    exact ⟨c, rfl⟩
  · simp only [hshort, if_false]
    obtain ⟨kind, rk⟩ := s
    cases kind with
    | empty =>
      rw [rightmost_empty (by rw [Slice.toArray_size hn]; exact hk), Slice.toArray_size hh]
      exact ⟨c, rfl⟩
    | oneByte b =>
      obtain ⟨h1, rfl⟩ := hk
      rw [rightmost_one hh hn h1]
      exact topMemrchr_ok cfg (n.getD 0) hay hh c
    | twoWay tw =>
      obtain ⟨h2, n0, c0, c0', hv0, hb, hnew⟩ := hk
      simp only []
      split
      · obtain ⟨c', h, _⟩ := RabinKarp.rfind_correct_of_spec rk hay n c hh hn hrk
        exact ⟨c', h⟩
      · exact (htw trivial).rfind_ok n0 n hay tw c0 c0' hv0 hn hh hb h2 (by omega) hnew c

/-- `SearcherRev::new`: returns normally a searcher good for the needle; Two-Way (its reverse
constructor) is only involved for needles of at least two bytes. -/
theorem SearcherRev.new_ok (n : Slice) (hn : n.Valid) (htw : 2 ≤ n.len → TwoWayRevOk) (c : Ctr) :
    ∃ s c', SearcherRev.new n c = .ok s c' ∧ s.GoodFor n ∧ (s.usesTwoWay → 2 ≤ n.len) := by
  unfold SearcherRev.new
  by_cases hle : n.len ≤ 1
  · simp only [hle, if_true]
    by_cases h0 : n.len = 0
    · simp only [h0, if_true, pure_bind', bind_ok (RabinKarp.FinderRev.new_run n c)]
      exact ⟨_, _, rfl, ⟨rfl, h0⟩, fun h => by cases h⟩
    · have h1 : n.len = 1 := by omega
      have hb : (1 == n.len) = true := by simp [h1]
      simp only [h0, if_false, hb, dbgAssert_true, pure_bind',
        get_ok _ _ (show 0 < n.len by omega), bind_ok (RabinKarp.FinderRev.new_run n c)]
      exact ⟨_, _, rfl, ⟨rfl, h1, rfl⟩, fun h => by cases h⟩
  · have h2 : 2 ≤ n.len := by omega
    obtain ⟨tw, c1, h⟩ := (htw h2).new_ok n hn h2 c
    simp only [hle, if_false, bind, M.bind, h, pure, M.pure, RabinKarp.FinderRev.new_run n c1]
    exact ⟨_, _, rfl, ⟨rfl, h2, n, c, c1, hn, rfl, h⟩, fun _ => h2⟩

theorem SearcherRev.new_rfind (n0 : Slice) (hn0 : n0.Valid) (htw : 2 ≤ n0.len → TwoWayRevOk)
    (c : Ctr) :
    ∃ s c1, SearcherRev.new n0 c = .ok s c1 ∧ s.GoodFor n0 ∧
      ∀ (cfg : Api.Cfg) (n hay : Slice), n.Valid → hay.Valid → n.toList = n0.toList →
        ∀ c2, ∃ c3, s.rfind cfg hay n c2 = .ok (Spec.rightmost hay.toArray n.toArray) c3 := by
  obtain ⟨s, c1, h, hg, hu⟩ := SearcherRev.new_ok n0 hn0 htw c
  exact ⟨s, c1, h, hg, fun cfg n hay hn hh hb c2 =>
    SearcherRev.rfind_good cfg (hg.congr hb) (fun u => htw (hu u)) hay hh hn c2⟩

/-- **C04.rfind**, needles of at most one byte (no Two-Way): unconditional. -/
theorem C04.rfind (cfg : Api.Cfg) (needle hay : Slice) (hn : needle.Valid) (hh : hay.Valid)
    (hbranch : needle.len ≤ 1) (c : Ctr) :
    ∃ s c1, SearcherRev.new needle c = .ok s c1 ∧ ∀ c2, ∃ c3,
      s.rfind cfg hay needle c2 = .ok (Spec.rightmost hay.toArray needle.toArray) c3 := by
  obtain ⟨s, c1, h, _, hf⟩ := SearcherRev.new_rfind needle hn (fun h2 => by omega) c
  exact ⟨s, c1, h, fun c2 => hf cfg needle hay hn hh rfl c2⟩

/-- **C04.rfind**, all needles, under `TwoWayRevOk`.
FULL STATEMENT (what remains to be shown is `TwoWayRevOk`): the same without `tw`. -/
theorem C04.rfind_partial (tw : TwoWayRevOk) (cfg : Api.Cfg) (needle hay : Slice)
    (hn : needle.Valid) (hh : hay.Valid) (c : Ctr) :
    ∃ s c1, SearcherRev.new needle c = .ok s c1 ∧ ∀ c2, ∃ c3,
      s.rfind cfg hay needle c2 = .ok (Spec.rightmost hay.toArray needle.toArray) c3 := by
  obtain ⟨s, c1, h, _, hf⟩ := SearcherRev.new_rfind needle hn (fun _ => tw) c
  exact ⟨s, c1, h, fun c2 => hf cfg needle hay hn hh rfl c2⟩

/-- the empty needle's last match is at `haystack.len()` -/
theorem C04.rfind_empty (cfg : Api.Cfg) (needle hay : Slice) (hn : needle.Valid) (hh : hay.Valid)
    (h0 : needle.len = 0) (c : Ctr) :
    ∃ s c1, SearcherRev.new needle c = .ok s c1 ∧ ∀ c2, ∃ c3,
      s.rfind cfg hay needle c2 = .ok (some hay.len) c3 := by
  have := C04.rfind cfg needle hay hn hh (by omega) c
  rwa [rightmost_empty (by rw [Slice.toArray_size hn]; exact h0), Slice.toArray_size hh] at this

/-! ### the hypotheses are satisfiable -/

/-- two valid non-trivial slices (sub-slices of larger regions at odd addresses) and a
configuration with a vector finder: the hypotheses of `C03.find` / `C04.rfind` hold -/
example : (⟨⟨1, 1048577, #[0, 97, 98, 99, 0]⟩, 1, 3⟩ : Slice).Valid ∧
    (⟨⟨0, 4099, #[120, 120, 97, 98, 99, 120, 97, 98, 99, 120]⟩, 1, 8⟩ : Slice).Valid ∧
    (vecKind { arch := .x86_64, ctSse2 := true, ctAvx2 := false, ctNeon := false, std := true,
               cpuAvx2 := true }).isSome = true ∧
    doPackedSearch ⟨⟨1, 1048577, #[0, 97, 98, 99, 0]⟩, 1, 3⟩ = true := by
  refine ⟨by simp [Slice.Valid], by simp [Slice.Valid], by decide, by decide⟩

end Memchr.Memmem

section AxiomCheck
open Memchr.Memmem
#print axioms Prefilter.find_sound
#print axioms Searcher.find_good
#print axioms Searcher.new_ok
#print axioms Searcher.new_find
#print axioms C03.find
#print axioms C03.find_partial
#print axioms C03.find_empty
#print axioms C10.find_indep
#print axioms Searcher.new_eq_of_vecKind
#print axioms C04.rfind
#print axioms C04.rfind_partial
#print axioms C04.rfind_empty
end AxiomCheck
