/-
Two-Way, reverse direction, unconditional: the certificate hypothesis of
`new_rfind_eq_of_cert` removed.

`cert_fwd` (`Proofs/TwoWayCert.lean`, T1 + T2 + T3: for EVERY needle the values of
`Finder::new` satisfy `CertFwd`) applied to the reversed needle `revSlice needle`, transported
by the bridge `certRev_of_certFwd_revSlice` (`Proofs/TwoWayRevBridge.lean`: lock-step
simulation of `FinderRev::new(x)` by `Finder::new(reverse x)` and
`CertRev x crit shift ↔ crit ≤ |x| ∧ CertFwd x.reverse (|x| - crit) shift`).

* `cert_rev`: for every needle the critical position and shift computed by `FinderRev::new`
  satisfy `CertRev`.
* `rfind_correct`: `FinderRev::new(needle).rfind(haystack, needle)` is the rightmost
  occurrence, for every needle and haystack, without fault, within
  `3 * haystack.len + 8 * needle.len + 3` steps.

(This file is the only one of the `TwoWayRev*` family that depends on `Proofs/TwoWayCert*.lean`.)
-/
import MemchrModel.Proofs.TwoWayRev
import MemchrModel.Proofs.TwoWayRevBridge
import MemchrModel.Proofs.TwoWayCert

namespace Memchr.TwoWay

open Memchr

/-- **Reverse certificate for every needle.**  `FinderRev::new(needle)` returns normally and
the `critical_pos` and `shift` it stores satisfy `CertRev`. -/
theorem cert_rev (needle : Slice) (hnv : needle.Valid) (c : Ctr) :
    ∃ tw c', FinderRev.new needle c = .ok tw c' ∧
      CertRev needle.toArray tw.criticalPos tw.shift :=
  certRev_of_certFwd_revSlice needle hnv c (cert_fwd (revSlice needle) (revSlice_valid needle) c)

/-- **`FinderRev::new(needle).rfind(haystack, needle)` is the rightmost occurrence**, for every
(valid) needle and haystack: no fault of any kind, at most
`3 * haystack.len + 8 * needle.len + 3` steps. -/
theorem rfind_correct (needle haystack : Slice) (c : Ctr) (hnv : needle.Valid)
    (hhv : haystack.Valid) :
    ∃ c', (FinderRev.new needle >>= fun tw => FinderRev.rfind tw haystack needle) c =
        .ok (Spec.rightmost haystack.toArray needle.toArray) c' ∧
      c'.steps ≤ c.steps + 3 * haystack.len + 8 * needle.len + 3 :=
  new_rfind_eq_of_cert needle haystack c hnv hhv (fun tw c1 e => by
    obtain ⟨tw', c1', e', hcert⟩ := cert_rev needle hnv c
    rw [e] at e'
    cases e'
    exact hcert)

/-- non-vacuity of the hypotheses: valid needle and haystack -/
example :
    let needle := Slice.ofMem ⟨1, 4096, "abaab".toUTF8.data⟩
    let haystack := Slice.ofMem ⟨0, 8192, "abaaabaabab".toUTF8.data⟩
    needle.Valid ∧ haystack.Valid := by
  refine ⟨by unfold Slice.Valid; decide, by unfold Slice.Valid; decide⟩

#print axioms cert_rev
#print axioms rfind_correct

end Memchr.TwoWay
