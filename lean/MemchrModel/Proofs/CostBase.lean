/-
C13 infrastructure: partial-correctness step accounting.

`Costs m P` says: whenever `m` returns normally with value `a` from ANY counter state, it has
added at most `k` steps for some `k` with `P a k`.  No fault-freedom is claimed here (that is what
the total-correctness master theorems of the other `Proofs/*.lean` files provide); the two are
combined by `Costs.combine`.  The rules below let a cost lemma be proved by walking through the
`do` block of the model function one primitive at a time, without discharging any bounds-check
side condition.
-/
import MemchrModel.Base.Lemmas
import MemchrModel.Base.Slice

namespace Memchr

/-- every successful run adds at most `k` steps for a `k` with `P a k` -/
def Costs {α : Type} (m : M α) (P : α → Nat → Prop) : Prop :=
  ∀ c a c', m c = .ok a c' → ∃ k, c'.steps ≤ c.steps + k ∧ P a k

/-- every successful run adds no step and its value satisfies `R` -/
def Free {α : Type} (m : M α) (R : α → Prop) : Prop :=
  ∀ c a c', m c = .ok a c' → c'.steps = c.steps ∧ R a

namespace Costs

variable {α β : Type}

theorem mono {m : M α} {P Q : α → Nat → Prop} (h : Costs m P) (hpq : ∀ a k, P a k → Q a k) :
    Costs m Q := by
  intro c a c' e
  obtain ⟨k, e1, p⟩ := h c a c' e
  exact ⟨k, e1, hpq a k p⟩

theorem pure {a : α} {P : α → Nat → Prop} (h : P a 0) : Costs (pure a : M α) P := by
  intro c a' c' e
  simp only [M.pure_run, Res.ok.injEq] at e
  obtain ⟨rfl, rfl⟩ := e
  exact ⟨0, Nat.le_refl _, h⟩

theorem fail {f : Fault} {P : α → Nat → Prop} : Costs (fail f : M α) P := by
  intro c a c' e
  simp only [fail_run] at e
  cases e

theorem bind {m : M α} {f : α → M β} {P : α → Nat → Prop} {Q : β → Nat → Prop}
    (hm : Costs m P) (hf : ∀ a k1, P a k1 → Costs (f a) (fun b k2 => Q b (k1 + k2))) :
    Costs (m >>= f) Q := by
  intro c b c' e
  simp only [M.bind_run] at e
  cases h : m c with
  | fault x => rw [h] at e; cases e
  | ok a c1 =>
    rw [h] at e
    obtain ⟨k1, e1, p1⟩ := hm c a c1 h
    obtain ⟨k2, e2, p2⟩ := hf a k1 p1 c1 b c' e
    exact ⟨k1 + k2, by omega, p2⟩

theorem of_free {m : M α} {R : α → Prop} {Q : α → Nat → Prop} (hm : Free m R)
    (h : ∀ a, R a → Q a 0) : Costs m Q := by
  intro c a c' e
  obtain ⟨e1, r⟩ := hm c a c' e
  exact ⟨0, by omega, h a r⟩

theorem free_bind {m : M α} {f : α → M β} {R : α → Prop} {Q : β → Nat → Prop}
    (hm : Free m R) (hf : ∀ a, R a → Costs (f a) Q) : Costs (m >>= f) Q := by
  apply bind (of_free hm (Q := fun a k => R a ∧ k = 0) (fun a r => ⟨r, rfl⟩))
  rintro a k1 ⟨r, rfl⟩
  exact (hf a r).mono (fun b k h => by simpa using h)

/-- a total-correctness statement with an exact or bounded step count gives a cost statement -/
theorem of_total {m : M α} {P : α → Nat → Prop}
    (h : ∀ c, ∃ a c', m c = .ok a c' ∧ ∃ k, c'.steps ≤ c.steps + k ∧ P a k) : Costs m P := by
  intro c a c' e
  obtain ⟨a1, c1, e1, k, ek, p⟩ := h c
  rw [e1] at e
  simp only [Res.ok.injEq] at e
  obtain ⟨rfl, rfl⟩ := e
  exact ⟨k, ek, p⟩

/-- a total-correctness statement with an upper bound on the steps -/
theorem of_total_le {m : M α} {P : α → Prop} {B : α → Nat}
    (h : ∀ c, ∃ a c', m c = .ok a c' ∧ P a ∧ c'.steps ≤ c.steps + B a) :
    Costs m (fun a k => P a ∧ k ≤ B a) := by
  intro c a c' e
  obtain ⟨a1, c1, e1, p, hb⟩ := h c
  rw [e1] at e
  simp only [Res.ok.injEq] at e
  obtain ⟨rfl, rfl⟩ := e
  exact ⟨B a1, hb, p, Nat.le_refl _⟩

/-- combine a total-correctness statement (value only) with a cost statement -/
theorem combine {m : M α} {P : α → Nat → Prop} {R : α → Prop} (h : Costs m P) (c : Ctr)
    (ht : ∃ a c', m c = .ok a c' ∧ R a) :
    ∃ a c', m c = .ok a c' ∧ R a ∧ ∃ k, c'.steps ≤ c.steps + k ∧ P a k := by
  obtain ⟨a, c', e, r⟩ := ht
  exact ⟨a, c', e, r, h c a c' e⟩

/-- the value of a run known by a total-correctness theorem -/
theorem of_val {m : M α} {P : α → Nat → Prop} {R : α → Prop} (h : Costs m P)
    (hv : ∀ c, ∃ a c', m c = .ok a c' ∧ R a) : Costs m (fun a k => P a k ∧ R a) := by
  intro c a c' e
  obtain ⟨k, e1, p⟩ := h c a c' e
  obtain ⟨a1, c1, e2, r⟩ := hv c
  rw [e2] at e
  simp only [Res.ok.injEq] at e
  obtain ⟨rfl, rfl⟩ := e
  exact ⟨k, e1, p, r⟩

end Costs

/-! ### the primitives -/

namespace Free

variable {α : Type}

theorem pure (a : α) : Free (pure a : M α) (fun x => x = a) := by
  intro c a' c' e
  simp only [M.pure_run, Res.ok.injEq] at e
  obtain ⟨rfl, rfl⟩ := e
  exact ⟨rfl, rfl⟩

theorem csub (site : String) (x y : Nat) : Free (csub site x y) (fun r => y ≤ x ∧ r = x - y) := by
  intro c a c' e
  unfold Memchr.csub at e
  split at e
  · simp only [M.pure_run, Res.ok.injEq] at e
    obtain ⟨rfl, rfl⟩ := e
    exact ⟨rfl, by assumption, rfl⟩
  · cases e

theorem dbgAssert (site : String) (b : Bool) : Free (dbgAssert site b) (fun _ => b = true) := by
  intro c a c' e
  cases b with
  | true =>
    simp only [dbgAssert_true, M.pure_run, Res.ok.injEq] at e
    exact ⟨by rw [e.2], rfl⟩
  | false => simp only [dbgAssert_false, fail_run] at e; cases e

theorem assert (site : String) (b : Bool) : Free (assert site b) (fun _ => b = true) := by
  intro c a c' e
  cases b with
  | true =>
    simp only [assert_true, M.pure_run, Res.ok.injEq] at e
    exact ⟨by rw [e.2], rfl⟩
  | false => simp only [assert_false, fail_run] at e; cases e

theorem padd (m : Mem) (site : String) (p k : Nat) :
    Free (m.padd site p k) (fun r => r = p + k ∧ m.base ≤ p ∧ p + k ≤ m.base + m.bytes.size) := by
  intro c a c' e
  unfold Mem.padd at e
  split at e
  · rename_i h
    simp only [M.pure_run, Res.ok.injEq] at e
    obtain ⟨rfl, rfl⟩ := e
    simp only [Bool.and_eq_true, decide_eq_true_eq] at h
    exact ⟨rfl, rfl, h.1, h.2⟩
  · cases e

theorem psub (m : Mem) (site : String) (p k : Nat) :
    Free (m.psub site p k) (fun r => r = p - k ∧ m.base + k ≤ p ∧ p ≤ m.base + m.bytes.size) := by
  intro c a c' e
  unfold Mem.psub at e
  split at e
  · rename_i h
    simp only [M.pure_run, Res.ok.injEq] at e
    obtain ⟨rfl, rfl⟩ := e
    simp only [Bool.and_eq_true, decide_eq_true_eq] at h
    exact ⟨rfl, rfl, h.1, h.2⟩
  · cases e

theorem distance (m : Mem) (site : String) (a b : Nat) :
    Free (m.distance site a b)
      (fun r => r = a - b ∧ m.base ≤ b ∧ b ≤ a ∧ a ≤ m.base + m.bytes.size) := by
  intro c x c' e
  unfold Mem.distance at e
  split at e
  · rename_i h
    simp only [M.pure_run, Res.ok.injEq] at e
    obtain ⟨rfl, rfl⟩ := e
    simp only [Bool.and_eq_true, decide_eq_true_eq] at h
    exact ⟨rfl, rfl, h.1.1, h.1.2, h.2⟩
  · cases e

theorem loadU (m : Mem) (a len : Nat) :
    Free (m.loadU a len)
      (fun r => r = m.window a len ∧ m.base ≤ a ∧ a + len ≤ m.base + m.bytes.size) := by
  intro c x c' e
  unfold Mem.loadU at e
  split at e
  · rename_i h
    simp only [Res.ok.injEq] at e
    obtain ⟨rfl, rfl⟩ := e
    exact ⟨rfl, rfl, (Mem.inb_iff m a len).mp h⟩
  · cases e

theorem loadA (m : Mem) (a len : Nat) (chk : Bool) :
    Free (m.loadA a len chk)
      (fun r => r = m.window a len ∧ m.base ≤ a ∧ a + len ≤ m.base + m.bytes.size) := by
  intro c x c' e
  unfold Mem.loadA at e
  split at e
  · rename_i h
    split at e
    · cases e
    · simp only [Res.ok.injEq] at e
      obtain ⟨rfl, rfl⟩ := e
      exact ⟨rfl, rfl, (Mem.inb_iff m a len).mp h⟩
  · cases e

theorem read (m : Mem) (a : Nat) :
    Free (m.read a) (fun r => r = m.byteAt a ∧ m.base ≤ a ∧ a < m.base + m.bytes.size) := by
  intro c x c' e
  unfold Mem.read at e
  split at e
  · rename_i h
    simp only [Res.ok.injEq] at e
    obtain ⟨rfl, rfl⟩ := e
    have := (Mem.inb_iff m a 1).mp h
    exact ⟨rfl, rfl, this.1, by omega⟩
  · cases e

theorem get (s : Slice) (site : String) (i : Nat) :
    Free (s.get site i) (fun r => i < s.len ∧ r = s.getD i) := by
  intro c x c' e
  unfold Slice.get at e
  split at e
  · simp only [M.pure_run, Res.ok.injEq] at e
    obtain ⟨rfl, rfl⟩ := e
    exact ⟨rfl, by assumption, rfl⟩
  · cases e

theorem drop (s : Slice) (site : String) (a : Nat) :
    Free (s.drop site a) (fun r => a ≤ s.len ∧ r = ⟨s.mem, s.off + a, s.len - a⟩) := by
  intro c x c' e
  unfold Slice.drop at e
  split at e
  · simp only [M.pure_run, Res.ok.injEq] at e
    obtain ⟨rfl, rfl⟩ := e
    exact ⟨rfl, by assumption, rfl⟩
  · cases e

theorem take (s : Slice) (site : String) (b : Nat) :
    Free (s.take site b) (fun r => b ≤ s.len ∧ r = ⟨s.mem, s.off, b⟩) := by
  intro c x c' e
  unfold Slice.take at e
  split at e
  · simp only [M.pure_run, Res.ok.injEq] at e
    obtain ⟨rfl, rfl⟩ := e
    exact ⟨rfl, by assumption, rfl⟩
  · cases e

theorem range (s : Slice) (site : String) (a b : Nat) :
    Free (s.range site a b)
      (fun r => a ≤ b ∧ b ≤ s.len ∧ r = ⟨s.mem, s.off + a, b - a⟩) := by
  intro c x c' e
  unfold Slice.range at e
  split at e
  · rename_i h
    simp only [M.pure_run, Res.ok.injEq] at e
    obtain ⟨rfl, rfl⟩ := e
    simp only [Bool.and_eq_true, decide_eq_true_eq] at h
    exact ⟨rfl, h.1, h.2, rfl⟩
  · cases e

/-- a run that is known to leave the counter alone (e.g. `firstOffset_spec`) -/
theorem of_total {m : M α} {R : α → Prop}
    (h : ∀ c, ∃ a, m c = .ok a c ∧ R a) : Free m R := by
  intro c a c' e
  obtain ⟨a1, e1, r⟩ := h c
  rw [e1] at e
  simp only [Res.ok.injEq] at e
  obtain ⟨rfl, rfl⟩ := e
  exact ⟨rfl, r⟩

theorem mono {m : M α} {R S : α → Prop} (h : Free m R) (hrs : ∀ a, R a → S a) : Free m S := by
  intro c a c' e
  obtain ⟨e1, r⟩ := h c a c' e
  exact ⟨e1, hrs a r⟩

theorem bind {β : Type} {m : M α} {f : α → M β} {R : α → Prop} {S : β → Prop}
    (hm : Free m R) (hf : ∀ a, R a → Free (f a) S) : Free (m >>= f) S := by
  intro c b c' e
  simp only [M.bind_run] at e
  cases h : m c with
  | fault x => rw [h] at e; cases e
  | ok a c1 =>
    rw [h] at e
    obtain ⟨e1, r⟩ := hm c a c1 h
    obtain ⟨e2, s⟩ := hf a r c1 b c' e
    exact ⟨by omega, s⟩

end Free

/-! ### facts only -/

/-- every successful run returns a value satisfying `R` (no statement about steps) -/
structure Post {α : Type} (m : M α) (R : α → Prop) : Prop where
  out : ∀ c a c', m c = .ok a c' → R a

namespace Post

variable {α β : Type}

theorem pure {a : α} {R : α → Prop} (h : R a) : Post (Pure.pure a : M α) R := by
  constructor
  intro c a' c' e
  simp only [M.pure_run, Res.ok.injEq] at e
  obtain ⟨rfl, _⟩ := e
  exact h

theorem fail {f : Fault} {R : α → Prop} : Post (Memchr.fail f : M α) R := by
  constructor
  intro c a c' e
  simp only [fail_run] at e
  cases e

theorem mono {m : M α} {R S : α → Prop} (h : Post m R) (hrs : ∀ a, R a → S a) : Post m S :=
  ⟨fun c a c' e => hrs a (h.out c a c' e)⟩

theorem bind {m : M α} {f : α → M β} {R : α → Prop} {S : β → Prop}
    (hm : Post m R) (hf : ∀ a, R a → Post (f a) S) : Post (m >>= f) S := by
  constructor
  intro c b c' e
  simp only [M.bind_run] at e
  cases h : m c with
  | fault x => rw [h] at e; cases e
  | ok a c1 =>
    rw [h] at e
    exact (hf a (hm.out c a c1 h)).out c1 b c' e

/-- ignore the first computation -/
theorem bind_right {m : M α} {f : α → M β} {S : β → Prop} (hf : ∀ a, Post (f a) S) :
    Post (m >>= f) S :=
  bind (R := fun _ => True) ⟨fun _ _ _ _ => trivial⟩ (fun a _ => hf a)

theorem of_free {m : M α} {R : α → Prop} (h : Free m R) : Post m R :=
  ⟨fun c a c' e => (h c a c' e).2⟩

theorem of_costs {m : M α} {P : α → Nat → Prop} (h : Costs m P) : Post m (fun a => ∃ k, P a k) := by
  constructor
  intro c a c' e
  obtain ⟨k, _, p⟩ := h c a c' e
  exact ⟨k, p⟩

end Post

/-- strengthen a cost statement by a fact about the value -/
theorem Costs.with_post {α : Type} {m : M α} {P : α → Nat → Prop} {R : α → Prop}
    (h : Costs m P) (hr : Post m R) : Costs m (fun a k => P a k ∧ R a) := by
  intro c a c' e
  obtain ⟨k, ek, p⟩ := h c a c' e
  exact ⟨k, ek, p, hr.out c a c' e⟩

/-! ### bind rules, one per primitive (the value is substituted, the side fact is handed over) -/

namespace Costs

variable {β : Type} {Q : β → Nat → Prop}

theorem tick_bind {n : Nat} {f : Unit → M β} (h : Costs (f ()) (fun b k => Q b (n + k))) :
    Costs (tick n >>= f) Q := by
  intro c b c' e
  simp only [M.bind_run, tick_run] at e
  obtain ⟨k, e1, p⟩ := h _ b c' e
  exact ⟨n + k, by simp only at e1; omega, p⟩

theorem tick {n : Nat} {Q : Unit → Nat → Prop} (h : Q () n) : Costs (tick n) Q := by
  intro c b c' e
  simp only [tick_run, Res.ok.injEq] at e
  obtain ⟨_, rfl⟩ := e
  exact ⟨n, Nat.le_refl _, h⟩

theorem pure_bind {α : Type} {a : α} {f : α → M β} (h : Costs (f a) Q) :
    Costs ((Pure.pure a : M α) >>= f) Q := h

theorem csub_bind {site : String} {x y : Nat} {f : Nat → M β}
    (h : y ≤ x → Costs (f (x - y)) Q) : Costs (csub site x y >>= f) Q :=
  free_bind (Free.csub site x y) (by rintro a ⟨h1, rfl⟩; exact h h1)

theorem dbgAssert_bind {site : String} {b : Bool} {f : Unit → M β}
    (h : b = true → Costs (f ()) Q) : Costs (dbgAssert site b >>= f) Q :=
  free_bind (Free.dbgAssert site b) (fun _ hb => h hb)

theorem assert_bind {site : String} {b : Bool} {f : Unit → M β}
    (h : b = true → Costs (f ()) Q) : Costs (assert site b >>= f) Q :=
  free_bind (Free.assert site b) (fun _ hb => h hb)

theorem padd_bind {m : Mem} {site : String} {p k : Nat} {f : Nat → M β}
    (h : m.base ≤ p ∧ p + k ≤ m.base + m.bytes.size → Costs (f (p + k)) Q) :
    Costs (m.padd site p k >>= f) Q :=
  free_bind (Free.padd m site p k) (by rintro a ⟨rfl, h1⟩; exact h h1)

theorem psub_bind {m : Mem} {site : String} {p k : Nat} {f : Nat → M β}
    (h : m.base + k ≤ p ∧ p ≤ m.base + m.bytes.size → Costs (f (p - k)) Q) :
    Costs (m.psub site p k >>= f) Q :=
  free_bind (Free.psub m site p k) (by rintro a ⟨rfl, h1⟩; exact h h1)

theorem distance_bind {m : Mem} {site : String} {a b : Nat} {f : Nat → M β}
    (h : m.base ≤ b ∧ b ≤ a ∧ a ≤ m.base + m.bytes.size → Costs (f (a - b)) Q) :
    Costs (m.distance site a b >>= f) Q :=
  free_bind (Free.distance m site a b) (by rintro x ⟨rfl, h1⟩; exact h h1)

theorem loadU_bind {m : Mem} {a len : Nat} {f : List UInt8 → M β}
    (h : m.base ≤ a ∧ a + len ≤ m.base + m.bytes.size → Costs (f (m.window a len)) Q) :
    Costs (m.loadU a len >>= f) Q :=
  free_bind (Free.loadU m a len) (by rintro x ⟨rfl, h1⟩; exact h h1)

theorem loadA_bind {m : Mem} {a len : Nat} {chk : Bool} {f : List UInt8 → M β}
    (h : m.base ≤ a ∧ a + len ≤ m.base + m.bytes.size → Costs (f (m.window a len)) Q) :
    Costs (m.loadA a len chk >>= f) Q :=
  free_bind (Free.loadA m a len chk) (by rintro x ⟨rfl, h1⟩; exact h h1)

theorem read_bind {m : Mem} {a : Nat} {f : UInt8 → M β}
    (h : m.base ≤ a ∧ a < m.base + m.bytes.size → Costs (f (m.byteAt a)) Q) :
    Costs (m.read a >>= f) Q :=
  free_bind (Free.read m a) (by rintro x ⟨rfl, h1⟩; exact h h1)

theorem get_bind {s : Slice} {site : String} {i : Nat} {f : UInt8 → M β}
    (h : i < s.len → Costs (f (s.getD i)) Q) : Costs (s.get site i >>= f) Q :=
  free_bind (Free.get s site i) (by rintro x ⟨h1, rfl⟩; exact h h1)

theorem drop_bind {s : Slice} {site : String} {a : Nat} {f : Slice → M β}
    (h : a ≤ s.len → Costs (f ⟨s.mem, s.off + a, s.len - a⟩) Q) :
    Costs (s.drop site a >>= f) Q :=
  free_bind (Free.drop s site a) (by rintro x ⟨h1, rfl⟩; exact h h1)

theorem take_bind {s : Slice} {site : String} {b : Nat} {f : Slice → M β}
    (h : b ≤ s.len → Costs (f ⟨s.mem, s.off, b⟩) Q) : Costs (s.take site b >>= f) Q :=
  free_bind (Free.take s site b) (by rintro x ⟨h1, rfl⟩; exact h h1)

theorem range_bind {s : Slice} {site : String} {a b : Nat} {f : Slice → M β}
    (h : a ≤ b ∧ b ≤ s.len → Costs (f ⟨s.mem, s.off + a, b - a⟩) Q) :
    Costs (s.range site a b >>= f) Q :=
  free_bind (Free.range s site a b) (by rintro x ⟨h1, h2, rfl⟩; exact h ⟨h1, h2⟩)

theorem fail_bind {α : Type} {e : Fault} {f : α → M β} : Costs ((Memchr.fail e : M α) >>= f) Q := by
  intro c b c' h
  simp only [M.bind_run, fail_run] at h
  cases h

end Costs

/-- one step through the head primitive of a `do` block -/
macro "cstep" : tactic => `(tactic| first
  | apply Costs.tick_bind
  | (apply Costs.csub_bind; intro _)
  | (apply Costs.dbgAssert_bind; intro _)
  | (apply Costs.assert_bind; intro _)
  | (apply Costs.padd_bind; intro _)
  | (apply Costs.psub_bind; intro _)
  | (apply Costs.distance_bind; intro _)
  | (apply Costs.loadU_bind; intro _)
  | (apply Costs.loadA_bind; intro _)
  | (apply Costs.read_bind; intro _)
  | (apply Costs.get_bind; intro _)
  | (apply Costs.drop_bind; intro _)
  | (apply Costs.take_bind; intro _)
  | (apply Costs.range_bind; intro _)
  | apply Costs.fail_bind
  | apply Costs.fail)

/-- as many primitive steps as possible -/
macro "csteps" : tactic => `(tactic| repeat (cstep; try dsimp only))

end Memchr
