/-
Bridging lemmas for `Props/C13` (linear work): the finder-level forms of the cost master theorems
for an arbitrary builder (`build_forward_with_ranker(..).find(..)`, `FinderRev::new(..).rfind(..)`)
and the arithmetic that turns the individual bounds of `Proofs/Cost*.lean` into the one headline
inequality `steps <= A * (haystack.len + needle.len) + B * (matches + 1)`.

Nothing here is about the Rust code itself; every statement is a consequence of a master theorem
of `Proofs/CostSearcher.lean` / `Proofs/CostIter.lean`.
-/
import MemchrModel.Proofs.Cost
import MemchrModel.Proofs.PropsBridge3

namespace Memchr.Bridge4

open Memchr Memchr.Memmem

/-- `scanned` of a leftmost occurrence is at most `len + 1` (`+ 1`: the empty needle in the empty
haystack is found at offset 0 = `len`) -/
theorem scanned_leftmost_le (hay needle : Slice) (hh : hay.Valid) :
    Fallback.scanned (Spec.leftmost hay.toArray needle.toArray) hay.len ≤ hay.len + 1 := by
  cases h : Spec.leftmost hay.toArray needle.toArray with
  | none => simp only [Fallback.scanned]; omega
  | some i =>
    have := ((Spec.leftmost_eq_some_iff _ _ _).mp h).1.le_size
    rw [Slice.toArray_size hh] at this
    simp only [Fallback.scanned]; omega

/-- `scannedRev` is at most `len` -/
theorem scannedRev_le (r : Option Nat) (len : Nat) : Api.scannedRev r len ≤ len := by
  cases r with
  | none => simp only [Api.scannedRev]; omega
  | some i => simp only [Api.scannedRev]; omega

/-- `build_forward_with_ranker(ranker, needle)` then `find(haystack)`, any builder (prefilter
setting) and ranker: the leftmost occurrence in at most `1031 * scanned + 24 * needle.len + 2257`
steps. -/
theorem builder_find_cost (cfg : Api.Cfg) (b : FinderBuilder) (rank : UInt8 → UInt8)
    (needle hay : Slice) (hn : needle.Valid) (hh : hay.Valid) (c : Ctr) :
    ∃ c', (b.buildForwardWithRanker cfg rank needle >>= fun f => f.find cfg hay) c =
        .ok (Spec.leftmost hay.toArray needle.toArray) c' ∧
      c'.steps ≤ c.steps +
        1031 * Fallback.scanned (Spec.leftmost hay.toArray needle.toArray) hay.len +
        24 * needle.len + 2257 := by
  obtain ⟨c', e⟩ := C03.builder_find_all cfg b rank needle hay hn hh c
  have hc : Costs (b.buildForwardWithRanker cfg rank needle >>= fun f => f.find cfg hay)
      (fun r k => k ≤ 1031 * Fallback.scanned r hay.len + 24 * needle.len + 2257) := by
    apply Costs.bind (Cost.finderBuild_costs cfg b rank needle hn)
    rintro f k1 ⟨hk1, hg, hp⟩
    apply (Cost.finderFind_costs cfg hg hp hay hh).mono
    intro r k hk
    omega
  obtain ⟨k, ek, hk⟩ := hc c _ c' e
  exact ⟨c', e, by omega⟩

/-- `FinderRev::new(needle).rfind(haystack)`: the rightmost occurrence in at most
`3 * scannedRev + 24 * needle.len + 194` steps. -/
theorem finderRev_rfind_cost (cfg : Api.Cfg) (needle hay : Slice) (hn : needle.Valid)
    (hh : hay.Valid) (c : Ctr) :
    ∃ c', (FinderRev.new needle >>= fun f => f.rfind cfg hay) c =
        .ok (Spec.rightmost hay.toArray needle.toArray) c' ∧
      c'.steps ≤ c.steps +
        3 * Api.scannedRev (Spec.rightmost hay.toArray needle.toArray) hay.len +
        24 * needle.len + 194 := by
  obtain ⟨c', e⟩ := C04.finder_rfind_all cfg needle hay hn hh c
  have hc : Costs (FinderRev.new needle >>= fun f => f.rfind cfg hay) (fun r k =>
      k ≤ 3 * Api.scannedRev r hay.len + 24 * needle.len + 194) := by
    unfold FinderRev.new FinderBuilder.buildReverse
    apply Costs.bind (Costs.bind ((searcherRevNew_costs needle hn).of_val (fun c => by
      obtain ⟨s, c', e, hg, _⟩ := SearcherRev.new_ok needle hn (fun _ => twoWayRevOk) c
      exact ⟨s, c', e, hg⟩))
      (Q := fun (f : FinderRev) k => k ≤ 7 * needle.len + 2 ∧
        f.searcher.GoodFor needle ∧ f.needle.asSlice = needle) ?_)
    · rintro f k1 ⟨hk1, hg, hnd⟩
      unfold FinderRev.rfind
      rw [hnd]
      apply (searcherRevRfind_costs cfg hg hn hay hh).mono
      intro r k hk
      omega
    · rintro s k1 ⟨hk1, hg⟩
      apply Costs.pure
      exact ⟨by omega, hg, rfl⟩
  obtain ⟨k, ek, hk⟩ := hc c _ c' e
  exact ⟨c', e, by omega⟩

/-- **The headline of C13**, see `Props/C13.lean` (`linear_work`) for the reading. -/
theorem linear_work :
    ∃ A B : Nat, A = 2079 ∧ B = 5305 ∧
      ∀ (cfg : Api.Cfg) (b : FinderBuilder) (rank : UInt8 → UInt8) (needle hay : Slice),
        needle.Valid → hay.Valid →
      ∀ (matchCount budget : Nat),
        matchCount = (Spec.greedyFwd hay.toArray needle.toArray).length →
        budget = A * (hay.len + needle.len) + B * (matchCount + 1) →
      ∀ (h : Heap) (c : Ctr),
        (∃ c', (b.buildForwardWithRanker cfg rank needle >>= fun f => f.find cfg hay) c =
            .ok (Spec.leftmost hay.toArray needle.toArray) c' ∧
          c'.steps ≤ c.steps + budget) ∧
        (∃ c', (FinderRev.new needle >>= fun f => f.rfind cfg hay) c =
            .ok (Spec.rightmost hay.toArray needle.toArray) c' ∧
          c'.steps ≤ c.steps + budget) ∧
        (∃ c', Memmem.find cfg hay needle c =
            .ok (Spec.leftmost hay.toArray needle.toArray) c' ∧
          c'.steps ≤ c.steps + budget) ∧
        (∃ c', Memmem.rfind cfg hay needle c =
            .ok (Spec.rightmost hay.toArray needle.toArray) c' ∧
          c'.steps ≤ c.steps + budget) ∧
        (∀ k, k ≤ matchCount + 1 →
          ∃ it' h' c', (b.buildForwardWithRanker cfg rank needle >>= fun f =>
              FindIter.run cfg (List.replicate k .next) (f.findIter hay) h) c =
              .ok ((List.range k).map
                (fun i => Out.idx ((Spec.greedyFwd hay.toArray needle.toArray)[i]?)), it', h') c' ∧
            c'.steps ≤ c.steps + budget) ∧
        (∀ k, k ≤ (Spec.greedyRev hay.toArray needle.toArray).length + 1 →
          ∃ it' h' c', (FinderRev.new needle >>= fun f =>
              FindRevIter.run cfg (List.replicate k .next) (f.rfindIter hay) h) c =
              .ok ((List.range k).map
                (fun i => Out.idx ((Spec.greedyRev hay.toArray needle.toArray)[i]?)), it', h') c' ∧
            c'.steps ≤ c.steps + budget) := by
  refine ⟨2079, 5305, rfl, rfl, ?_⟩
  intro cfg b rank needle hay hn hh m budget hm hbud h c
  have hsc := scanned_leftmost_le hay needle hh
  have hsr := scannedRev_le (Spec.rightmost hay.toArray needle.toArray) hay.len
  refine ⟨?_, ?_, ?_, ?_, ?_, ?_⟩
  · obtain ⟨c', e, hk⟩ := builder_find_cost cfg b rank needle hay hn hh c
    exact ⟨c', e, by omega⟩
  · obtain ⟨c', e, hk⟩ := finderRev_rfind_cost cfg needle hay hn hh c
    exact ⟨c', e, by omega⟩
  · obtain ⟨c', e, hk⟩ := Cost.oneshot_find cfg needle hay hn hh c
    exact ⟨c', e, by omega⟩
  · obtain ⟨c', e, hk⟩ := Cost.oneshot_rfind cfg needle hay hn hh c
    exact ⟨c', e, by omega⟩
  · intro k hk
    obtain ⟨it', h', c', e, hs⟩ := Cost.find_iter_total cfg b rank needle hay hn hh k
      (by omega) h c
    exact ⟨it', h', c', e, by omega⟩
  · intro k hk
    have hlen := Bridge3.greedyRev_length_le hay.toArray needle.toArray
    rw [Slice.toArray_size hh] at hlen
    obtain ⟨it', h', c', e, hs⟩ := Cost.rfind_iter_total cfg needle hay hn hh k hk h c
    exact ⟨it', h', c', e, by omega⟩

end Memchr.Bridge4
