/-
Packed pair: lane facts, slice/array facts, and the run lemmas for `pairEq`, `candLoop`,
`findInChunk`, `findPrefilterInChunk`.
-/
import MemchrModel.Proofs.MemchrGenericLemmas
import MemchrModel.Proofs.IsEqual
import MemchrModel.Spec.Substr
import MemchrModel.Model.PackedPair

namespace Memchr.PackedPair

open Memchr Memchr.Generic

/-! ### lanes -/

theorem cmpeq_window_splat (m : Mem) (a n : Nat) (b : UInt8) :
    Vec.cmpeq (m.window a n) (Vec.splat n b) = bvec n (fun i => m.byteAt (a + i) == b) := by
  rw [splat_eq_map]
  unfold Vec.cmpeq Mem.window bvec
  rw [List.zipWith_map, List.zipWith_self]

theorem and_bvec (n : Nat) (f g : Nat → Bool) :
    Vec.and (bvec n f) (bvec n g) = bvec n (fun i => f i && g i) := by
  unfold Vec.and bvec
  rw [List.zipWith_map, List.zipWith_self]
  apply List.map_congr_left
  intro i _
  cases hf : f i <;> cases hg : g i <;> simp [hf, hg]

/-! ### slices, windows and arrays -/

theorem window_eq_iff (m1 m2 : Mem) (a1 a2 n : Nat) :
    m1.window a1 n = m2.window a2 n ↔ ∀ k, k < n → m1.byteAt (a1 + k) = m2.byteAt (a2 + k) := by
  unfold Mem.window
  rw [List.map_inj_left]
  simp only [List.mem_range]

theorem toArray_size {s : Slice} (hv : s.Valid) : s.toArray.size = s.len := by
  unfold Slice.toArray Slice.Valid at *
  rw [Array.size_extract]
  omega

theorem toArray_getElem? {s : Slice} (hv : s.Valid) {k : Nat} (hk : k < s.len) :
    s.toArray[k]? = some (s.mem.byteAt (s.ptr + k)) := by
  unfold Slice.toArray Slice.Valid Slice.ptr Mem.byteAt at *
  rw [Array.getElem?_extract]
  have h1 : k < min (s.off + s.len) s.mem.bytes.size - s.off := by omega
  have h2 : s.mem.base + s.off + k - s.mem.base = s.off + k := by omega
  have h3 : s.off + k < s.mem.bytes.size := by omega
  simp [h1, h2, h3]

/-! ### candidates and matches (address level) -/

/-- the pair of bytes matches when the needle is placed at address `a` -/
def candA (f : Finder) (hm : Mem) (a : Nat) : Bool :=
  hm.byteAt (a + f.index1) == f.b1 && hm.byteAt (a + f.index2) == f.b2

/-- `is_equal_raw(needle.as_ptr(), a, needle.len())` would return true -/
def WinEq (hm : Mem) (needle : Slice) (a : Nat) : Prop :=
  needle.mem.window needle.ptr needle.len = hm.window a needle.len

/-- the search needle fits below `end_` at address `a` and compares equal -/
def MatchAt (hm : Mem) (needle : Slice) (end_ a : Nat) : Prop :=
  a + needle.len ≤ end_ ∧ WinEq hm needle a

/-- what `find` reports: the pair matches and the search needle compares equal -/
def HitAt (f : Finder) (hm : Mem) (needle : Slice) (end_ a : Nat) : Prop :=
  candA f hm a = true ∧ MatchAt hm needle end_ a

theorem matchAt_iff_occAt {hay needle : Slice} (hh : hay.Valid) (hn : needle.Valid) (p : Nat) :
    MatchAt hay.mem needle hay.endPtr (hay.ptr + p) ↔
      Spec.OccAt hay.toArray needle.toArray p := by
  unfold MatchAt WinEq Spec.OccAt
  rw [window_eq_iff, toArray_size hh, toArray_size hn]
  unfold Slice.endPtr Slice.ptr
  constructor
  · rintro ⟨h1, h2⟩
    refine ⟨by omega, ?_⟩
    intro k hk
    rw [toArray_getElem? hh (by omega), toArray_getElem? hn hk]
    have := h2 k hk
    unfold Slice.ptr at *
    rw [this]
    congr 2
    omega
  · rintro ⟨h1, h2⟩
    refine ⟨by omega, ?_⟩
    intro k hk
    have := h2 k hk
    rw [toArray_getElem? hh (by omega), toArray_getElem? hn hk] at this
    unfold Slice.ptr at this
    have e : hay.mem.base + hay.off + (p + k) = hay.mem.base + hay.off + p + k := by omega
    rw [e] at this
    exact (Option.some.inj this).symm

/-! ### `pairEq` -/

variable {V : VecImpl}

/-- lane predicate of the chunk at `cur` -/
def candF (f : Finder) (hm : Mem) (cur : Nat) : Nat → Bool := fun i => candA f hm (cur + i)

theorem pairEq_run (who : String) (f : Finder) (hm : Mem) (cur : Nat) (c : Ctr)
    (hb : hm.base ≤ cur)
    (hrd : cur + max f.index1 f.index2 + V.bytes ≤ hm.base + hm.bytes.size) :
    ∃ c', pairEq V who f hm cur c = .ok (bvec V.bytes (candF f hm cur)) c' ∧
      c'.steps = c.steps + 1 := by
  have h1 : f.index1 ≤ max f.index1 f.index2 := Nat.le_max_left _ _
  have h2 : f.index2 ≤ max f.index1 f.index2 := Nat.le_max_right _ _
  have hp1 := Mem.padd_ok hm (who ++ ": cur.add(index1)") cur f.index1 hb (by omega)
  have hp2 := Mem.padd_ok hm (who ++ ": cur.add(index2)") cur f.index2 hb (by omega)
  refine ⟨{ steps := c.steps + 1,
            loads := ⟨hm.region, cur + f.index2 - hm.base, V.bytes, false⟩ ::
              ⟨hm.region, cur + f.index1 - hm.base, V.bytes, false⟩ :: c.loads }, ?_, rfl⟩
  · unfold pairEq VecImpl.loadU
    simp only [hp1, hp2, pure_bind', M.bind_run,
      Mem.loadU_ok hm (cur + f.index1) V.bytes _ (by omega) (by omega),
      Mem.loadU_ok hm (cur + f.index2) V.bytes _ (by omega) (by omega),
      tick_run, M.pure_run, cmpeq_window_splat, and_bvec]
    congr 1
    apply bvec_congr
    intro i _
    simp only [candF, candA]
    have e1 : cur + f.index1 + i = cur + i + f.index1 := by omega
    have e2 : cur + f.index2 + i = cur + i + f.index2 := by omega
    rw [e1, e2]

/-! ### the candidate loop -/

/-- result of the candidate loop over the set lanes of `mk`, lowest first -/
def CandRes (L : Lawful V) (hm : Mem) (needle : Slice) (cur end_ : Nat) (mk : V.Mask) :
    Option Nat → Prop
  | some k => L.bit mk k = true ∧ MatchAt hm needle end_ (cur + k) ∧
      ∀ j, j < k → L.bit mk j = true → ¬ MatchAt hm needle end_ (cur + j)
  | none => ∀ j, L.bit mk j = true → ¬ MatchAt hm needle end_ (cur + j)

theorem slice_ptr_range {s : Slice} (hv : s.Valid) :
    s.mem.base ≤ s.ptr ∧ s.ptr + s.len ≤ s.mem.base + s.mem.bytes.size := by
  unfold Slice.Valid Slice.ptr at *
  omega

/-- cost of one candidate: the `PP_CANDIDATE` tick plus `is_equal_raw` -/
def candCost (needle : Slice) : Nat := needle.len / 4 + 3

theorem candLoop_good (L : Lawful V) (hm : Mem) (needle : Slice) (cur end_ : Nat)
    (hv : needle.Valid) (hb : hm.base ≤ cur) (hcur : cur + V.bytes ≤ end_)
    (he : end_ ≤ hm.base + hm.bytes.size) (hgood : hm.base + needle.len ≤ end_)
    (fuel lo : Nat) (mk : V.Mask) (c : Ctr) (hwf : L.wf mk)
    (hlo : ∀ i, L.bit mk i = true → lo ≤ i) (hlo2 : lo ≤ V.bytes)
    (hfuel : V.bytes + 1 ≤ fuel + lo) :
    ∃ r c', candLoop V hm needle cur end_ fuel mk c = .ok r c' ∧
      CandRes L hm needle cur end_ mk r ∧
      c'.steps ≤ c.steps + (V.bytes - lo) * candCost needle := by
  induction fuel generalizing lo mk c with
  | zero => omega
  | succ fuel ih =>
    unfold candLoop
    by_cases hnz : V.hasNonZero mk = true
    · simp only [hnz, if_true]
      have hex := (L.hasNonZero_iff mk hwf).mp hnz
      obtain ⟨k, hfo, hk, hmin⟩ := L.firstOffset_spec mk { c with steps := c.steps + 1 } hwf hex
      have hklt := L.bit_lt mk k hwf hk
      have hlok := hlo k hk
      have hpa := Mem.padd_ok hm "find_in_chunk: cur.add(offset)" cur k hb (by omega)
      have hps := Mem.psub_ok hm "find_in_chunk: end.sub(needle.len())" end_ needle.len hgood he
      simp only [M.bind_run, tick_run, hfo, hpa, hps, M.pure_run]
      by_cases hlim : end_ - needle.len < cur + k
      · simp only [hlim, if_true, M.pure_run]
        refine ⟨none, _, rfl, ?_, ?_⟩
        · intro j hj hm'
          have : k ≤ j := by
            by_cases hjk : j < k
            · rw [hmin j hjk] at hj; cases hj
            · omega
          have := hm'.1
          omega
        · show c.steps + 1 ≤ _
          have : 1 ≤ V.bytes - lo := by omega
          have h3 : 1 * candCost needle ≤ (V.bytes - lo) * candCost needle :=
            Nat.mul_le_mul_right _ this
          unfold candCost at *
          omega
      · simp only [hlim, if_false]
        obtain ⟨n1, n2⟩ := slice_ptr_range hv
        obtain ⟨c1, heq, hc1⟩ := IsEqual.isEqualRaw_correct needle.mem hm needle.ptr (cur + k)
          needle.len { c with steps := c.steps + 1 } n1 n2 (by omega) (by omega)
        rw [bind_ok heq]
        have hstep : (V.bytes - (k + 1)) * candCost needle + candCost needle ≤
            (V.bytes - lo) * candCost needle := by
          have h1 : V.bytes - (k + 1) + 1 ≤ V.bytes - lo := by omega
          have h2 := Nat.mul_le_mul_right (candCost needle) h1
          rw [Nat.add_mul, Nat.one_mul] at h2
          exact h2
        by_cases hw : needle.mem.window needle.ptr needle.len = hm.window (cur + k) needle.len
        · simp only [hw, decide_true, if_true, M.pure_run]
          refine ⟨some k, c1, rfl, ⟨hk, ⟨by omega, hw⟩, ?_⟩, ?_⟩
          · intro j hj hbj
            rw [hmin j hj] at hbj; cases hbj
          · simp only at hc1
            unfold candCost at *
            omega
        · simp only [hw, decide_false, Bool.false_eq_true, if_false, M.bind_run]
          obtain ⟨m', hcl, hwf', hbits⟩ := L.clearLSB_spec mk c1 hwf hex
          have hbits' := hbits k ⟨hk, hmin⟩
          simp only [hcl]
          obtain ⟨r, c', hrun, hres, hcost⟩ := ih (k + 1) m' c1 hwf'
            (by
              intro i hi
              rw [hbits' i] at hi
              simp only [Bool.and_eq_true, bne_iff_ne, ne_eq] at hi
              have : k ≤ i := by
                by_cases hik : i < k
                · rw [hmin i hik] at hi; cases hi.1
                · omega
              omega)
            (by omega) (by omega)
          refine ⟨r, c', hrun, ?_, ?_⟩
          · cases r with
            | some k2 =>
              obtain ⟨a1, a2, a3⟩ := hres
              rw [hbits' k2] at a1
              simp only [Bool.and_eq_true, bne_iff_ne, ne_eq] at a1
              refine ⟨a1.1, a2, ?_⟩
              intro j hj hbj
              by_cases hjk : j = k
              · subst hjk; exact fun hm' => hw hm'.2
              · exact a3 j hj (by rw [hbits' j]; simp [hbj, hjk])
            | none =>
              intro j hbj
              by_cases hjk : j = k
              · subst hjk; exact fun hm' => hw hm'.2
              · exact hres j (by rw [hbits' j]; simp [hbj, hjk])
          · simp only at hc1
            unfold candCost at *
            omega
    · simp only [hnz, Bool.false_eq_true, if_false, M.pure_run]
      refine ⟨none, c, rfl, ?_, Nat.le_add_right _ _⟩
      intro j hj
      exact absurd ((L.hasNonZero_iff mk hwf).mpr ⟨j, hj⟩) hnz

/-! ### `find_in_chunk` -/

/-- result of `find_in_chunk` at `cur` when the lanes that survive the mask are `g` -/
def ChunkRes (V : VecImpl) (hm : Mem) (needle : Slice) (cur end_ : Nat) (g : Nat → Bool) :
    Option Nat → Prop
  | some k => k < V.bytes ∧ g k = true ∧ MatchAt hm needle end_ (cur + k) ∧
      ∀ j, j < k → g j = true → ¬ MatchAt hm needle end_ (cur + j)
  | none => ∀ j, j < V.bytes → g j = true → ¬ MatchAt hm needle end_ (cur + j)

/-- cost of one chunk: the `PP_CHUNK` tick plus at most `V.bytes` candidates -/
def chunkCost (V : VecImpl) (needle : Slice) : Nat := 1 + V.bytes * candCost needle

theorem findInChunk_good (L : Lawful V) (f : Finder) (hm : Mem) (needle : Slice)
    (cur end_ : Nat) (mask : V.Mask) (g : Nat → Bool) (c : Ctr)
    (hv : needle.Valid) (hb : hm.base ≤ cur)
    (hrd : cur + max f.index1 f.index2 + V.bytes ≤ end_)
    (he : end_ ≤ hm.base + hm.bytes.size) (hgood : hm.base + needle.len ≤ end_)
    (hmask : MaskRep L (V.mand (V.movemask (bvec V.bytes (candF f hm cur))) mask) g) :
    ∃ r c', findInChunk V f hm needle cur end_ mask c = .ok r c' ∧
      ChunkRes V hm needle cur end_ g r ∧ c'.steps ≤ c.steps + chunkCost V needle := by
  obtain ⟨c1, hpe, hc1⟩ := pairEq_run (V := V) "find_in_chunk" f hm cur c hb (by omega)
  obtain ⟨r, c', hrun, hres, hcost⟩ := candLoop_good L hm needle cur end_ hv hb (by omega) he
    hgood (V.bytes + 1) 0 _ c1 hmask.1 (fun i _ => Nat.zero_le i) (Nat.zero_le _) (by omega)
  refine ⟨r, c', ?_, ?_, ?_⟩
  · unfold findInChunk
    rw [bind_ok hpe]
    exact hrun
  · cases r with
    | some k =>
      obtain ⟨a1, a2, a3⟩ := hres
      have hk := L.bit_lt _ _ hmask.1 a1
      refine ⟨hk, by rw [← hmask.2 k hk]; exact a1, a2, ?_⟩
      intro j hj hgj
      exact a3 j hj (by rw [hmask.2 j (by omega)]; exact hgj)
    | none =>
      intro j hj hgj
      exact hres j (by rw [hmask.2 j hj]; exact hgj)
  · unfold chunkCost
    simp only [Nat.sub_zero] at hcost
    omega

/-- `end.sub(needle.len())` leaves the allocation (the search needle is longer than the part
of the region up to the end of the haystack): the first candidate faults, no candidate is
harmless. -/
theorem findInChunk_bad (L : Lawful V) (f : Finder) (hm : Mem) (needle : Slice)
    (cur end_ : Nat) (mask : V.Mask) (g : Nat → Bool) (c : Ctr)
    (hb : hm.base ≤ cur) (hrd : cur + max f.index1 f.index2 + V.bytes ≤ end_)
    (he : end_ ≤ hm.base + hm.bytes.size) (hbad : end_ < hm.base + needle.len)
    (hmask : MaskRep L (V.mand (V.movemask (bvec V.bytes (candF f hm cur))) mask) g) :
    ((∃ j, j < V.bytes ∧ g j = true) ∧ findInChunk V f hm needle cur end_ mask c =
        .fault (.ptrOob "find_in_chunk: end.sub(needle.len())")) ∨
    ((∀ j, j < V.bytes → g j = false) ∧
      ∃ c', findInChunk V f hm needle cur end_ mask c = .ok none c' ∧
        c'.steps = c.steps + 1) := by
  obtain ⟨c1, hpe, hc1⟩ := pairEq_run (V := V) "find_in_chunk" f hm cur c hb (by omega)
  unfold findInChunk
  rw [bind_ok hpe]
  unfold candLoop
  by_cases hnz : V.hasNonZero (V.mand (V.movemask (bvec V.bytes (candF f hm cur))) mask) = true
  · left
    have hex := hmask.hasNonZero_iff.mp hnz
    refine ⟨hex, ?_⟩
    obtain ⟨k, hfo, hk, -, -⟩ := hmask.firstOffset hex { c1 with steps := c1.steps + 1 }
    have hpa := Mem.padd_ok hm "find_in_chunk: cur.add(offset)" cur k hb (by omega)
    have hps : hm.psub "find_in_chunk: end.sub(needle.len())" end_ needle.len =
        fail (.ptrOob "find_in_chunk: end.sub(needle.len())") := by
      have : ¬ hm.base + needle.len ≤ end_ := by omega
      simp [Mem.psub, this]
    simp only [hnz, if_true, M.bind_run, tick_run, hfo, hpa, hps, M.pure_run, fail_run]
  · right
    refine ⟨?_, c1, ?_, hc1⟩
    · intro j hj
      cases hgj : g j with
      | false => rfl
      | true => exact absurd (hmask.hasNonZero_iff.mpr ⟨j, hj, hgj⟩) hnz
    · simp only [hnz, Bool.false_eq_true, if_false, M.pure_run]

/-! ### `find_prefilter_in_chunk` -/

/-- result of `find_prefilter_in_chunk` at `cur`: the first candidate lane -/
def PreChunkRes (V : VecImpl) (f : Finder) (hm : Mem) (cur : Nat) : Option Nat → Prop
  | some k => k < V.bytes ∧ candA f hm (cur + k) = true ∧
      ∀ j, j < k → candA f hm (cur + j) = false
  | none => ∀ j, j < V.bytes → candA f hm (cur + j) = false

theorem findPrefilterInChunk_run (L : Lawful V) (f : Finder) (hm : Mem) (cur : Nat) (c : Ctr)
    (hb : hm.base ≤ cur)
    (hrd : cur + max f.index1 f.index2 + V.bytes ≤ hm.base + hm.bytes.size) :
    ∃ r c', findPrefilterInChunk V f hm cur c = .ok r c' ∧ PreChunkRes V f hm cur r ∧
      c'.steps = c.steps + 1 := by
  obtain ⟨c1, hpe, hc1⟩ := pairEq_run (V := V) "find_prefilter_in_chunk" f hm cur c hb hrd
  have hrep := MaskRep.movemask L (candF f hm cur)
  unfold findPrefilterInChunk
  rw [bind_ok hpe]
  by_cases hnz : V.hasNonZero (V.movemask (bvec V.bytes (candF f hm cur))) = true
  · have hex := hrep.hasNonZero_iff.mp hnz
    obtain ⟨k, hfo, hk, hgk, hmin⟩ := hrep.firstOffset hex c1
    refine ⟨some k, c1, ?_, ⟨hk, hgk, hmin⟩, hc1⟩
    simp only [hnz, Bool.not_true, Bool.false_eq_true, if_false, M.bind_run, hfo, M.pure_run]
  · refine ⟨none, c1, ?_, ?_, hc1⟩
    · simp only [hnz, Bool.not_false, if_true, M.pure_run]
    · intro j hj
      cases hgj : candA f hm (cur + j) with
      | false => rfl
      | true => exact absurd (hrep.hasNonZero_iff.mpr ⟨j, hj, hgj⟩) hnz

end Memchr.PackedPair
