import MemchrModel.Base.Monad
import MemchrModel.Spec.Byte
import MemchrModel.Model.Vector
import MemchrModel.Model.Sensible
import MemchrModel.Model.MemchrGeneric
