/-
Line-protocol driver: one request per line on stdin, one canonical answer per line on stdout.
Unknown or malformed requests answer `bad-op` (never a default value).
-/
import MemchrModel.Driver.Util
import MemchrModel.Driver.Generic
import MemchrModel.Driver.IsEqualRk
import MemchrModel.Driver.TwoWay
import MemchrModel.Driver.Prefilter
import MemchrModel.Driver.ShiftOrPair
import MemchrModel.Driver.PackedPair
import MemchrModel.Driver.Swar
import MemchrModel.Driver.MemchrApi
import MemchrModel.Driver.Memmem
import MemchrModel.Driver.Alias
import MemchrModel.Driver.Surface

open Memchr Memchr.Driver

def handlers : List (String → List String → Option String) :=
  [handleGeneric, handleIsEqualRk, handleTwoWay, handlePrefilter, handleShiftOrPair, handlePackedPair, handleSwar, handleMemchrApi, handleMemmem, handleAlias, handleSurface]

def step (line : String) : String :=
  match line.trimAscii.toString.splitOn " " with
  | [] => "bad-op"
  | op :: args =>
    -- `memchrd`/`countd`/`iterd` are the dispatched public functions: for the model they are
    -- the same routine on the backend named in the op (the one `select` picks in that process)
    let op := if op == "memchrd" then "memchr" else if op == "countd" then "count"
              else if op == "iterd" || op == "iterdn" then "iter" else op
    match handlers.findSome? (fun h => h op args) with
    | some out => out
    | none => "bad-op"

partial def loop (h : IO.FS.Stream) (out : IO.FS.Stream) : IO Unit := do
  let line ← h.getLine
  if line.isEmpty then return ()
  out.putStrLn (step line)
  loop h out

def main : IO Unit := do
  let stdin ← IO.getStdin
  let stdout ← IO.getStdout
  loop stdin stdout
