/-
Line-protocol driver: one request per line on stdin, one canonical answer per line on stdout.
Unknown or malformed requests answer `bad-op` (never a default value).
-/
import MemchrModel.Driver.Util
import MemchrModel.Driver.Generic
import MemchrModel.Driver.IsEqualRk
import MemchrModel.Driver.TwoWay
import MemchrModel.Driver.Prefilter
import MemchrModel.Driver.ShiftOrPair
import MemchrModel.Driver.PackedPair
import MemchrModel.Driver.Swar

open Memchr Memchr.Driver

def handlers : List (String → List String → Option String) :=
  [handleGeneric, handleIsEqualRk, handleTwoWay, handlePrefilter, handleShiftOrPair, handlePackedPair, handleSwar]

def step (line : String) : String :=
  match line.trimAscii.toString.splitOn " " with
  | [] => "bad-op"
  | op :: args =>
    match handlers.findSome? (fun h => h op args) with
    | some out => out
    | none => "bad-op"

partial def loop (h : IO.FS.Stream) (out : IO.FS.Stream) : IO Unit := do
  let line ← h.getLine
  if line.isEmpty then return ()
  out.putStrLn (step line)
  loop h out

def main : IO Unit := do
  let stdin ← IO.getStdin
  let stdout ← IO.getStdout
  loop stdin stdout
