#!/usr/bin/env python3
"""benign.py collect <worktree> <id>     store a BEHAVIOUR-PRESERVING change (benign/<id>/patch.diff,
                                      REFACTOR.md) after confirming that the crate's tests pass with it
   benign.py run <id> [props...]      apply it to /repo, run the quick checks (default: all 19), undo,
                                      record which of them stayed quiet (expected: every one exits 0)

The counterpart of seeded.py: seeded changes must be caught, benign ones must NOT raise an alarm.
"""
import json, os, subprocess, sys, time

ROOT = os.path.dirname(os.path.dirname(os.path.abspath(__file__)))
BEN = os.path.join(ROOT, "benign")
ALL = ["C%02d" % i for i in range(1, 20)]


def sh(cmd, cwd=None, timeout=3600):
    p = subprocess.run(cmd, cwd=cwd, shell=isinstance(cmd, str), stdout=subprocess.PIPE,
                       stderr=subprocess.STDOUT, text=True, timeout=timeout)
    return p.returncode, p.stdout


def collect(wt, bid):
    d = os.path.join(BEN, bid)
    os.makedirs(d, exist_ok=True)
    rc, diff = sh("git diff -- src", cwd=wt)
    assert diff.strip(), "no source change in " + wt
    open(os.path.join(d, "patch.diff"), "w").write(diff)
    if os.path.exists(os.path.join(wt, "REFACTOR.md")):
        sh(["cp", os.path.join(wt, "REFACTOR.md"), os.path.join(d, "REFACTOR.md")])
    ran = []
    good = True
    for label, cmd in (("unit tests", "cargo test --offline --lib"), ("doc tests", "cargo test --offline --doc"),
                       ("no-default-features build", "cargo build --offline --no-default-features")):
        rc, out = sh(cmd, cwd=wt)
        ran.append(dict(step=label, rc=rc))
        good &= rc == 0
        print("  %-28s rc=%d" % (label, rc))
    meta = dict(id=bid, tests_pass=bool(good), ran=ran,
                what=open(os.path.join(d, "REFACTOR.md")).read()[:3000] if os.path.exists(os.path.join(d, "REFACTOR.md")) else "")
    json.dump(meta, open(os.path.join(d, "meta.json"), "w"), indent=1)
    print(bid, "stored" if good else "TESTS FAIL WITH THE CHANGE")
    return good


def run(bid, props):
    d = os.path.join(BEN, bid)
    meta = json.load(open(os.path.join(d, "meta.json")))
    props = props or ALL
    rc, out = sh(["git", "-C", "/repo", "status", "--porcelain"])
    assert not out.strip(), "/repo is dirty: " + out
    rc, out = sh(["git", "-C", "/repo", "apply", os.path.join(d, "patch.diff")])
    assert rc == 0, out
    results = meta.get("check_runs", {})
    try:
        for p in props:
            t = time.time()
            rc, out = sh([os.path.join(ROOT, "check"), p, "quick"], cwd=ROOT)
            viol = [l for l in out.splitlines() if l.startswith("VIOLATION")]
            broken = [l.strip()[:300] for l in out.splitlines() if l.strip().startswith("broken:")]
            results[p] = dict(rc=rc, quiet=(rc == 0 and not viol), violation_lines=viol[:2], broken=broken[:3],
                              wall=round(time.time() - t, 1))
            print("  %s on %s: rc=%d %s %s" % (bid, p, rc, viol[:1], broken[:1]), flush=True)
    finally:
        sh(["git", "-C", "/repo", "checkout", "--", "."])
        sh("rm -rf /repo/target")
    meta["check_runs"] = results
    json.dump(meta, open(os.path.join(d, "meta.json"), "w"), indent=1)


if __name__ == "__main__":
    if sys.argv[1] == "collect":
        sys.exit(0 if collect(sys.argv[2], sys.argv[3]) else 1)
    elif sys.argv[1] == "run":
        run(sys.argv[2], sys.argv[3:])
