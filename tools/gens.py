"""Structured case generators, one family set per property (DESIGN.md section 4.2).

Every random choice derives from one `random.Random(seed)`.  Generators yield
(op_line, meta) pairs; op lines are read by both the Lean driver and the Rust executor.
"""
import itertools, random

FILL = 0x2E  # '.'


def hx(bs):
    return bytes(bs).hex() if len(bs) else "-"


def exec_env(prop):
    return {}


def rule(prop):
    return RULES.get(prop, "structured generator (tools/gens.py); an op is non-trivial when the model "
                           "spends at least 3 steps on it (reaches a loop), distinct by op line")


RULES = {
    "C13": "structured generator (tools/gens.py): adversarial needle/haystack families at sizes 2^8..2^16 (quick) with the "
           "model's step counter compared for EQUALITY with the real counter, the real counter bounded by 16*(n+m)+2000, a "
           "hook-level work limit, and megabyte families whose wall-clock time (minimum of up to 3 runs) is bounded by "
           "600 ns*(n+m)+0.2 s (a test for work hidden in library calls, not a proof); non-trivial = the model spends >= 3 steps",
}


def exhaustive(prop, tier):
    return False


def assumptions(prop):
    return ASSUME.get(prop, ["see DESIGN.md section 5 (trusted base)"])


_BASE_ASSUME = [
    "the hand-written Lean model mirrors the Rust (checked each run by value/step/trace correspondence on the generated ops; a divergence outside what the generators reach is not seen)",
    "Lean 4.33 kernel; axioms propext, Classical.choice, Quot.sound",
    "intrinsic lane semantics of SSE2/AVX2 (executed natively) and of NEON/simd128 (plain-Rust emulation in tools/emulate, Lean instances written from the same documentation)",
    "usize modelled as unbounded Nat (lengths < 2^63); little endian only",
]
ASSUME = {
    "C05": _BASE_ASSUME + ["hardware faults are observed (guard pages, hook region checks), not modelled; real SSE2/AVX2 vector loads are not traced, only small-lane / emulated-ISA vector loads and hooked raw reads are",
                           "pointer provenance beyond allocation bounds is not modelled"],
    "C13": _BASE_ASSUME + ["a step is a tick of the model counter placed where hook H2 ticks in the Rust; wall-clock time, caches and branch prediction are not modelled",
                           "the executable threshold 16*(n+m)+2000 is a test bound; the proved constants are in Props/C13.lean"],
    "C15": _BASE_ASSUME + ["atomicity and ordering of AtomicPtr, tearing, data races in unsafe Send/Sync impls are trusted (not expressible in the model); the real runs are fresh-process barrier releases on this 16-core x86_64 host only"],
    "C17": _BASE_ASSUME + ["the allocator is observed by a counting #[global_allocator] on the calling thread; the model only carries the ownership bookkeeping"],
    "C09": _BASE_ASSUME + ["configurations exercised: host AVX2, forced SSE2 / fallback via hook H3, emulated NEON and simd128 builds and a build with no vector module at all (cfg-rewritten copies of the working tree), alloc-only and +avx2 builds in thorough; big-endian, 16/32-bit usize and the rustc-dep-of-std feature are not covered"],
}
for _p in ["C%02d" % i for i in range(1, 20)]:
    ASSUME.setdefault(_p, _BASE_ASSUME)


def fact_failures(prop, ex):
    f = ex.get("facts", {})
    out = []
    if prop in ("C15", "C16") and f.get("interior_mutability_unexpected"):
        out.append("interior mutability outside the ifunc AtomicPtr: %s" % f["interior_mutability_unexpected"][:3])
    if prop == "C17" and f.get("alloc_unexpected"):
        out.append("allocation sites outside cow.rs/shiftor.rs: %s" % f["alloc_unexpected"][:3])
    return out


UNROLL = {1: 4, 2: 2, 3: 2}
NEEDLE_SETS = {
    1: [[0x61], [0x00], [0x80], [0xFF]],
    2: [[0x61, 0x62], [0x61, 0x61], [0x00, 0xFF]],
    3: [[0x61, 0x62, 0x63], [0x61, 0x61, 0x61], [0x61, 0x62, 0x61], [0x00, 0x80, 0xFF], [0x61, 0x61, 0x62], [0x61, 0x62, 0x62]],
}


def filler_for(needles):
    for b in (FILL, 0x7A, 0x01, 0x55):
        if b not in needles:
            return b
    return 0x33


def gen_gfind(rng, tier, dirs, budget):
    """generic find_raw/rfind_raw on the hook's checked small-lane vectors: every length up to
    several unrolled iterations x every base residue x match placements."""
    lanes_list = [4, 8] if tier == "quick" else [2, 4, 8, 16]
    n = 0
    for lanes in lanes_list:
        for k in (1, 2, 3):
            u = UNROLL[k]
            maxlen = 3 * u * lanes + lanes + 3 if tier == "quick" else 6 * u * lanes + 3
            nsets = NEEDLE_SETS[k] if tier == "thorough" else NEEDLE_SETS[k][:2]
            for needles in nsets:
                fill = filler_for(needles)
                for length in range(lanes, maxlen + 1):
                    for base in range(0, lanes):
                        placements = [()]
                        pos = list(range(length))
                        if tier == "quick" and lanes >= 8:
                            pos = sorted(set(rng.sample(pos, min(len(pos), 12)) + [0, length - 1]))
                        placements += [(p,) for p in pos]
                        # two matches: first/last pairs straddling boundaries
                        pairs = [(0, length - 1)]
                        for _ in range(3 if tier == "quick" else 12):
                            a, b = sorted(rng.sample(range(length), 2)) if length >= 2 else (0, 0)
                            pairs.append((a, b))
                        placements += pairs
                        placements.append(tuple(range(length)))  # all match
                        if length >= 2 * lanes:
                            placements.append(tuple(range(lanes, length)))  # everything after the head chunk
                        for pl in placements:
                            hay = [fill] * length
                            for j, p in enumerate(pl):
                                hay[p] = needles[(j + p) % k]
                            for d in dirs:
                                # the region is exactly the haystack: base is the address mod 4096
                                yield ("gfind %d %s %d %s %d 0 %d %s" % (
                                    lanes, hx(needles), u, d, 4096 - 64 + base if False else 64 + base, length, hx(hay)),
                                    dict(domain="in", family="gfind-%d-%d" % (lanes, k)))
                                n += 1
                                if budget and n >= budget:
                                    return


def gen_gexhaustive(rng, tier, dirs, count=False):
    """EXHAUSTIVE on the 2-lane checked vector type: every haystack over {needle, filler} (and
    over {needle1, needle2, filler}) up to a length covering head chunk, several unrolled and
    single-vector iterations and the tail, at both base residues"""
    lanes = 2
    maxlen2 = 12 if tier == "quick" else 16
    maxlen3 = 7 if tier == "quick" else 10
    for k in (1, 2, 3):
        u = UNROLL[k]
        needles = NEEDLE_SETS[k][0]
        fill = filler_for(needles)
        alphabets = [([needles[0], fill], maxlen2)]
        if k >= 2:
            alphabets.append(([needles[0], needles[1], fill], maxlen3))
        for alpha, maxlen in alphabets:
            for length in range(lanes, maxlen + 1):
                for t in itertools.product(alpha, repeat=length):
                    for base in (64, 65):
                        if count:
                            if k == 1:
                                yield ("gcount %d %s %d %d 0 %d %s" % (lanes, hx(needles), 4, base, length, hx(t)),
                                       dict(domain="in", family="gcount-exhaustive-2"))
                        else:
                            for d in dirs:
                                yield ("gfind %d %s %d %s %d 0 %d %s" % (lanes, hx(needles), u, d, base, length, hx(t)),
                                       dict(domain="in", family="gfind-exhaustive-2-%d" % k))


def gen_gcount(rng, tier, budget):
    lanes_list = [4, 8] if tier == "quick" else [2, 4, 8, 16]
    n = 0
    for lanes in lanes_list:
        u = 4
        maxlen = 3 * u * lanes + lanes + 3 if tier == "quick" else 6 * u * lanes + 3
        for needle in ([0x61, 0x00] if tier == "quick" else [0x61, 0x00, 0xFF]):
            fill = filler_for([needle])
            for length in range(lanes, maxlen + 1):
                for base in range(0, lanes):
                    dens = [[fill] * length, [needle] * length]
                    for _ in range(4 if tier == "quick" else 16):
                        p = rng.choice([0.1, 0.5, 0.9])
                        dens.append([needle if rng.random() < p else fill for _ in range(length)])
                    for hay in dens:
                        yield ("gcount %d %s %d %d 0 %d %s" % (lanes, hx([needle]), u, 64 + base, length, hx(hay)),
                               dict(domain="in", family="gcount-%d" % lanes))
                        n += 1
                        if budget and n >= budget:
                            return


def generate(prop, tier, seed, budget=None):
    rng = random.Random(seed * 1000003 + sum(map(ord, prop)))
    g = GENERATORS.get(prop)
    if g is None:
        return iter(())
    return g(rng, tier, budget)


def g_c01(rng, tier, budget):
    yield from gen_gfind(rng, tier, ["fwd"], budget)


def g_c02(rng, tier, budget):
    yield from gen_gfind(rng, tier, ["rev"], budget)


def g_c07(rng, tier, budget):
    yield from gen_gcount(rng, tier, budget)
    yield from gen_gexhaustive(rng, tier, [], count=True)


GENERATORS = {"C01": g_c01, "C02": g_c02, "C07": g_c07}


# ---------------------------------------------------------------------------------------
# is_equal / is_prefix / is_suffix (C18)

def gen_iseq(rng, tier, budget):
    maxlen = 40 if tier == "quick" else 64
    n = 0
    bases = [(0, 0), (1, 3), ("E", 7), (5, "E")]   # "E": the operand ends exactly at a guard page
    for length in range(0, maxlen + 1):
        x = [rng.randrange(256) for _ in range(length)]
        variants = [list(x)]
        for p in range(length):          # every single-byte difference position
            y = list(x)
            y[p] ^= 1 << rng.randrange(8)
            variants.append(y)
        for y in variants:
            for (bx, by) in bases:
                bx2 = (4096 - length) % 4096 if bx == "E" else bx
                by2 = (4096 - length) % 4096 if by == "E" else by
                yield ("iseq %d %s %d %s" % (bx2, hx(x), by2, hx(y)), dict(family="iseq"))
                n += 1
        # two-byte differences: every pair of positions in the last 8 bytes (and a few others),
        # with equal and with different deltas (word-wise comparisons that combine partial
        # results can cancel equal deltas)
        tailpos = list(range(max(0, length - 8), length))
        others = [0, length // 2] if length > 8 else []
        for pi in range(len(tailpos)):
            for pj in range(pi + 1, len(tailpos)):
                for (d1, d2) in ((1, 1), (0x80, 0x80), (1, 2), (0xFF, 0xFF)):
                    y = list(x)
                    y[tailpos[pi]] ^= d1
                    y[tailpos[pj]] ^= d2
                    yield ("iseq %d %s %d %s" % (pi % 4, hx(x), (pj * 3) % 8, hx(y)), dict(family="iseq-2diff"))
        for o in others:
            if length:
                y = list(x)
                y[o] ^= 0x10
                y[length - 1] ^= 0x10
                yield ("iseq 0 %s 1 %s" % (hx(x), hx(y)), dict(family="iseq-2diff"))
        # different lengths
        for dl in (1, 2, 5):
            yield ("iseq 0 %s 0 %s" % (hx(x), hx(x + [7] * dl)), dict(family="iseq-len"))
        # prefix / suffix: needle = prefix/suffix of x of every length, equal and perturbed
        for k in range(0, length + 1, 1 if tier == "thorough" or length < 12 else 3):
            pre, suf = x[:k], x[length - k:]
            yield ("isprefix %d %s %d %s" % ((4096 - length) % 4096, hx(x), 1, hx(pre)), dict(family="isprefix"))
            yield ("issuffix %d %s %d %s" % (3, hx(x), (4096 - k) % 4096, hx(suf)), dict(family="issuffix"))
            if k:
                q = rng.randrange(k)
                pre2 = list(pre); pre2[q] ^= 0x80
                suf2 = list(suf); suf2[q] ^= 0x01
                yield ("isprefix 5 %s 9 %s" % (hx(x), hx(pre2)), dict(family="isprefix"))
                yield ("issuffix 5 %s 9 %s" % (hx(x), hx(suf2)), dict(family="issuffix"))
        yield ("isprefix 0 %s 0 %s" % (hx(x), hx(x + [1])), dict(family="isprefix"))
        yield ("issuffix 0 %s 0 %s" % (hx(x), hx([1] + x)), dict(family="issuffix"))
        if budget and n >= budget:
            return


# ---------------------------------------------------------------------------------------
# needle / haystack families for substring search (DESIGN 4.2)

def fib_word(n):
    a, b = [0x61], [0x61, 0x62]
    while len(b) < n:
        a, b = b, b + a
    return b[:n]


def thue_morse(n):
    return [0x61 + bin(i).count("1") % 2 for i in range(n)]


def structured_needles(rng, tier):
    out = []
    lens = [1, 2, 3, 4, 5, 7, 8, 9, 15, 16, 17, 31, 32, 33, 34, 40, 64, 65] + ([100, 255, 256, 300, 600] if tier == "thorough" else [100, 256])
    for L in lens:
        out.append([0x61] * L)                                   # single letter
        out.append(([0x61, 0x62] * L)[:L])                       # (ab)^k
        out.append(([0x61, 0x61, 0x62] * L)[:L])                 # (aab)^k
        out.append(fib_word(L))
        out.append(thue_morse(L))
        u = [rng.choice([0x61, 0x62, 0x63]) for _ in range(max(1, L // 3))]
        out.append((u * 4)[:L])                                  # u^k prefix
        out.append(((u * 4)[:max(0, L - 1)] + [0x7A])[:L])       # u^k v
        out.append([rng.randrange(256) for _ in range(L)])       # random
        out.append([0x61 + 64 * (i % 3) for i in range(L)])      # bytes equal mod 64
        out.append([0x78] * (L - 1) + [0x79] if L > 1 else [0x79])   # rare byte at the end
        out.append(([0x78, 0x79] + [0x61] * L)[:L])              # "xy" + a^k  (Two-Way large shift)
    # dedupe
    seen, res = set(), []
    for n in out:
        t = bytes(n)
        if t not in seen:
            seen.add(t)
            res.append(n)
    return res


def haystacks_for(rng, needle, tier, sizes=None):
    """haystacks assembled from the needle's own factors, near-misses and planted matches"""
    L = len(needle)
    out = []
    sizes = sizes or ([0, 1, L - 1, L, L + 1, 15, 16, 17, 2 * L + 3, 63, 64, 65, 130] + ([300, 1000] if tier == "thorough" else []))
    alphabet = sorted(set(needle)) or [0x61]
    for H in sizes:
        if H < 0:
            continue
        filler = [rng.choice(alphabet) for _ in range(H)]
        out.append(filler)
        # needle repeated with its last byte broken (near-periods)
        if L:
            near = needle[:-1] + [needle[-1] ^ 1]
            rep = (near * (H // L + 2))[:H]
            out.append(rep)
            # planted match at several distances from both ends
            if H >= L:
                for posn in sorted(set([0, H - L, (H - L) // 2, min(H - L, 1), max(0, H - L - 1)])):
                    for basehay in (rep, [0x2E] * H):
                        h = list(basehay)
                        h[posn:posn + L] = needle
                        out.append(h[:H])
            # own factors: needle[k:] + needle[:k] rotations concatenated
            k = rng.randrange(L)
            rot = needle[k:] + needle[:k]
            out.append((rot * (H // L + 2))[:H])
            # dense false candidates: the two rarest-looking bytes everywhere
            out.append(([needle[0], needle[-1]] * (H // 2 + 1))[:H])
    return out


def words(alphabet, maxlen, minlen=0):
    for L in range(minlen, maxlen + 1):
        for t in itertools.product(alphabet, repeat=L):
            yield list(t)


def gen_substr_block(rng, tier, budget, opfmt, needle_ok=lambda n: True, hay_ok=lambda n, h: True,
                     family="block", exhaustive_ab=(5, 9), domain="in"):
    """opfmt(needle, hay) -> op line"""
    n = 0
    # exhaustive over {a,b}
    nl, hl = exhaustive_ab if tier == "quick" else (exhaustive_ab[0] + 2, exhaustive_ab[1] + 3)
    for needle in words([0x61, 0x62], nl):
        if not needle_ok(needle):
            continue
        for hay in words([0x61, 0x62], hl, minlen=max(0, hl - 2)):
            if hay_ok(needle, hay):
                yield (opfmt(needle, hay), dict(family=family + "-ab", domain=domain))
                n += 1
                if budget and n >= budget:
                    return
    for needle in structured_needles(rng, tier):
        if not needle_ok(needle):
            continue
        for hay in haystacks_for(rng, needle, tier):
            if hay_ok(needle, hay):
                yield (opfmt(needle, hay), dict(family=family + "-struct", domain=domain))
                n += 1
                if budget and n >= budget:
                    return


def gen_iseq_alias(rng, tier):
    """both operands are views of ONE buffer: same start with different lengths, overlapping,
    adjacent, identical"""
    buf = [(i * 37 + 11) % 256 for i in range(80)]
    rep = [0x61] * 80
    for b, name in ((buf, "distinct"), (rep, "repetitive")):
        for base in (0, 3, 4096 - 80):
            for start in (0, 1, 5):
                for la in list(range(0, 20)) + [31, 32, 33, 64]:
                    for lb in sorted(set([0, 1, 2, 3, 4, 5, la - 1, la, la + 1, 8, 16])):
                        if lb < 0 or start + max(la, lb) > 80:
                            continue
                        for op in ("iseq", "isprefix", "issuffix"):
                            # same start
                            yield ("iseqalias %s %d %s %d %d %d %d" % (op, base, hx(b), start, la, start, lb), dict(family="alias-same-start"))
                        # overlapping / adjacent
                        for yo in (start + 1, start + la):
                            if yo + lb <= 80:
                                yield ("iseqalias iseq %d %s %d %d %d %d" % (base, hx(b), start, la, yo, lb), dict(family="alias-overlap"))
                                yield ("iseqalias issuffix %d %s %d %d %d %d" % (base, hx(b), start, la, yo, lb), dict(family="alias-overlap"))


def gen_iseq_long(rng, tier):
    """operand lengths past every plausible size threshold (cache line, vector multiples, page):
    equal / one differing byte at the ends and inside; prefix and suffix needles of every
    threshold length inside a longer haystack whose head and tail differ"""
    sizes = [41, 47, 48, 63, 64, 65, 66, 95, 96, 97, 127, 128, 129, 130, 191, 255, 256, 257, 300, 511, 512, 513,
             1000, 1024, 1025, 4095, 4096, 4097, 5000]
    sizes += [rng.randrange(41, 3000) for _ in range(10 if tier == "quick" else 100)]
    for length in sizes:
        x = [rng.randrange(256) for _ in range(length)]
        for p in [None] + sorted(set([0, 1, 7, 8, length // 2, length - 9, length - 8, length - 2, length - 1, rng.randrange(length)])):
            y = list(x)
            if p is not None:
                y[p] ^= 1 << rng.randrange(8)
            for (bx, by) in ((0, 0), (3, (4096 - length) % 4096), ((4096 - length) % 4096, 5)):
                yield ("iseq %d %s %d %s" % (bx, hx(x), by, hx(y)), dict(family="iseq-long"))
        for k in sorted(set(sz for sz in sizes if sz < length) | {length}):
            pre, suf = x[:k], x[length - k:]
            yield ("isprefix %d %s %d %s" % ((4096 - length) % 4096, hx(x), 1, hx(pre)), dict(family="isprefix-long"))
            yield ("issuffix %d %s %d %s" % (3, hx(x), (4096 - k) % 4096, hx(suf)), dict(family="issuffix-long"))
            # the other end's bytes: a prefix needle that is the suffix and vice versa
            yield ("isprefix 0 %s 1 %s" % (hx(x), hx(suf)), dict(family="isprefix-long"))
            yield ("issuffix 0 %s 1 %s" % (hx(x), hx(pre)), dict(family="issuffix-long"))
            for q in (0, k // 2, k - 1):
                pre2 = list(pre); pre2[q] ^= 0x40
                suf2 = list(suf); suf2[q] ^= 0x02
                yield ("isprefix 5 %s 9 %s" % (hx(x), hx(pre2)), dict(family="isprefix-long"))
                yield ("issuffix 5 %s 9 %s" % (hx(x), hx(suf2)), dict(family="issuffix-long"))
        # a haystack whose head equals its tail (both answers true) and needle longer than it
        z = x[:50] + [0x2E] * 30 + x[:50]
        yield ("isprefix 0 %s 0 %s" % (hx(z), hx(x[:50])), dict(family="isprefix-long"))
        yield ("issuffix 0 %s 0 %s" % (hx(z), hx(x[:50])), dict(family="issuffix-long"))
        yield ("isprefix 0 %s 0 %s" % (hx(x), hx(x + [1])), dict(family="isprefix-long"))
        yield ("issuffix 0 %s 0 %s" % (hx(x), hx([1] + x)), dict(family="issuffix-long"))


def g_c18(rng, tier, budget):
    yield from gen_iseq(rng, tier, budget)
    yield from gen_iseq_long(rng, tier)
    yield from gen_iseq_alias(rng, tier)


GENERATORS.update({"C18": g_c18})


# ---------------------------------------------------------------------------------------
# C19 pair selection

def rank_tables(rng):
    ident = list(range(256))
    tabs = {
        "default": None,
        "const0": [0] * 256,
        "const255": [255] * 256,
        "identity": ident,
        "reversed": ident[::-1],
        "random": [rng.randrange(256) for _ in range(256)],
        "coarse": [b // 64 for b in range(256)],        # non-injective
        # rankers under which bytes late in typical needles are the rarest
        "rare-hi": [255 - (b % 97) for b in range(256)],
        "rare-mid": [abs(b - 0x4B) for b in range(256)],
    }
    return tabs


def g_c19(rng, tier, budget):
    tabs = rank_tables(rng)
    lens = list(range(0, 40)) + [63, 64, 65, 127, 128, 254, 255, 256, 257, 258, 300, 511, 600]
    if tier == "quick":
        lens = list(range(0, 20)) + [31, 32, 33, 64, 254, 255, 256, 257, 300, 600]
    n = 0
    for L in lens:
        needles = [[0x61] * L, ([0x61, 0x62] * L)[:L], [(i * 7 + 3) % 256 for i in range(L)],
                   [rng.randrange(256) for _ in range(L)], [rng.choice([0x61, 0x62, 0x63]) for _ in range(L)],
                   # rarest bytes far to the right (beyond the 255-byte window when L > 255)
                   [0x65] * max(0, L - 2) + [0x00, 0x01][:min(2, L)]]
        for needle in needles:
            for name, tab in tabs.items():
                # a ranker that makes the needle's bytes the most common
                t = "default" if tab is None else hx(tab)
                yield ("pair %s %s" % (t, hx(needle)), dict(family="pair-" + name))
                n += 1
            common = [0] * 256
            for b in set(needle):
                common[b] = 255
            yield ("pair %s %s" % (hx(common), hx(needle)), dict(family="pair-needle-common"))
    # with_indices: all (i1,i2) over a grid for several lengths
    for L in ([0, 1, 2, 3, 17, 255, 256, 300] if tier == "quick" else [0, 1, 2, 3, 5, 17, 100, 254, 255, 256, 257, 300]):
        needle = [(i * 5) % 251 for i in range(L)]
        idx = sorted(set([0, 1, 2, L - 2, L - 1, L, L + 1, 16, 17, 254, 255]) & set(range(256)))
        if tier == "thorough":
            idx = sorted(set(idx) | set(range(0, 256, 7)))
        for i1 in idx:
            for i2 in idx:
                yield ("pairidx %s %d %d" % (hx(needle), i1, i2), dict(family="pairidx"))
    if tier == "thorough":
        needle = [(i * 5) % 251 for i in range(20)]
        for i1 in range(256):
            for i2 in range(256):
                yield ("pairidx %s %d %d" % (hx(needle), i1, i2), dict(family="pairidx-full"))
    # "finders built from any such pair report the pair they were given": every ordered pair of
    # offsets of short needles over a tiny alphabet (equal bytes at both offsets, ascending and
    # descending pairs, rare/common byte at either offset), every finder of every build
    for variant in ("host", "neon", "simd128"):
        for L in range(0, 6 if tier == "quick" else 7):
            for t in itertools.product([0x61, 0x7A, 0x00], repeat=L):
                if L >= 4 and tier == "quick" and rng.random() < 0.6:
                    continue
                for i1 in range(L + 1):
                    for i2 in range(L + 1):
                        yield ("pairreport %s %d %d" % (hx(list(t)), i1, i2), dict(cfg=variant, family="pairreport"))
        for L in (17, 40, 255, 256, 300):
            needle = [rng.choice([0x61, 0x65, 0x7A, 0x51]) for _ in range(L)]
            idx = sorted(set([0, 1, 2, L // 2, L - 2, L - 1, 254, 255]) & set(range(256)))
            for i1 in idx:
                for i2 in idx:
                    yield ("pairreport %s %d %d" % (hx(needle), i1, i2), dict(cfg=variant, family="pairreport-long"))


# ---------------------------------------------------------------------------------------
# C12 building blocks: rk, shiftor, twfind, ppfind

def rk_colliding(rng):
    """pairs (needle, hay window) with equal Rabin-Karp hash but different bytes: the hash is
    sum b_i * 2^(n-1-i) mod 2^32, so [x, y] and [x-1, y+2] collide; for needles longer than 32
    bytes the leading bytes do not influence the hash at all."""
    out = []
    out.append(([0x62, 0x62], [0x61, 0x64]))
    out.append(([0x10, 0x20, 0x30], [0x10, 0x1F, 0x32]))
    n = [rng.randrange(256) for _ in range(40)]
    w = list(n)
    w[0] ^= 0xFF           # 2^39 factor wraps to 0: same hash
    w[3] ^= 0x55
    out.append((n, w))
    return out


def g_c12(rng, tier, budget):
    per = None if budget is None else max(1000, budget // 6)
    # Rabin-Karp forward/reverse
    for d in ("fwd", "rev"):
        fmt = lambda n, h, d=d: "rk %s %d %s %d %s" % (d, (4096 - len(h)) % 4096, hx(h), 3, hx(n))
        yield from gen_substr_block(rng, tier, per, fmt, family="rk-" + d, exhaustive_ab=(4, 8))
        for (n, w) in rk_colliding(rng):
            for hay in (w, [0x2E] * 5 + w + [0x2E] * 3, w + n, n + w, w + w + n):
                yield ("rk %s 0 %s 0 %s" % (d, hx(hay), hx(n)), dict(family="rk-collide"))
    # Shift-Or (needle <= 15 on its domain; > 15 must report nofinder)
    fmt = lambda n, h: "shiftor %s %s" % (hx(n), hx(h))
    yield from gen_substr_block(rng, tier, per, fmt, needle_ok=lambda n: len(n) <= 16, family="shiftor",
                                exhaustive_ab=(5, 9))
    for L in (14, 15):
        n = [rng.choice([0x61, 0x62]) for _ in range(L)]
        for pre in range(0, 20, 3):
            h = [rng.choice([0x61, 0x62]) for _ in range(pre)] + n + [0x61] * 4
            yield ("shiftor %s %s" % (hx(n), hx(h)), dict(family="shiftor-15"))
    for L in (16, 17, 40):
        yield ("shiftor %s %s" % (hx([0x61] * L), hx([0x61] * (L + 3))), dict(family="shiftor-too-long"))
    # Two-Way forward/reverse (no prefilter)
    for d in ("fwd", "rev"):
        fmt = lambda n, h, d=d: "twfind %s %s %s" % (d, hx(n), hx(h))
        yield from gen_substr_block(rng, tier, per, fmt, needle_ok=lambda n: True, family="tw-" + d,
                                    exhaustive_ab=(6, 10))
        fmt2 = lambda n, h, d=d: "twnew %s %s" % (d, hx(n))
        seen = set()
        for needle in structured_needles(rng, tier):
            yield ("twnew %s %s" % (d, hx(needle)), dict(family="twnew-" + d))
    allp = list(mm_pairs(rng, tier, 2000))
    for needle, hay in (allp if tier == "thorough" else rng.sample(allp, min(len(allp), 40000))):
        yield ("twfind fwd %s %s" % (hx(needle), hx(hay)), dict(family="tw-fwd-families"))
        yield ("twfind rev %s %s" % (hx(needle), hx(hay)), dict(family="tw-rev-families"))
    # generic packed pair find on the small-lane hook (haystack >= min_haystack_len)
    yield from gen_ppfind(rng, tier, per)


def gen_ppfind(rng, tier, budget, pre=False):
    n = 0
    lanes_list = [4] if tier == "quick" else [4, 8]
    for lanes in lanes_list:
        needles = [n_ for n_ in words([0x61, 0x62], 4 if tier == "quick" else 5, minlen=2)]
        needles += [[0x61, 0x62, 0x63, 0x64, 0x65, 0x66, 0x67], [0x61] * 9, ([0x61, 0x62] * 6)[:11],
                    [0x78, 0x79] + [0x61] * 10]
        # pair bytes with special values (0x00 / 0xFF / 0x80 as first or second pair byte): lane
        # arithmetic that mixes DATA bytes with comparison masks goes wrong exactly there
        needles += [[0x00, 0x61], [0x61, 0x00], [0xFF, 0x61], [0x61, 0xFF], [0x00, 0xFF], [0xFF, 0x00], [0x80, 0x00, 0x61],
                    [0x61, 0x80, 0x00], [0x00, 0x00, 0x01], [0x01, 0x00, 0x00], [0xFF, 0xFF, 0xFE, 0x00]]
        for needle in needles:
            L = len(needle)
            pairs = [(0, 1), (1, 0), (0, L - 1), (L - 1, 0)]
            if L > 2:
                pairs += [(1, L - 1), (L - 2, 1)]
            pairs = sorted(set(p for p in pairs if p[0] != p[1]))
            for (i1, i2) in pairs:
                minlen = max(L, max(i1, i2) + lanes)
                for H in range(minlen, minlen + 3 * lanes + 2):
                    hays = []
                    for _ in range(3 if tier == "quick" else 8):
                        hays.append([rng.choice(sorted(set(needle))) for _ in range(H)])
                    if min(needle) == 0 or max(needle) >= 0x80:
                        hays.append([rng.choice(sorted(set(needle) | {0x00, 0xFF, 0x2E, 0x80})) for _ in range(H)])
                        hays.append([rng.choice([0x2E, 0x61, 0x7A]) for _ in range(H)])
                    hays.append([0x2E] * H)
                    # planted: in the last overlapping chunk and in the final needle.len() bytes
                    for posn in sorted(set([H - L, max(0, H - L - 1), max(0, H - minlen), 0, (H - L) // 2])):
                        h = [needle[i1] if (k % 2 == 0) else needle[i2] for k in range(H)]  # partial pair hits
                        h[posn:posn + L] = needle
                        hays.append(h)
                        h2 = [0x2E] * H
                        h2[posn:posn + L] = needle
                        hays.append(h2)
                    for hay in hays:
                        hb = (4096 - H) % 4096
                        if pre:
                            yield ("pppre %d %s %d %d %d %s" % (lanes, hx(needle), i1, i2, hb, hx(hay)),
                                   dict(family="pppre-%d" % lanes))
                        else:
                            yield ("ppfind %d %s %d %d %d %s %d %s" % (lanes, hx(needle), i1, i2, (4096 - L) % 4096,
                                                                       hx(needle), hb, hx(hay)),
                                   dict(family="ppfind-%d" % lanes))
                        n += 1
                        if budget and n >= budget:
                            return


# ---------------------------------------------------------------------------------------
# C11 prefilters: pppre (vector), fbpre (portable)

def g_c11(rng, tier, budget):
    per = None if budget is None else max(1000, budget // 2)
    yield from gen_ppfind(rng, tier, per, pre=True)
    n = 0
    for needle in structured_needles(rng, tier):
        L = len(needle)
        if L < 2:
            continue
        cand = [(0, 1), (1, 0), (0, L - 1), (L - 1, 0), (L // 2, L - 1), (min(L - 1, 254), 0), (min(L - 1, 255), 1)]
        cand = sorted(set((a, b) for (a, b) in cand if a != b and a < L and b < L and a < 256 and b < 256))
        for (i1, i2) in cand[: (3 if tier == "quick" else 7)]:
            for hay in haystacks_for(rng, needle, tier, sizes=[0, 1, L, L + 1, 2 * L + 5, 64, 130]):
                yield ("fbpre %s %d %d %d %s" % (hx(needle), i1, i2, (4096 - len(hay)) % 4096, hx(hay)),
                       dict(family="fbpre"))
                n += 1
                if per and n >= per:
                    return


def g_c11_all(rng, tier, budget):
    yield from g_c11(rng, tier, budget)
    # the prefilters as the meta searcher uses them (incl. the private short-haystack path):
    # a skipped match shows up as a wrong `find` answer
    for needle, hay in mm_pairs_targeted(rng, tier):
        if len(needle) <= 32:
            continue
        for (variant, cfg) in MM_CFGS_QUICK:
            yield ("find %s auto default 1 0 %s %d %s" % (cfg, hx(needle), rng.randrange(64), hx(hay)),
                   dict(cfg=variant, family="find-prefilter-" + cfg, untraced_widths=MM_UNTRACED[cfg]))


GENERATORS.update({"C19": g_c19, "C12": g_c12, "C11": g_c11_all})


# ---------------------------------------------------------------------------------------
# C14: prefilter state machine (F1), documented panic of the packed-pair finders

def gen_prestate(rng, tier, budget):
    M = 2 ** 32 - 1
    # the state reached after 2^29 prefilter calls on a >= 4 GiB candidate-free prefix followed by
    # dense candidates (DESIGN section 10, F1): skips = 2^29 + 1, skipped saturated
    yield ("prestate %d %d e" % (2 ** 29 + 1, M), dict(family="prestate-f1", domain="in"))
    yield ("prestate %d %d e,u0,e" % (2 ** 29, M), dict(family="prestate-f1", domain="in"))
    yield ("prestate %d %d e" % (M, M), dict(family="prestate-sat", domain="in"))
    yield ("prestate %d %d u5,e" % (M, M), dict(family="prestate-sat", domain="in"))
    for _ in range(300 if tier == "quick" else 3000):
        skips = rng.choice([0, 1, 2, 49, 50, 51, 52, 100, 2 ** 29 - 1, 2 ** 29, 2 ** 29 + 1, 2 ** 31, M - 1, M, rng.randrange(M)])
        skipped = rng.choice([0, 1, 7, 8, 399, 400, 401, 408, 2 ** 31, M - 1, M, rng.randrange(M)])
        ops = []
        for _ in range(rng.randrange(1, 80)):
            if rng.random() < 0.5:
                ops.append("e")
            else:
                ops.append("u%d" % rng.choice([0, 1, 7, 8, 9, 100, 2 ** 32 - 1, 2 ** 32, 2 ** 40, rng.randrange(64)]))
        yield ("prestate %d %d %s" % (skips, skipped, ",".join(ops)), dict(family="prestate", domain="in"))
    # from the initial state: drive between effective and inert (>= 50 calls with < 8 bytes avg)
    for avg in (0, 3, 7, 8, 9, 50):
        ops = []
        for i in range(120):
            ops += ["e", "u%d" % avg]
        yield ("prestate 1 0 %s" % ",".join(ops), dict(family="prestate-history", domain="in"))


def g_c14(rng, tier, budget):
    yield from gen_prestate(rng, tier, budget)


GENERATORS.update({"C14": g_c14})


def gen_pp_panic(rng, tier, budget):
    """documented panic of the packed-pair finders: exactly when hay.len < min_haystack_len;
    search needle = construction needle, or a different needle of at most the same length."""
    n = 0
    for lanes in ([4] if tier == "quick" else [4, 8]):
        for needle in ([0x61, 0x62], [0x61, 0x62, 0x63, 0x64, 0x65, 0x66, 0x67, 0x68], [0x61] * 11, [0x61, 0x62] * 10):
            L = len(needle)
            for (i1, i2) in sorted(set([(0, 1), (1, 0), (0, L - 1), (L - 1, L - 2)])):
                if i1 == i2:
                    continue
                minlen = max(L, max(i1, i2) + lanes)
                for H in range(0, minlen + 4 * lanes + 2):
                    for sneedle in (needle, [0x7A], needle[:1], needle[: max(1, L - lanes)], [0x78] * L, []):
                        for fill in (0x78, needle[0]):
                            hay = [fill] * H
                            exp = "panic" if H < minlen else "nopanic"
                            yield ("ppfind %d %s %d %d %d %s %d %s" % (lanes, hx(needle), i1, i2, 0, hx(sneedle),
                                                                       (4096 - H) % 4096, hx(hay)),
                                   dict(family="pp-panic-%s" % exp, domain="out" if sneedle != needle else "in",
                                        expect=exp))
                            n += 1
                    hay = [0x78] * H
                    exp = "panic" if H < minlen else "nopanic"
                    yield ("pppre %d %s %d %d %d %s" % (lanes, hx(needle), i1, i2, (4096 - H) % 4096, hx(hay)),
                           dict(family="pppre-panic-%s" % exp, domain="in", expect=exp))
                    if budget and n >= budget:
                        return


def g_c14(rng, tier, budget):
    yield from gen_prestate(rng, tier, budget)
    yield from gen_pp_panic(rng, tier, budget)
    # the in-domain streams of the other properties, run in the debug-assertion / overflow-check
    # build: any panic is a violation ("returns normally for every input in the documented domain")
    yield from g_c19(rng, tier, budget)
    import itertools as _it
    for p, cap in (("C01", 20000), ("C02", 10000), ("C03", 30000), ("C04", 15000), ("C06", 5000), ("C08", 8000), ("C12", 30000), ("C18", 5000)):
        allops = [(o, m) for (o, m) in GENERATORS[p](rng, "quick", None) if m.get("domain", "in") == "in"]
        k = cap if tier == "quick" else cap * 8
        for o, m in (allops if len(allops) <= k else rng.sample(allops, k)):
            yield o, m


GENERATORS.update({"C14": g_c14})


# ---------------------------------------------------------------------------------------
# C05: load traces on the checked small-lane vectors and hooked raw reads; guard pages

def end_at_guard(length):
    return (4096 - length) % 4096


def g_c05(rng, tier, budget):
    n = 0
    # (i) generic find/rfind/count on small lanes: trace equality, region = exactly the haystack
    for op, meta in gen_gfind(rng, tier, ["fwd", "rev"], 60000 if tier == "quick" else None):
        yield op, meta
    for op, meta in gen_gcount(rng, tier, 8000 if tier == "quick" else None):
        yield op, meta
    # (ii) SWAR + real SSE2/AVX2 wrappers with the window ending / starting exactly at a guard page
    maxlen = 80 if tier == "quick" else 130
    for length in range(0, maxlen + 1):
        for k in (1, 2, 3):
            needles = NEEDLE_SETS[k][0]
            fill = filler_for(needles)
            positions = [None] + sorted(set([0, length - 1, length // 2] + ([rng.randrange(length)] if length else [])))
            for pos in positions:
                if pos is not None and (pos < 0 or pos >= length):
                    continue
                hay = [fill] * length
                if pos is not None:
                    hay[pos] = needles[pos % k]
                for base in (end_at_guard(length), 0, 1, 7, 4095):
                    for d in ("fwd", "rev"):
                        yield ("swar %s %s %d 0 %d %s" % (hx(needles), d, base, length, hx(hay)), dict(family="swar"))
                        for be in ("sse2", "avx2"):
                            yield ("memchr %s %s %s %d 0 %d %s" % (be, hx(needles), d, base, length, hx(hay)),
                                   dict(family="memchr-" + be, untraced_widths=[16, 32]))
                    if k == 1:
                        yield ("swarcount %s %d 0 %d %s" % (hx(needles), base, length, hx(hay)), dict(family="swarcount"))
                        for be in ("sse2", "avx2"):
                            yield ("count %s %s %d 0 %d %s" % (be, hx(needles), base, length, hx(hay)),
                                   dict(family="count-" + be, untraced_widths=[16, 32]))
    # raw forms with start >= end
    for (s, e) in ((5, 5), (6, 5), (10, 0)):
        for d in ("fwd", "rev"):
            yield ("swar 61 %s 0 %d %d %s" % (d, s, e, hx([0x61] * 10)), dict(family="swar-empty"))
            for be in ("sse2", "avx2"):
                yield ("memchr %s 61 %s 0 %d %d %s" % (be, d, s, e, hx([0x61] * 10)), dict(family="memchr-empty", untraced_widths=[16, 32]))
    # (iii) is_equal & friends abutting guard pages
    for op, meta in gen_iseq(rng, "quick", None):
        yield op, meta
    # (iv) Rabin-Karp incl. foreign needles (value unspecified, reads must stay inside)
    for d in ("fwd", "rev"):
        for L in range(0, 12):
            needle = [rng.choice([0x61, 0x62]) for _ in range(L)]
            for H in list(range(0, 20)) + [40]:
                hay = [rng.choice([0x61, 0x62]) for _ in range(H)]
                yield ("rk %s %d %s %d %s" % (d, end_at_guard(H), hx(hay), end_at_guard(L), hx(needle)), dict(family="rk"))
                other = [rng.choice([0x61, 0x62, 0x63]) for _ in range(rng.randrange(0, 14))]
                yield ("rkx %s %s %d %s %d %s" % (d, hx(other), end_at_guard(H), hx(hay), end_at_guard(L), hx(needle)),
                       dict(family="rkx", domain="out"))
    # (v) packed pair on small lanes: construction needle, shorter and longer foreign needles
    for op, meta in gen_ppfind(rng, tier, 20000 if tier == "quick" else None):
        yield op, meta
    for op, meta in gen_ppfind(rng, tier, 10000 if tier == "quick" else None, pre=True):
        yield op, meta
    for lanes in (4,):
        for needle in ([0x61, 0x62, 0x63], [0x61] * 7, [0x61, 0x62] * 5):
            L = len(needle)
            for (i1, i2) in ((0, 1), (L - 1, 0)):
                minlen = max(L, max(i1, i2) + lanes)
                for H in range(minlen, minlen + 2 * lanes + 1):
                    for fl in (1, L - 1, L + 1, H, H + 1, H + 9):
                        if fl < 0:
                            continue
                        sneedle = [needle[j % L] for j in range(fl)]
                        hay = [needle[(j) % L] for j in range(H)]
                        yield ("ppfind %d %s %d %d %d %s %d %s" % (lanes, hx(needle), i1, i2, end_at_guard(fl), hx(sneedle),
                                                                   end_at_guard(H), hx(hay)),
                               dict(family="ppfind-foreign", domain="out", allow_model_ptroob=True))
                        # no occurrence of the search needle at all (the search runs to the very end:
                        # the chunk after the last full one), without and with pair-byte candidates
                        other = [0x7A] * fl
                        for hay2 in ([0x2E] * H, hay):
                            yield ("ppfind %d %s %d %d %d %s %d %s" % (lanes, hx(needle), i1, i2, end_at_guard(fl), hx(other),
                                                                       end_at_guard(H), hx(hay2)),
                                   dict(family="ppfind-foreign-absent", domain="out", allow_model_ptroob=True))
    # pair offsets close to 255 with needles of 250..290 bytes: min_haystack_len arithmetic
    for lanes in (4, 8):
        for L in (250, 255, 256, 258, 290):
            needle = [0x61 + (i % 7) for i in range(L)]
            for big in sorted(set([min(L - 1, 254), min(L - 1, 250), min(L - 1, 253)])):
                for (i1, i2) in ((big, 0), (1, big)):
                    minlen = max(L, big + lanes)
                    for H in (minlen - 2, minlen - 1, minlen, minlen + 1, minlen + lanes, minlen + 2 * lanes + 1):
                        hay = [0x61 + ((j + 3) % 7) for j in range(H)]
                        exp = "panic" if H < minlen else "nopanic"
                        yield ("pppre %d %s %d %d %d %s" % (lanes, hx(needle), i1, i2, end_at_guard(H), hx(hay)),
                               dict(family="pppre-bigidx", expect=exp))
                        yield ("ppfind %d %s %d %d %d %s %d %s" % (lanes, hx(needle), i1, i2, 0, hx(needle), end_at_guard(H), hx(hay)),
                               dict(family="ppfind-bigidx", expect=exp))
    for isa, B in (("sse2", 16), ("avx2", 32)):
        for L in (230, 250, 256, 270, 285):
            needle = [0x61 + (i % 7) for i in range(L)]
            for big in sorted(set([min(L - 1, 254), min(L - 1, 240), min(L - 1, 224)])):
                minlen = max(L, big + 16)
                for H in range(minlen, minlen + 2 * B + 2, 3):
                    hay = [0x2E] * H
                    for kind in ("find", "pre"):
                        yield ("ppreal %s %s %s %d %d %d %s %d %s" % (isa, kind, hx(needle), big, 0, 0, hx(needle), end_at_guard(H), hx(hay)),
                               dict(family="ppreal-bigidx-" + isa, modelless=True))
    # real SSE2/AVX2 packed pair with the haystack ending at a guard page
    for isa, B in (("sse2", 16), ("avx2", 32)):
        for needle in ([0x61, 0x62, 0x63], [0x61] * 9, list(range(0x41, 0x41 + 20))):
            L = len(needle)
            for (i1, i2) in ((0, 1), (L - 1, 0)):
                minlen = max(L, max(i1, i2) + 16)
                for H in range(minlen, minlen + 3 * B + 2):
                    hay = [0x2E] * H
                    p = rng.randrange(0, H - L + 1)
                    hay[p:p + L] = needle
                    for kind in ("find", "pre"):
                        yield ("ppreal %s %s %s %d %d %d %s %d %s" % (isa, kind, hx(needle), i1, i2, end_at_guard(L), hx(needle),
                                                                      end_at_guard(H), hx(hay)),
                               dict(family="ppreal-" + isa, modelless=True))
    # real SSE2 / AVX2 `find` with a SHORTER foreign needle that does not occur, haystack lengths
    # min_haystack_len + k * vector ending at a guard page (the tail after the last full chunk)
    for isa, B in (("sse2", 16), ("avx2", 32)):
        for needle in ([0x61] * 20, list(range(0x41, 0x41 + 40)), [0x61, 0x62] * 30):
            L = len(needle)
            for (i1, i2) in ((0, 1), (L - 1, 0), (L // 2, L - 1)):
                minlen = max(L, max(i1, i2) + 16)
                for H in sorted(set([minlen + k * 16 for k in range(0, 5)] + [minlen + k * 32 for k in range(0, 4)] + [minlen + 1, minlen + 17])):
                    for sn in ([0x7A], [0x7A] * 3, [0x7A] * (L // 2)):
                        for hay in ([0x2E] * H, [needle[j % L] for j in range(H)]):
                            yield ("ppreal %s find %s %d %d %d %s %d %s" % (isa, hx(needle), i1, i2, end_at_guard(len(sn)), hx(sn),
                                                                          end_at_guard(H), hx(hay)),
                                   dict(family="ppreal-foreign-" + isa, modelless=True, domain="out"))
    # (vi) Two-Way (safe code apart from is_equal inside Shift)
    for d in ("fwd", "rev"):
        for needle in structured_needles(rng, "quick")[:60]:
            for hay in haystacks_for(rng, needle, "quick", sizes=[0, len(needle), 2 * len(needle) + 3, 64]):
                yield ("twfind %s %s %s" % (d, hx(needle), hx(hay)), dict(family="twfind"))


GENERATORS.update({"C05": g_c05})


# ---------------------------------------------------------------------------------------
# byte search at API level: wrappers / dispatch on every configuration

# (executor variant, backend the dispatcher must pick there, direct wrapper backends testable there)
BYTE_CFGS_QUICK = [
    ("host", "avx2", ["avx2", "sse2", "swar"]),
    ("noavx2", "sse2", []),
    ("nosse2", "swar", []),
    ("neon", "neon", ["neon"]),
    ("simd128", "simd128", ["simd128"]),
    # a target with no vector module at all (the `not(any(x86_64, wasm32+simd128, aarch64))` arms)
    ("other", "swar", []),
]
BYTE_CFGS_THOROUGH = BYTE_CFGS_QUICK + [("alloconly", "sse2", []), ("avx2ct", "avx2", [])]
UNTRACED = {"avx2": [16, 32], "sse2": [16, 32]}


def byte_cases(rng, tier, maxlen):
    """(needles, base, hay) with the first/last match in every phase"""
    for k in (1, 2, 3):
        nsets = NEEDLE_SETS[k]
        for si, needles in enumerate(nsets):
            fill = filler_for(needles)
            lens = list(range(0, maxlen + 1))
            if tier == "quick" and si >= 2:
                lens = [l for l in lens if l < 40 or l % 7 == si % 7]
            for length in lens:
                bases = [0, 1, 15, 31, 33, 63, end_at_guard(length)] if tier == "thorough" else [rng.randrange(64), end_at_guard(length)]
                for base in bases:
                    pos_sets = [()]
                    if length:
                        ps = sorted(set([0, length - 1, length // 2] + [rng.randrange(length) for _ in range(2)]))
                        pos_sets += [(p,) for p in ps]
                        pos_sets.append((0, length - 1))
                    for pl in pos_sets:
                        hay = [fill] * length
                        for j, p in enumerate(pl):
                            hay[p] = needles[(j + p) % k]
                        yield needles, base, hay
    # dense matches: runs of needle bytes around the vector / unrolled-loop sizes, all-match
    # haystacks, needles alternating, rows whose matches cover every lane of a vector only
    # when OR-ed together (every lane of the unrolled loop's combined vector set)
    for k in (1, 2, 3):
        needles = NEEDLE_SETS[k][0]
        fill = filler_for(needles)
        runs = [1, 15, 16, 17, 31, 32, 33, 64, 65, 128, 130] if tier == "quick" else [1, 2, 15, 16, 17, 31, 32, 33, 63, 64, 65, 96, 127, 128, 129, 160, 300]
        for prefix in ([0, 1, 31, 32, 33, 40, 64, 100] if tier == "quick" else [0, 1, 15, 16, 17, 31, 32, 33, 40, 63, 64, 65, 96, 127, 130]):
            for run in runs:
                for tail in (0, 1, 33, 72, 129):
                    hay = [fill] * prefix + [needles[j % k] for j in range(run)] + [fill] * tail
                    for base in ([rng.randrange(64)] if tier == "quick" else [0, 1, 31, 33, rng.randrange(64)]):
                        yield needles, base, hay
        for length in (64, 128, 160, 257):
            yield needles, rng.randrange(64), [needles[j % k] for j in range(length)]
            for lanes in (16, 32):
                for prefix in (0, 7, lanes, 3 * lanes + 5):
                    hay = [fill] * prefix
                    for row in range(length // lanes):
                        r = [fill] * lanes
                        q = lanes // 4
                        for j in range(q):
                            r[(row % 4) * q + j] = needles[j % k]
                        hay += r
                    yield needles, rng.randrange(64), hay + [fill] * 50
    # near-miss bytes: haystacks made of bytes that differ from a needle in exactly one bit
    # (incl. the top bit) or by one, with and without a real match
    for k in (1, 2, 3):
        for needles in NEEDLE_SETS[k]:
            near = sorted(set(((n ^ (1 << b)) & 0xFF) for n in needles for b in range(8)) | set(((n + d) & 0xFF) for n in needles for d in (1, 255))) 
            near = [b for b in near if b not in needles]
            for length in (7, 8, 9, 16, 17, 33, 64, 100, 257):
                for _ in range(2 if tier == "quick" else 6):
                    hay = [rng.choice(near) for _ in range(length)]
                    yield needles, rng.randrange(64), hay
                    h2 = list(hay)
                    h2[rng.randrange(length)] = needles[rng.randrange(k)]
                    yield needles, rng.randrange(64), h2
    # multi-KiB haystacks
    for size in ((3000, 5000) if tier == "quick" else (3000, 5000, 9000, 20000)):
        for needles in ([0x61], [0x61, 0x62, 0x63]):
            for pos in (None, 0, size - 1, size // 2, size - 33):
                yield needles, rng.randrange(64), ("big", size, pos, needles[0])


def hay_hex(hay):
    if isinstance(hay, tuple):
        _, size, pos, b = hay
        if pos is None:
            return "r%dx2e" % size, size
        return "r%dx2e+%02x+r%dx2e" % (pos, b, size - pos - 1), size
    return hx(hay), len(hay)


def gen_byte_api(rng, tier, dirs, budget, with_count=False):
    cfgs = BYTE_CFGS_QUICK if tier == "quick" else BYTE_CFGS_THOROUGH
    maxlen = 140 if tier == "quick" else 300
    n = 0
    for needles, base, hay in byte_cases(rng, tier, maxlen):
        hh, length = hay_hex(hay)
        for (variant, picked, direct) in cfgs:
            for d in dirs:
                yield ("memchrd %s %s %s %d 0 %d %s" % (picked, hx(needles), d, base, length, hh),
                       dict(cfg=variant, family="memchrd-%s" % variant, untraced_widths=UNTRACED.get(picked)))
                for be in direct:
                    yield ("memchr %s %s %s %d 0 %d %s" % (be, hx(needles), d, base, length, hh),
                           dict(cfg=variant, family="memchr-%s" % be, untraced_widths=UNTRACED.get(be)))
                n += 1
            if with_count and len(needles) == 1:
                yield ("countd %s %s %d 0 %d %s" % (picked, hx(needles), base, length, hh),
                       dict(cfg=variant, family="countd-%s" % variant, untraced_widths=UNTRACED.get(picked)))
                for be in direct:
                    yield ("count %s %s %d 0 %d %s" % (be, hx(needles), base, length, hh),
                           dict(cfg=variant, family="count-%s" % be, untraced_widths=UNTRACED.get(be)))
        if budget and n >= budget:
            break           # (the small families below are never cut off by the budget)
    # raw forms with start >= end: every searcher (1, 2, 3 needles) of every module, empty and
    # REVERSED windows of every size class (a reversed window wider than a vector / the unrolled
    # loop must still be "empty")
    for (hl, s, e) in ((10, 5, 5), (10, 6, 5), (10, 10, 0), (40, 15, 1), (40, 40, 0), (100, 99, 3), (300, 290, 7), (300, 300, 300), (300, 0, 0)):
        for k in (1, 2, 3):
            needles = NEEDLE_SETS[k][0]
            for d in dirs:
                for be, variant in (("avx2", "host"), ("sse2", "host"), ("swar", "host"), ("neon", "neon"), ("simd128", "simd128")):
                    for base in (0, 1, 17):
                        yield ("memchr %s %s %s %d %d %d %s" % (be, hx(needles), d, base, s, e, "r%dx%02x" % (hl, needles[0])),
                               dict(cfg=variant, family="memchr-empty"))
                    if k == 1 and with_count and d == dirs[0]:
                        yield ("count %s %s 0 %d %d %s" % (be, hx(needles), s, e, "r%dx%02x" % (hl, needles[0])),
                               dict(cfg=variant, family="count-empty"))


def g_c01(rng, tier, budget):
    yield from gen_gfind(rng, tier, ["fwd"], budget)
    yield from gen_gexhaustive(rng, tier, ["fwd"])
    yield from gen_byte_api(rng, tier, ["fwd"], budget)


def g_c02(rng, tier, budget):
    yield from gen_gfind(rng, tier, ["rev"], budget)
    yield from gen_gexhaustive(rng, tier, ["rev"])
    yield from gen_byte_api(rng, tier, ["rev"], budget)


def dense_cases(rng, tier):
    for length in list(range(0, 100)) + [300, 1000, 4097]:
        for dens in (0.0, 0.1, 0.5, 0.9, 1.0):
            hay = [0x61 if rng.random() < dens else 0x2E for _ in range(length)]
            yield [0x61], rng.randrange(64), hay
        # fillers one bit away from the needle (top bit, low bit) and arbitrary bytes
        for n1 in (0x61, 0x0A, 0x00, 0x80, 0xFF):
            near = [n1 ^ 0x80, n1 ^ 0x01, (n1 + 1) & 0xFF, n1 ^ 0x40]
            hay = [n1 if rng.random() < 0.2 else rng.choice(near) for _ in range(length)]
            yield [n1], rng.randrange(64), hay
            yield [n1], rng.randrange(64), [rng.randrange(256) for _ in range(length)]


def g_c07(rng, tier, budget):
    yield from gen_gcount(rng, tier, budget)
    yield from gen_gexhaustive(rng, tier, [], count=True)
    cfgs = BYTE_CFGS_QUICK if tier == "quick" else BYTE_CFGS_THOROUGH
    for needles, base, hay in dense_cases(rng, tier):
        for (variant, picked, direct) in cfgs:
            yield ("countd %s %s %d 0 %d %s" % (picked, hx(needles), base, len(hay), hx(hay)),
                   dict(cfg=variant, family="countd-%s" % variant, untraced_widths=UNTRACED.get(picked)))
            for be in direct:
                yield ("count %s %s %d 0 %d %s" % (be, hx(needles), base, len(hay), hx(hay)),
                       dict(cfg=variant, family="count-%s" % be, untraced_widths=UNTRACED.get(be)))
    # iterator count on partially consumed iterators (from both ends)
    for op, meta in gen_iter(rng, tier, budget, count_heavy=True):
        yield op, meta


def gen_iter(rng, tier, budget, count_heavy=False):
    """all op sequences up to a length over all match sets of small haystacks + long random ones"""
    cfgs = BYTE_CFGS_QUICK if tier == "quick" else BYTE_CFGS_THOROUGH
    alphabet = "nbsc"
    n = 0
    # exhaustive: haystacks over {needle, filler} of length <= L, all op strings up to length K
    L, K = (5, 4) if tier == "quick" else (6, 5)
    seqs = [""]
    for k in range(1, K + 1):
        seqs += ["".join(t) for t in itertools.product(alphabet, repeat=k)]
    if tier == "quick":
        seqs = [s for s in seqs if len(s) <= 3] + rng.sample([s for s in seqs if len(s) > 3], 60)
    for length in range(0, L + 1):
        for bits in range(1 << length):
            hay = [0x61 if (bits >> i) & 1 else 0x2E for i in range(length)]
            for (variant, picked, direct) in cfgs[:1] if tier == "quick" else cfgs:
                for ops in seqs:
                    if count_heavy and "c" not in ops:
                        continue
                    yield ("iterd %s 61 %d %s %s" % (picked, rng.randrange(64), hx(hay), ops or "-"),
                           dict(cfg=variant, family="iterd-small", untraced_widths=UNTRACED.get(picked)))
                    n += 1
                    # the 2- and 3-needle iterators, incl. duplicate needles (the haystack
                    # only contains the first needle)
                    if not count_heavy and (len(ops) <= 3 or n % 5 == 0):
                        for nd in ("6161", "6162", "616161", "616261", "626161", "2e2e61", "2e6161", "612e2e", "2e612e", "2e61", "612e"):
                            yield ("iterd %s %s %d %s %s" % (picked, nd, rng.randrange(64), hx(hay), ops or "-"),
                                   dict(cfg=variant, family="iterd-small-multi", untraced_widths=UNTRACED.get(picked)))
        if budget and n >= budget:
            return
    # long haystacks, sparse/dense, random long op strings, every configuration and wrapper
    for _ in range(60 if tier == "quick" else 400):
        length = rng.choice([17, 33, 64, 65, 100, 257, 1000])
        dens = rng.choice([0.02, 0.2, 0.8])
        k = rng.choice([1, 2, 3])
        needles = rng.choice(NEEDLE_SETS[k])
        hay = [rng.choice(needles) if rng.random() < dens else 0x2E for _ in range(length)]
        ops = "".join(rng.choice("nnbbsc" if not count_heavy else "nbcc") for _ in range(rng.randrange(1, 40)))
        for (variant, picked, direct) in cfgs:
            yield ("iterd %s %s %d %s %s" % (picked, hx(needles), rng.randrange(64), hx(hay), ops),
                   dict(cfg=variant, family="iterd-long", untraced_widths=UNTRACED.get(picked)))
            for be in direct:
                yield ("iter %s %s %d %s %s" % (be, hx(needles), rng.randrange(64), hx(hay), ops),
                       dict(cfg=variant, family="iter-" + be, untraced_widths=UNTRACED.get(be)))


def gen_iter_consumed(rng, tier):
    """one end consumed by the iterator, then the opposite direction: the remaining window starts
    (ends) one past (at) an already yielded match, at every start alignment and every length
    through several unrolled-loop iterations (a load that strays one byte outside the remaining
    window yields that match twice)"""
    cfgs = BYTE_CFGS_QUICK if tier == "quick" else BYTE_CFGS_THOROUGH
    aligns = [0, 1, 2, 15, 16, 17, 31, 32, 33, 47, 48, 49, 62, 63] + [rng.randrange(64) for _ in range(2)]
    if tier != "quick":
        aligns = list(range(64))
    for k in (1, 2, 3):
        needles = NEEDLE_SETS[k][0]
        lens = range(1, 301) if k == 1 else sorted(rng.sample(range(1, 301), 40))
        for length in lens:
            for j in (0, 3):
                if j >= length:
                    continue
                shapes = [("nb", [j]), ("nbb", [j]), ("bn", [length - 1 - j]), ("bnn", [length - 1 - j])]
                if length >= 2 + j:
                    # two ADJACENT matches: one end takes the outer one, the other end must then
                    # find the inner one, which is the first / last byte of the remaining window
                    shapes += [("nb", [j, j + 1]), ("bn", [length - 2 - j, length - 1 - j]),
                               ("nbn", [j, j + 1]), ("bnb", [length - 2 - j, length - 1 - j])]
                for ops, poss in shapes:
                    parts, prev = [], 0
                    for q in poss:
                        parts += ["r%dx2e" % (q - prev), "%02x" % needles[-1]]
                        prev = q + 1
                    parts.append("r%dx2e" % (length - prev))
                    hh = "+".join(parts)
                    full = len(poss) == 2 and k == 1 and j == 0 and len(ops) == 2 and length <= 140
                    for a in (range(64) if full else aligns):
                        for (variant, picked, direct) in cfgs:
                            yield ("iterd %s %s %d %s %s" % (picked, hx(needles), a, hh, ops),
                                   dict(cfg=variant, family="iterd-consumed", untraced_widths=UNTRACED.get(picked)))
                            for be in direct:
                                yield ("iter %s %s %d %s %s" % (be, hx(needles), a, hh, ops),
                                       dict(cfg=variant, family="iter-consumed-" + be, untraced_widths=UNTRACED.get(be)))


def g_c06(rng, tier, budget):
    yield from gen_iter_consumed(rng, tier)
    yield from gen_iter(rng, tier, budget)


GENERATORS.update({"C01": g_c01, "C02": g_c02, "C07": g_c07, "C06": g_c06})


# ---------------------------------------------------------------------------------------
# substring search at API level (C03 C04 C08 C10 C16 C17)

# (executor variant, cfg token of the ops)
MM_CFGS_QUICK = [("host", "avx2"), ("noavx2", "sse2"), ("nosse2", "fallback"), ("neon", "neon"), ("simd128", "simd128"),
                 ("other", "fallback")]
MM_UNTRACED = {"avx2": [16, 32], "sse2": [16, 32], "fallback": None, "neon": None, "simd128": None}


def mm_pairs(rng, tier, budget_pairs):
    """(needle, hay) pairs: exhaustive small binary words + structured families"""
    n = 0
    nl, hl = (4, 7) if tier == "quick" else (6, 10)
    for needle in words([0x61, 0x62], nl):
        for hay in words([0x61, 0x62], hl, minlen=hl - 1):
            yield needle, hay
            n += 1
    done = False
    for needle in structured_needles(rng, tier):
        L = len(needle)
        sizes = [0, 1, L - 1, L, L + 1, 15, 16, 17, 2 * L + 3, 47, 63, 64, 65, 130, 200] + ([300, 1000] if tier == "thorough" else [])
        for hay in haystacks_for(rng, needle, tier, sizes=sizes):
            yield needle, hay
            n += 1
            if budget_pairs and n >= budget_pairs:
                done = True
                break
        if done:
            break
    # long needles in haystacks whose tail is shorter than the vector prefilter's minimum
    for L in (33, 40, 64, 100):
        needle = [0x61 + (i * 7) % 26 for i in range(L)]
        for tail in range(0, 40, 3):
            for lead in (0, 5, 31, 64):
                hay = [0x2E] * lead + needle + [needle[(i + 1) % L] for i in range(tail)]
                yield needle, hay
                hay2 = [needle[0]] * lead + needle[:-1] + [0x2E] + needle + [0x2E] * tail
                yield needle, hay2
    yield from mm_pairs_targeted(rng, tier)


def grammar_needles(rng):
    """needle shapes: periodic with short / long period, unbordered, single letter runs with a
    defect, random over small alphabets; lengths on both sides of 32"""
    alpha = [0x61, 0x62, 0x63, 0x64]
    L = rng.choice([2, 3, 4, 5, 6, 8, 11, 16, 20, 31, 32, 33, 34, 36, 40, 48, 64, 70])
    kind = rng.randrange(7)
    if kind == 0:      # w^k prefix, short period
        p = rng.randrange(1, max(2, L // 3 + 1))
        w = [rng.choice(alpha) for _ in range(p)]
        return [w[i % p] for i in range(L)]
    if kind == 1:      # long period, short border
        b = rng.randrange(1, max(2, L // 3))
        w = [rng.choice(alpha + [0x65, 0x66]) for _ in range(L - b)]
        return w + w[:b]
    if kind == 2:      # x y^(L-1) / y^(L-1) x
        y, x = rng.sample(alpha, 2)
        return [x] + [y] * (L - 1) if rng.random() < 0.5 else [y] * (L - 1) + [x]
    if kind == 3:      # run with one defect
        n = [alpha[0]] * L
        n[rng.randrange(L)] = alpha[1]
        return n
    if kind == 4:      # u^k v
        p = rng.randrange(1, max(2, L // 2))
        w = [rng.choice(alpha) for _ in range(p)]
        n = [w[i % p] for i in range(L)]
        n[-1] = rng.choice(alpha)
        return n
    if kind == 5:      # rare byte somewhere in common text
        n = [rng.choice([0x65, 0x74, 0x20, 0x61]) for _ in range(L)]
        n[rng.randrange(L)] = 0x51
        return n
    return [rng.choice(alpha[:2 + rng.randrange(3)]) for _ in range(L)]


def grammar_haystack(rng, needle):
    """haystack = random concatenation of pieces derived from the needle: slices, copies with
    one byte changed, copies missing their head or tail, foreign runs, full copies"""
    L = len(needle)
    out = []
    target = rng.choice([L, L + 3, 16, 24, 40, 64, 70, 100, 160])
    foreign = [0x23, 0x7A]
    while len(out) < target:
        k = rng.randrange(9)
        if k == 0:
            out += needle
        elif k == 1:
            a = rng.randrange(L)
            out += needle[a:]
        elif k == 2:
            b = rng.randrange(1, L + 1)
            out += needle[:b]
        elif k == 3:
            c = list(needle)
            c[rng.randrange(L)] ^= rng.choice([1, 2, 0x20])
            out += c
        elif k == 4:
            c = list(needle)
            c[0] = rng.choice(foreign)
            out += c
        elif k == 5:
            out += [rng.choice(foreign)] * rng.choice([1, 1, 2, 5, L])
        elif k == 6:
            a = rng.randrange(L)
            b = rng.randrange(a, L + 1)
            out += needle[a:b]
        elif k == 7:
            out += [rng.choice(needle) for _ in range(rng.randrange(1, 6))]
        else:
            c = list(needle)
            c[-1] ^= 1
            out += c
    if rng.random() < 0.3:
        out = out[:target]
    return out


def mm_pairs_targeted(rng, tier):
    """small families aimed at specific loop interactions; always run in full"""
    # grammar-based random pairs: needle shapes x haystacks assembled from the needle's own
    # factors, near-misses and foreign bytes
    for _ in range(5000 if tier == "quick" else 60000):
        needle = grammar_needles(rng)
        yield needle, grammar_haystack(rng, needle)
    # every short needle over {a,b} against pseudo-random haystacks over {a,b,#}: '#' is a byte
    # outside the needle's byte set, so byte-set skips interleave with period shifts
    for nlen in range(2, 9 if tier == "quick" else 11):
        for bits in range(1 << nlen):
            needle = [0x61 if (bits >> i) & 1 else 0x62 for i in range(nlen)]
            for _ in range(24 if tier == "quick" else 120):
                hlen = rng.choice([16, 17, 19, 23, 24, 31, 64, 70])
                yield needle, [rng.choice([0x23, 0x61, 0x61, 0x62, 0x62]) for _ in range(hlen)]
    for needle in ([0x61, 0x62, 0x63, 0x61, 0x62, 0x63], [0x61, 0x62, 0x63, 0x61, 0x62], [0x61, 0x61, 0x62, 0x61, 0x61],
                   [0x61, 0x62, 0x61, 0x62], [0x62, 0x61, 0x62], [0x61, 0x62, 0x61], [0x61, 0x62, 0x63, 0x64, 0x61, 0x62, 0x63, 0x64, 0x61]):
        alpha = sorted(set(needle)) + [0x23]
        for _ in range(400 if tier == "quick" else 4000):
            hlen = rng.choice([16, 17, 20, 23, 31, 40, 64, 66])
            yield needle, [rng.choice(alpha) for _ in range(hlen)]
    # the same three-step shape with longer periodic needles u^k v: a near-occurrence whose first
    # `cut` bytes are wrong, a run of a foreign byte, then a suffix of the needle
    for w in ([0x61, 0x62, 0x63, 0x64, 0x65], [0x61, 0x62], [0x61, 0x61, 0x62]):
        needle = [w[i % len(w)] for i in range(3 * len(w) + 2)]
        for cut in range(1, len(needle), 2 if tier == "quick" else 1):
            for s_ in range(1, len(needle), 3 if tier == "quick" else 1):
                for gap in (1, len(needle), 40):
                    yield needle, [w[-1]] * cut + needle[cut:] + [0x7A] * gap + needle[s_:] + [0x7A, 0x7A]
                    yield needle, needle[s_:] + [0x7A] * gap + needle[:len(needle) - cut] + [w[0]] * cut + [0x7A] * 3
    # rare-byte position sweep: a needle of common bytes with ONE rare byte at every offset, in
    # haystacks only a few bytes longer than the needle (so that vector prefilters take their
    # short-haystack path), with and without a stray copy of the rare byte before the match
    filler = list(b"the rate of interest on the settlement note is set at one")
    for nlen in ((8, 33, 40, 56) if tier == "quick" else (2, 8, 16, 31, 32, 33, 34, 40, 48, 56)):
        for rare_at in range(0, nlen, 1 if tier == "thorough" or nlen > 32 else 3):
            needle = filler[:nlen]
            needle[rare_at] = 0x51
            for before in (0, 3, 15, 40):
                for after in (0, 5, 14, 64):
                    strays = sorted(set([before] + [st for st in (0, before // 2, before - 1) if 0 <= st < before]))
                    for stray in strays:
                        hay = [0x20] * before
                        if stray < before:
                            hay[stray] = 0x51
                        yield needle, hay + needle + [0x20] * after
    # TWO rare bytes at every combination of early / late offsets (either may be the rarer), in
    # haystacks 0..15 bytes longer than the needle: the short-haystack path of the vector
    # prefilters scans for ONE of the two bytes and must subtract that byte's own offset
    common = list(b"etaoinshrdlu ")
    for nlen in (33, 40, 56, 76):
        spots = sorted(set([0, 1, 5, nlen // 2, nlen - 17, nlen - 16, nlen - 15, nlen - 8, nlen - 2, nlen - 1]))
        for i in spots:
            for j in spots:
                if i == j:
                    continue
                needle = [common[t % len(common)] for t in range(nlen)]
                needle[i] = 0x51
                needle[j] = 0x5A
                for before in (0, 3):
                    for after in (0, 1, 7, 14, 15):
                        yield needle, [0x20] * before + needle + [0x20] * after
                yield needle, needle + needle
                yield needle, needle[:-1] + [0x20] + needle
    # needles longer than the 255-byte window pair selection looks at, with the rarest byte just
    # inside / on / past the window's edge
    for L in (255, 256, 257, 258, 300):
        for k in (253, 254, 255, 256, 257):
            if k >= L:
                continue
            for second in (None, 0, 200):
                needle = [common[t % len(common)] for t in range(L)]
                needle[k] = 0x51
                if second is not None:
                    needle[second] = 0x5A
                yield needle, [0x20] * 5 + needle + [0x20] * 9
                yield needle, needle[1:] + [0x51] * 3 + needle[:-1]
    # long needles with a LONG period and a short border (period > len/2): u v u[:b]
    for (plen, blen) in ((28, 12), (20, 13), (30, 5), (40, 9)):
        u = [0x30 + (i * 7) % 43 for i in range(plen)]
        needle = u + u[:blen]
        L = len(needle)
        for c1 in (1, 2):
            for s_ in (1, blen, L - plen, blen + 1, plen // 2):
                for gap in (0, 6, 12):
                    h = [0x2E] * 6 + [0x23] * c1 + needle[c1:] + [0x2E] * gap + needle[s_:] + [0x2E] * 64
                    yield needle, h
                    yield needle, h + needle + [0x2E] * 3
                    yield needle, needle[s_:] + [0x2E] * gap + needle[:L - c1] + [0x23] * c1 + [0x2E] * 20
    # periodic long needles (Two-Way small-period branch WITH the prefilter): haystacks built from
    # near-matches of the needle: copies whose first c bytes are damaged or dropped (right part
    # matches, left part fails), separated by short gaps, optionally followed by a real match
    wordsets = [[0x61, 0x62, 0x63, 0x64, 0x65, 0x66, 0x67], [0x61] * 11 + [0x5A, 0x51], list(b"id=0042;name=Zoe;ok=1;"),
                [0x78, 0x79] + [0x61] * 9]
    for w in wordsets:
        for reps in (1, 2, 3):
            for extra in range(1, len(w)):
                L = reps * len(w) + extra
                if L <= 32 or L > 80:
                    continue
                needle = [w[i % len(w)] for i in range(L)]
                for c1 in (1, 3):
                    for c2 in (1, 2):
                        for gap in (0, 2):
                            for with_match in (False, True):
                                h = [0x23] * c1 + needle[c1:] + [0x23] * gap + needle[c2:]
                                if with_match:
                                    h += [0x23, 0x23] + needle
                                yield needle, h
                yield needle, needle[1:] + needle[2:] + needle[1:] + [0x2E] + needle
    # haystacks that drive the prefilter inert before a later match: dense false candidates
    for L in (34, 40):
        needle = [0x78, 0x79] + [0x61] * (L - 2)
        for reps in (60, 120, 400):
            hay = [0x78, 0x79, 0x62] * reps + needle + [0x2E] * 7
            yield needle, hay
            yield needle, [0x78, 0x79, 0x62] * reps


def prestates(rng):
    M = 2 ** 32 - 1
    return [(1, 0), (0, 0), (51, 0), (51, 400), (52, 407), (60, 100000), (M, M), (2 ** 29 + 1, M), (2, 0)]


def gen_find(rng, tier, budget, cfgs=None, pfs=("auto", "none"), rankers=None, states=None):
    cfgs = cfgs or MM_CFGS_QUICK
    tabs = rank_tables(rng)
    rankers = rankers or ["default"]
    pairs = list(mm_pairs(rng, tier, None if tier == "thorough" else 4000))
    if budget:
        targeted = list(mm_pairs_targeted(rng, tier))
        nt = len(targeted)
        bulk = pairs[:len(pairs) - nt] if nt < len(pairs) else pairs
        # the targeted families are kept whole (thinned only when they alone exceed 3x the budget)
        if nt > 3 * budget:
            targeted = rng.sample(targeted, 3 * budget)
        pairs = rng.sample(bulk, min(len(bulk), budget)) + targeted
    n = 0
    for needle, hay in pairs:
        hb = end_at_guard(len(hay)) if n % 2 else rng.randrange(64)
        for (variant, cfg) in cfgs:
            for pf in pfs:
                for rk in rankers:
                    t = "default" if rk == "default" else hx(tabs[rk])
                    for (s1, s2) in (states or [(1, 0)]):
                        yield ("find %s %s %s %d %d %s %d %s" % (cfg, pf, t, s1, s2, hx(needle), hb, hx(hay)),
                               dict(cfg=variant, family="find-%s-%s" % (cfg, pf), untraced_widths=MM_UNTRACED[cfg]))
        n += 1


def g_c03(rng, tier, budget):
    yield from gen_find(rng, tier, budget)
    for needle, hay in mm_pairs(rng, "quick", 1500):
        for (variant, cfg) in MM_CFGS_QUICK:
            yield ("oneshot %s fwd %s %d %s" % (cfg, hx(needle), rng.randrange(64), hx(hay)),
                   dict(cfg=variant, family="oneshot-fwd", untraced_widths=MM_UNTRACED[cfg]))
    for needle in structured_needles(rng, "quick"):
        for (variant, cfg) in MM_CFGS_QUICK:
            for pf in ("auto", "none"):
                yield ("fnew %s %s default %s" % (cfg, pf, hx(needle)), dict(cfg=variant, family="fnew"))


def g_c04(rng, tier, budget):
    n = 0
    for needle, hay in mm_pairs(rng, tier, None if tier == "thorough" else 4000):
        for (variant, cfg) in MM_CFGS_QUICK:
            yield ("rfind %s %s %d %s" % (cfg, hx(needle), end_at_guard(len(hay)) if n % 2 else 3, hx(hay)),
                   dict(cfg=variant, family="rfind-" + cfg, untraced_widths=MM_UNTRACED[cfg]))
            if n % 3 == 0:
                yield ("oneshot %s rev %s %d %s" % (cfg, hx(needle), 5, hx(hay)),
                       dict(cfg=variant, family="oneshot-rev", untraced_widths=MM_UNTRACED[cfg]))
        n += 1
        if budget and n >= budget:
            return


def iter_cases(rng, tier):
    # self-overlapping needles in repetitive haystacks, empty needle, prefilter-inert haystacks
    for n in (1, 2, 3, 7, 16, 33, 64, 100):
        yield [0x61, 0x61], [0x61] * n
        yield [0x61, 0x62, 0x61], ([0x61, 0x62] * n)[: 2 * n - 1]
        yield [], [0x61] * (n % 9)
        yield [0x61], [0x61, 0x2E] * n
        yield [0x61] * 34, [0x61] * (n + 34)
        yield ([0x61, 0x62] * 20), ([0x61, 0x62] * (20 + n))
    yield [], []
    yield [0x61], []
    needle = [0x78, 0x79] + [0x61] * 38
    yield needle, [0x78, 0x79, 0x62] * 100 + needle + [0x78, 0x79, 0x62] * 30 + needle
    allp = list(mm_pairs(rng, "quick", 300))
    for needle, hay in rng.sample(allp, min(len(allp), 700 if tier == "quick" else 5000)):
        yield needle, hay


def g_c08(rng, tier, budget):
    for needle, hay in iter_cases(rng, tier):
        expected = 0 if not hay and needle else len(hay) + 2
        ops_full = "sn" * min(expected, 260) + "snn"
        for (variant, cfg) in MM_CFGS_QUICK:
            for pf in ("auto", "none"):
                yield ("finditer %s %s default %s %d %s %s" % (cfg, pf, hx(needle), rng.randrange(64), hx(hay), ops_full),
                       dict(cfg=variant, family="finditer"))
            yield ("rfinditer %s %s %d %s %s" % (cfg, hx(needle), rng.randrange(64), hx(hay), "n" * min(expected, 260) + "nn"),
                   dict(cfg=variant, family="rfinditer"))
            # clone / into_owned at EVERY point of the iteration, including after exhaustion
            if expected <= 14 and cfg == "avx2":
                for k in range(0, expected + 1):
                    for conv in ("o", "k", "oo", "ko"):
                        yield ("finditer %s auto default %s %d %s %s" % (cfg, hx(needle), 9, hx(hay), "n" * k + conv + "snn"),
                               dict(cfg=variant, family="finditer-convert-at"))
                        yield ("rfinditer %s %s %d %s %s" % (cfg, hx(needle), 9, hx(hay), "n" * k + conv + "nn"),
                               dict(cfg=variant, family="rfinditer-convert-at"))
            # clones / into_owned at random points
            ops = "".join(rng.choice("nnsko") for _ in range(min(2 * expected, 80)))
            yield ("finditer %s auto default %s %d %s %s" % (cfg, hx(needle), 7, hx(hay), ops or "-"),
                   dict(cfg=variant, family="finditer-clone"))
            ops = "".join(rng.choice("nnko") for _ in range(min(2 * expected, 80)))
            yield ("rfinditer %s %s %d %s %s" % (cfg, hx(needle), 7, hx(hay), ops or "-"),
                   dict(cfg=variant, family="rfinditer-clone"))


def g_c10(rng, tier, budget):
    rk = ["default", "const0", "const255", "identity", "reversed", "random", "coarse", "rare-hi", "rare-mid"]
    yield from gen_find(rng, tier, 700 if tier == "quick" else 4000, cfgs=MM_CFGS_QUICK[:3] if tier == "quick" else MM_CFGS_QUICK,
                        rankers=rk, states=None)
    # every PrefilterState value class on the prefilter-driven families
    yield from gen_find(rng, tier, 500 if tier == "quick" else 3000, cfgs=MM_CFGS_QUICK[:1] + MM_CFGS_QUICK[2:3],
                        pfs=("auto",), states=prestates(rng))
    yield from gen_prestate(rng, tier, budget)


def g_c16(rng, tier, budget):
    rngl = rng
    yield from gen_finder_alias(rng, tier)
    yield from gen_finder_alias2(rng, tier)
    # clone / into_owned of partially consumed iterators at every point (shared with C08)
    for op, meta in g_c08(rng, tier, budget):
        if "convert-at" in meta.get("family", "") or "-clone" in meta.get("family", ""):
            yield op, meta
    for _ in range(400 if tier == "quick" else 4000):
        needle = rngl.choice(structured_needles(rngl, "quick"))
        L = len(needle)
        ops = []
        for _ in range(rngl.randrange(1, 9)):
            c = rngl.random()
            if c < 0.55:
                hay = rngl.choice(haystacks_for(rngl, needle, "quick", sizes=[0, L, 2 * L + 3, 64, 130]))
                ops.append("f:" + hx(hay))
            else:
                ops.append(rngl.choice(["r", "o", "k", "n"]))
        # haystack orders that would exhaust the prefilter first
        if L >= 34 and rngl.random() < 0.5:
            ops.insert(0, "f:" + hx(([needle[0], needle[1], 0x62] * 300)))
        # complete iterator traversals from every ownership state
        ops2 = []
        for o in ops:
            ops2.append(o)
            if o in ("o", "k", "r") or rngl.random() < 0.3:
                hay = rngl.choice(haystacks_for(rngl, needle, "quick", sizes=[L, 2 * L + 3, 64]))
                ops2.append("i:" + hx(hay))
        for (variant, cfg) in MM_CFGS_QUICK[:3] if tier == "quick" else MM_CFGS_QUICK:
            yield ("finderops %s auto %s %s" % (cfg, hx(needle), ",".join(ops)), dict(cfg=variant, family="finderops"))
            yield ("finderops %s auto %s %s" % (cfg, hx(needle), ",".join(ops2)), dict(cfg=variant, family="finderops-iter"))
            yield ("finderrevops %s %s %s" % (cfg, hx(needle), ",".join(ops2)), dict(cfg=variant, family="finderrevops"))


def gen_finder_alias(rng, tier):
    """the finder borrows its needle from INSIDE the haystack it then searches (front, middle,
    end), for every search strategy (short/long haystacks, short/long needles); the same handle
    then goes through as_ref / clone / into_owned, which must all answer as the first one did"""
    units = [[0x61], [0x61, 0x62], [0x61, 0x62, 0x63], [0x61, 0x61, 0x62], list(b"abcab"), list(b"xyzzy-"),
             list(b"The quick brown fox jumps over it. ")]
    progs = (["f:H", "i:H", "k", "f:H", "r", "f:H", "i:H", "o", "f:H", "i:H"],
             ["i:H", "o", "i:H", "f:H"], ["f:H", "r", "k", "f:H", "f:O", "f:H"])
    for unit in units:
        for reps in (2, 3, 5, 10, 30, 70):
            hay = unit * reps
            if len(hay) > 300:
                continue
            other = hay[1:] + [0x2E] + hay
            for nl in sorted(set([1, 2, 3, len(unit), len(unit) + 1, 2 * len(unit), 9, 17, 33, 40, 65])):
                if nl > len(hay):
                    continue
                for off in sorted(set([0, 1, len(unit), (len(hay) - nl) // 2, len(hay) - nl])):
                    if off + nl > len(hay):
                        continue
                    needle = hay[off:off + nl]
                    for prog in progs:
                        ops = ",".join(t.replace("H", hx(hay)).replace("O", hx(other)) for t in prog)
                        for (variant, cfg) in MM_CFGS_QUICK[:3] if tier == "quick" else MM_CFGS_QUICK:
                            yield ("finderopsal %s auto %d %s %s" % (cfg, off, hx(needle), ops),
                                   dict(cfg=variant, family="finderops-alias"))
                            yield ("finderrevopsal %s %d %s %s" % (cfg, off, hx(needle), ops),
                                   dict(cfg=variant, family="finderrevops-alias"))


def gen_finder_alias2(rng, tier):
    """needle and haystack are two arbitrary (overlapping, nested, prefix-of-each-other) windows
    of ONE buffer: haystack shorter than the needle and starting at the needle's address,
    haystack = a prefix / suffix / inner part of the needle, needle inside the haystack, ..."""
    bufs = [list(b"abcabcabcabcabcabc"), [0x61] * 24, list(b"xyzzy-xyzzy-xyzzy-xyzzy-"), list(b"aabaabaabaab"),
            [0x61 + (i * 7) % 26 for i in range(90)]]
    for buf in bufs:
        B = len(buf)
        wins = []
        for no in (0, 1, 2, 3, B // 2):
            for nl in (1, 2, 3, 4, 6, 9, 17, 33, 40):
                if no + nl <= B:
                    wins.append((no, nl))
        for (no, nl) in wins:
            needle = buf[no:no + nl]
            subs = set()
            for ho in (no, 0, no + 1, max(0, no - 1), no + nl - 1, no + nl):
                for hl in (0, 1, nl - 1, nl, nl + 1, 2 * nl, B - ho, 3):
                    if 0 <= ho <= B and hl >= 0 and ho + hl <= B:
                        subs.add((ho, hl))
            subs = sorted(subs)
            toks = []
            for (ho, hl) in subs:
                toks += ["s:%d:%d" % (ho, hl), "j:%d:%d" % (ho, hl)]
            for conv in ([], ["k"], ["r"], ["o"]):
                ops = ",".join(["f:" + hx(buf)] + conv + toks)
                for (variant, cfg) in MM_CFGS_QUICK[:3] if tier == "quick" else MM_CFGS_QUICK:
                    yield ("finderopsal %s auto %d %s %s" % (cfg, no, hx(needle), ops), dict(cfg=variant, family="finderops-alias2"))
                    yield ("finderrevopsal %s %d %s %s" % (cfg, no, hx(needle), ops), dict(cfg=variant, family="finderrevops-alias2"))


def g_c17(rng, tier, budget):
    # every memchr-family function / iterator, substring finders: expected allocations are
    # exactly the model's count (finderops) or zero (everything else)
    yield from g_c16(rng, tier, budget)
    import itertools as _it2
    shaped = []
    # needles whose preprocessing takes every branch: an irregular head before a periodic tail
    # (critical position early, head longer than the period), purely periodic, period > half
    for head in (b"", b"x", b"zy", b"xyz", b"xyzw-", b"0123456789"):
        for unit in (b"a", b"ab", b"abc", b"aab", b"abcde"):
            for reps in (1, 3, 8, 20, 40):
                for tail in (b"", b"q", unit[:1]):
                    nd = list(head + unit * reps + tail)
                    if 0 < len(nd) <= 140:
                        shaped.append((nd, nd + [0x2E] * 40 + nd))
    for needle, hay in _it2.chain(mm_pairs(rng, "quick", 1200), shaped, _it2.islice(mm_pairs_targeted(rng, "quick"), 1500)):
        for (variant, cfg) in MM_CFGS_QUICK[:3]:
            yield ("finderops %s auto %s f:%s" % (cfg, hx(needle), hx(hay)), dict(cfg=variant, family="finderops-find"))
            yield ("finderrevops %s %s f:%s" % (cfg, hx(needle), hx(hay)), dict(cfg=variant, family="finderrevops-find"))
            yield ("finderops %s none %s f:%s,f:%s" % (cfg, hx(needle), hx(hay), hx(hay[::-1])), dict(cfg=variant, family="finderops-find"))


def g_c17_all(rng, tier, budget):
    yield from g_c17(rng, tier, budget)
    # every memchr-family function / iterator and every substring search entry point with the
    # allocation probe armed and the hook's recorder off: expected allocations = 0
    import itertools as _it
    srcs = [("C01", 6000), ("C02", 3000), ("C06", 3000), ("C07", 2000), ("C03", 6000), ("C04", 3000), ("C08", 1500), ("C12", 3000)]
    for p, cap in srcs:
        n = 0
        for op, meta in GENERATORS[p](rng, "quick", None):
            if meta.get("cfg", "host") != "host":
                continue
            head = op.split(" ", 1)[0]
            if head in ("gfind", "gcount", "fnew", "shiftor", "ppfind", "pppre", "twnew"):
                continue
            m = dict(meta)
            m.update(cfg="notrace", allocs=0, family="noalloc-" + head)
            m.pop("untraced_widths", None)
            yield op, m
            n += 1
            if n >= (cap if tier == "quick" else cap * 10):
                break


GENERATORS.update({"C03": g_c03, "C04": g_c04, "C08": g_c08, "C10": g_c10, "C16": g_c16, "C17": g_c17_all})


# ---------------------------------------------------------------------------------------
# C13 linear work: adversarial families at geometrically growing sizes

C13_K, C13_K0 = 16, 2000      # threshold used by the executable test; the proved constants are in Props/C13.lean


def rep(hexunit, count):
    return "r%dx%s" % (count, hexunit) if count > 0 else ""


def join_parts(parts):
    parts = [p for p in parts if p]
    return "+".join(parts) if parts else "-"


def c13_families(rng, sizes):
    """yield (name, needle_hexexpr, needle_len, hay_hexexpr, hay_len)"""
    for n in sizes:
        # (258..288, 514: lengths that truncate to 2..=32 in a u8; 65536+8: in a u16)
        for m in (8, 32, 33, 64, 255, 258, 288, 514, 65544, n // 16 if n >= 4096 else 40):
            if m > n // 2:
                continue
            m = max(2, min(m, n // 2))
            # 1. a^m in (a^(m-1) b)^r
            unit = "61" * (m - 1) + "62"
            r = n // m
            yield ("a^m-in-(a^(m-1)b)^r", rep("61", m), m, rep(unit, r), r * m)
            # 2. periodic needle (ab)^k in its near-period haystack
            k = m // 2
            near = "6162" * (k - 1) + "6163"
            yield ("periodic-in-near-periods", rep("6162", k), 2 * k, rep(near, n // (2 * k)), (n // (2 * k)) * 2 * k)
            # 3. two rare bytes of the needle at every haystack position: needle = x y a^(m-2)
            yield ("rare-pair-everywhere", join_parts(["7879", rep("61", m - 2)]), m, rep("7879", n // 2), (n // 2) * 2)
            # 5. candidate-free prefix then dense false candidates (keeps the prefilter on)
            yield ("free-prefix-then-dense", join_parts(["7879", rep("61", m - 2)]), m,
                   join_parts([rep("62", n // 2), rep("787962", n // 6)]), n // 2 + (n // 6) * 3)
        # 7. non-periodic needles whose critical position is at an extreme: x y^(m-1) and
        #    y^(m-1) x in y^n (every window matches the long side)
        for m7 in (40, 255, max(41, n // 8)):
            m7 = min(m7, n // 2)
            yield ("crit-at-start", join_parts(["61", rep("62", m7 - 1)]), m7, rep("62", n), n)
            yield ("crit-at-end", join_parts([rep("62", m7 - 1), "61"]), m7, rep("62", n), n)
            yield ("crit-at-start-inert", join_parts(["61", rep("62", m7 - 1)]), m7, join_parts([rep("6162", 64), "63", rep("62", n)]), n + 129)
        # 6. needle nearly as long as the haystack (n in [m, 2m)): few windows, each as expensive
        #    as possible; rolling-hash collisions (only the last 32 bytes influence the hash)
        m = n // 2 + 1
        yield ("needle-half-of-haystack", join_parts([rep("61", m - 40), "62", rep("61", 39)]), m, rep("61", 2 * m - 1), 2 * m - 1)
        yield ("needle-half-of-haystack-rev", join_parts([rep("61", m - 1), "62"]), m, rep("61", 2 * m - 1), 2 * m - 1)
        yield ("needle-almost-haystack", rep("6162", m // 2), (m // 2) * 2, join_parts([rep("6162", m // 2 - 1), "6163", rep("6162", 8)]), (m // 2) * 2 + 16)
        # 4. Fibonacci / Thue-Morse
        f = fib_word(n)
        t = thue_morse(n)
        for m in (33, 64, 255):
            if m < n // 2:
                yield ("fibonacci", hx(f[n - m:]), m, hx(f), n)
                yield ("fibonacci-prefix-broken", hx(f[:m - 1] + [0x63]), m, hx(f), n)
                yield ("thue-morse", hx(t[n // 3:n // 3 + m]), m, hx(t), n)


def expand(expr):
    if expr == "-":
        return b""
    out = bytearray()
    for part in expr.split("+"):
        if part.startswith("r"):
            n, hexs = part[1:].split("x")
            out += bytes.fromhex(hexs) * int(n)
        else:
            out += bytes.fromhex(part)
    return bytes(out)


def greedy_count(hay, needle, rev=False):
    if rev:
        hay, needle = hay[::-1], needle[::-1]
    if not needle:
        return len(hay) + 1
    k, pos = 0, 0
    while True:
        i = hay.find(needle, pos)
        if i < 0:
            return k
        k += 1
        pos = i + len(needle)


# wall-clock guard: ns per byte of (haystack + needle) and a constant; see tools/props.py
C13_NS_PER_BYTE = 600
C13_NS_CONST = 200_000_000


def c13_huge(rng, tier):
    """megabyte inputs for the wall-clock guard: work that hides in library calls (memcmp, ...)
    is invisible to the step counters and needs sizes at which n^2 dwarfs any constant"""
    for n in ((2 ** 20, 2 ** 21) if tier == "quick" else (2 ** 20, 2 ** 21, 2 ** 22)):
        m = n // 4
        # a candidate-free prefix banks prefilter credit; then every position of a long run is a
        # candidate sharing m-1 bytes with the needle (pair selection only sees the first 255 bytes)
        yield ("credit-then-run", join_parts([rep("61", m - 1), "62"]), m, join_parts([rep("7a", n), rep("61", n // 8 + 2 * m)]), n + n // 8 + 2 * m)
        yield ("credit-then-run-rev", join_parts(["62", rep("61", m - 1)]), m, join_parts([rep("61", n // 8 + 2 * m), rep("7a", n)]), n + n // 8 + 2 * m)
        yield ("run-only", join_parts([rep("61", m - 1), "62"]), m, rep("61", n), n)
        yield ("periodic-huge", rep("6162", m // 2), (m // 2) * 2, join_parts([rep("7a", n // 2), rep("6162", n // 4 - 1), "6163", rep("6162", n // 8)]), n // 2 + (n // 4) * 2 + (n // 8) * 2)
        yield ("short-needle-credit", join_parts([rep("61", 299), "62"]), 300, join_parts([rep("7a", n), rep("61", n)]), 2 * n)


def g_c13(rng, tier, budget):
    sizes = [2 ** k for k in (range(8, 17) if tier == "quick" else range(8, 21))]
    cfgs = MM_CFGS_QUICK[:3] if tier == "quick" else MM_CFGS_QUICK
    for name, nx, m, hxpr, n in c13_huge(rng, tier):
        meta = dict(cfg="host", family="c13-huge-" + name, bound=C13_K * (n + m) + C13_K0, size=n + m,
                    tbound_ns=C13_NS_PER_BYTE * (n + m) + C13_NS_CONST)
        yield ("find avx2 auto default 1 0 %s 0 %s" % (nx, hxpr), dict(meta))
        yield ("find avx2 none default 1 0 %s 0 %s" % (nx, hxpr), dict(meta))
        yield ("rfind avx2 %s 0 %s" % (nx, hxpr), dict(meta))
    # construction of finders for megabyte needles (suffix computations, hashing, byte sets)
    M = 2 ** 20
    for nm, nx in (("b-a^k", join_parts(["62", rep("61", M - 1)])), ("a^k-b", join_parts([rep("61", M - 1), "62"])),
                   ("c-(ba)^k", join_parts(["63", rep("6261", M // 2)])), ("(ab)^k-c", join_parts([rep("6162", M // 2), "63"])),
                   ("a^k", rep("61", M)), ("a-b^k-a", join_parts(["61", rep("62", M - 2), "61"]))):
        meta = dict(cfg="host", family="c13-huge-new-" + nm, bound=C13_K * M + C13_K0, size=M, tbound_ns=C13_NS_PER_BYTE * M + C13_NS_CONST)
        yield ("fnew avx2 auto default %s" % nx, dict(meta))
        yield ("rfind avx2 %s 0 %s" % (nx, "r64x7a"), dict(meta))
    # complete traversals with very many matches (per-match overhead must stay constant)
    M4 = 4 * M
    for nm, nx, m, hxpr, n in (("dense", "6162", 2, rep("6162", M // 2), M),
                               ("free-head-then-matches", "6162636465666768", 8, join_parts([rep("7a", M4 // 2), rep("6162636465666768", M4 // 16)]), M4),
                               ("matches-then-free-tail", "6162636465666768", 8, join_parts([rep("6162636465666768", M4 // 16), rep("7a", M4 // 2)]), M4), ("spaced", rep("61", 40), 40, rep("61" * 40 + "7a", M // 41), (M // 41) * 41),
                               ("empty-needle", "-", 0, rep("7a", M // 8), M // 8)):
        hb, nb = expand(hxpr), expand(nx)
        meta = dict(cfg="host", family="c13-huge-iter-" + nm, size=n + m, tbound_ns=C13_NS_PER_BYTE * (n + m) + C13_NS_CONST)
        cnt = greedy_count(hb, nb) + 1
        yield ("finditer avx2 auto default %s 0 %s %s" % (nx, hxpr, "n" * cnt), dict(meta, bound=C13_K * (n + m) + C13_K0 * (cnt + 1)))
        cnt = greedy_count(hb, nb, rev=True) + 1
        yield ("rfinditer avx2 %s 0 %s %s" % (nx, hxpr, "n" * cnt), dict(meta, bound=C13_K * (n + m) + C13_K0 * (cnt + 1)))
    for name, nx, m, hxpr, n in c13_families(rng, sizes):
        bound = C13_K * (n + m) + C13_K0
        for (variant, cfg) in cfgs:
            meta = dict(cfg=variant, family="c13-" + name, bound=bound, size=n + m,
                        tbound_ns=C13_NS_PER_BYTE * (n + m) + C13_NS_CONST)
            yield ("find %s auto default 1 0 %s 0 %s" % (cfg, nx, hxpr), dict(meta))
            yield ("fnew %s auto default %s" % (cfg, nx), dict(meta, bound=C13_K * m + C13_K0))
            if cfg == "avx2":
                yield ("find %s none default 1 0 %s 0 %s" % (cfg, nx, hxpr), dict(meta))
                yield ("rfind %s %s 0 %s" % (cfg, nx, hxpr), dict(meta))
                if n <= 2 ** 14:
                    # a COMPLETE traversal: all matches plus the first None
                    hb, nb = expand(hxpr), expand(nx)
                    cnt = greedy_count(hb, nb) + 1
                    yield ("finditer %s auto default %s 0 %s %s" % (cfg, nx, hxpr, "n" * cnt), dict(meta, bound=bound + C13_K0 * cnt))
                    cnt = greedy_count(hb, nb, rev=True) + 1
                    yield ("rfinditer %s %s 0 %s %s" % (cfg, nx, hxpr, "n" * cnt), dict(meta, bound=bound + C13_K0 * cnt))
    # building blocks with counters
    for needle, hay in mm_pairs(rng, "quick", 1500):
        yield ("twfind fwd %s %s" % (hx(needle), hx(hay)), dict(family="c13-twfind", bound=C13_K * (len(hay) + len(needle)) + C13_K0))
        yield ("twfind rev %s %s" % (hx(needle), hx(hay)), dict(family="c13-twfind", bound=C13_K * (len(hay) + len(needle)) + C13_K0))


GENERATORS.update({"C13": g_c13})


def g_c09(rng, tier, budget):
    b = 12000 if tier == "quick" else None
    yield from gen_byte_api(rng, tier, ["fwd", "rev"], b, with_count=True)
    cfgs = MM_CFGS_QUICK if tier == "quick" else MM_CFGS_QUICK + [("alloconly", "sse2"), ("avx2ct", "avx2"), ("noalloc", "sse2")]
    yield from gen_find(rng, tier, 1500 if tier == "quick" else 8000, cfgs=cfgs)
    n = 0
    for needle, hay in mm_pairs(rng, tier, 1500 if tier == "quick" else 8000):
        for (variant, cfg) in cfgs:
            yield ("rfind %s %s %d %s" % (cfg, hx(needle), 3, hx(hay)),
                   dict(cfg=variant, family="rfind-" + cfg, untraced_widths=MM_UNTRACED.get(cfg)))
    for arch, a, b2, c, d, e in itertools.product(["x86_64", "aarch64", "wasm32simd128", "other"], [0, 1], [0, 1], [0, 1], [0, 1], [0, 1]):
        yield ("select %s %d %d %d %d %d" % (arch, a, b2, c, d, e), dict(family="select", modelonly=True))
    if tier == "quick":
        # the two feature builds (no `std`: compile-time dispatch; `+avx2` at compile time) also in
        # the quick run, on a sample of the same streams (thorough runs them in full)
        r2 = random.Random(rng.random())
        for (variant, picked) in (("alloconly", "sse2"), ("avx2ct", "avx2"), ("noalloc", "sse2")):
            for op, meta in gen_byte_api(r2, "quick", ["fwd", "rev"], 3000, with_count=True):
                if meta.get("cfg") == "host" and op.split(" ", 1)[0] in ("memchrd", "countd") and r2.random() < 0.3:
                    parts = op.split(" ")
                    parts[1] = picked
                    yield (" ".join(parts), dict(cfg=variant, family=parts[0] + "-" + variant, untraced_widths=UNTRACED.get(picked)))
            for op, meta in gen_find(r2, "quick", 300, cfgs=[(variant, picked)]):
                yield op, meta
            pairs = list(mm_pairs(r2, "quick", 300))
            for needle, hay in r2.sample(pairs, min(len(pairs), 1500)):
                yield ("rfind %s %s %d %s" % (picked, hx(needle), 3, hx(hay)),
                       dict(cfg=variant, family="rfind-" + variant, untraced_widths=MM_UNTRACED.get(picked)))


def g_c15(rng, tier, budget):
    threads = [2, 3, 4, 8, 16, 32, 64]
    reps = 12 if tier == "quick" else 60
    for (variant, be) in (("host", "avx2"), ("noavx2", "sse2"), ("nosse2", "swar")):
        for t in threads:
            for r in range(reps):
                yield ("conc %s %d %d %d" % (be, t, rng.randrange(1 << 30), 40 if t > 16 else 120),
                       dict(cfg=variant, family="conc-%s" % variant))


GENERATORS.update({"C09": g_c09, "C15": g_c15})


# ---------------------------------------------------------------------------------------
# API surface: entry points the other families reach only indirectly

SURFACE_BACKENDS = [("host", "avx2"), ("host", "sse2"), ("host", "swar"), ("neon", "neon"), ("simd128", "simd128")]


def gen_surface_byte(rng, tier, dirs, with_count=False):
    """slice forms `One/Two/Three::{find,rfind,count}(&hay[s..e])` of every searcher module
    (+ `new_unchecked`/`is_available` cross-check inside the executor), on sub-windows"""
    n = 0
    for needles, base, hay in byte_cases(rng, tier, 140 if tier == "quick" else 300):
        n += 1
        if tier == "quick" and n % 3:
            continue
        hh, length = hay_hex(hay)
        wins = [(0, length)]
        if length >= 2 and not isinstance(hay, tuple):
            a_, b_ = sorted((rng.randrange(length + 1), rng.randrange(length + 1)))
            wins += [(1, length), (0, length - 1), (a_, b_)]
        for (so, eo) in wins:
            for (variant, be) in SURFACE_BACKENDS:
                for d in dirs:
                    yield ("memchrs %s %s %s %d %d %d %s" % (be, hx(needles), d, base, so, eo, hh),
                           dict(cfg=variant, family="memchrs-" + be, untraced_widths=UNTRACED.get(be)))
                if with_count and len(needles) == 1:
                    yield ("counts %s %s %d %d %d %s" % (be, hx(needles), base, so, eo, hh),
                           dict(cfg=variant, family="counts-" + be, untraced_widths=UNTRACED.get(be)))


def gen_surface_iter(rng, tier):
    """`Memchr{,2,3}::new` and the reversed adapters `memrchr{,2,3}_iter`, on every configuration"""
    cfgs = BYTE_CFGS_QUICK if tier == "quick" else BYTE_CFGS_THOROUGH
    for _ in range(150 if tier == "quick" else 1500):
        length = rng.choice([0, 1, 5, 17, 33, 64, 65, 100, 129, 257, 300])
        dens = rng.choice([0.02, 0.2, 0.8])
        k = rng.choice([1, 2, 3])
        needles = rng.choice(NEEDLE_SETS[k])
        hay = [rng.choice(needles) if rng.random() < dens else 0x2E for _ in range(length)]
        ops = "".join(rng.choice("nnbbsc") for _ in range(rng.randrange(1, 30)))
        for (variant, picked, direct) in cfgs:
            for opn in ("iterdn", "iterdr"):
                yield ("%s %s %s %d %s %s" % (opn, picked, hx(needles), rng.randrange(64), hx(hay), ops),
                       dict(cfg=variant, family=opn, untraced_widths=UNTRACED.get(picked)))
    # one end consumed, then the other (see gen_iter_consumed), through the reversed adapter
    for length in range(1, 200, 1 if tier != "quick" else 3):
        for a in (0, 1, 31, 32, 33):
            for ops, pos in (("nb", length - 1), ("bn", 0)):
                hh = "r%dx2e+61+r%dx2e" % (pos, length - pos - 1)
                for (variant, picked, direct) in cfgs:
                    yield ("iterdr %s 61 %d %s %s" % (picked, a, hh, ops),
                           dict(cfg=variant, family="iterdr-consumed", untraced_widths=UNTRACED.get(picked)))


def gen_surface_iseqraw(rng, tier):
    for length in list(range(0, 41)) + [63, 64, 65, 127, 128, 129, 255, 256, 257, 1000, 4096, 4097]:
        x = [rng.randrange(256) for _ in range(length)]
        ps = [None] + (sorted(set([0, length // 2, length - 1] + [rng.randrange(length) for _ in range(3)])) if length else [])
        for p in ps:
            y = list(x)
            if p is not None:
                y[p] ^= 1 << rng.randrange(8)
            for (bx, by) in ((0, 0), (3, (4096 - length) % 4096), ((4096 - length) % 4096, 5)):
                yield ("iseqraw %d %s %d %s" % (bx, hx(x), by, hx(y)), dict(family="iseqraw"))


def gen_surface_rkraw(rng, tier):
    """raw-pointer Rabin-Karp, needle in its own buffer and needle pointing INTO the haystack"""
    units = [[0x61], [0x61, 0x62], [0x61, 0x62, 0x63], [0x61, 0x61, 0x62], list(b"abcab"), list(b"xyzzy-")]
    for unit in units:
        for reps in (1, 2, 3, 5, 9, 20):
            hay = unit * reps
            for nl in sorted(set([0, 1, 2, 3, len(unit), len(unit) + 1, 2 * len(unit), 9, 17, 33])):
                if nl > len(hay):
                    continue
                for off in sorted(set([0, 1, len(unit), (len(hay) - nl) // 2, len(hay) - nl])):
                    if off + nl > len(hay):
                        continue
                    needle = hay[off:off + nl]
                    for d in ("fwd", "rev"):
                        yield ("rkraw %s %d %s @%d %s" % (d, rng.randrange(64), hx(hay), off, hx(needle)), dict(family="rkraw-alias"))
                        yield ("rkraw %s %d %s %d %s" % (d, end_at_guard(len(hay)), hx(hay), end_at_guard(nl), hx(needle)),
                               dict(family="rkraw"))
    pairs = list(mm_pairs(rng, "quick", 400))
    for needle, hay in rng.sample(pairs, min(len(pairs), 1500 if tier == "quick" else 15000)):
        for d in ("fwd", "rev"):
            yield ("rkraw %s %d %s %d %s" % (d, rng.randrange(64), hx(hay), 7, hx(needle)), dict(family="rkraw"))
    for (needle, window) in rk_colliding(rng):
        for d in ("fwd", "rev"):
            yield ("rkraw %s 0 %s 0 %s" % (d, hx(window + needle + window), hx(needle)), dict(family="rkraw-collide"))


def gen_surface_findfree(rng, tier):
    import itertools as _it3
    pairs = list(mm_pairs(rng, "quick", 600))
    pairs = rng.sample(pairs, min(len(pairs), 1500 if tier == "quick" else 15000))
    for needle, hay in pairs:
        for (variant, cfg) in MM_CFGS_QUICK[:3] if tier == "quick" else MM_CFGS_QUICK:
            for d in ("fwd", "rev"):
                yield ("findfree %s %s %s %d %s" % (cfg, d, hx(needle), rng.randrange(64), hx(hay)),
                       dict(cfg=variant, family="findfree-" + d))
    for hay in ([], [0x61], [0x61] * 5, list(b"abcabc")):
        for (variant, cfg) in MM_CFGS_QUICK[:3]:
            for d in ("fwd", "rev"):
                yield ("findfree %s %s - 0 %s" % (cfg, d, hx(hay)), dict(cfg=variant, family="findfree-empty"))


def _wrap(prop, extra):
    base = GENERATORS[prop]

    def g(rng, tier, budget):
        import itertools as _it4
        # (the deep streams are consumed through a sampler; a budgeted call must stay bounded)
        yield from (_it4.islice(extra(rng, tier), max(1000, budget // 4)) if budget else extra(rng, tier))
        yield from base(rng, tier, budget)
    GENERATORS[prop] = g


_wrap("C01", lambda rng, tier: gen_surface_byte(rng, tier, ["fwd"]))
_wrap("C02", lambda rng, tier: gen_surface_byte(rng, tier, ["rev"]))
_wrap("C07", lambda rng, tier: gen_surface_byte(rng, tier, [], with_count=True))
_wrap("C06", gen_surface_iter)
_wrap("C18", gen_surface_iseqraw)
_wrap("C12", gen_surface_rkraw)
_wrap("C08", gen_surface_findfree)
_wrap("C09", lambda rng, tier: gen_surface_byte(rng, tier, ["fwd", "rev"], with_count=True))


def _c05_surface(rng, tier):
    for op, meta in gen_surface_byte(rng, tier, ["fwd", "rev"], with_count=True):
        if rng.random() < 0.35:
            yield op, meta
    yield from gen_surface_iseqraw(rng, tier)
    yield from gen_surface_rkraw(rng, tier)


_wrap("C05", _c05_surface)


def gen_surface_ppforeign(rng, tier):
    """a pair selected on ANOTHER, longer needle handed to the safe `with_pair` of every finder"""
    for (variant, isas) in (("host", ["fallback", "sse2", "avx2"]), ("neon", ["neon"]), ("simd128", ["simd128"])):
        for sl in (1, 2, 3, 5, 16, 17, 33):
            short = [0x61 + (i % 7) for i in range(sl)]
            for ll in (sl, sl + 1, sl + 3, 40, 300):
                if ll < sl:
                    continue
                long = [0x61 + (i % 7) for i in range(ll)]
                idx = sorted(set([0, 1, sl - 1, sl, sl + 1, ll - 1, min(ll - 1, 255)]) & set(range(min(ll, 256))))
                for i1 in idx:
                    for i2 in idx:
                        for isa in isas:
                            yield ("ppforeign %s %s %s %d %d" % (isa, hx(short), hx(long), i1, i2),
                                   dict(cfg=variant, family="ppforeign-" + isa))


_wrap("C05", gen_surface_ppforeign)


# inputs beyond 2^32 bytes (lazily mapped zero pages): 32-bit accumulators, offsets and counters
G32 = 2 ** 32


def gen_giant(kind):
    def g(rng, tier):
        for op, meta in g0(rng, tier):
            yield op, meta
            if kind != "memmem":
                yield op, dict(meta, cfg="noavx2", family=meta["family"] + "-sse2")      # the SSE2 routines

    def g0(rng, tier):
        if kind == "iter":
            yield ("giant iter %d %d,%d,%d,%d" % (G32 + 300, 7, G32 - 1, G32, G32 + 200), dict(family="giant-iter", modelless=True))
            return
        if kind == "rmemmem":
            # (a reverse search has no prefilter: 4 GiB take ~10 s, so only in the thorough tier)
            if tier == "thorough":
                yield ("giant rmemmem %d 4142 %d" % (G32 + 2 ** 20, 100), dict(family="giant-rmemmem", modelless=True))
            return
        if kind == "count":
            yield ("giant count %d 4" % (G32 + 4133), dict(family="giant-count", modelless=True))
            yield ("giant count %d 0" % (G32 + 64), dict(family="giant-count", modelless=True))
        elif kind == "find":
            yield ("giant find %d %d" % (G32 + 200, G32 + 101), dict(family="giant-find", modelless=True))
            yield ("giant find %d %d" % (G32 + 200, G32 - 1), dict(family="giant-find", modelless=True))
        elif kind == "rfind":
            yield ("giant rfind %d 5" % (G32 + 200), dict(family="giant-rfind", modelless=True))
            yield ("giant rfind %d %d" % (G32 + 200, G32 + 3), dict(family="giant-rfind", modelless=True))
        else:
            nd = hx(list(b"ABCDEFGHIJKLMNOPQRSTUVWXYZ0123456789@Q"))
            yield ("giant memmem %d %s %d 1000,%d,%d,%d" % (G32 + 2 ** 27, nd, G32 + 2 ** 26, 2 ** 31, 2 ** 31 + 100, G32),
                   dict(family="giant-memmem", modelless=True))
            yield ("giant memmem %d %s %d -" % (G32 + 2 ** 20, nd, G32 + 5), dict(family="giant-memmem", modelless=True))
            yield ("giant memmem %d 4142 %d -" % (G32 + 2 ** 20, G32 + 5), dict(family="giant-memmem", modelless=True))
    return g


_wrap("C07", gen_giant("count"))
_wrap("C01", gen_giant("find"))
_wrap("C02", gen_giant("rfind"))
_wrap("C03", gen_giant("memmem"))
_wrap("C14", gen_giant("memmem"))
_wrap("C06", gen_giant("iter"))
_wrap("C04", gen_giant("rmemmem"))


def gen_single_byte_finders(rng, tier):
    """every one-byte needle (and two-byte needles over special values) through the ownership
    conversions, reading `needle()` back after each"""
    for b in range(256):
        hay = [0x2E, b, 0x2E, (b + 1) % 256, b]
        prog = "n,f:%s,o,n,f:%s,k,n,r,n,o,n,i:%s" % (hx(hay), hx(hay), hx(hay))
        yield ("finderops avx2 auto %02x %s" % (b, prog), dict(cfg="host", family="finderops-1byte"))
        yield ("finderrevops avx2 %02x %s" % (b, prog), dict(cfg="host", family="finderrevops-1byte"))
    for a_ in (0x00, 0x7F, 0x80, 0xFF, 0x61):
        for b in (0x00, 0xFF, 0xFE, 0x01):
            hay = [a_, b, a_, a_, b, 0x2E]
            prog = "n,o,n,f:%s,k,n,r,n,i:%s" % (hx(hay), hx(hay))
            for (variant, cfg) in MM_CFGS_QUICK[:3]:
                yield ("finderops %s auto %02x%02x %s" % (cfg, a_, b, prog), dict(cfg=variant, family="finderops-2byte"))
                yield ("finderrevops %s %02x%02x %s" % (cfg, a_, b, prog), dict(cfg=variant, family="finderrevops-2byte"))


_wrap("C16", gen_single_byte_finders)


def gen_pair_long(rng, tier):
    """`Pair::new` on needles longer than the 255-byte window (rarest byte around the edge)"""
    common = list(b"etaoinshrdlu ")
    for L in (255, 256, 257, 258, 300, 1000):
        for k in (253, 254, 255, 256, 257, L - 1):
            if k >= L:
                continue
            needle = [common[t % len(common)] for t in range(L)]
            needle[k] = 0x51
            yield ("pair default %s" % hx(needle), dict(family="pair-long"))
            yield ("pairreport %s 0 %d" % (hx(needle), min(k, 255)), dict(cfg="host", family="pairreport-long"))


_wrap("C12", gen_pair_long)


def gen_noalloc_finders(rng, tier):
    """the build with neither `std` nor `alloc` (CowBytes is a plain borrow): finder programs
    without `into_owned`"""
    for needle in rng.sample(structured_needles(rng, "quick"), 60):
        L = len(needle)
        hays = haystacks_for(rng, needle, "quick", sizes=[0, L, 2 * L + 3, 64, 130])
        toks = []
        for _ in range(6):
            c = rng.random()
            if c < 0.5:
                toks.append("f:" + hx(rng.choice(hays)))
            elif c < 0.7:
                toks.append("i:" + hx(rng.choice(hays)))
            else:
                toks.append(rng.choice(["r", "k", "n"]))
        yield ("finderops sse2 auto %s %s" % (hx(needle), ",".join(toks)), dict(cfg="noalloc", family="finderops-noalloc"))
        yield ("finderrevops sse2 %s %s" % (hx(needle), ",".join(toks)), dict(cfg="noalloc", family="finderrevops-noalloc"))


_wrap("C16", gen_noalloc_finders)


def gen_c12_pairidx(rng, tier):
    """`Pair::with_indices` + `with_pair` of every finder on the offsets around `needle.len()`"""
    for L in (1, 2, 3, 5, 17, 40):
        needle = [0x61 + (i * 3) % 23 for i in range(L)]
        for i1 in sorted(set([0, 1, L - 1, L, L + 1]) & set(range(256))):
            for i2 in sorted(set([0, 1, L - 1, L, L + 1]) & set(range(256))):
                yield ("pairidx %s %d %d" % (hx(needle), i1, i2), dict(family="pairidx"))
                yield ("pairreport %s %d %d" % (hx(needle), i1, i2), dict(cfg="host", family="pairreport"))


_wrap("C12", gen_c12_pairidx)


def gen_c18_feature_builds(rng, tier):
    """the long-operand family also in the builds with other compile-time features (`+avx2`
    enabled statically, no `std`, no `alloc`)"""
    ops = list(gen_iseq_long(rng, "quick"))
    for variant in ("avx2ct", "alloconly", "noalloc"):
        for op, meta in rng.sample(ops, min(len(ops), 4000)):
            yield op, dict(meta, cfg=variant, family=meta["family"] + "-" + variant)
        # every single differing byte of a 200-byte operand (which 64-byte block / which half)
        x = [rng.randrange(256) for _ in range(200)]
        for p in range(200):
            y = list(x)
            y[p] ^= 0x20
            yield ("iseq 0 %s 1 %s" % (hx(x), hx(y)), dict(cfg=variant, family="iseq-1diff-" + variant))


_wrap("C18", gen_c18_feature_builds)


def diverse_needles(rng):
    """needles whose bytes cover many (all 64) residue classes mod 64 / all 256 values"""
    out = [list(range(0x40, 0x80)), list(range(0, 64)), list(range(256)), list(range(255, -1, -1)),
           [(i * 37 + 11) % 256 for i in range(70)], [(i * 101) % 256 for i in range(128)]]
    for n in (64, 70, 100, 200):
        out.append([rng.randrange(256) for _ in range(n)])
    return out


def gen_diverse_pairs(rng, tier):
    for needle in diverse_needles(rng):
        L = len(needle)
        for mult in (1, 3, 9, 20):
            junk = [rng.randrange(256) for _ in range(mult * L)]
            yield needle, junk + needle + junk[: L // 2]
            yield needle, junk
            yield needle, needle[1:] + junk + needle[:-1]


def gen_c17_diverse(rng, tier):
    for needle, hay in gen_diverse_pairs(rng, tier):
        for (variant, cfg) in MM_CFGS_QUICK[:3]:
            yield ("finderops %s auto %s f:%s,i:%s" % (cfg, hx(needle), hx(hay), hx(hay)), dict(cfg=variant, family="finderops-diverse"))
            yield ("finderrevops %s %s f:%s,i:%s" % (cfg, hx(needle), hx(hay), hx(hay)), dict(cfg=variant, family="finderrevops-diverse"))
        yield ("rfind avx2 %s 3 %s" % (hx(needle), hx(hay)), dict(cfg="notrace", allocs=0, family="noalloc-rfind-diverse"))
        yield ("oneshot avx2 rev %s 3 %s" % (hx(needle), hx(hay)), dict(cfg="notrace", allocs=0, family="noalloc-oneshot-diverse"))
        yield ("oneshot avx2 fwd %s 3 %s" % (hx(needle), hx(hay)), dict(cfg="notrace", allocs=0, family="noalloc-oneshot-diverse"))


_wrap("C17", gen_c17_diverse)


def gen_find_diverse(rng, tier):
    for needle, hay in gen_diverse_pairs(rng, tier):
        for (variant, cfg) in MM_CFGS_QUICK[:3]:
            yield ("find %s auto default 1 0 %s %d %s" % (cfg, hx(needle), rng.randrange(64), hx(hay)),
                   dict(cfg=variant, family="find-diverse", untraced_widths=MM_UNTRACED[cfg]))
            yield ("rfind %s %s %d %s" % (cfg, hx(needle), 3, hx(hay)), dict(cfg=variant, family="rfind-diverse", untraced_widths=MM_UNTRACED.get(cfg)))


_wrap("C03", gen_find_diverse)
_wrap("C04", gen_find_diverse)


def gen_c14_empty(rng, tier):
    """empty and reversed raw windows (find / rfind / count) must answer, never panic or abort"""
    for op, meta in gen_byte_api(rng, "quick", ["fwd", "rev"], 1, with_count=True):
        if meta.get("family") in ("memchr-empty", "count-empty"):
            yield op, meta


_wrap("C14", gen_c14_empty)


def gen_c16_lengths(rng, tier):
    """a needle of EVERY length 0..70 (distinct bytes, and one with a periodic tail) through the
    ownership conversions, `needle()` read back and a search after each"""
    for L in range(0, 71):
        for needle in ([0x30 + (i * 7) % 75 for i in range(L)], [0x61 + (i % 3) for i in range(L)]):
            hay = [0x2E] * 5 + needle + [0x2E] * 3 + needle[: L // 2] + [0x7A] + needle
            prog = "n,f:%s,o,n,f:%s,i:%s,k,n,r,n,f:%s" % (hx(hay), hx(hay), hx(hay), hx(hay))
            for (variant, cfg) in MM_CFGS_QUICK[:3]:
                yield ("finderops %s auto %s %s" % (cfg, hx(needle), prog), dict(cfg=variant, family="finderops-len"))
                yield ("finderrevops %s %s %s" % (cfg, hx(needle), prog), dict(cfg=variant, family="finderrevops-len"))
            ops = "nokn" if L else "nok"
            yield ("finditer avx2 auto default %s 9 %s %s" % (hx(needle), hx(hay), ops + "nnn"), dict(cfg="host", family="finditer-len"))
            yield ("rfinditer avx2 %s 9 %s %s" % (hx(needle), hx(hay), ops + "nnn"), dict(cfg="host", family="rfinditer-len"))


_wrap("C16", gen_c16_lengths)


def gen_c17_rankers(rng, tier):
    """finder construction with caller-supplied rankers (a 256-byte table: not zero-sized) with
    the allocation probe armed and the recorder off"""
    tabs = rank_tables(rng)
    pairs = list(mm_pairs(rng, "quick", 300))
    for needle, hay in rng.sample(pairs, 300):
        for name, tab in tabs.items():
            if tab is None:
                continue
            yield ("find avx2 auto %s 1 0 %s 5 %s" % (hx(tab), hx(needle), hx(hay)),
                   dict(cfg="notrace", allocs=0, family="noalloc-find-ranker"))


_wrap("C17", gen_c17_rankers)


def gen_impure_rankers(rng, tier):
    """rankers that are not functions of the byte (a call counter): `Pair::with_ranker` and the
    finder built with them must still return normally with a valid pair / the right answer"""
    needles = [[0x61, 0x62], [0x61, 0x61], [0x62, 0x61, 0x61], [0x61, 0x62, 0x61, 0x62, 0x63], list(b"hello world"), [0x61] * 40,
               list(b"the quick brown fox jumps over the lazy dog"), [(i * 7) % 256 for i in range(300)]]
    for needle in needles:
        for mode in ("up", "down", "alt", "lcg"):
            yield ("pairimp %s %s" % (mode, hx(needle)), dict(cfg="host", family="pairimp"))
            hay = [0x2E] * 70 + needle + [0x2E] * 9
            yield ("findimp %s %s %s" % (mode, hx(needle), hx(hay)), dict(cfg="host", family="findimp", modelless=True))


_wrap("C19", gen_impure_rankers)
_wrap("C10", gen_impure_rankers)


def gen_c05_nodebug(rng, tier):
    """the same small-lane / real-SIMD raw searches and counts in a build WITHOUT debug assertions
    (a violated alignment or bounds invariant is then not stopped by a `debug_assert!` but shows
    as the recorded misaligned / out-of-region load, or as a fault on the real vector load)"""
    n = 0
    for op, meta in GENERATORS_BASE_C05(rng, "quick", None):
        head = op.split(" ", 1)[0]
        if head not in ("gfind", "gcount", "memchr", "count", "swar", "swarcount"):
            continue
        if meta.get("cfg", "host") != "host" or meta.get("domain", "in") != "in":
            continue
        n += 1
        if n % 3:
            continue
        yield op, dict(meta, cfg="nodebug", family=meta.get("family", head) + "-nodebug")
    # iterator states: count / next / next_back after the front or back has moved to an odd address
    for be in ("avx2", "sse2", "swar"):
        for a in range(0, 64, 1 if be != "swar" else 3):
            for length in (70, 150, 300):
                for j in (0, 1, 5, 17, 33):
                    hh = "r%dx2e+61+r%dx2e+61+r20x2e" % (j, length - j)
                    for ops in ("nc", "nnc", "bc", "nbc", "cn"):
                        yield ("iter %s 61 %d %s %s" % (be, a, hh, ops), dict(cfg="nodebug", family="iter-nodebug-" + be, untraced_widths=UNTRACED.get(be)))
                        if a % 4 == 0:
                            yield ("iter %s 61 %d %s %s" % (be, a, hh, ops), dict(cfg="host", family="iter-count-" + be, untraced_widths=UNTRACED.get(be)))


GENERATORS_BASE_C05 = g_c05
_wrap("C05", gen_c05_nodebug)


def gen_c14_prefilter_short(rng, tier):
    """the prefilters on haystacks SHORTER than the pair offsets / the needle (they document no
    minimum length for the portable one): must answer, not panic"""
    for L in (2, 3, 5, 9, 20, 40):
        needle = [0x61 + (i * 5) % 21 for i in range(L)]
        for (i1, i2) in sorted(set([(0, 1), (1, 0), (L - 1, 0), (0, L - 1), (L // 2, L - 1), (L - 1, L // 2)])):
            if i1 == i2 or i1 >= L or i2 >= L:
                continue
            for H in range(0, max(i1, i2) + 3):
                for hay in ([0x2E] * H, [needle[j % L] for j in range(H)], [needle[i1]] * H):
                    yield ("fbpre %s %d %d %d %s" % (hx(needle), i1, i2, (4096 - H) % 4096, hx(hay)), dict(family="fbpre-short"))


_wrap("C14", gen_c14_prefilter_short)
_wrap("C11", gen_c14_prefilter_short)
