"""Structured case generators, one family set per property (DESIGN.md section 4.2).

Every random choice derives from one `random.Random(seed)`.  Generators yield
(op_line, meta) pairs; op lines are read by both the Lean driver and the Rust executor.
"""
import itertools, random

FILL = 0x2E  # '.'


def hx(bs):
    return bytes(bs).hex() if len(bs) else "-"


def exec_env(prop):
    return {}


def rule(prop):
    return RULES.get(prop, "structured generator (tools/gens.py); an op is non-trivial when the model "
                           "spends at least 3 steps on it (reaches a loop), distinct by op line")


RULES = {}


def exhaustive(prop, tier):
    return False


def assumptions(prop):
    return ASSUME.get(prop, ["see DESIGN.md section 5 (trusted base)"])


ASSUME = {}


def fact_failures(prop, ex):
    f = ex.get("facts", {})
    out = []
    if prop in ("C15", "C16") and f.get("interior_mutability_unexpected"):
        out.append("interior mutability outside the ifunc AtomicPtr: %s" % f["interior_mutability_unexpected"][:3])
    if prop == "C17" and f.get("alloc_unexpected"):
        out.append("allocation sites outside cow.rs/shiftor.rs: %s" % f["alloc_unexpected"][:3])
    return out


UNROLL = {1: 4, 2: 2, 3: 2}
NEEDLE_SETS = {
    1: [[0x61], [0x00], [0x80], [0xFF]],
    2: [[0x61, 0x62], [0x61, 0x61], [0x00, 0xFF]],
    3: [[0x61, 0x62, 0x63], [0x61, 0x61, 0x61], [0x61, 0x62, 0x61], [0x00, 0x80, 0xFF]],
}


def filler_for(needles):
    for b in (FILL, 0x7A, 0x01, 0x55):
        if b not in needles:
            return b
    return 0x33


def gen_gfind(rng, tier, dirs, budget):
    """generic find_raw/rfind_raw on the hook's checked small-lane vectors: every length up to
    several unrolled iterations x every base residue x match placements."""
    lanes_list = [4, 8] if tier == "quick" else [2, 4, 8, 16]
    n = 0
    for lanes in lanes_list:
        for k in (1, 2, 3):
            u = UNROLL[k]
            maxlen = 3 * u * lanes + lanes + 3 if tier == "quick" else 6 * u * lanes + 3
            nsets = NEEDLE_SETS[k] if tier == "thorough" else NEEDLE_SETS[k][:2]
            for needles in nsets:
                fill = filler_for(needles)
                for length in range(lanes, maxlen + 1):
                    for base in range(0, lanes):
                        placements = [()]
                        pos = list(range(length))
                        if tier == "quick" and lanes >= 8:
                            pos = sorted(set(rng.sample(pos, min(len(pos), 12)) + [0, length - 1]))
                        placements += [(p,) for p in pos]
                        # two matches: first/last pairs straddling boundaries
                        pairs = [(0, length - 1)]
                        for _ in range(3 if tier == "quick" else 12):
                            a, b = sorted(rng.sample(range(length), 2)) if length >= 2 else (0, 0)
                            pairs.append((a, b))
                        placements += pairs
                        if tier == "thorough":
                            placements.append(tuple(range(length)))  # all match
                        for pl in placements:
                            hay = [fill] * length
                            for j, p in enumerate(pl):
                                hay[p] = needles[(j + p) % k]
                            for d in dirs:
                                # the region is exactly the haystack: base is the address mod 4096
                                yield ("gfind %d %s %d %s %d 0 %d %s" % (
                                    lanes, hx(needles), u, d, 4096 - 64 + base if False else 64 + base, length, hx(hay)),
                                    dict(domain="in", family="gfind-%d-%d" % (lanes, k)))
                                n += 1
                                if budget and n >= budget:
                                    return


def gen_gcount(rng, tier, budget):
    lanes_list = [4, 8] if tier == "quick" else [2, 4, 8, 16]
    n = 0
    for lanes in lanes_list:
        u = 4
        maxlen = 3 * u * lanes + lanes + 3 if tier == "quick" else 6 * u * lanes + 3
        for needle in ([0x61, 0x00] if tier == "quick" else [0x61, 0x00, 0xFF]):
            fill = filler_for([needle])
            for length in range(lanes, maxlen + 1):
                for base in range(0, lanes):
                    dens = [[fill] * length, [needle] * length]
                    for _ in range(4 if tier == "quick" else 16):
                        p = rng.choice([0.1, 0.5, 0.9])
                        dens.append([needle if rng.random() < p else fill for _ in range(length)])
                    for hay in dens:
                        yield ("gcount %d %s %d %d 0 %d %s" % (lanes, hx([needle]), u, 64 + base, length, hx(hay)),
                               dict(domain="in", family="gcount-%d" % lanes))
                        n += 1
                        if budget and n >= budget:
                            return


def generate(prop, tier, seed, budget=None):
    rng = random.Random(seed * 1000003 + sum(map(ord, prop)))
    g = GENERATORS.get(prop)
    if g is None:
        return iter(())
    return g(rng, tier, budget)


def g_c01(rng, tier, budget):
    yield from gen_gfind(rng, tier, ["fwd"], budget)


def g_c02(rng, tier, budget):
    yield from gen_gfind(rng, tier, ["rev"], budget)


def g_c07(rng, tier, budget):
    yield from gen_gcount(rng, tier, budget)


GENERATORS = {"C01": g_c01, "C02": g_c02, "C07": g_c07}
