#!/usr/bin/env python3
"""Markdown summary of the mechanical mutation passes (work/mechmut*/results.jsonl) for DESIGN 14.9."""
import json, os, collections
ROOT = os.path.dirname(os.path.dirname(os.path.abspath(__file__)))
for name, path in (("x86_64 + portable code, host / forced-SSE2 / forced-fallback executors", "work/mechmut/results.jsonl"),
                   ("target-specific code (aarch64, wasm32, no-vector arms), emulated executors", "work/mechmut-arch/results.jsonl")):
    p = os.path.join(ROOT, path)
    if not os.path.exists(p):
        continue
    rs = [json.loads(l) for l in open(p)]
    by = collections.defaultdict(collections.Counter)
    for r in rs:
        by[r.get("file", "?")][r["status"]] += 1
    print("**%s**\n" % name)
    print("| file | mutants | do not compile | caught | of those, the crate's own tests pass | survived |")
    print("|---|---|---|---|---|---|")
    tot = collections.Counter()
    for f in sorted(by):
        c = by[f]
        cp = sum(1 for r in rs if r.get("file") == f and r["status"] == "caught" and r.get("crate_tests") == "pass")
        print("| %s | %d | %d | %d | %d | %d |" % (f.replace("src/", ""), sum(c.values()), c["nocompile"], c["caught"], cp, c["survived"]))
        tot.update(c)
        tot["cp"] += cp
    print("| **total** | %d | %d | %d | %d | %d |\n" % (sum(v for k, v in tot.items() if k != "cp"), tot["nocompile"], tot["caught"], tot["cp"], tot["survived"]))
