#!/usr/bin/env python3
"""Print the markdown table of seeded changes and which check catches them (from seeded/*/meta.json)."""
import json, os, re
ROOT = os.path.dirname(os.path.dirname(os.path.abspath(__file__)))
DESC = {
 "M-C01-1": ("AVX2 override of `movemask_will_have_non_zero` with `testnzc`", "all 32 lanes of the OR-ed unrolled block set"),
 "M-C01-2": ("extra LOOP_SIZE alignment step in `Two::find_raw` skips one vector", "len >= 4*LOOP_SIZE, unlucky start residue, first match in the skipped vector"),
 "M-C02-1": ("same `testnzc` override (reverse demo)", ">= 32 consecutive needle bytes in an aligned window"),
 "M-C02-2": ("top-level `memrchr3_raw` drops the wrong duplicate needle", "needles a,b,a and the last occurrence is b"),
 "M-C03-1": ("dropped `shift = 0` after a prefilter jump in `find_small_imp`", "needle > 32, periodic, two near-matches"),
 "M-C03-2": ("swapped arguments of `is_suffix` in `Shift::forward`", "periodic needle > 32 with crit >= 1, near-match one period before a match"),
 "M-C04-1": ("dropped `shift = nlen` after a byte-set skip in `rfind_small_imp`", "reverse-periodic needle, period shift then a foreign byte"),
 "M-C04-2": ("`shift = nlen - period` in `rfind_small_imp`", "reverse small-period needle with period > len/2"),
 "M-C05-1": ("per-candidate bounds guard hoisted in `find_in_chunk`", "haystack ends with a truncated occurrence at a page end"),
 "M-C05-2": ("`min_haystack_len` computed in saturating `u8`", "needle 225..285 bytes with a pair offset >= 224"),
 "M-C06-1": ("range collapse with the wrong cursor in `Iter::next`", "`next()` observes exhaustion, then polled again"),
 "M-C06-2": ("`Memchr2` same-needle fast path calls the forward routine in `next_back`", "two equal needles, `next_back` with >= 2 matches left"),
 "M-C07-1": ("OR-ing compare vectors before popcount in `count_raw`", "two matches exactly one vector apart in the unrolled loop"),
 "M-C07-2": ("SWAR word-at-a-time count missing `| x`", "fallback backend, a byte equal to needle ^ 0x80"),
 "M-C08-1": ("`size_hint` via `saturating_sub`", "empty needle, drained iterator"),
 "M-C08-2": ("dropped `shift = 0` after prefilter jump (iterator demo)", "long-period needle, two near-misses, prefilter still effective"),
 "M-C09-1": ("`prefilter_kind_sse2` short path with `checked_sub`", "SSE2-served build, needle > 32, stray rare byte before the match in a short slice"),
 "M-C09-2": ("`searcher_kind_sse2` calls `find_prefilter` instead of `find`", "SSE2-served build, needle 3..=32, near-miss carrying the rare pair"),
 "M-C10-1": ("period memory kept across a prefilter jump", "period > len/2, ranker putting a pair byte outside the border"),
 "M-C10-2": ("`find_simple` with `checked_sub`", "needle >= 33, rare byte late in the needle, stray copy before the match near the end"),
 "M-C11-1": ("`return None` instead of `continue` in the portable prefilter", "`index1 > 0`, stray first pair byte near the start"),
 "M-C11-2": ("`find_simple` with `checked_sub` (prefilter demo)", "slice below the vector minimum, stray rare byte before its needle offset"),
 "M-C12-1": ("dropped `shift = 0` after a byte-set skip in `find_small_imp`", "periodic needle, foreign byte after a period shift"),
 "M-C12-2": ("`shift = nlen - period` in `rfind_small_imp` (same as M-C04-2)", "reverse small-period needle with period > len/2"),
 "M-C13-1": ("`is_fast` widened to `haystack.len()/2 < needle.len()`", "needle more than half the haystack, hash collisions"),
 "M-C13-2": ("`Shift::forward` returns `Large{critical_pos}`", "needle x y^(m-1), haystack y^n, prefilter off or inert"),
 "M-C14-1": ("`.skip(2).take(255)` in `Pair::with_ranker`", "needle >= 257 bytes whose byte 256 is rarest"),
 "M-C14-2": ("`pos + last_byte_pos > haystack.len()` after the prefilter jump", "periodic needle > 32, candidate one past the last fitting position"),
 "M-C15-1": ("`compare_exchange` install; loser calls with swapped start/end", "two threads racing the first call of one routine"),
 "M-C15-2": ("slot parked on a shared forward fallback during detection", "a reverse routine raced during first-call detection"),
 "M-C16-1": ("`FindRevIter::into_owned` rebuilt from `haystack[..pos]`", "empty needle, exhausted reverse iterator, then `into_owned`"),
 "M-C16-2": ("`FindIter::into_owned` clamps `pos` to `haystack.len()`", "empty needle, drained forward iterator, then `into_owned`"),
 "M-C17-1": ("`self.clone()` instead of `self.as_ref()` in `FinderRev::rfind_iter`", "owned FinderRev, then `rfind_iter`"),
 "M-C17-2": ("Shift-Or fallback (allocates) for short haystacks in the packed searchers", "needle 2..=15, haystack length in [16, 16+max index)"),
 "M-C18-1": ("pointer-equality fast path before the length check in `is_equal`", "operands aliased at the same start with different lengths"),
 "M-C18-2": ("tail differences combined with `^=` instead of `|=` in `is_equal_raw`", "len = 3 mod 4, two tail bytes differing by the same delta"),
 "M-C19-1": ("`.skip(2).take(255)` in `Pair::with_ranker`", "needle >= 256 bytes with a rare byte at offset 255/256"),
 "M-C19-2": ("`with_indices` length guard in saturating `u8`", "needle >= 256 bytes and an offset equal to 255"),
 "M-C01-3": ("literal `32` instead of `2 * V::BYTES` in the unrolled loop of `One::find_raw`", "AVX2, first match in the third vector of an aligned 128-byte block"),
 "M-C02-3": ("same-needle fast path of top-level `memrchr2_raw` calls the forward routine", "both needles equal, haystack >= 128 bytes, >= 2 occurrences"),
 "M-C03-3": ("`pos + needle.len() >= haystack.len()` after the prefilter jump in `find_small_imp`", "periodic needle > 32, only occurrence flush with the haystack end, prefilter active"),
 "M-C04-3": ("forward periodicity test copied into `Shift::reverse`", "periodic needle whose length is not a multiple of the period, near-match at the right end"),
 "M-C05-3": ("`len < USIZE_ALIGN` instead of `USIZE_BYTES` in SWAR `Three::rfind_raw`", "fallback three-needle reverse search over exactly 7 bytes (reads 1 byte before the slice)"),
 "M-C06-3": ("`cur >= start.add(LOOP_SIZE - 1)` in `One::rfind_raw`", "`next()` consumed a match on a vector boundary, then `next_back()` with the right remaining length"),
 "M-C07-3": ("vector head with the wrong overlap mask in `One::count_raw`", "count on a window starting at a misalignment other than 0 or half a vector"),
 "M-C08-3": ("`shift = period` instead of `needle.len() - period` in `find_small_imp`", "needle > 32 with len/2 < period < len, prefilter already inert (iterator history)"),
 "M-C08-3a": ("`find_simple` with `checked_sub` (fails the crate's own quickcheck tests in ~half of the runs: extra, not a confirmed mutant)", "needle > 32, rare bytes in the last 15 bytes, short iterator remainder"),
 "M-C09-3": ("`Prefilter::sse2` caches `needle[index2]` as the rarest byte", "SSE2-served build, needle > 32, rarest byte before the second rarest, remainder shorter than 16+index2"),
 "M-C10-3": ("`.skip(2).take(255)` in `Pair::with_ranker` (reaches index 256)", "needle >= 257 bytes whose byte 256 is rarer (ranker dependent): construction panics"),
 "M-C11-3": ("portable `Finder::with_pair` swaps the cached bytes by default rank, not the offsets", "caller-chosen pair with the commoner byte at `index1`"),
 "M-C12-3": ("`period_lower_bound * 2 > needle.len()` chooses the large shift", "needle w w' with len/2 < period < len - crit; occurrence one period after a right-part match"),
 "M-C13-3": ("`Suffix::reverse` Push arm never resets the candidate", "reverse finder, needle thousands of bytes: long periodic run broken at its left end (quadratic preprocessing)"),
 "M-C14-3": ("`FindIter::size_hint` with an unchecked subtraction", "empty needle, drained forward iterator, then `size_hint()`"),
 "M-C14-3a": ("`find_simple` with an unchecked subtraction (fails the crate's own quickcheck tests in ~40% of the runs: extra, not a confirmed mutant)", "needle > 32, rare byte before its needle offset in a short window"),
 "M-C15-3": ("losers of the detection race call the 128-bit generic routine directly", "threads racing the first call with a haystack shorter than 16 bytes"),
 "M-C16-3": ("pointer-equality shortcut in Rabin-Karp `FinderRev::rfind_raw`", "needle BORROWED from the front of the searched buffer, reverse search of < 16 bytes with a later occurrence"),
 "M-C17-3": ("`repeat()` (allocates) in `Shift::forward` under `feature = \"alloc\"`", "needle > 32, critical position early, irregular head longer than the period of the tail"),
 "M-C18-3": ("`is_suffix` delegates to `starts_with` for needles > 64 bytes", "suffix needle >= 65 bytes, longer haystack whose head and tail differ"),
 "M-C19-3": ("portable `Finder::with_pair` reorders a descending pair with equal bytes", "`with_pair` with index1 > index2 holding the same byte, then `pair()`"),
 "M-C01-4": ("free function `memchr3` collapses repeated needles and drops the middle one for (x, y, x)", "needles x,y,x with y before the first x; only the free function"),
 "M-C02-4": ("`start >= end` guard removed from AVX2 `Three::rfind_raw`", "raw form called with REVERSED pointers (start > end)"),
 "M-C03-4": ("`find_large_imp` hands off to `self.find(&haystack[pos..])` once the prefilter is inert and returns the sub-slice offset", "non-periodic needle > 32, prefilter goes inert mid-search, occurrence after that"),
 "M-C04-4": ("`(max_suffix.pos, max_suffix.pos)` as (period, critical position) in `FinderRev::new`", "short-period needle whose reverse factorisation comes from the maximal suffix"),
 "M-C05-4": ("unchecked `*needle.as_ptr().add(index)` in the vector `Finder::new`", "`with_pair` given a pair selected on another, longer needle (read past the needle)"),
 "M-C06-4": ("`cur > start.add(1)` in the tail of `One::rfind_raw`", "remaining window >= 17 bytes starting at address 15 mod 16 whose first byte is the only match left"),
 "M-C07-4": ("skip-empty-block test in `count_raw` built from `eqb.or(eqd)` instead of `eqc.or(eqd)`", "an aligned 4-vector block whose only matches are in its third vector"),
 "M-C08-4": ("`FindRevIter::into_owned` rebuilt through the constructor (resets `pos`)", "reverse iterator that has already yielded, then `into_owned`, then polled"),
 "M-C09-4": ("pairs of compare vectors OR-ed before popcount in `count_raw`", "two matches exactly one vector apart inside one aligned pair (16 apart on SSE2, 32 on AVX2)"),
 "M-C10-4": ("`pos + needle.len() >= haystack.len()` after the prefilter jump in `find_small_imp`", "periodic needle > 32, occurrence ending on the last byte, prefilter effective there"),
 "M-C11-4": ("extra re-alignment step in the vector `find_prefilter` loop", "haystack pointer not vector-aligned, first occurrence in the skipped offsets"),
 "M-C12-4": ("left-part check `needle[shift] == haystack[pos+shift]` dropped in `find_small_imp`", "small-period needle with crit >= 1, window equal to `needle[1..]` after a wrong first byte"),
 "M-C13-4": ("`starts_with(needle)` memcmp per prefilter candidate in `find_large_imp`", "banked prefilter credit, then a long run of candidates sharing m-1 bytes with the needle: work hidden in memcmp (not a counted step)"),
 "M-C14-4": ("`index2 > needle.len()` in `Pair::with_indices`", "second offset exactly `needle.len()`, then any `with_pair` (index panic)"),
 "M-C15-4": ("module-level detection-depth counter shared by all seven routines; third concurrent detector panics", ">= 3 threads inside first-call detection at once"),
 "M-C16-4": ("pointer-equality shortcut `haystack.first()` == needle address in `Searcher::find`", "haystack shorter than the needle and starting at the needle's address (both windows of one buffer)"),
 "M-C17-4": ("eager `alloc::format!` when the adaptive prefilter turns inert", "needle > 32, >= 50 prefilter candidates less than 8 bytes apart within one search"),
 "M-C18-4": ("8-byte-word path for n >= 64 in `is_equal_raw` stops one word early", "operands >= 65 bytes, length not a multiple of 8, difference only in the `len % 8` bytes before the last word"),
 "M-C19-4": ("vector `Finder::new` reorders a descending pair whose offsets are >= one vector apart", "`with_pair` with index1 - index2 >= 16 (SSE2) / 32 (AVX2), then `pair()`"),
 "M-C01-5": ("AVX2 `Two::find_raw` computes `end - start` before the `start >= end` guard", "raw form with reversed pointers: overflow panic / huge length"),
 "M-C02-5": ("literal `32` instead of `2 * V::BYTES` in the unrolled loop of `One::rfind_raw`", "AVX2 reverse search, last match in vector c of a 128-byte block"),
 "M-C03-5": ("`period_lower_bound * 2 >= needle.len()` decides the large shift in `Shift::forward`", "needle > 32 that is a square `ww` (period = len/2), near-miss directly before the occurrence"),
 "M-C04-5": ("free function `memmem::rfind` returns `None` when `needle.len() >= haystack.len()`", "only the free function, haystack >= 64 bytes equal to the needle"),
 "M-C05-5": ("3-byte tail of `is_equal_raw` done with one masked 4-byte load", "compared length = 3 mod 4, operand ending exactly at an unmapped page"),
 "M-C06-5": ("top-level `Memchr3` iterator collapses repeated needles and drops the third for (x, x, y)", "needles x,x,y with y in the haystack; only the top-level iterator"),
 "M-C07-5": ("32-bit accumulator in the unrolled loop of `count_raw`", ">= 2^32 matching bytes in one count (haystack > 4 GiB)"),
 "M-C08-5": ("dropped `shift = nlen` after a byte-set skip in `rfind_small_imp` (as M-C04-1, iterator demo)", "reverse small-period needle, partial occurrence, foreign byte one period to its left"),
 "M-C09-5": ("portable `find_prefilter` keeps a relative instead of an absolute `found` after the first `continue`", "portable prefilter in use (no vector backend / forced fallback), rarest byte occurring before the first candidate"),
 "M-C10-5": ("per-candidate bounds guard hoisted out of the loop in `find_in_chunk` (as M-C05-1, ranker demo)", "needle 2..=32, pair excluding the last needle byte, haystack ending in a truncated occurrence that continues behind the slice"),
 "M-C11-5": ("`eq1.and(chunk2).cmpeq(v2)` in the vector `find_prefilter_in_chunk`", "second pair byte is 0x00: every non-matching position becomes a candidate"),
 "M-C12-5": ("`.skip(2).take(255)` in `Pair::with_ranker` (as M-C10-3)", "needle >= 257 bytes with a rarer byte at offset 256: constructors panic"),
 "M-C13-5": ("`!haystack.contains(&needle[0])` quick reject in `SearcherRev::rfind`", "complete `rfind_iter` traversal: long head without `needle[0]`, tail with very many matches (work hidden in libcore)"),
 "M-C14-5": ("`self.skipped + skipped` instead of `saturating_add` in `PrefilterState::update`", "one search accumulating >= 2^32 skipped bytes (haystack > 4 GiB)"),
 "M-C15-5": ("Rabin-Karp needle hash computed lazily behind two atomics (claim flag doubles as ready flag)", "fresh finder shared by threads whose first Rabin-Karp searches overlap"),
 "M-C16-5": ("`CowBytes::into_owned` serves 1-byte needles from a static table whose last entry is wrong", "needle exactly [0xFF], `into_owned()`, then `needle()`"),
 "M-C17-5": ("`FindIter::next` clones the needle", "a `FindIter` converted with `into_owned()`: one allocation per `next()`"),
 "M-C18-5": ("3-byte tail of `is_equal_raw` done with one masked 4-byte load (as M-C05-5)", "length = 3 mod 4, operand ending at an unmapped page (answers stay correct)"),
 "M-C19-5": ("equal rare bytes: `index2` moved to the last needle byte / 255 in `Pair::with_ranker`", "needle >= 256 bytes with equal first two bytes and nothing rarer: offsets (0, 255)"),
}
rows = []
for mid in sorted(os.listdir(os.path.join(ROOT, "seeded"))):
    p = os.path.join(ROOT, "seeded", mid, "meta.json")
    if not os.path.exists(p):
        continue
    m = json.load(open(p))
    d = DESC.get(mid, ("", ""))
    runs = m.get("check_runs", {})
    how = []
    for prop, r in sorted(runs.items()):
        if r.get("detected"):
            v = (r.get("violation_lines") or [""])[0]
            k = re.search(r"replays/%s-([a-z-]+)-[0-9a-f]+\.json" % prop, v)
            kind = k.group(1) if k else "?"
            how.append("%s: %s%s" % (prop, kind, "" if r.get("with_input") else " (no-failing-input-found)"))
        else:
            how.append("%s: NOT DETECTED" % prop)
    rows.append("| %s | %s | %s | %s |" % (mid, d[0], d[1], "; ".join(how)))
print("| id | change | needs | caught by (quick check: violation kind) |")
print("|---|---|---|---|")
print("\n".join(rows))
