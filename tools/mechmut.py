#!/usr/bin/env python3
"""mechmut.py gen                      list the mechanical mutants of /repo/src (work/mechmut/mutants.json)
   mechmut.py run [N] [WORKERS]       run a stratified sample of N of them (default 300, 8 workers)
   mechmut.py report                  summary table from work/mechmut/results.jsonl

Self-test of the checks by MECHANICAL source mutation (development aid, not a registered
check; the registered checks never depend on it).  One mutant = one token-level change on
one line of the crate (relational operator, boolean connective, +/- swap, literal +-1,
add<->sub on pointers, min<->max, first<->last offset, index1<->index2, fwd<->rev helper,
`continue`->`break`, negation dropped, a simple assignment deleted).  Test modules, hook
lines, debug assertions, logging, doc comments and the aarch64 / wasm32 files are excluded.

Each worker owns a scratch copy of /verif and a scratch git worktree of /repo under
/tmp/mw-<k> (removed at the end; /repo itself is never touched), with the copy's paths
pointing at its own worktree.  Per mutant: apply; build the executor (no build = discarded);
run the crate's own unit tests (`cargo test --lib`, classification only); run the quick
checks of the properties that depend on the mutated file, host-executed configurations only
(MEMCHR_VERIF_ONLY_CFGS), stopping at the first one that reports a violation.
"""
import json, os, random, re, shutil, subprocess, sys, time
from concurrent.futures import ThreadPoolExecutor

HERE = os.path.dirname(os.path.abspath(__file__))
ROOT = os.path.dirname(HERE)
OUT = os.path.join(ROOT, "work/mechmut")

FILE_PROPS = [
    ("src/arch/generic/memchr.rs", ["C01", "C02", "C07", "C06", "C05"]),
    ("src/arch/x86_64/memchr.rs", ["C01", "C02", "C07", "C09", "C15"]),
    ("src/arch/x86_64/sse2/memchr.rs", ["C01", "C02", "C07", "C06", "C05", "C09"]),
    ("src/arch/x86_64/avx2/memchr.rs", ["C01", "C02", "C07", "C06", "C05", "C09"]),
    ("src/arch/all/memchr.rs", ["C01", "C02", "C07", "C06", "C05"]),
    ("src/memchr.rs", ["C01", "C02", "C07", "C06", "C09"]),
    ("src/vector.rs", ["C01", "C02", "C07", "C11", "C05"]),
    ("src/arch/all/twoway.rs", ["C03", "C04", "C12", "C13", "C08"]),
    ("src/arch/all/rabinkarp.rs", ["C12", "C03", "C04", "C13", "C05"]),
    ("src/arch/all/shiftor.rs", ["C12", "C17"]),
    ("src/arch/all/mod.rs", ["C18", "C03", "C04", "C05"]),
    ("src/arch/all/packedpair/mod.rs", ["C19", "C11", "C10", "C03"]),
    ("src/arch/generic/packedpair.rs", ["C11", "C05", "C14", "C03", "C12"]),
    ("src/arch/x86_64/sse2/packedpair.rs", ["C11", "C05", "C19", "C09"]),
    ("src/arch/x86_64/avx2/packedpair.rs", ["C11", "C05", "C19", "C03"]),
    ("src/memmem/mod.rs", ["C03", "C04", "C08", "C16", "C17"]),
    ("src/memmem/searcher.rs", ["C03", "C04", "C10", "C14", "C09", "C13", "C11"]),
    ("src/cow.rs", ["C16", "C17"]),
    ("src/ext.rs", ["C01", "C02", "C05"]),
]

# second pass (MECHMUT_ARCH=1): the code that only compiles for other targets, checked through the
# emulated NEON / simd128 builds and the build without any vector module
ARCH_FILE_PROPS = [
    ("src/arch/aarch64/neon/memchr.rs", ["C01", "C02", "C07", "C06", "C05"]),
    ("src/arch/aarch64/memchr.rs", ["C01", "C02", "C07", "C09"]),
    ("src/arch/aarch64/neon/packedpair.rs", ["C11", "C19", "C03", "C05"]),
    ("src/arch/wasm32/simd128/memchr.rs", ["C01", "C02", "C07", "C06", "C05"]),
    ("src/arch/wasm32/memchr.rs", ["C01", "C02", "C07", "C09"]),
    ("src/arch/wasm32/simd128/packedpair.rs", ["C11", "C19", "C03", "C05"]),
    ("src/vector.rs", ["C01", "C02", "C07", "C11", "C05"]),
    ("src/memchr.rs", ["C01", "C02", "C07", "C06", "C09"]),
    ("src/memmem/searcher.rs", ["C03", "C04", "C10", "C09", "C11"]),
]
ARCH = bool(os.environ.get("MECHMUT_ARCH"))
if ARCH:
    FILE_PROPS = ARCH_FILE_PROPS
    OUT = os.path.join(ROOT, "work/mechmut-arch")

SWAPS = [("first_offset", "last_offset"), ("index1()", "index2()"), ("fwd_byte_by_byte", "rev_byte_by_byte"),
         (".add(", ".sub("), ("cmp::min(", "cmp::max("), (".min(", ".max("), ("saturating_sub", "wrapping_sub"),
         ("is_prefix(", "is_suffix("), ("checked_sub", "checked_add"), (".next()", ".next_back()"),
         ("memchr_raw", "memrchr_raw"), ("find_raw(", "rfind_raw(")]
RELOPS = [(" <= ", " < "), (" < ", " <= "), (" >= ", " > "), (" > ", " >= "), (" == ", " != "), (" != ", " == "),
          (" && ", " || "), (" || ", " && "), (" + ", " - "), (" - ", " + "), (" | ", " & "), (" & ", " | ")]


def code_lines(text):
    """(index, line) of mutable lines"""
    lines = text.split("\n")
    cut = len(lines)
    for i, l in enumerate(lines):
        if l.startswith("#[cfg(test)]") or l.startswith("mod tests"):
            cut = i
            break
    skip_until = -1
    depth_assert = 0
    in_block = False
    for i, l in enumerate(lines[:cut]):
        s = l.strip()
        if in_block:
            if "*/" in s:
                in_block = False
            continue
        if s.startswith("/*"):
            if "*/" not in s:
                in_block = True
            continue
        if i <= skip_until:
            continue
        if "memchr_verif" in s:
            # the attribute and the hook statement it guards (up to its closing `;`/`}`)
            j = i + 1
            while j < cut and not re.search(r"[;}]\s*$", lines[j]):
                j += 1
            skip_until = j
            continue
        if depth_assert:
            depth_assert += s.count("(") - s.count(")")
            depth_assert = max(depth_assert, 0)
            continue
        if re.match(r"(debug_assert|trace!|debug!|log::)", s) or "debug_assert" in s:
            bal = s.count("(") - s.count(")")
            if bal > 0:
                depth_assert = bal
            continue
        if not s or s.startswith("//") or s.startswith("#[") or s.startswith("#!") or s.startswith("use ") \
                or s.startswith("pub use ") or s.startswith("///") or "crate::verif" in s or s.startswith("macro_rules"):
            continue
        yield i, l


def split_comment(l):
    k = l.find("//")
    return (l, "") if k < 0 else (l[:k], l[k:])


def mutants_of_line(l):
    code, com = split_comment(l)
    out = []
    if '"' in code:          # messages
        code_m = re.sub(r'"[^"]*"', lambda m: "\x00" * len(m.group(0)), code)
    else:
        code_m = code
    def emit(kind, a, b, pos):
        new = code[:pos] + b + code[pos + len(a):]
        if new != code:
            out.append((kind, new + com))
    for a, b in RELOPS:
        for m in re.finditer(re.escape(a), code_m):
            emit("op" + a.strip() + "->" + b.strip(), a, b, m.start())
    for a, b in SWAPS:
        for x, y in ((a, b), (b, a)):
            for m in re.finditer(re.escape(x), code_m):
                emit("swap " + x + "->" + y, x, y, m.start())
    for m in re.finditer(r"(?<![\w.x])(\d+)(?![\w.])", code_m):
        n = int(m.group(1))
        if re.search(r"\[\s*$", code_m[:m.start()]) and re.match(r"\s*\]", code_m[m.end():]):
            pass
        for v in ([n + 1] + ([n - 1] if n > 0 else [])):
            emit("lit %d->%d" % (n, v), m.group(1), str(v), m.start())
    s = code.strip()
    if s == "continue;":
        out.append(("continue->break", code.replace("continue;", "break;") + com))
    m = re.search(r"\bif !", code_m)
    if m:
        emit("drop-not", "if !", "if ", m.start())
    m = re.search(r"\bwhile !", code_m)
    if m:
        emit("drop-not", "while !", "while ", m.start())
    if re.match(r"^\s*[a-z_][\w.]*(\[[^\]]*\])? [-+|&]?= [^;{}]*;$", code.rstrip()) and not s.startswith("let "):
        out.append(("delete-assign", re.sub(r"\S.*$", ";", code.rstrip(), count=1) + com))
    return out


def gen():
    res = []
    for rel, props in FILE_PROPS:
        p = os.path.join("/repo", rel)
        text = open(p).read()
        arch_lines = None
        if ARCH and rel in ("src/vector.rs", "src/memchr.rs", "src/memmem/searcher.rs"):
            # lines inside items guarded by a non-x86_64 cfg (aarch64 / wasm32 / not(any(..)))
            arch_lines = set()
            lines = text.split("\n")
            i = 0
            while i < len(lines):
                t = lines[i].strip()
                if t.startswith("#[cfg(") and ("aarch64" in t or "wasm32" in t or t.startswith("#[cfg(not(any(")):
                    # the guarded item: up to the matching close of the first `{` that follows
                    j = i
                    while j < len(lines) and "{" not in lines[j]:
                        j += 1
                    depth, k = 0, j
                    while k < len(lines):
                        depth += lines[k].count("{") - lines[k].count("}")
                        if depth <= 0 and k >= j:
                            break
                        k += 1
                    arch_lines.update(range(i, k + 1))
                    i = k + 1
                else:
                    i += 1
        for i, l in code_lines(text):
            if arch_lines is not None and i not in arch_lines:
                continue
            for kind, new in mutants_of_line(l):
                res.append(dict(file=rel, line=i + 1, kind=kind, old=l, new=new, props=props))
    for k, m in enumerate(res):
        m["id"] = "X%05d" % k
    os.makedirs(OUT, exist_ok=True)
    json.dump(res, open(os.path.join(OUT, "mutants.json"), "w"), indent=0)
    by = {}
    for m in res:
        by[m["file"]] = by.get(m["file"], 0) + 1
    print(len(res), "mutants")
    for f, c in sorted(by.items()):
        print("  %-40s %d" % (f, c))
    return res


def sh(cmd, cwd=None, env=None, timeout=1800):
    """run in its own process group; on timeout the WHOLE group is killed (a mutant that makes
    a test binary loop forever would otherwise leave it running after cargo is gone)"""
    import signal
    p = subprocess.Popen(cmd, cwd=cwd, env=env, shell=isinstance(cmd, str), stdout=subprocess.PIPE,
                         stderr=subprocess.STDOUT, text=True, start_new_session=True)
    try:
        out, _ = p.communicate(timeout=timeout)
        return p.returncode, out
    except subprocess.TimeoutExpired:
        try:
            os.killpg(p.pid, signal.SIGKILL)
        except OSError:
            pass
        out, _ = p.communicate()
        return 124, out or ""


def setup_worker(k):
    d = "/tmp/mw-%d" % k
    sh("git -C /repo worktree remove --force %s/repo" % d)
    shutil.rmtree(d, ignore_errors=True)
    os.makedirs(d)
    rc, out = sh("git -C /repo worktree add --detach %s/repo HEAD" % d)
    assert rc == 0, out
    rc, out = sh(["rsync", "-a", "--exclude", ".git", "--exclude", "replays", "--exclude", "seeded", "--exclude", "work",
                  "--exclude", "evidence", ROOT + "/", d + "/verif/"])
    assert rc == 0, out
    os.makedirs(d + "/verif/work", exist_ok=True)
    os.makedirs(d + "/verif/evidence", exist_ok=True)
    for f, a, b in (("tools/vlib.py", 'REPO = "/repo"', 'REPO = "%s/repo"' % d),
                    ("harness/Cargo.toml", 'path = "/repo"', 'path = "%s/repo"' % d)):
        p = os.path.join(d, "verif", f)
        s = open(p).read()
        assert a in s
        open(p, "w").write(s.replace(a, b))
    return d


def run_one(d, m, env):
    repo = d + "/repo"
    sh("git checkout -- .", cwd=repo)
    p = os.path.join(repo, m["file"])
    lines = open(p).read().split("\n")
    assert lines[m["line"] - 1] == m["old"], (m["id"], "source moved")
    lines[m["line"] - 1] = m["new"]
    open(p, "w").write("\n".join(lines))
    res = dict(id=m["id"], file=m["file"], line=m["line"], kind=m["kind"], old=m["old"].strip(), new=m["new"].strip())
    t0 = time.time()
    rc, out = sh(["cargo", "build", "--release", "--offline"], cwd=d + "/verif/harness", env=env)
    if rc != 0:
        res["status"] = "nocompile"
        return res
    rc, out = sh(["cargo", "test", "--offline", "--lib"], cwd=repo, env=env, timeout=600)
    res["crate_tests"] = "pass" if rc == 0 else ("timeout" if rc == 124 else "fail")
    res["status"] = "survived"
    res["checks"] = {}
    for prop in m["props"]:
        rc, out = sh([d + "/verif/check", prop, "quick"], cwd=d + "/verif", env=env, timeout=900)
        viol = [l for l in out.splitlines() if l.startswith("VIOLATION")]
        if "failed to build" in out and ARCH:
            # the mutant does not compile for the emulated target
            res["status"] = "nocompile"
            break
        res["checks"][prop] = dict(rc=rc, violation=viol[:1])
        if rc == 124:
            res["checks"][prop]["timeout"] = True
        if rc != 0:
            res["status"] = "caught"
            res["caught_by"] = prop
            res["with_input"] = bool(viol) and "no-failing-input-found" not in viol[0]
            if not viol:
                res["tail"] = out[-400:]
            break
    res["wall"] = round(time.time() - t0, 1)
    sh("git checkout -- .", cwd=repo)
    return res


def run(n, workers):
    path = os.path.join(OUT, "mutants.json")
    allm = json.load(open(path)) if os.path.exists(path) else gen()
    done = set()
    rp = os.path.join(OUT, "results.jsonl")
    if os.path.exists(rp):
        for l in open(rp):
            done.add(json.loads(l)["id"])
    rng = random.Random(int(os.environ.get("MECHMUT_SEED", "1")))
    # stratified by file, then by kind
    by = {}
    for m in allm:
        if m["id"] not in done:
            by.setdefault(m["file"], []).append(m)
    pick = []
    per = max(1, n // max(1, len(by)))
    for f, ms in by.items():
        rng.shuffle(ms)
        pick += ms[:per]
    rng.shuffle(pick)
    pick = pick[:n]
    print("running %d mutants on %d workers" % (len(pick), workers), flush=True)
    env = dict(os.environ, CARGO_NET_OFFLINE="true",
               MEMCHR_VERIF_ONLY_CFGS="neon,simd128,other" if ARCH else "host,noavx2,nosse2,notrace")
    dirs = [setup_worker(k) for k in range(workers)]
    import queue, threading
    q = queue.Queue()
    for m in pick:
        q.put(m)
    lock = threading.Lock()

    def work(d):
        while True:
            try:
                m = q.get_nowait()
            except queue.Empty:
                return
            try:
                r = run_one(d, m, env)
            except Exception as e:   # noqa
                r = dict(id=m["id"], status="error", error=repr(e)[:300])
            with lock:
                with open(rp, "a") as f:
                    f.write(json.dumps(r) + "\n")
                print(r["id"], r.get("file"), r.get("line"), r.get("kind"), r["status"], r.get("caught_by", ""),
                      r.get("crate_tests", ""), r.get("wall", ""), flush=True)
    try:
        with ThreadPoolExecutor(workers) as ex:
            list(ex.map(work, dirs))
    finally:
        for d in dirs:
            sh("git -C /repo worktree remove --force %s/repo" % d)
            shutil.rmtree(d, ignore_errors=True)
        sh("git -C /repo worktree prune")
    report()


def report():
    rp = os.path.join(OUT, "results.jsonl")
    rs = [json.loads(l) for l in open(rp)]
    tot = {}
    for r in rs:
        k = (r.get("file", "?"), r["status"] + ("/tests-" + r["crate_tests"] if r["status"] == "survived" else ""))
        tot[k] = tot.get(k, 0) + 1
    files = sorted(set(k[0] for k in tot))
    cols = sorted(set(k[1] for k in tot))
    print("%-40s " % "file" + " ".join("%22s" % c for c in cols))
    for f in files:
        print("%-40s " % f + " ".join("%22d" % tot.get((f, c), 0) for c in cols))
    c = sum(1 for r in rs if r["status"] == "caught")
    s = sum(1 for r in rs if r["status"] == "survived")
    st = sum(1 for r in rs if r["status"] == "survived" and r.get("crate_tests") == "fail")
    print("caught %d, survived %d (of which killed by the crate's own tests: %d), not compiling %d" % (
        c, s, st, sum(1 for r in rs if r["status"] == "nocompile")))
    for r in rs:
        if r["status"] == "survived":
            print("SURVIVED %s %s:%d [%s] tests=%s\n     - %s\n     + %s" % (r["id"], r["file"], r["line"], r["kind"],
                                                                            r.get("crate_tests"), r["old"], r["new"]))


if __name__ == "__main__":
    cmd = sys.argv[1] if len(sys.argv) > 1 else "gen"
    if cmd == "gen":
        gen()
    elif cmd == "run":
        run(int(sys.argv[2]) if len(sys.argv) > 2 else 300, int(sys.argv[3]) if len(sys.argv) > 3 else 8)
    else:
        report()
