#!/usr/bin/env python3
"""coverage.py [props...]   (development aid, not a registered check)

Which regions of /repo/src do the QUICK op streams of the checks actually execute?  Builds the
executor with `-C instrument-coverage` (nightly toolchain, its llvm-tools) in a scratch copy
under /tmp, pipes the quick streams of the given properties (default: all) through it in the
host / forced-SSE2 / forced-fallback configurations, merges the profiles and prints, per source
file, the functions and lines of the crate (test modules, the hook file and the aarch64 / wasm32
modules excluded) that were never executed.  Result also in work/coverage.json.  The scratch
copy is removed afterwards.
"""
import json, os, re, shutil, subprocess, sys, glob

HERE = os.path.dirname(os.path.abspath(__file__))
ROOT = os.path.dirname(HERE)
sys.path.insert(0, HERE)
import gens  # noqa: E402

NIGHTLY_BIN = os.path.expanduser("~/.rustup/toolchains/nightly-x86_64-unknown-linux-gnu/lib/rustlib/x86_64-unknown-linux-gnu/bin")
ENVS = {"host": {}, "noavx2": {"MEMCHR_VERIF_FORCE": "noavx2"}, "nosse2": {"MEMCHR_VERIF_FORCE": "nosse2"},
        "notrace": {"VERIF_NOTRACE": "1"}}


def main():
    props = sys.argv[1:] or ["C%02d" % i for i in range(1, 20)]
    scratch = "/tmp/memchr-verif-cov-%d" % os.getpid()
    shutil.rmtree(scratch, ignore_errors=True)
    shutil.copytree(os.path.join(ROOT, "harness"), scratch, ignore=shutil.ignore_patterns("target"))
    cfg = os.path.join(scratch, ".cargo/config.toml")
    s = open(cfg).read().replace('rustflags = ["--cfg", "memchr_verif"]',
                                 'rustflags = ["--cfg", "memchr_verif", "-C", "instrument-coverage", "-Zcoverage-options=branch"]')
    open(cfg, "w").write(s)
    try:
        env = dict(os.environ, CARGO_NET_OFFLINE="true")
        subprocess.check_call(["cargo", "+nightly", "build", "--release", "--offline"], cwd=scratch, env=env,
                              stdout=subprocess.DEVNULL, stderr=subprocess.DEVNULL)
        exe = os.path.join(scratch, "target/release/memchr-verif-exec")
        n = 0
        for p in props:
            groups = {}
            for op, meta in gens.generate(p, "quick", 1):
                c = meta.get("cfg", "host")
                if c in ENVS and not meta.get("modelonly"):
                    groups.setdefault(c, []).append(op)
            for c, lines in groups.items():
                n += 1
                e = dict(os.environ, LLVM_PROFILE_FILE=os.path.join(scratch, "prof-%d-%%p.profraw" % n), **ENVS[c])
                # shards: a crashing op must not lose the whole profile
                for k in range(0, len(lines), 50000):
                    subprocess.run([exe], input=("\n".join(lines[k:k + 50000]) + "\n").encode(), env=e,
                                   stdout=subprocess.DEVNULL, stderr=subprocess.DEVNULL)
            print(p, {c: len(v) for c, v in groups.items()}, flush=True)
        raws = glob.glob(os.path.join(scratch, "*.profraw"))
        prof = os.path.join(scratch, "all.profdata")
        subprocess.check_call([os.path.join(NIGHTLY_BIN, "llvm-profdata"), "merge", "-sparse", "-o", prof] + raws)
        out = subprocess.run([os.path.join(NIGHTLY_BIN, "llvm-cov"), "export", "-format=lcov", "-instr-profile", prof, exe,
                              "-ignore-filename-regex", r"(\.cargo|rustc|harness|/verif/|memchr-verif-cov)"],
                             stdout=subprocess.PIPE, check=True).stdout.decode()
    finally:
        shutil.rmtree(scratch, ignore_errors=True)
    # lcov: SF:<file> / FN:<line>,<name> / FNDA:<count>,<name> / DA:<line>,<count>
    files, cur = {}, None
    for line in out.splitlines():
        if line.startswith("SF:"):
            cur = files.setdefault(line[3:], dict(fn={}, fnline={}, da={}, br={}))
        elif line.startswith("FN:") and cur is not None:
            ln, name = line[3:].split(",", 1)
            cur["fnline"][name] = int(ln.split(",")[0])
        elif line.startswith("FNDA:") and cur is not None:
            cnt, name = line[5:].split(",", 1)
            cur["fn"][name] = cur["fn"].get(name, 0) + int(cnt)
        elif line.startswith("BRDA:") and cur is not None:
            ln, blk, br, taken = line[5:].split(",")[:4]
            k = (int(ln), blk, br)
            cur["br"][k] = cur["br"].get(k, 0) + (0 if taken == "-" else int(taken))
        elif line.startswith("DA:") and cur is not None:
            ln, cnt = line[3:].split(",")[:2]
            cur["da"][int(ln)] = cur["da"].get(int(ln), 0) + int(cnt)
    report = {}
    for f in sorted(files):
        rel = f.split("/repo/", 1)[-1] if "/repo/" in f else f
        if not rel.startswith("src/") or "/tests/" in rel or rel.startswith("src/tests") or rel.endswith("verif.rs"):
            continue
        if "aarch64" in rel or "wasm32" in rel:
            continue
        try:
            src = open(os.path.join("/repo", rel)).read().splitlines()
        except OSError:
            continue
        cut = next((i for i, l in enumerate(src) if l.startswith("#[cfg(test)]") or l.startswith("mod tests")), len(src))
        da = {ln: c for ln, c in files[f]["da"].items() if ln <= cut}
        missed = sorted(ln for ln, c in da.items() if c == 0)
        br = {k: c for k, c in files[f]["br"].items() if k[0] <= cut}
        br_missed = sorted(set(k[0] for k, c in br.items() if c == 0) - set(missed))
        report[rel] = dict(lines=len(da), missed=len(missed), missed_lines=missed, branches=len(br),
                           branch_sides_never_taken=sum(1 for c in br.values() if c == 0), lines_with_untaken_branch=br_missed)
        print("%-44s %5d lines, %4d never executed; %4d branch sides, %3d never taken" % (
            rel, len(da), len(missed), len(br), sum(1 for c in br.values() if c == 0)))
        for ln in br_missed:
            sides = sorted((k[1], k[2], c) for k, c in br.items() if k[0] == ln)
            print("    branch %d: %s   sides taken: %s" % (ln, src[ln - 1].strip()[:90], [c for _, _, c in sides]))
        # contiguous runs with their source text
        run = []
        for ln in missed + [None]:
            if run and (ln is None or ln != run[-1] + 1):
                a, b = run[0], run[-1]
                print("    %d-%d: %s" % (a, b, src[a - 1].strip()[:100]))
                run = []
            if ln is not None:
                run.append(ln)
    os.makedirs(os.path.join(ROOT, "work"), exist_ok=True)
    json.dump(report, open(os.path.join(ROOT, "work/coverage.json"), "w"), indent=1)


if __name__ == "__main__":
    main()
