#!/usr/bin/env python3
"""Regenerate MANIFEST.json from the table below (kept in one place so that it stays valid)."""
import json, os, subprocess

ROOT = os.path.dirname(os.path.dirname(os.path.abspath(__file__)))

# property -> (technique, level text, level note, design ref); absent => not yet claimed
CLAIMED = {}
PENDING_REASON = "check under construction in this build round (model/theorems exist or are being written); will be claimed when its quick check is green"

def claim(pid, technique, text, note, ref):
    CLAIMED[pid] = dict(technique=technique, text=text, note=note, ref=ref)

COMMON_NOTE = ("Trusted: Lean 4.33 kernel with axioms propext/Classical.choice/Quot.sound only (audited from #print axioms on "
               "every run; no sorry/native_decide/bv_decide); the hand-written model is tied to /repo by constants regenerated "
               "from source on every run (tools/extract.py) and by the behavioural correspondence run on every check "
               "(Lean driver vs real code on the same op lines: values, and for C05/C13 load traces and step counters). "
               "Modelled, not verified: intrinsic lane semantics, u32/u64 bit-count intrinsics, rustc monomorphisation. ")

claim("C01", "Lean 4 proof (induction over head chunk / unrolled loop / vector loop / overlapping tail) + differential correspondence",
      "Machine-checked theorem: the model of the generic vector find_raw (One/Two/Three, any lawful vector type, any unroll factor) returns exactly the first matching address for every memory region, alignment and window; SensibleMoveMask instances (SSE2/AVX2/simd128/small lanes) proved lawful. Tied to the code by running the real generic code on checked small-lane vectors against the model on every run.",
      COMMON_NOTE + "Proved so far: generic routine + Sensible instances; wrappers/dispatch/SWAR/NEON are added as their theorems land (see DESIGN.md status table).",
      "DESIGN.md 7 C01")
claim("C02", "Lean 4 proof (mirror induction for rfind_raw) + differential correspondence",
      "Machine-checked theorem: the model of the generic vector rfind_raw returns exactly the last matching address for every region/alignment/window; correspondence against the real generic code on checked small-lane vectors.",
      COMMON_NOTE + "Same coverage status as C01.", "DESIGN.md 7 C02")
claim("C07", "Lean 4 proof (count invariant over scalar head / unrolled popcount loop / vector loop / scalar tail) + differential correspondence",
      "Machine-checked theorem: the model of the generic vector count_raw equals countP over the window for every region/alignment/window (count_ones law proved per mask type).",
      COMMON_NOTE + "Iterator-level count (current window) is added with the iterator model.", "DESIGN.md 7 C07")

claim("C18", "Lean 4 proof (loop invariant over the 4-byte steps, then the 2- and 1-byte remainder) + differential correspondence with guard pages",
      "Machine-checked theorems: is_equal_raw on any two readable ranges returns exactly byte-wise equality with every load in range; is_equal / is_prefix / is_suffix equal slice ==, starts_with, ends_with for all valid slices (all lengths, all placements). Correspondence: real functions on operands placed at every offset incl. flush against PROT_NONE guard pages, compared with the model (value) and with the slice oracle.",
      COMMON_NOTE + "A multi-byte load is modelled as the list of bytes it reads (word equality = byte-list equality on any endianness).",
      "DESIGN.md 7 C18")

claim("C19", "Lean 4 proof (loop invariant of the rarest-two scan, for an arbitrary ranker function) + differential correspondence",
      "Machine-checked theorems: for EVERY needle and EVERY ranker u8->u8, Pair::with_ranker returns normally, None iff the needle has < 2 bytes, otherwise distinct in-range offsets <= 254 (the unwrap()s and the assert_ne! are proved unreachable; the 255-byte window is re-checked against the constant regenerated from source); with_indices accepts exactly distinct in-range pairs; finders report the pair they were given.",
      COMMON_NOTE + "Ranker modelled as a total pure function (a user ranker that panics or is impure is outside the model).",
      "DESIGN.md 7 C19")

ALL = ["C%02d" % i for i in range(1, 20)]

def main():
    hooks = subprocess.run(["git", "-C", "/repo", "log", "--format=%H %s"], capture_output=True, text=True).stdout.splitlines()
    hook_commits = [l.split(" ", 1)[0] for l in hooks if " verif hook" in l]
    man = {
        "version": 1,
        "setup_cmd": "./check --setup",
        "hooks": {
            "guard": "memchr_verif",
            "enable": "RUSTFLAGS=\"--cfg memchr_verif\" (set in /verif/harness/.cargo/config.toml); the harness crate path-depends on /repo",
            "baseline_off_cmd": "cd /repo && cargo test --workspace --no-fail-fast --offline",
            "source_commits": hook_commits,
            "add_only": True,
        },
        "engines": [
            {"name": "lean-model", "path": "lean/", "serves_properties": sorted(CLAIMED), "kind_free_text": "Lean 4 model + theorems (lake project, core-only model files, compiled line-protocol driver)"},
            {"name": "executor", "path": "harness/", "serves_properties": sorted(CLAIMED), "kind_free_text": "Rust executor running the real code in-process on the same op lines (guard pages, load-trace hooks, counters, allocation probe)"},
            {"name": "extractor", "path": "tools/extract.py", "serves_properties": sorted(CLAIMED), "kind_free_text": "regenerates the constants and structural facts the theorems mention from /repo source on every run"},
        ],
        "checks": [],
        "notes": "See DESIGN.md. ./check <id> quick|thorough; VERIF_SEED seeds every random choice; evidence/<id>.json is rewritten by every run.",
        "not_applicable": [],
    }
    for pid in ALL:
        if pid in CLAIMED:
            c = CLAIMED[pid]
            man["checks"].append({
                "property_id": pid,
                "quick_cmd": "./check %s quick" % pid,
                "thorough_cmd": "./check %s thorough" % pid,
                "evidence_file": "/verif/evidence/%s.json" % pid,
                "replay_cmd_template": "./check %s --replay {path}" % pid,
                "engine": "lean-model",
                "level_claimed": {"category": "proof", "text": c["text"], "design_ref": c["ref"]},
                "level_note": c["note"],
                "technique": c["technique"],
            })
        else:
            man["not_applicable"].append({"property_id": pid, "reason": PENDING_REASON})
    with open(os.path.join(ROOT, "MANIFEST.json"), "w") as f:
        json.dump(man, f, indent=1)
    print("claimed:", sorted(CLAIMED))

if __name__ == "__main__":
    main()
