#!/usr/bin/env python3
"""Regenerate MANIFEST.json from the table below (kept in one place so that it stays valid)."""
import json, os, subprocess

ROOT = os.path.dirname(os.path.dirname(os.path.abspath(__file__)))

# property -> (technique, level text, level note, design ref); absent => not yet claimed
CLAIMED = {}
PENDING_REASON = "check under construction in this build round (model/theorems exist or are being written); will be claimed when its quick check is green"

def claim(pid, technique, text, note, ref):
    CLAIMED[pid] = dict(technique=technique, text=text, note=note, ref=ref)

COMMON_NOTE = ("Trusted: Lean 4.33 kernel with axioms propext/Classical.choice/Quot.sound only (audited from #print axioms on "
               "every run; no sorry/native_decide/bv_decide); the hand-written model is tied to /repo by constants regenerated "
               "from source on every run (tools/extract.py) and by the behavioural correspondence run on every check "
               "(Lean driver vs real code on the same op lines: values, and for C05/C13 load traces and step counters). "
               "Modelled, not verified: intrinsic lane semantics, u32/u64 bit-count intrinsics, rustc monomorphisation. ")

claim("C01", "Lean 4 proof (induction over head chunk / unrolled loop / vector loop / overlapping tail) + differential correspondence",
      "Machine-checked theorem: the model of the generic vector find_raw (One/Two/Three, any lawful vector type, any unroll factor) returns exactly the first matching address for every memory region, alignment and window; SensibleMoveMask instances (SSE2/AVX2/simd128/small lanes) proved lawful. Tied to the code by running the real generic code on checked small-lane vectors against the model on every run.",
      COMMON_NOTE + "Proved: generic routine for every lawful vector type; Sensible (SSE2/AVX2/simd128/small) and NEON masks lawful; per-ISA wrappers incl. short-length routing; SWAR for all start/end; dispatch `select`; slice forms.",
      "DESIGN.md 7 C01")
claim("C02", "Lean 4 proof (mirror induction for rfind_raw) + differential correspondence",
      "Machine-checked theorem: the model of the generic vector rfind_raw returns exactly the last matching address for every region/alignment/window; correspondence against the real generic code on checked small-lane vectors.",
      COMMON_NOTE + "Same coverage status as C01.", "DESIGN.md 7 C02")
claim("C07", "Lean 4 proof (count invariant over scalar head / unrolled popcount loop / vector loop / scalar tail) + differential correspondence",
      "Machine-checked theorem: the model of the generic vector count_raw equals countP over the window for every region/alignment/window (count_ones law proved per mask type).",
      COMMON_NOTE + "Iterator-level count (current window) is added with the iterator model.", "DESIGN.md 7 C07")

claim("C18", "Lean 4 proof (loop invariant over the 4-byte steps, then the 2- and 1-byte remainder) + differential correspondence with guard pages",
      "Machine-checked theorems: is_equal_raw on any two readable ranges returns exactly byte-wise equality with every load in range; is_equal / is_prefix / is_suffix equal slice ==, starts_with, ends_with for all valid slices (all lengths, all placements). Correspondence: real functions on operands placed at every offset incl. flush against PROT_NONE guard pages, compared with the model (value) and with the slice oracle.",
      COMMON_NOTE + "A multi-byte load is modelled as the list of bytes it reads (word equality = byte-list equality on any endianness).",
      "DESIGN.md 7 C18")

claim("C19", "Lean 4 proof (loop invariant of the rarest-two scan, for an arbitrary ranker, pure or with interior state) + differential correspondence",
      "Machine-checked theorems: for EVERY needle and EVERY ranker u8->u8, Pair::with_ranker returns normally, None iff the needle has < 2 bytes, otherwise distinct in-range offsets <= 254 (the unwrap()s and the assert_ne! are proved unreachable; the 255-byte window is re-checked against the constant regenerated from source); with_indices accepts exactly distinct in-range pairs; finders report the pair they were given. with_ranker_impure: the same for rankers with interior state, modelled as an arbitrary state machine threaded through the rank calls in evaluation order.",
      COMMON_NOTE + "A user ranker that panics is outside the model.",
      "DESIGN.md 7 C19")

REST = {
 "C03": ("Lean 4 proof (per-strategy case analysis of the meta searcher; Two-Way by loop invariants + critical-factorisation certificate proved for every needle; Rabin-Karp rolling-hash invariant; packed pair) + differential correspondence on 5 configurations",
         "Machine-checked theorem C03.find_all: for every configuration, prefilter setting, ranker, needle, haystack and EVERY PrefilterState the model of Searcher::new + Searcher::find returns exactly the leftmost occurrence (None iff none); one-shot memmem::find likewise; empty needle -> Some(0). Unconditional: the Two-Way certificate (maximal suffix, critical factorisation, period) is proved for all needles (Proofs/TwoWayCert*.lean)."),
 "C04": ("Lean 4 proof (reverse Two-Way by reversal bridge to the forward certificate; reverse Rabin-Karp; memrchr) + differential correspondence",
         "Machine-checked theorem C04.rfind_all / oneshot_all: the model of FinderRev / memmem::rfind returns exactly the rightmost occurrence for every needle and haystack; empty needle -> Some(len)."),
 "C05": ("Lean 4 proof (every load goes through bounds/alignment-checked model loads; master theorems conclude `= ok`, out-of-domain theorems for foreign needles) + load-trace equality with the real generic code on checked small-lane vectors / emulated NEON+simd128, hooked raw reads, guard pages",
         "Machine-checked theorems: no routine of the model ever performs an out-of-bounds or misaligned load, in its documented domain (corollary of `= ok`) and outside it (Rabin-Karp with a foreign finder, packed pair with a foreign needle). Tie to the code: the load trace of the real generic code (Small<N> checked vectors, emulated NEON/simd128 intrinsics incl. simd128's aligned dereference, hooked raw reads in is_equal/Rabin-Karp/SWAR) equals the model's trace on every run, real SSE2/AVX2 code runs against PROT_NONE guard pages (operands ending at a page end, finders built from foreign pairs and then used), and a per-op watchdog turns a non-terminating change into a reported hang."),
 "C06": ("Lean 4 proof (refinement of the raw-pointer iterator to an abstract deque of match positions, by induction over arbitrary next/next_back/size_hint/count sequences) + differential correspondence",
         "Machine-checked theorem C06.refines_cfg/backend: for every haystack, needle set, backend and every finite operation sequence the iterator's outputs equal those of the abstract iterator (front ascending, back descending, each match exactly once, None forever once empty) and size_hint brackets the remaining count."),
 "C08": ("Lean 4 proof (greedy non-overlapping sequence by induction on the position; size_hint bracket; empty needle) + differential correspondence",
         "Machine-checked theorems C08.find_iter_all / rfind_iter_all / size_hint: the next() results of find_iter are exactly Spec.greedyFwd then None forever (rfind_iter: greedyRev), for every needle/haystack/configuration, with the prefilter state threaded through; size_hint brackets the matches still to come in every reachable state; empty needle yields 0..=len once."),
 "C09": ("Lean 4 proof (every configuration's routine equals the same specification; `select` mirrors the cfg chain and is_available) + the same case stream through host AVX2, forced SSE2, forced fallback, emulated NEON, emulated simd128, a build with no vector module at all, alloc-only, no-alloc and +avx2 builds",
         "Machine-checked theorems C09.agree*: for all pairs of configurations every byte-search and substring routine returns the same value. Correspondence: real code in 9 configurations (host AVX2, forced SSE2, forced fallback, emulated NEON, emulated simd128, no-vector-module target, and - sampled in quick, in full in thorough - the alloc-only, no-alloc and +avx2 builds) against the model instance of each."),
 "C10": ("Lean 4 proof (corollary of C03 being universally quantified over prefilter config, ranker and PrefilterState) + differential correspondence over 7 ranker families x 2 prefilter settings x prefilter states",
         "Machine-checked theorems C10.find_indep_all / builder_indep_all: results do not depend on the prefilter configuration, the ranker (any function u8->u8) or the adaptive prefilter state; is_effective never faults (after fix F1)."),
 "C11": ("Lean 4 proof (chunk-wise lane invariant for the vector prefilter incl. re-aligned final chunk; portable prefilter loop invariant; find_simple) + differential correspondence",
         "Machine-checked theorems: every packed-pair prefilter (generic vector for all lawful V incl. SSE2/AVX2/NEON/simd128, portable, and the meta searcher's short-haystack path) returns a candidate <= the first occurrence, None only if no occurrence, and a candidate carries the pair bytes."),
 "C12": ("Lean 4 proof per building block (Two-Way fwd/rev incl. certificate for every needle, Rabin-Karp fwd/rev, Shift-Or bit-parallel invariant, packed-pair find) + exhaustive small-alphabet differential correspondence",
         "Machine-checked theorems: each public building block equals naive leftmost/rightmost search on its documented domain; constructors report unsupported inputs by None."),
 "C13": ("Lean 4 proof of step-count bounds with explicit constants (counter in the model monad ticks where hook H2 ticks; potential-function argument for Two-Way with a prefilter) + step-counter equality with the real code, adversarial families at growing sizes, hook-level work limit; wall-clock guard (a test) for work outside the counted steps",
         "Machine-checked theorem Props.C13.linear_work: there are explicit constants (A = 2079, B = 5305) such that for every configuration, prefilter setting, ranker, needle and haystack, building a finder and running find / rfind / one-shot find / rfind / a complete find_iter / rfind_iter traversal takes at most A*(haystack+needle) + B*(matches+1) steps; component bounds (is_equal n/4+2, Rabin-Karp, packed pair, dispatched memchr scanned+2, prefilters 4*consumed+1020, Two-Way with ANY prefilter state 1031*scanned+2*needle+1022 incl. the small-period case, proved unconditionally via a gap lemma). Constant obligations (MAX_LEN<=64, thresholds) are re-checked against the source on every run. Correspondence: model step counter == real counter on every op; work limit 64*(n+m)+2e6 enforced inside the real code by the hook. Work done inside library routines the crate calls (memcmp behind starts_with etc.) is not a counted step and lies outside the theorem: it is only guarded by a wall-clock bound of 600 ns*(n+m)+0.2 s on megabyte adversarial inputs (test, not proof)."),
 "C14": ("Lean 4 proof (`= ok` excludes every fault kind; documented panic iff haystack < min_haystack_len; prefilter state machine total) + debug-assertion/overflow-check build of the real code",
         "Machine-checked theorems: no routine faults in its documented domain (all debug_assert!s and checked arithmetic sites of the model are discharged); the packed-pair finders panic exactly when haystack.len() < min_haystack_len; PrefilterState::is_effective is total. Two genuine defects found and fixed (F1, F2 in known_findings.json)."),
 "C15": ("Lean 4 proof over an abstract model of the ifunc cell (any schedule, relaxed loads return any value ever stored) + fresh-process barrier-released multi-threaded runs on three detection outcomes",
         "Machine-checked theorem C15.any_schedule: every call returns what it returns in isolation, for every number of threads, schedule and load choice; C15.shared_finder / shared_finder_rev: one Finder / FinderRev shared by any number of threads, in every global order of find calls each thread observes what it observes alone (corollary of the C16 refinement). PARTIAL BY NATURE: tearing, the hardware memory model and data races in unsafe Send/Sync impls cannot be expressed in the model (trusted); the extractor checks that the only atomic/interior-mutable state in the crate is the ifunc AtomicPtr."),
 "C16": ("Lean 4 proof (finder op machine: outputs are a function of needle bytes and ops only; as_ref/clone/into_owned invisible to every continuation) + differential correspondence with the needle buffer overwritten after into_owned and with needle and haystack as overlapping windows of one buffer",
         "Machine-checked theorems C16.finder_run_all etc.: every find in any op sequence returns leftmost(haystack, needle) regardless of history; copies behave identically; needle() returns the construction bytes."),
 "C17": ("Lean 4 proof of the ownership/allocation bookkeeping + counting global allocator armed around every real call with the hook recorder off",
         "Machine-checked theorems: only into_owned of a borrowed needle and clone of an owned one allocate (exact count), search/construction cannot (they have no heap access in the model). PARTIAL BY NATURE: an allocation hidden inside a real search routine is invisible to the model; the counting-allocator correspondence observes it on every C01-C08 op family."),
}
for pid, (tech, text) in REST.items():
    claim(pid, tech, text, COMMON_NOTE + "See DESIGN.md for what is modelled rather than verified.", "DESIGN.md 7 " + pid)

ALL = ["C%02d" % i for i in range(1, 20)]

def main():
    hooks = subprocess.run(["git", "-C", "/repo", "log", "--format=%H %s"], capture_output=True, text=True).stdout.splitlines()
    hook_commits = [l.split(" ", 1)[0] for l in hooks if " verif hook" in l]
    man = {
        "version": 1,
        "setup_cmd": "./check --setup",
        "hooks": {
            "guard": "memchr_verif",
            "enable": "RUSTFLAGS=\"--cfg memchr_verif\" (set in /verif/harness/.cargo/config.toml); the harness crate path-depends on /repo",
            "baseline_off_cmd": "cd /repo && cargo test --workspace --no-fail-fast --offline",
            "source_commits": hook_commits,
            "add_only": True,
        },
        "engines": [
            {"name": "lean-model", "path": "lean/", "serves_properties": sorted(CLAIMED), "kind_free_text": "Lean 4 model + theorems (lake project, core-only model files, compiled line-protocol driver)"},
            {"name": "executor", "path": "harness/", "serves_properties": sorted(CLAIMED), "kind_free_text": "Rust executor running the real code in-process on the same op lines (guard pages, load-trace hooks, counters, allocation probe)"},
            {"name": "extractor", "path": "tools/extract.py", "serves_properties": sorted(CLAIMED), "kind_free_text": "regenerates the constants and structural facts the theorems mention from /repo source on every run"},
        ],
        "checks": [],
        "notes": "See DESIGN.md. ./check <id> quick|thorough; VERIF_SEED seeds every random choice; evidence/<id>.json is rewritten by every run.",
        "not_applicable": [],
    }
    for pid in ALL:
        if pid in CLAIMED:
            c = CLAIMED[pid]
            man["checks"].append({
                "property_id": pid,
                "quick_cmd": "./check %s quick" % pid,
                "thorough_cmd": "./check %s thorough" % pid,
                "evidence_file": "/verif/evidence/%s.json" % pid,
                "replay_cmd_template": "./check %s --replay {path}" % pid,
                "engine": "lean-model",
                "level_claimed": {"category": "proof", "text": c["text"], "design_ref": c["ref"]},
                "level_note": c["note"],
                "technique": c["technique"],
            })
        else:
            man["not_applicable"].append({"property_id": pid, "reason": PENDING_REASON})
    with open(os.path.join(ROOT, "MANIFEST.json"), "w") as f:
        json.dump(man, f, indent=1)
    print("claimed:", sorted(CLAIMED))

if __name__ == "__main__":
    main()
