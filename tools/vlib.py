"""Shared machinery of ./check (see DESIGN.md sections 2, 4, 9, 13)."""
import fcntl, hashlib, json, os, re, shutil, subprocess, sys, time

ROOT = os.path.dirname(os.path.dirname(os.path.abspath(__file__)))
LEAN = os.path.join(ROOT, "lean")
HARNESS = os.path.join(ROOT, "harness")
WORK = os.path.join(ROOT, "work")
REPO = "/repo"
DRIVER = os.path.join(LEAN, ".lake/build/bin/driver")
EXEC = os.path.join(HARNESS, "target/release/memchr-verif-exec")
ALLOWED_AXIOMS = {"propext", "Classical.choice", "Quot.sound"}
NCPU = os.cpu_count() or 4

ENV = dict(os.environ)
ENV.update({"CARGO_NET_OFFLINE": "true", "GOPROXY": "off", "PIP_NO_INDEX": "1"})

TRUSTED_BASE = [
    "Lean 4.33 kernel; axioms propext, Classical.choice, Quot.sound only (audited from #print axioms on every run)",
    "hand-written Lean model of the Rust code, tied to /repo by tools/extract.py (constants regenerated every run) and by the behavioural correspondence of this run (driver vs real code on the same op lines)",
    "Lean compiler for the driver executable; rustc monomorphisation (hook's Small<N> vectors and __m128i/__m256i share the generic source)",
    "documented lane semantics of the SIMD intrinsics and of u32/u64 trailing_zeros/leading_zeros/count_ones",
    "the op generators (tools/gens.py) and the executor (harness/): what the correspondence can see is bounded by them; they are themselves exercised by seeded source mutations (seeded/, tools/mechmut.py)",
    "cfg-rewritten copies of /repo for targets other than this host (tools/emulate: plain-Rust NEON / simd128 intrinsics, no-vector-module target) and feature builds (no std, no alloc, +avx2, no debug assertions)",
    "real-code-only ops (no model counterpart) rely on independent oracles: naive / Knuth-Morris-Pratt search, greedy match lists, analytic answers for >4 GiB inputs, the property itself for impure rankers; wall-clock bounds (C13) are tests, not proofs",
]


class Lock:
    def __init__(self, name):
        os.makedirs(WORK, exist_ok=True)
        self.path = os.path.join(WORK, name + ".lock")

    def __enter__(self):
        self.f = open(self.path, "w")
        fcntl.flock(self.f, fcntl.LOCK_EX)
        return self

    def __exit__(self, *a):
        fcntl.flock(self.f, fcntl.LOCK_UN)
        self.f.close()


def sh(cmd, cwd=None, timeout=None, env=None):
    p = subprocess.run(cmd, cwd=cwd, env=env or ENV, stdout=subprocess.PIPE,
                       stderr=subprocess.STDOUT, text=True, timeout=timeout)
    return p.returncode, p.stdout


# ----------------------------------------------------------------------------------
# step 1: extractor

def run_extract():
    os.makedirs(WORK, exist_ok=True)
    out = os.path.join(WORK, "extract.%d.json" % os.getpid())
    with Lock("lean"):
        rc, txt = sh([sys.executable, os.path.join(ROOT, "tools/extract.py"), "--repo", REPO,
                      "--out", os.path.join(LEAN, "MemchrModel/Generated"), "--json", out])
    if rc != 0:
        return {"broken": ["extract.py failed: " + txt[-2000:]], "soft": [], "consts": {}, "facts": {}, "pins": {}}
    with open(out) as f:
        res = json.load(f)
    os.unlink(out)
    # pins: compare with the committed pins (informational)
    pins_path = os.path.join(ROOT, "tools/pins.json")
    try:
        with open(pins_path) as f:
            old = json.load(f)
    except OSError:
        old = {}
    res["pins_changed"] = sorted(k for k in set(old) | set(res["pins"]) if old.get(k) != res["pins"].get(k))
    return res


# ----------------------------------------------------------------------------------
# step 2: Lean theorems

FORBIDDEN = re.compile(r"\b(sorry|admit|native_decide|bv_decide|implemented_by)\b|^\s*axiom\s|^\s*unsafe\s|maxHeartbeats\s+0")


def strip_lean_comments(src):
    out = []
    i = 0
    depth = 0
    n = len(src)
    while i < n:
        if src.startswith("/-", i):
            depth += 1
            i += 2
        elif depth and src.startswith("-/", i):
            depth -= 1
            i += 2
        elif depth:
            if src[i] == "\n":
                out.append("\n")
            i += 1
        elif src.startswith("--", i):
            j = src.find("\n", i)
            i = n if j < 0 else j
        else:
            out.append(src[i])
            i += 1
    return "".join(out)


def lean_imports_closure(module):
    """All project modules transitively imported by `module`."""
    seen = {}
    stack = [module]
    while stack:
        m = stack.pop()
        if m in seen:
            continue
        path = os.path.join(LEAN, m.replace(".", "/") + ".lean")
        try:
            src = open(path).read()
        except OSError:
            seen[m] = None
            continue
        seen[m] = path
        for mm in re.findall(r"^import\s+(MemchrModel[\w.]*)", src, re.M):
            stack.append(mm)
    return {m: p for m, p in seen.items() if p}


def lean_check(prop, extra_targets=("driver",)):
    """Build the property module, re-elaborate it, audit axioms and forbidden tokens."""
    module = "MemchrModel.Props." + prop
    path = os.path.join(LEAN, "MemchrModel/Props/%s.lean" % prop)
    res = {"module": module, "obligations": 0, "discharged": 0, "theorems": {}, "errors": [],
           "forbidden": []}
    if not os.path.exists(path):
        res["errors"].append("missing " + path)
        return res
    src = strip_lean_comments(open(path).read())
    wanted = re.findall(r"^#print axioms\s+(\S+)", src, re.M)
    res["obligations"] = len(wanted)
    with Lock("lean"):
        rc, out = sh(["lake", "build", module] + list(extra_targets), cwd=LEAN, timeout=3600)
        if rc != 0:
            res["errors"].append("lake build failed:\n" + "\n".join(
                l for l in out.splitlines() if not l.startswith("trace:"))[-6000:])
            return res
        rc, out = sh(["lake", "env", "lean", path], cwd=LEAN, timeout=3600)
    if rc != 0:
        res["errors"].append("lean %s failed:\n%s" % (path, out[-4000:]))
    # parse `#print axioms` output (may wrap over several lines)
    flat = re.sub(r"\s+", " ", out)
    for m in re.finditer(r"'([^']+)' depends on axioms: \[([^\]]*)\]", flat):
        res["theorems"][m.group(1)] = [a.strip() for a in m.group(2).split(",") if a.strip()]
    for m in re.finditer(r"'([^']+)' does not depend on any axioms", flat):
        res["theorems"][m.group(1)] = []
    for name in wanted:
        # `#print axioms Foo.bar` prints the fully qualified name; match by suffix
        hits = [k for k in res["theorems"] if k == name or k.endswith("." + name)]
        if not hits:
            res["errors"].append("no #print axioms output for " + name)
            continue
        ax = res["theorems"][hits[0]]
        bad = [a for a in ax if a not in ALLOWED_AXIOMS]
        if bad:
            res["errors"].append("theorem %s depends on disallowed axioms %s" % (name, bad))
        else:
            res["discharged"] += 1
    if "sorry" in flat and "declaration uses" in flat:
        res["errors"].append("a declaration uses sorry")
    # forbidden tokens in the import closure
    for m, p in sorted(lean_imports_closure(module).items()):
        code = strip_lean_comments(open(p).read())
        for ln, line in enumerate(code.splitlines(), 1):
            if FORBIDDEN.search(line):
                res["forbidden"].append("%s:%d: %s" % (os.path.relpath(p, LEAN), ln, line.strip()[:120]))
    if res["forbidden"]:
        res["errors"].append("forbidden tokens: " + "; ".join(res["forbidden"][:5]))
    return res


def leanchecker(prop):
    module = "MemchrModel.Props." + prop
    with Lock("lean"):
        rc, out = sh(["lake", "env", "leanchecker", module], cwd=LEAN, timeout=3600)
    return rc, out[-2000:]


# ----------------------------------------------------------------------------------
# step 3: builds

def build_driver():
    with Lock("lean"):
        rc, out = sh(["lake", "build", "driver"], cwd=LEAN, timeout=3600)
    return rc, "\n".join(l for l in out.splitlines() if not l.startswith("trace:"))[-4000:]


def build_exec():
    with Lock("cargo"):
        lock = os.path.join(HARNESS, "Cargo.lock")
        if not os.path.exists(lock) and os.path.exists(os.path.join(REPO, "Cargo.lock")):
            shutil.copy(os.path.join(REPO, "Cargo.lock"), lock)
        rc, out = sh(["cargo", "build", "--release", "--offline"], cwd=HARNESS, timeout=3600)
    return rc, out[-6000:]


def setup():
    t0 = time.time()
    ex = run_extract()
    if ex["broken"]:
        print("extract: broken patterns:", ex["broken"])
    with Lock("lean"):
        rc, out = sh(["lake", "build"], cwd=LEAN, timeout=7200)
    print("\n".join(l for l in out.splitlines() if not l.startswith("trace:"))[-3000:])
    if rc != 0:
        return 1
    rc, out = build_exec()
    print(out[-1500:])
    print("setup done in %.0fs" % (time.time() - t0))
    return 0 if rc == 0 else 1


# ----------------------------------------------------------------------------------
# step 4: running both sides

def _run_shard(binary, lines, extra_env=None):
    env = dict(ENV)
    if extra_env:
        env.update(extra_env)
    p = subprocess.Popen([binary], stdin=subprocess.PIPE, stdout=subprocess.PIPE,
                         stderr=subprocess.DEVNULL, env=env)
    return p


def run_both(ops, exec_env=None, shards=None, exec_bin=None):
    """Run the op lines through the Lean driver and the real-code executor.
    Returns (model_answers, impl_answers, crashes) where a crashed executor shard yields
    None for the ops it did not answer and `crashes` lists (op_index, returncode)."""
    n = len(ops)
    if n == 0:
        return [], [], []
    EXEC = exec_bin or globals()["EXEC"]
    k = shards or max(1, min(NCPU, n // 500 + 1))
    bounds = [(i * n // k, (i + 1) * n // k) for i in range(k)]
    procs = []
    for (a, b) in bounds:
        data = ("\n".join(ops[a:b]) + "\n").encode()
        pm = _run_shard(DRIVER, None)
        pi = _run_shard(EXEC, None, exec_env)
        procs.append((a, b, data, pm, pi))
    import threading
    results = {}

    def feed(key, p, data):
        out, _ = p.communicate(data)
        results[key] = (p.returncode, out.decode(errors="replace").splitlines())

    threads = []
    for idx, (a, b, data, pm, pi) in enumerate(procs):
        for side, p in (("m", pm), ("i", pi)):
            t = threading.Thread(target=feed, args=((idx, side), p, data))
            t.start()
            threads.append(t)
    for t in threads:
        t.join()
    model = [None] * n
    impl = [None] * n
    crashes = []
    for idx, (a, b, data, pm, pi) in enumerate(procs):
        rc, lines = results[(idx, "m")]
        for j, l in enumerate(lines[: b - a]):
            model[a + j] = l
        rc, lines = results[(idx, "i")]
        for j, l in enumerate(lines[: b - a]):
            impl[a + j] = l
        if len(lines) < b - a:
            crashes.append((a + len(lines), rc))
            # restart the executor after the crashing op so that the rest of the shard is
            # still answered
            rest_start = a + len(lines) + 1
            restarts = 0
            # (a change that makes MANY ops crash or hang must not make the check run for hours:
            # three failing ops per shard are reported, the rest of the shard is left unanswered)
            while rest_start < b and restarts < 2:
                restarts += 1
                data2 = ("\n".join(ops[rest_start:b]) + "\n").encode()
                env2 = dict(exec_env or {})
                if rc in (-14, 142):
                    env2.setdefault("VERIF_OP_TIMEOUT", "5")      # a hang was seen: shorter fuse behind it
                p2 = _run_shard(EXEC, None, env2)
                out2, _ = p2.communicate(data2)
                l2 = out2.decode(errors="replace").splitlines()
                for j, l in enumerate(l2[: b - rest_start]):
                    impl[rest_start + j] = l
                if len(l2) < b - rest_start:
                    crashes.append((rest_start + len(l2), p2.returncode))
                    rest_start = rest_start + len(l2) + 1
                else:
                    break
    return model, impl, crashes


FIELD_RE = re.compile(r"(\w+)=(\S+)")


def parse_answer(line):
    """-> dict(head=..., val=..., fault=..., steps=..., loads=..., extras...)"""
    if line is None:
        return {"head": "crash"}
    d = {"raw": line}
    if line.startswith("ok "):
        parts = line.split(" ")
        d["head"] = "ok"
        d["val"] = parts[1] if len(parts) > 1 else ""
        for m in FIELD_RE.finditer(line):
            d[m.group(1)] = m.group(2)
    elif line.startswith("fault "):
        d["head"] = "fault"
        cls = line.split(" ")[1]
        d["fault"] = cls
        # class used for comparison: debug assertions are panics in the real code
        d["fclass"] = {"debug_assert": "panic", "panic": "panic", "overflow": "overflow",
                       "oob": "oob", "misaligned": "misaligned", "ptroob": "ptroob"}.get(cls, cls)
    else:
        d["head"] = line.strip()
    return d


# ----------------------------------------------------------------------------------
# known findings / replays / evidence

def load_known():
    try:
        with open(os.path.join(ROOT, "known_findings.json")) as f:
            return json.load(f)
    except OSError:
        return {"findings": []}


def write_replay(prop, tier, seed, kind, payload):
    d = os.path.join(ROOT, "replays")
    os.makedirs(d, exist_ok=True)
    h = hashlib.sha256(json.dumps(payload, sort_keys=True).encode()).hexdigest()[:10]
    path = os.path.join(d, "%s-%s-%s.json" % (prop, kind, h))
    with open(path, "w") as f:
        json.dump({"property": prop, "tier": tier, "seed": seed, "kind": kind, **payload}, f, indent=1)
    return path


def write_evidence(prop, tier, seed, coverage, assumptions, wall, violations):
    d = os.path.join(ROOT, "evidence")
    os.makedirs(d, exist_ok=True)
    ev = {"property_id": prop, "tier": tier, "seed": seed, "level": "proof", "coverage": coverage,
          "assumptions": assumptions, "wall_s": round(wall, 2), "violations": violations}
    with open(os.path.join(d, prop + ".json"), "w") as f:
        json.dump(ev, f, indent=1)


# ----------------------------------------------------------------------------------
# the property runner

def run_property(prop, tier, seed, replay=None):
    import props
    t0 = time.time()
    spec = props.PROPS.get(prop)
    if spec is None:
        print("unknown property", prop)
        return 2
    if replay:
        return props.replay(prop, replay)
    return props.run(prop, spec, tier, seed, t0)


# ----------------------------------------------------------------------------------
# executor variants: forced CPU detection, emulated NEON / simd128, feature builds

def _tree_hash():
    h = hashlib.sha256()
    roots = [os.path.join(REPO, "src"), os.path.join(HARNESS, "src"), os.path.join(ROOT, "tools/emulate")]
    files = [os.path.join(REPO, "Cargo.toml"), os.path.join(HARNESS, "Cargo.toml")]
    for r in roots:
        for d, _, fs in os.walk(r):
            for f in fs:
                files.append(os.path.join(d, f))
    for f in sorted(files):
        try:
            h.update(f.encode())
            h.update(open(f, "rb").read())
        except OSError:
            pass
    return h.hexdigest()[:16]


def variant_exec(name):
    """Build (or reuse, keyed by a hash of /repo's working tree and the harness) an executor
    variant. Returns (binary_path or None, error_text)."""
    if name in ("host", "noavx2", "nosse2", "notrace"):
        return EXEC, ""
    key = "%s-%s" % (name, _tree_hash())
    cache = os.path.join(WORK, "emu")
    os.makedirs(cache, exist_ok=True)
    binp = os.path.join(cache, key, "exec")
    with Lock("variant-" + name):
        if os.path.exists(binp):
            return binp, ""
        # drop stale variants of the same name
        for d in os.listdir(cache):
            if d.startswith(name + "-") and d != key:
                shutil.rmtree(os.path.join(cache, d), ignore_errors=True)
        scratch = "/tmp/memchr-verif-%s-%d" % (name, os.getpid())
        try:
            if name in ("neon", "simd128", "other"):
                rc, out = sh([sys.executable, os.path.join(ROOT, "tools/emulate/mkemu.py"), name, scratch],
                             env=dict(ENV, MEMCHR_VERIF_REPO=REPO))
                if rc != 0:
                    return None, out[-3000:]
                hdir = os.path.join(scratch, "harness")
                env = dict(ENV)
            else:
                # feature / target-feature variants of the native build
                os.makedirs(scratch)
                hdir = os.path.join(scratch, "harness")
                shutil.copytree(HARNESS, hdir, ignore=shutil.ignore_patterns("target"))
                ct = os.path.join(hdir, "Cargo.toml")
                t = open(ct).read()
                cfgp = os.path.join(hdir, ".cargo/config.toml")
                c = open(cfgp).read()
                if name == "alloconly":
                    t = t.replace('memchr = { path = "%s" }' % REPO, 'memchr = { path = "%s", default-features = false, features = ["alloc"] }' % REPO)
                elif name == "noalloc":
                    # neither `std` nor `alloc`: CowBytes is a plain borrow, no Shift-Or, no into_owned
                    t = t.replace('memchr = { path = "%s" }' % REPO, 'memchr = { path = "%s", default-features = false }' % REPO)
                    c = c.replace('rustflags = ["--cfg", "memchr_verif"]', 'rustflags = ["--cfg", "memchr_verif", "--cfg", "memchr_verif_noalloc"]')
                elif name == "nodebug":
                    # what a release build does: no debug assertions, no overflow checks (a broken
                    # invariant then shows as the misaligned / out-of-bounds access itself)
                    t = t.replace("debug-assertions = true", "debug-assertions = false").replace("overflow-checks = true", "overflow-checks = false")
                elif name == "avx2ct":
                    c = c.replace('rustflags = ["--cfg", "memchr_verif"]', 'rustflags = ["--cfg", "memchr_verif", "-C", "target-feature=+avx2"]')
                else:
                    return None, "unknown variant " + name
                open(ct, "w").write(t)
                open(cfgp, "w").write(c)
                env = dict(ENV)
            env["CARGO_TARGET_DIR"] = os.path.join(scratch, "target")
            rc, out = sh(["cargo", "build", "--release", "--offline"], cwd=hdir, env=env, timeout=3600)
            if rc != 0:
                return None, out[-4000:]
            os.makedirs(os.path.dirname(binp), exist_ok=True)
            shutil.copy(os.path.join(scratch, "target/release/memchr-verif-exec"), binp)
            return binp, ""
        finally:
            shutil.rmtree(scratch, ignore_errors=True)


VARIANT_ENV = {"noavx2": {"MEMCHR_VERIF_FORCE": "noavx2"}, "nosse2": {"MEMCHR_VERIF_FORCE": "nosse2"},
               "notrace": {"VERIF_NOTRACE": "1"}}


def run_grouped(ops_with_meta):
    """ops_with_meta: list of (line, meta); meta['cfg'] selects the executor variant.
    Returns (model, impl, crashes, variant_errors)."""
    n = len(ops_with_meta)
    model = [None] * n
    impl = [None] * n
    crashes = []
    errors = []
    groups = {}
    for i, (line, meta) in enumerate(ops_with_meta):
        groups.setdefault(meta.get("cfg", "host"), []).append(i)
    for cfg, idxs in groups.items():
        binp, err = variant_exec(cfg)
        if binp is None:
            errors.append("executor variant %s failed to build: %s" % (cfg, err))
            continue
        lines = [ops_with_meta[i][0] for i in idxs]
        m, im, cr = run_both(lines, VARIANT_ENV.get(cfg), exec_bin=binp)
        for j, i in enumerate(idxs):
            model[i] = m[j]
            impl[i] = im[j]
        crashes.extend((idxs[j], rc) for j, rc in cr)
    return model, impl, crashes, errors
