#!/usr/bin/env python3
"""mkcorpus.py: collect the failing ops that exposed the seeded mutants (seeded/<id>/meta.json ->
replay files) into corpus/<property>.jsonl.  Every check runs its corpus first (tools/props.py),
so that a change of generators or of VERIF_SEED cannot lose an input that once exposed a defect."""
import json, os, re, glob
ROOT = os.path.dirname(os.path.dirname(os.path.abspath(__file__)))
out = {}
for mp in sorted(glob.glob(os.path.join(ROOT, "seeded/*/meta.json"))):
    m = json.load(open(mp))
    for prop, r in (m.get("check_runs") or {}).items():
        for line in r.get("violation_lines") or []:
            k = re.search(r"replay=(\S+)", line)
            if not k or not os.path.exists(k.group(1)):
                continue
            rep = json.load(open(k.group(1)))
            op, meta = rep.get("op"), rep.get("meta") or {}
            if not op or len(op) > 20000:
                continue
            meta = {kk: vv for kk, vv in meta.items() if kk in ("cfg", "domain", "modelless", "modelonly", "allocs", "bound", "tbound_ns", "size", "untraced_widths", "allow_model_ptroob", "expect")}
            meta["family"] = "corpus"
            meta["from"] = m["id"]
            out.setdefault(prop, {})[op] = meta
os.makedirs(os.path.join(ROOT, "corpus"), exist_ok=True)
for prop, ops in sorted(out.items()):
    with open(os.path.join(ROOT, "corpus", prop + ".jsonl"), "w") as f:
        for op, meta in ops.items():
            f.write(json.dumps(dict(op=op, meta=meta)) + "\n")
    print(prop, len(ops))
