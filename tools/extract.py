#!/usr/bin/env python3
"""Regenerate lean/MemchrModel/Generated/*.lean from /repo's current source.

Every constant a theorem mentions is re-read from the Rust source on every run, so the
kernel re-checks the property theorems against what the code says now.  A pattern that no
longer matches is reported in the JSON result under "broken" (a broken tie, handled by
./check).  Also computes structural facts (wrapper files equal modulo renaming, no interior
mutability / allocation outside the expected files) and source pins.

Usage: extract.py [--repo /repo] [--out /verif/lean/MemchrModel/Generated] [--json path]
"""
import argparse, hashlib, json, os, re, sys

def read(repo, rel):
    with open(os.path.join(repo, rel), encoding="utf-8") as f:
        return f.read()

def strip_comments(src):
    # remove // comments and /* */ comments (good enough for this code base: no such
    # sequences inside string literals that matter)
    src = re.sub(r"/\*.*?\*/", "", src, flags=re.S)
    src = re.sub(r"//[^\n]*", "", src)
    return src

def norm(src):
    return re.sub(r"\s+", " ", strip_comments(src)).strip()

def cut_tests(src):
    i = src.find("#[cfg(test)]\nmod tests")
    return src if i < 0 else src[:i]

HERE = os.path.dirname(os.path.abspath(__file__))


class Ext:
    def __init__(self, repo):
        self.repo = repo
        self.consts = {}
        self.broken = []
        self.soft = []      # ties that could not be re-established syntactically (not failures by themselves)
        self.facts = {}
        try:
            with open(os.path.join(HERE, "consts_pinned.json")) as f:
                self.pinned = json.load(f)
        except OSError:
            self.pinned = {}

    def _fallback(self, name, why):
        """A constant that can no longer be re-read (the code around it was rewritten): keep the
        value recorded for the pinned commit and say so; the correspondence of the run (which
        then uses the deep generators) decides whether the behaviour still agrees."""
        if name in self.pinned:
            self.consts[name] = self.pinned[name]
            self.soft.append(f"{name}: {why}; using the value {self.pinned[name]} recorded in tools/consts_pinned.json")
            return self.pinned[name]
        self.broken.append(f"{name}: {why}")
        return None

    def grab(self, name, rel, pattern, conv=int, which=0, flags=re.S):
        try:
            src = strip_comments(read(self.repo, rel))
        except OSError as e:
            self.broken.append(f"{name}: cannot read {rel}: {e}")
            return None
        ms = list(re.finditer(pattern, src, flags))
        if len(ms) <= which:
            return self._fallback(name, f"pattern not found in {rel}: {pattern}")
        tok = ms[which].group(1)
        # a named constant instead of a literal: resolve `const NAME: ty = value;` in the same file
        if re.fullmatch(r"[A-Z][A-Z0-9_]*", tok):
            m = re.search(r"const %s: [\w:<> ]+ = ([^;]+);" % re.escape(tok), src)
            if m:
                tok = m.group(1).strip()
        try:
            v = conv(tok)
        except Exception as e:
            return self._fallback(name, f"cannot convert {tok!r}: {e}")
        self.consts[name] = v
        return v

def rust_int(s):
    s = s.replace("_", "").strip()
    if s in ("core::u8::MAX", "u8::MAX"): return 255
    return int(s, 0)

def main():
    ap = argparse.ArgumentParser()
    ap.add_argument("--repo", default="/repo")
    ap.add_argument("--out", default="/verif/lean/MemchrModel/Generated")
    ap.add_argument("--json", default=None)
    a = ap.parse_args()
    x = Ext(a.repo)
    g = "src/arch/generic/memchr.rs"
    # unroll factors: `const LOOP_SIZE: usize = 4 * V::BYTES;` in impl order One, Two, Three
    for i, nm in enumerate(["oneUnroll", "twoUnroll", "threeUnroll"]):
        x.grab(nm, g, r"const LOOP_SIZE: usize = (\d+) \* V::BYTES;", rust_int, which=i)
    v = "src/vector.rs"
    x.grab("sse2Bytes", v, r"impl Vector for __m128i \{\s*const BYTES: usize = (\d+);", rust_int)
    x.grab("avx2Bytes", v, r"impl Vector for __m256i \{\s*const BYTES: usize = (\d+);", rust_int)
    x.grab("neonBytes", v, r"impl Vector for uint8x16_t \{\s*const BYTES: usize = (\d+);", rust_int)
    x.grab("simd128Bytes", v, r"impl Vector for v128 \{\s*const BYTES: usize = (\d+);", rust_int)
    # every impl has ALIGN = BYTES - 1
    src = strip_comments(read(a.repo, v))
    n_align = len(re.findall(r"const ALIGN: usize = Self::BYTES - 1;", src))
    n_impl = len(re.findall(r"impl(?:<[^>]*>)? Vector for ", src))
    x.facts["vector_impls"] = n_impl
    x.facts["vector_align_is_bytes_minus_1"] = n_align
    if n_align != n_impl:
        x.broken.append(f"vector.rs: {n_impl} Vector impls but {n_align} have ALIGN = BYTES - 1")
    x.grab("neonMaskConst", v, r"NeonMoveMask\(scalar64 & (0x[0-9A-Fa-f_]+)\)", rust_int)
    x.grab("sensibleMaskBits", v, r"fn all_zeros_except_least_significant\(n: usize\) -> SensibleMoveMask \{\s*debug_assert!\(n < (\d+)\);", rust_int)
    x.grab("neonMaskLanes", v, r"fn all_zeros_except_least_significant\(n: usize\) -> NeonMoveMask \{\s*debug_assert!\(n < (\d+)\);", rust_int)
    sw = "src/arch/all/memchr.rs"
    x.grab("swarOneLoopWords", sw, r"const LOOP_BYTES: usize = (\d+) \* USIZE_BYTES;", rust_int)
    mm = "src/memmem/mod.rs"
    x.grab("oneshotFwdThreshold", mm, r"pub fn find\(haystack: &\[u8\], needle: &\[u8\]\) -> Option<usize> \{\s*if haystack\.len\(\) < (\w+) \{", rust_int)
    x.grab("oneshotRevThreshold", mm, r"pub fn rfind\(haystack: &\[u8\], needle: &\[u8\]\) -> Option<usize> \{\s*if haystack\.len\(\) < (\w+) \{", rust_int)
    rk = "src/arch/all/rabinkarp.rs"
    x.grab("rkFastThreshold", rk, r"fn is_fast\(haystack: &\[u8\], _needle: &\[u8\]\) -> bool \{\s*haystack\.len\(\) < (\w+)", rust_int)
    se = "src/memmem/searcher.rs"
    x.grab("packedMinLen", se, r"const MIN_LEN: usize = (\d+);", rust_int)
    x.grab("packedMaxLen", se, r"const MAX_LEN: usize = ([\w:]+);", lambda s: (2**64 - 1) if "MAX" in s else rust_int(s))
    x.grab("preMinSkips", se, r"const MIN_SKIPS: u32 = (\d+);", rust_int)
    x.grab("preMinSkipBytes", se, r"const MIN_SKIP_BYTES: u32 = (\d+);", rust_int)
    x.grab("preInitSkips", se, r"PrefilterState \{ skips: (\d+), skipped: \d+ \}", rust_int)
    x.grab("preInitSkipped", se, r"PrefilterState \{ skips: \d+, skipped: (\d+) \}", rust_int)
    x.grab("maxFallbackRank", se, r"const MAX_FALLBACK_RANK: u8 = (\d+);", rust_int)
    pp = "src/arch/all/packedpair/mod.rs"
    x.grab("pairScanMax", pp, r"let \w+ = usize::from\((core::u8::MAX|u8::MAX|\d+)\);", rust_int)
    x.grab("pairScanSkip", pp, r"\.take\(\w+\)\.skip\((\d+)\)", rust_int)
    so = "src/arch/all/shiftor.rs"
    x.grab("shiftOrMaskBits", so, r"type Mask = u(\d+);", rust_int)
    tw = "src/arch/all/twoway.rs"
    x.grab("byteSetModulus", tw, r"bits \|= 1 << \(b % (\d+)\);", rust_int)
    x.grab("byteSetModulusContains", tw, r"self\.0 & \(1 << \(byte % (\d+)\)\) != 0", rust_int)

    # default rank table
    rank = None
    try:
        rs = strip_comments(read(a.repo, "src/arch/all/packedpair/default_rank.rs"))
        m = re.search(r"RANK: \[u8; 256\] = \[(.*?)\];", rs, re.S)
        rank = [int(t) for t in re.findall(r"\d+", m.group(1))]
        if len(rank) != 256 or any(t > 255 for t in rank):
            x.broken.append(f"default_rank.rs: table has {len(rank)} entries")
            rank = None
    except Exception as e:
        x.broken.append(f"default_rank.rs: {e}")

    # structural facts ---------------------------------------------------------------
    def renamed(rel, subs):
        s = cut_tests(read(a.repo, rel))
        # drop the verification hook lines and doc comments before normalising
        s = re.sub(r"^\s*#\[cfg\(memchr_verif\)\]\n\s*if crate::verif::forced_unavailable\([^)]*\) \{\n\s*return false;\n\s*\}\n", "", s, flags=re.M)
        s = re.sub(r"^\s*#\[cfg\(memchr_verif\)\]\n(?:[^\n]*\n)", "", s, flags=re.M)
        s = norm(s)
        s = re.sub(r"/\*!.*?\*/", "", s)
        for k, val in subs:
            s = s.replace(k, val)
        # `unsafe { self.x_impl(..) }` vs `self.x_impl(..)` and `unsafe fn` vs `fn` (functions
        # with / without a #[target_feature]) are the same routing
        s = re.sub(r"unsafe \{ (self\.[\w.]+\([^)]*\)) \}", r"\1", s)
        s = s.replace("unsafe fn ", "fn ")
        s = re.sub(r"#\[target_feature\(enable = \"ISA\"\)\] ", "", s)
        s = re.sub(r"\s+", " ", s)
        s = re.sub(r"\(\s+", "(", s)
        s = re.sub(r",?\s*\)", ")", s)
        return s.strip()
    # The model uses ONE definition for the three single-vector wrappers (memchr and packed
    # pair); check the three source files really are equal modulo type / ISA names.
    same = {}
    try:
        for kind in ("memchr", "packedpair"):
            variants = {
                "sse2": renamed("src/arch/x86_64/sse2/%s.rs" % kind, [("__m128i", "VEC"), ("x86_64", "ARCH"), ("sse2", "ISA"), ("SSE2", "ISA")]),
                "neon": renamed("src/arch/aarch64/neon/%s.rs" % kind, [("uint8x16_t", "VEC"), ("aarch64", "ARCH"), ("neon", "ISA"), ("NEON", "ISA")]),
                "simd128": renamed("src/arch/wasm32/simd128/%s.rs" % kind, [("v128", "VEC"), ("wasm32", "ARCH"), ("simd128", "ISA"), ("SIMD128", "ISA")]),
            }
            # compare only the routing bodies: everything from the first `impl` on, with the
            # `is_available` bodies removed (they legitimately differ per ISA)
            def core(t):
                i = t.find("impl ")
                t = t[i:] if i >= 0 else t
                # remove every `is_available` body by brace matching
                out, pos = [], 0
                key = "pub fn is_available() -> bool {"
                while True:
                    j = t.find(key, pos)
                    if j < 0:
                        out.append(t[pos:])
                        break
                    out.append(t[pos:j] + key + "..}")
                    k = j + len(key)
                    depth = 1
                    while k < len(t) and depth:
                        depth += {"{": 1, "}": -1}.get(t[k], 0)
                        k += 1
                    pos = k
                return "".join(out)
            cores = {k: core(v) for k, v in variants.items()}
            ref = cores["sse2"]
            same[kind] = {k: (v == ref) for k, v in cores.items()}
            for k, v in cores.items():
                if v != ref:
                    # report the first differing position for diagnosis
                    j = next((i for i in range(min(len(v), len(ref))) if v[i] != ref[i]), min(len(v), len(ref)))
                    # soft: the NEON / simd128 wrappers are exercised on their own through the emulated
                    # builds; a textual difference only asks for the deeper correspondence run
                    x.soft.append("wrapper %s/%s differs from sse2 at %d: ...%s... vs ...%s..." % (k, kind, j, v[max(0, j - 40):j + 40], ref[max(0, j - 40):j + 40]))
        x.facts["wrappers_same_routing"] = same
    except OSError as e:
        x.facts["wrappers_same_routing"] = "unreadable: %s" % e
    # Symmetry of the per-ISA wrappers: inside one file the raw entry points of One, Two and
    # Three (find_raw / rfind_raw) are the same routing modulo the confirm closure and the
    # direction (the model has ONE definition, `wrapFind` / `wrapRfind`, for all of them).
    def fn_bodies(text, name):
        out = []
        for m in re.finditer(r"pub unsafe fn %s\(" % name, text):
            j = text.find("{", text.find(")", m.end()))
            # skip the return type: first `{` after `->` ... handled by scanning from the `)` that closes the args
            depth, k = 0, j
            while k < len(text):
                if text[k] == "{":
                    depth += 1
                elif text[k] == "}":
                    depth -= 1
                    if depth == 0:
                        break
                k += 1
            out.append(text[j:k + 1])
        return out
    def sym_norm(b):
        b = re.sub(r"\|b\| \{[^{}]*\}", "CONFIRM", b)
        b = re.sub(r"\|b\| [^,)]*", "CONFIRM", b)
        for a_, b_ in (("rfind_raw", "find_raw"), ("rev_byte_by_byte", "fwd_byte_by_byte"), ("Three", "One"), ("Two", "One")):
            b = b.replace(a_, b_)
        return re.sub(r"\s+", " ", b)
    sym = {}
    for rel in ("src/arch/x86_64/sse2/memchr.rs", "src/arch/x86_64/avx2/memchr.rs", "src/arch/aarch64/neon/memchr.rs",
                "src/arch/wasm32/simd128/memchr.rs"):
        try:
            t = strip_comments(cut_tests(read(a.repo, rel)))
        except OSError:
            continue
        t = re.sub(r"^\s*#\[cfg\(memchr_verif\)\]\n(?:[^\n]*\n)", "", t, flags=re.M)
        bodies = [sym_norm(b) for nm in ("find_raw", "rfind_raw") for b in fn_bodies(t, nm)]
        distinct = sorted(set(bodies))
        sym[rel] = dict(bodies=len(bodies), distinct=len(distinct))
        if len(bodies) != 6 or len(distinct) != 1:
            detail = ""
            if len(distinct) > 1:
                x0, x1 = distinct[0], distinct[1]
                j = next((i for i in range(min(len(x0), len(x1))) if x0[i] != x1[i]), min(len(x0), len(x1)))
                detail = ": ...%s... vs ...%s..." % (x0[max(0, j - 50):j + 50], x1[max(0, j - 50):j + 50])
            # soft: a legitimate change may touch one entry point only (a fast path for one needle
            # count); the deeper correspondence run decides
            x.soft.append("%s: the %d find_raw/rfind_raw wrappers of One/Two/Three are not the same routing (%d distinct)%s" % (
                rel, len(bodies), len(distinct), detail))
    x.facts["wrapper_symmetry"] = sym
    # the seven x86_64 dispatchers all instantiate the one ifunc macro
    try:
        d = strip_comments(read(a.repo, "src/arch/x86_64/memchr.rs"))
        x.facts["ifunc_instances"] = len(re.findall(r"unsafe_ifunc!\(", d))
        x.facts["ifunc_macro_defs"] = len(re.findall(r"macro_rules! unsafe_ifunc", d))
        if x.facts["ifunc_instances"] != 7 or x.facts["ifunc_macro_defs"] != 1:
            x.soft.append("x86_64/memchr.rs: expected 7 instances of one unsafe_ifunc! macro, found %d/%d" % (x.facts["ifunc_instances"], x.facts["ifunc_macro_defs"]))
    except OSError as e:
        x.broken.append("x86_64/memchr.rs unreadable: %s" % e)

    def scan(paths, pats):
        hits = []
        for rel in paths:
            try:
                s = strip_comments(cut_tests(read(a.repo, rel)))
            except OSError:
                continue
            for p in pats:
                for m in re.finditer(p, s):
                    hits.append(f"{rel}: {m.group(0)}")
        return hits
    all_src = []
    for root, _, files in os.walk(os.path.join(a.repo, "src")):
        for f in files:
            if f.endswith(".rs"):
                rel = os.path.relpath(os.path.join(root, f), a.repo)
                if "/tests/" in rel or rel.endswith("verif.rs"): continue
                all_src.append(rel)
    all_src.sort()
    interior = scan([r for r in all_src], [r"\bCell<", r"\bRefCell<", r"\bUnsafeCell<", r"static mut ", r"\bAtomic\w+"])
    x.facts["interior_mutability_sites"] = interior
    allowed_atomic = [h for h in interior if h.startswith("src/arch/x86_64/memchr.rs") and "AtomicPtr" in h]
    x.facts["interior_mutability_unexpected"] = [h for h in interior if h not in allowed_atomic]
    alloc_hits = scan(all_src, [r"\balloc::\w+", r"\bBox(?:::|<)", r"\bVec(?:::|<)", r"\bString::", r"\.to_vec\(\)", r"\.to_owned\(\)", r"\bformat!"])
    x.facts["alloc_sites"] = alloc_hits
    x.facts["alloc_unexpected"] = [h for h in alloc_hits if not (h.startswith("src/cow.rs") or h.startswith("src/arch/all/shiftor.rs") or h.startswith("src/lib.rs"))]

    # pins -------------------------------------------------------------------------
    pins = {}
    for rel in all_src:
        try:
            pins[rel] = hashlib.sha256(norm(cut_tests(read(a.repo, rel))).encode()).hexdigest()[:16]
        except OSError:
            pass

    # write Lean ---------------------------------------------------------------------
    os.makedirs(a.out, exist_ok=True)
    lines = ["/- GENERATED by tools/extract.py from /repo on every run. Do not edit. -/",
             "namespace Memchr.Generated", ""]
    for k in sorted(x.consts):
        lines.append(f"def {k} : Nat := {x.consts[k]}")
    lines += ["", "end Memchr.Generated", ""]
    def write_if_changed(path, text):
        try:
            if open(path).read() == text:
                return False
        except OSError:
            pass
        with open(path, "w") as f:
            f.write(text)
        return True
    changed = []
    if write_if_changed(os.path.join(a.out, "Consts.lean"), "\n".join(lines)):
        changed.append("Consts.lean")
    if rank is not None:
        rl = ["/- GENERATED by tools/extract.py from /repo/src/arch/all/packedpair/default_rank.rs. -/",
              "namespace Memchr.Generated", "",
              "def defaultRankTable : Array UInt8 := #[" + ", ".join(str(t) for t in rank) + "]",
              "", "end Memchr.Generated", ""]
        if write_if_changed(os.path.join(a.out, "DefaultRank.lean"), "\n".join(rl)):
            changed.append("DefaultRank.lean")
    res = {"consts": x.consts, "broken": x.broken, "soft": x.soft, "facts": x.facts, "pins": pins, "changed_files": changed}
    if a.json:
        with open(a.json, "w") as f:
            json.dump(res, f, indent=1, sort_keys=True)
    else:
        json.dump({k: res[k] for k in ("consts", "broken", "soft", "changed_files")}, sys.stdout, indent=1, sort_keys=True)
        print()
    return 0

if __name__ == "__main__":
    sys.exit(main())
