//! Plain-Rust, lane-by-lane emulation of the aarch64 NEON intrinsics used by memchr, so
//! that the crate's real NEON code paths (`NeonMoveMask`, `impl Vector for uint8x16_t`,
//! the NEON wrappers and the aarch64 dispatch) run on an x86_64 host.
//!
//! Written from the Arm intrinsic reference. Loads are checked and recorded by
//! `crate::verif::note_load` (out-of-region loads return zeros instead of touching memory).
//! TRUSTED: that these functions compute what the hardware intrinsics compute.
#![allow(non_camel_case_types, missing_docs, dead_code)]

#[derive(Clone, Copy, Debug)]
pub struct uint8x16_t(pub [u8; 16]);
#[derive(Clone, Copy, Debug)]
pub struct uint16x8_t(pub [u16; 8]);
#[derive(Clone, Copy, Debug)]
pub struct uint8x8_t(pub [u8; 8]);
#[derive(Clone, Copy, Debug)]
pub struct uint64x1_t(pub [u64; 1]);
#[derive(Clone, Copy, Debug)]
pub struct uint64x2_t(pub [u64; 2]);

#[inline(always)]
pub unsafe fn vdupq_n_u8(b: u8) -> uint8x16_t {
    uint8x16_t([b; 16])
}

#[inline(always)]
pub unsafe fn vld1q_u8(ptr: *const u8) -> uint8x16_t {
    let mut lanes = [0u8; 16];
    if crate::verif::note_load(ptr, 16, false) {
        for i in 0..16 {
            lanes[i] = *ptr.add(i);
        }
    }
    uint8x16_t(lanes)
}

#[inline(always)]
pub unsafe fn vreinterpretq_u16_u8(a: uint8x16_t) -> uint16x8_t {
    let mut r = [0u16; 8];
    for j in 0..8 {
        r[j] = u16::from_le_bytes([a.0[2 * j], a.0[2 * j + 1]]);
    }
    uint16x8_t(r)
}

/// shift right by `n` and narrow each u16 lane to u8 (truncating)
#[inline(always)]
pub unsafe fn vshrn_n_u16(a: uint16x8_t, n: i32) -> uint8x8_t {
    let mut r = [0u8; 8];
    for j in 0..8 {
        r[j] = (a.0[j] >> n) as u8;
    }
    uint8x8_t(r)
}

#[inline(always)]
pub unsafe fn vreinterpret_u64_u8(a: uint8x8_t) -> uint64x1_t {
    uint64x1_t([u64::from_le_bytes(a.0)])
}

#[inline(always)]
pub unsafe fn vget_lane_u64(a: uint64x1_t, lane: i32) -> u64 {
    a.0[lane as usize]
}

#[inline(always)]
pub unsafe fn vceqq_u8(a: uint8x16_t, b: uint8x16_t) -> uint8x16_t {
    let mut r = [0u8; 16];
    for i in 0..16 {
        r[i] = if a.0[i] == b.0[i] { 0xFF } else { 0 };
    }
    uint8x16_t(r)
}

#[inline(always)]
pub unsafe fn vandq_u8(a: uint8x16_t, b: uint8x16_t) -> uint8x16_t {
    let mut r = [0u8; 16];
    for i in 0..16 {
        r[i] = a.0[i] & b.0[i];
    }
    uint8x16_t(r)
}

#[inline(always)]
pub unsafe fn vorrq_u8(a: uint8x16_t, b: uint8x16_t) -> uint8x16_t {
    let mut r = [0u8; 16];
    for i in 0..16 {
        r[i] = a.0[i] | b.0[i];
    }
    uint8x16_t(r)
}

/// pairwise maximum: lanes 0..8 from adjacent pairs of `a`, lanes 8..16 from `b`
#[inline(always)]
pub unsafe fn vpmaxq_u8(a: uint8x16_t, b: uint8x16_t) -> uint8x16_t {
    let mut r = [0u8; 16];
    for j in 0..8 {
        r[j] = a.0[2 * j].max(a.0[2 * j + 1]);
        r[8 + j] = b.0[2 * j].max(b.0[2 * j + 1]);
    }
    uint8x16_t(r)
}

#[inline(always)]
pub unsafe fn vreinterpretq_u64_u8(a: uint8x16_t) -> uint64x2_t {
    let mut lo = [0u8; 8];
    let mut hi = [0u8; 8];
    lo.copy_from_slice(&a.0[0..8]);
    hi.copy_from_slice(&a.0[8..16]);
    uint64x2_t([u64::from_le_bytes(lo), u64::from_le_bytes(hi)])
}

#[inline(always)]
pub unsafe fn vgetq_lane_u64(a: uint64x2_t, lane: i32) -> u64 {
    a.0[lane as usize]
}
