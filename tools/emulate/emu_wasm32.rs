//! Plain-Rust emulation of the wasm32 simd128 intrinsics used by memchr (see
//! emu_aarch64.rs). `v128_load` is checked and recorded; the crate's `load_aligned` is a
//! plain dereference of a `*const v128`, which mkemu.py rewrites into a call of
//! `v128_deref_aligned` below (checked and recorded as an ALIGNED 16-byte load; `v128` here
//! has alignment 16 like the real type).
#![allow(non_camel_case_types, missing_docs, dead_code)]

#[derive(Clone, Copy, Debug)]
#[repr(C, align(16))]
pub struct v128(pub [u8; 16]);

#[inline(always)]
pub fn u8x16_splat(b: u8) -> v128 {
    v128([b; 16])
}

#[inline(always)]
pub unsafe fn v128_load(ptr: *const v128) -> v128 {
    let p = ptr as *const u8;
    let mut lanes = [0u8; 16];
    if crate::verif::note_load(p, 16, false) {
        for i in 0..16 {
            lanes[i] = *p.add(i);
        }
    }
    v128(lanes)
}

/// what `*ptr` on a `*const v128` does: a 16-byte load that requires 16-byte alignment
#[inline(always)]
pub unsafe fn v128_deref_aligned(ptr: *const v128) -> v128 {
    let p = ptr as *const u8;
    let mut lanes = [0u8; 16];
    if crate::verif::note_load(p, 16, true) {
        for i in 0..16 {
            lanes[i] = *p.add(i);
        }
    }
    v128(lanes)
}

#[inline(always)]
pub fn u8x16_bitmask(a: v128) -> u16 {
    let mut m = 0u16;
    for i in 0..16 {
        m |= ((a.0[i] >> 7) as u16) << i;
    }
    m
}

#[inline(always)]
pub fn u8x16_eq(a: v128, b: v128) -> v128 {
    let mut r = [0u8; 16];
    for i in 0..16 {
        r[i] = if a.0[i] == b.0[i] { 0xFF } else { 0 };
    }
    v128(r)
}

#[inline(always)]
pub fn v128_and(a: v128, b: v128) -> v128 {
    let mut r = [0u8; 16];
    for i in 0..16 {
        r[i] = a.0[i] & b.0[i];
    }
    v128(r)
}

#[inline(always)]
pub fn v128_or(a: v128, b: v128) -> v128 {
    let mut r = [0u8; 16];
    for i in 0..16 {
        r[i] = a.0[i] | b.0[i];
    }
    v128(r)
}
