#!/usr/bin/env python3
"""mkemu.py <neon|simd128|other> <dest-dir>

Copy /repo's current working tree to <dest-dir>/repo and rewrite its cfg predicates so that the
aarch64-NEON (resp. wasm32-simd128) code is what compiles on this x86_64 host, with
`core::arch::{aarch64,wasm32}` replaced by the plain-Rust emulation in this directory.
Also copies the executor crate to <dest-dir>/harness pointing at that copy.
"""
import os, re, shutil, subprocess, sys

HERE = os.path.dirname(os.path.abspath(__file__))
ROOT = os.path.dirname(os.path.dirname(HERE))

def main():
    arch, dest = sys.argv[1], os.path.abspath(sys.argv[2])
    repo = os.path.join(dest, "repo")
    if os.path.exists(dest):
        shutil.rmtree(dest)
    os.makedirs(dest)
    src_repo = os.environ.get("MEMCHR_VERIF_REPO", "/repo").rstrip("/")
    subprocess.check_call(["rsync", "-a", "--exclude", "target", "--exclude", ".git", "--exclude", "benchmarks",
                           "--exclude", "fuzz", src_repo + "/", repo + "/"])
    n_rewrites = 0
    for root, _, files in os.walk(os.path.join(repo, "src")):
        for f in files:
            if not f.endswith(".rs"):
                continue
            p = os.path.join(root, f)
            s = open(p).read()
            o = s
            s = s.replace('target_arch = "x86_64"', 'any()')
            if arch == "other":
                pass        # no vector module at all: the `not(any(x86_64, wasm32+simd128, aarch64))` paths
            elif arch == "neon":
                s = s.replace('target_arch = "aarch64"', 'all()')
                s = s.replace('target_feature = "neon"', 'all()')
                s = re.sub(r'^\s*#\[target_feature\(enable = "neon"\)\]\n', '', s, flags=re.M)
                s = s.replace('core::arch::aarch64', 'crate::emu_aarch64')
            else:
                s = s.replace('target_arch = "wasm32"', 'all()')
                s = s.replace('target_feature = "simd128"', 'all()')
                s = re.sub(r'^\s*#\[target_feature\(enable = "simd128"\)\]\n', '', s, flags=re.M)
                s = s.replace('core::arch::wasm32', 'crate::emu_wasm32')
                if f == "vector.rs" and os.path.basename(root) == "src":
                    # `load_aligned` of the v128 impl is a plain dereference: make it observable
                    pat = re.compile(r'(unsafe fn load_aligned\(data: \*const u8\) -> v128 \{\s*)\*data\.cast\(\)(\s*\})')
                    s, k = pat.subn(r'\1crate::emu_wasm32::v128_deref_aligned(data.cast())\2', s)
                    if k != 1:
                        sys.exit("mkemu: simd128 `load_aligned` is no longer `*data.cast()`; the emulation cannot record it")
            if s != o:
                n_rewrites += 1
                open(p, "w").write(s)
    if arch != "other":
        lib = os.path.join(repo, "src/lib.rs")
        s = open(lib).read()
        mod = "emu_aarch64" if arch == "neon" else "emu_wasm32"
        s = s.replace("mod vector;\n", "mod vector;\n#[allow(missing_docs)]\npub(crate) mod %s;\n" % mod, 1)
        open(lib, "w").write(s)
        shutil.copy(os.path.join(HERE, mod + ".rs"), os.path.join(repo, "src", mod + ".rs"))
    # executor copy
    h = os.path.join(dest, "harness")
    shutil.copytree(os.path.join(ROOT, "harness"), h, ignore=shutil.ignore_patterns("target"))
    ct = os.path.join(h, "Cargo.toml")
    s = re.sub(r'memchr = \{ path = "[^"]*"', 'memchr = { path = "%s"' % repo, open(ct).read())
    open(ct, "w").write(s)
    cfg = os.path.join(h, ".cargo/config.toml")
    s = open(cfg).read().replace('rustflags = ["--cfg", "memchr_verif"]',
                                 'rustflags = ["--cfg", "memchr_verif", "--cfg", "memchr_verif_emu_%s"]' % arch)
    open(cfg, "w").write(s)
    print("rewrote %d files; emulated %s tree at %s" % (n_rewrites, arch, dest))

if __name__ == "__main__":
    main()
