"""Per-property wiring: which theorems, which op families, which answer fields are compared.

An op is (line, meta).  meta keys:
  domain   'in' (documented domain: must not fault) | 'out' (out of domain: value unspecified)
  expect   None | 'panic' (documented panic must happen exactly here)
  allocs   expected number of heap allocations by the real code (C17), or None
  family   short name for the histogram
"""
import collections, json, os, re, sys, time

import vlib, gens

# fields compared between model and implementation, per property
#   val    value / fault class          steps  step counter        loads  load trace
# fields checked on the implementation alone (against oracle / monitors)
#   oracle  value equals naive oracle    fault  no fault in domain / documented panic exactly
#   badloads loads inside registered regions and aligned     crash  no SIGSEGV/abort
#   allocs  heap allocations as expected
PROPS = {
    "C01": dict(title="forward byte search", model=("val",), impl=("oracle", "fault", "crash")),
    "C02": dict(title="reverse byte search", model=("val",), impl=("oracle", "fault", "crash")),
    "C03": dict(title="forward substring search", model=("val",), impl=("oracle", "fault", "crash")),
    "C04": dict(title="reverse substring search", model=("val",), impl=("oracle", "fault", "crash")),
    "C05": dict(title="no out-of-bounds / misaligned reads", model=("val", "loads"), impl=("badloads", "crash")),
    "C06": dict(title="byte iterators any call order", model=("val",), impl=("oracle", "fault", "crash")),
    "C07": dict(title="byte counting", model=("val",), impl=("oracle", "fault", "crash")),
    "C08": dict(title="substring iterators", model=("val",), impl=("oracle", "fault", "crash")),
    "C09": dict(title="all back ends agree", model=("val",), impl=("oracle", "fault", "crash")),
    "C10": dict(title="heuristics never change results", model=("val",), impl=("oracle", "fault", "crash")),
    "C11": dict(title="prefilters never skip a match", model=("val",), impl=("oracle", "fault", "crash")),
    "C12": dict(title="substring building blocks", model=("val",), impl=("oracle", "fault", "crash")),
    "C13": dict(title="linear work", model=("val", "steps"), impl=("bound", "crash")),
    "C14": dict(title="no panic / overflow in domain", model=("val",), impl=("fault", "crash")),
    "C15": dict(title="concurrent use", model=("val",), impl=("oracle", "fault", "crash")),
    "C16": dict(title="finder purity", model=("val",), impl=("oracle", "fault", "crash")),
    "C17": dict(title="no heap allocation", model=("val",), impl=("allocs", "crash")),
    "C18": dict(title="is_equal / is_prefix / is_suffix", model=("val",), impl=("oracle", "fault", "crash")),
    "C19": dict(title="pair selection", model=("val",), impl=("oracle", "fault", "crash")),
}


def canon_head(d):
    if d["head"] == "ok":
        return "ok " + d.get("val", "")
    if d["head"] == "fault":
        return "fault " + d.get("fclass", "?")
    return d["head"]


def analyse(prop, spec, ops, model, impl, crashes):
    """-> (real, corr, stats). real: violations shown on the real code; corr: model/impl
    disagreements."""
    real, corr = [], []
    fam = collections.Counter()
    strat = collections.Counter()
    nontrivial = set()
    agreed = 0
    crash_idx = {i: rc for i, rc in crashes}
    for i, (line, meta) in enumerate(ops):
        fam[meta.get("family", line.split(" ", 1)[0])] += 1
        if model[i] is None and impl[i] is None and i not in crash_idx:
            continue    # executor variant unavailable (reported separately)
        m = vlib.parse_answer(model[i])
        if i in crash_idx:
            if "crash" in spec["impl"]:
                hang = crash_idx[i] in (-14, 142)
                real.append(dict(meta=meta, kind="hang" if hang else "crash", op=line,
                                 detail=("no answer within the per-op time limit (SIGALRM)" if hang
                                         else "executor died with status %s" % crash_idx[i]), model=model[i]))
            continue
        a = vlib.parse_answer(impl[i])
        if a["head"] == "crash":
            # not answered because an earlier op of the shard crashed and restart failed
            continue
        if meta.get("modelonly"):
            # evaluated by the model only (no real-code counterpart): must not be a fault / bad-op
            if m["head"] != "ok":
                corr.append(dict(meta=meta, kind="model-op-failed", op=line, model=model[i], impl=impl[i]))
            else:
                agreed += 1
            continue
        if meta.get("modelless"):
            # real-code-only op (oracle / guard pages / monitors); no model counterpart
            m = dict(a)
        if m["head"] == "bad-op" or a["head"] == "bad-op":
            corr.append(dict(meta=meta, kind="bad-op", op=line, model=model[i], impl=impl[i]))
            continue
        ok_here = True
        # --- implementation against the property's own oracle / monitors
        if "oracle" in spec["impl"] and a["head"] == "ok" and "oracle" in a and meta.get("domain", "in") == "in" \
                and a["val"].split("/")[0] != a["oracle"]:
            real.append(dict(meta=meta, kind="wrong-answer", op=line, impl=impl[i], oracle=a["oracle"], model=model[i]))
            ok_here = False
        if "fault" in spec["impl"]:
            if a["head"] == "fault" and meta.get("domain", "in") == "in" and meta.get("expect") != "panic":
                real.append(dict(meta=meta, kind="fault-in-domain", op=line, impl=impl[i], model=model[i]))
                ok_here = False
            if meta.get("expect") == "panic" and a["head"] != "fault":
                real.append(dict(meta=meta, kind="missing-documented-panic", op=line, impl=impl[i], model=model[i]))
                ok_here = False
            if meta.get("expect") == "nopanic" and a["head"] == "fault":
                real.append(dict(meta=meta, kind="spurious-panic", op=line, impl=impl[i], model=model[i]))
                ok_here = False
        if "badloads" in spec["impl"] and a.get("badloads", "0") != "0":
            real.append(dict(meta=meta, kind="out-of-bounds-or-misaligned-load", op=line, impl=impl[i], model=model[i]))
            ok_here = False
        if "allocs" in spec["impl"] and line.startswith(("finderops", "finderrevops")) and "allocs" in a and "allocs" in m \
                and a["head"] == "ok" and m["head"] == "ok":
            # the model's allocation count is the specification (C17 theorems): only the owning
            # conversions allocate
            if int(a["allocs"]) != int(m["allocs"]):
                real.append(dict(meta=meta, kind="unexpected-allocation", op=line, impl=impl[i], model=model[i]))
                ok_here = False
        if "allocs" in spec["impl"] and meta.get("allocs") is not None and "allocs" in a:
            if int(a["allocs"]) != meta["allocs"]:
                real.append(dict(meta=meta, kind="unexpected-allocation", op=line, impl=impl[i], expected=meta["allocs"]))
                ok_here = False
        if "bound" in spec["impl"] and a["head"] == "fault" and "tick limit exceeded" in a.get("raw", ""):
            real.append(dict(meta=meta, kind="step-bound-exceeded", op=line, impl=impl[i], model=model[i],
                             detail="the real code exceeded the executor's work limit of 64*(n+m)+2e6 steps"))
            ok_here = False
        if "bound" in spec["impl"] and meta.get("bound") is not None and "steps" in a:
            if int(a["steps"]) > meta["bound"]:
                real.append(dict(meta=meta, kind="step-bound-exceeded", op=line, impl=impl[i], bound=meta["bound"]))
                ok_here = False
        if "bound" in spec["impl"] and meta.get("tbound_ns") is not None and "ns" in a:
            # wall-clock guard for work the step counters cannot see (time spent inside libcore
            # or libc routines called by the crate); the executor reports the minimum of up to
            # three runs, the bound is ~100x the cost observed on the unchanged tree
            if int(a["ns"]) > meta["tbound_ns"]:
                real.append(dict(meta=meta, kind="time-bound-exceeded", op=line, impl=impl[i][:300], bound_ns=meta["tbound_ns"]))
                ok_here = False
        # --- model against implementation
        if meta.get("allow_model_ptroob") and m["head"] == "fault" and m.get("fclass") == "ptroob":
            # observation O2: pointer arithmetic leaving the allocation without a read is a
            # fault of the model that the real code cannot exhibit
            if ok_here:
                agreed += 1
            continue
        if "val" in spec["model"]:
            if meta.get("domain", "in") == "in" or m["head"] == "fault" or a["head"] == "fault":
                # out-of-domain values are unspecified: only compare when in domain, except
                # that fault-vs-ok is always compared
                mh, ah = canon_head(m), canon_head(a)
                if meta.get("domain", "in") == "out" and m["head"] == "ok" and a["head"] == "ok":
                    pass
                elif mh != ah:
                    corr.append(dict(meta=meta, kind="value", op=line, model=model[i], impl=impl[i]))
                    ok_here = False
        if "steps" in spec["model"] and m["head"] == "ok" and a["head"] == "ok":
            if m.get("steps") != a.get("steps"):
                corr.append(dict(meta=meta, kind="steps", op=line, model=model[i], impl=impl[i]))
                ok_here = False
        if "loads" in spec["model"] and m["head"] == "ok" and a["head"] == "ok":
            ml = m.get("loads")
            uw = meta.get("untraced_widths")
            skip = False
            if uw and ml not in (None, "-"):
                if ":" in ml:
                    kept = [t for t in ml.split(",") if int(t.split(":")[2]) not in uw]
                    ml = ",".join(kept) if kept else "-"
                else:
                    skip = True      # digest of a long trace that includes the untraced vector loads
            if not skip and a.get("loads", "?") != "?" and ml != a.get("loads"):
                corr.append(dict(meta=meta, kind="loads", op=line, model=model[i], impl=impl[i]))
                ok_here = False
        if ok_here:
            agreed += 1
        if a.get("strat") and a["strat"] != "-":
            toks = a["strat"].split(",")
            pre = [t for t in toks[1:] if t.startswith("prefilter_kind_")]
            key = toks[0].replace("searcher_kind_", "")
            if pre:
                n = len(pre)
                key += "+" + pre[0].replace("prefilter_kind_", "pre_") + ("x1" if n == 1 else "x2-5" if n <= 5 else "x6+")
            strat[key] += 1
        try:
            if int(m.get("steps", "0")) >= 3 or (line.startswith("conc ") and int(line.split()[2]) >= 2):
                nontrivial.add(line)
        except ValueError:
            pass
    stats = dict(families=dict(fam), distinct_nontrivial=len(nontrivial), agreed=agreed, strategies=dict(strat))
    return real, corr, stats


def match_known(prop, v, known):
    for k in known.get("findings", []):
        if k.get("status") != "known" or k.get("property") != prop:
            continue
        pat = k.get("match_op_regex")
        if pat and re.search(pat, v.get("op", "")) and (not k.get("kind") or k["kind"] == v.get("kind")):
            return k
    return None


def run(prop, spec, tier, seed, t0):
    out_lines = []
    ex = vlib.run_extract()
    lean = vlib.lean_check(prop)
    rc, txt = vlib.build_exec()
    build_error = None
    if rc != 0:
        build_error = "cargo build of the executor against /repo failed:\n" + txt
    rc2, txt2 = vlib.build_driver() if not lean["errors"] else (0, "")
    # a changed source pin (normalised text of a modelled file differs from the committed pin)
    # is not a failure, but the correspondence then uses the deep generators for this run
    gen_tier = tier

    def bounded(it, cap, limit, r):
        """reservoir sample of at most `cap` items from the first `limit` items of `it`,
        returned in generation order"""
        import itertools
        res, idx = [], []
        for i, x in enumerate(itertools.islice(it, limit)):
            if len(res) < cap:
                res.append(x)
                idx.append(i)
            else:
                j = r.randrange(i + 1)
                if j < cap:
                    res[j] = x
                    idx[j] = i
        order = sorted(range(len(res)), key=lambda k: idx[k])
        return [res[k] for k in order]

    import random as _random
    if tier == "thorough":
        # the deep streams can be tens of millions of ops: uniform sample of 2.5M of the first 15M,
        # plus the complete quick stream (every targeted family)
        ops = list(gens.generate(prop, "quick", seed)) + bounded(gens.generate(prop, "thorough", seed), 2500000, 15000000, _random.Random(seed))
    else:
        ops = list(gens.generate(prop, tier, seed))
    # (a changed source pin or a tie that could not be re-read syntactically - `soft` - is not a
    # failure: the run then also uses a sample of the deep generators)
    if tier == "quick" and (ex.get("pins_changed") or ex.get("soft")):
        # keep the complete quick stream (it contains every targeted family) and add a random
        # sample of the deep stream
        gen_tier = "quick+deep-sample"
        ops = ops + bounded(gens.generate(prop, "thorough", seed + 7, budget=400000), 500000, 4000000, _random.Random(seed))
    # the corpus of inputs that once exposed a seeded defect runs first, whatever the seed
    cpath = os.path.join(vlib.ROOT, "corpus", prop + ".jsonl")
    if os.path.exists(cpath):
        corpus = []
        with open(cpath) as f:
            for l in f:
                d = json.loads(l)
                corpus.append((d["op"], d["meta"]))
        ops = corpus + ops
    only = os.environ.get("MEMCHR_VERIF_ONLY_CFGS")
    if only:
        # development aid (tools/mechmut.py): restrict the run to some executor variants
        keep = set(only.split(","))
        ops = [(o, m) for (o, m) in ops if m.get("cfg", "host") in keep]
        gen_tier += "+only:" + only
    model = impl = None
    crashes = []
    real, corr, stats = [], [], dict(families={}, distinct_nontrivial=0, agreed=0, strategies={})
    variant_errors = []
    if build_error is None and os.path.exists(vlib.DRIVER):
        model, impl, crashes, verrs = vlib.run_grouped(ops)
        real, corr, stats = analyse(prop, spec, ops, model, impl, crashes)
        variant_errors.extend(verrs)
    broken = []          # things that no longer check (theorems, tie, correspondence)
    for e in ex.get("broken", []):
        broken.append("extractor: " + e)
    for e in lean["errors"]:
        broken.append("lean: " + e)
    if build_error:
        broken.append(build_error)
    for e in variant_errors:
        broken.append(e)
    if corr:
        broken.append("correspondence: %d disagreement(s); first: %s" % (len(corr), json.dumps(corr[0])[:600]))
    # extractor facts relevant to the property
    for e in gens.fact_failures(prop, ex):
        broken.append("extractor fact: " + e)

    # search for a failing input when something broke but nothing real was found yet
    searched = 0
    if broken and not real and build_error is None and tier == "quick" and gen_tier == "quick" and os.path.exists(vlib.DRIVER):
        ops2 = list(gens.generate(prop, "thorough", seed + 1, budget=200000))
        m2, i2, c2, _ = vlib.run_grouped(ops2)
        r2, _, _ = analyse(prop, spec, ops2, m2, i2, c2)
        searched = len(ops2)
        real.extend(r2)

    known = vlib.load_known()
    exit_code = 0
    n_viol = 0
    reported = set()
    for v in real:
        k = match_known(prop, v, known)
        if k:
            key = k.get("id")
            if key not in reported:
                print("KNOWN-FINDING: property=%s %s" % (prop, k.get("what", key)))
                reported.add(key)
            continue
        n_viol += 1
        if n_viol <= 3:
            path = vlib.write_replay(prop, tier, seed, v["kind"], v)
            print("VIOLATION property=%s replay=%s" % (prop, path))
        exit_code = 1
    if broken and n_viol == 0:
        path = vlib.write_replay(prop, tier, seed, "unproved", dict(
            no_longer_checks=broken, searched_inputs=searched + len(ops),
            note="no input falsifying the property was found; the property is no longer shown to hold"))
        print("VIOLATION property=%s replay=%s no-failing-input-found" % (prop, path))
        n_viol += 1
        exit_code = 1

    samples = []
    for i in range(0, len(ops), max(1, len(ops) // 5))[:5] if ops else []:
        samples.append(dict(op=ops[i][0][:300], model=(model[i] if model else None),
                            impl=(impl[i][:300] if impl and impl[i] else None)))
    for name in list(lean["theorems"])[:3]:
        samples.append(dict(theorem=name, axioms=lean["theorems"][name]))
    coverage = dict(
        obligations=max(1, lean["obligations"]), discharged=lean["discharged"],
        checker_cmd="cd /verif/lean && lake build %s && lake env lean MemchrModel/Props/%s.lean  (#print axioms audited)" % (lean["module"], prop),
        trusted_base=vlib.TRUSTED_BASE,
        theorems={k: v for k, v in lean["theorems"].items()},
        evaluations=len(ops), distinct_nontrivial=stats["distinct_nontrivial"],
        rule=gens.rule(prop),
        samples=samples or [dict(note="no ops ran")],
        traces_validated_against_impl=stats["agreed"],
        families=stats["families"], strategies_hit=stats.get("strategies", {}), correspondence_disagreements=len(corr),
        executor_crashes=len(crashes), extractor_broken=ex.get("broken", []), extractor_soft=ex.get("soft", []),
        pins_changed=ex.get("pins_changed", []), generator_tier=gen_tier, search_inputs=searched,
        exhaustive=gens.exhaustive(prop, tier),
    )
    if tier == "thorough" and not lean["errors"]:
        rc, txt = vlib.leanchecker(prop)
        coverage["leanchecker_rc"] = rc
        if rc != 0:
            print("leanchecker failed:", txt)
            if exit_code == 0:
                path = vlib.write_replay(prop, tier, seed, "unproved", dict(no_longer_checks=["leanchecker: " + txt]))
                print("VIOLATION property=%s replay=%s no-failing-input-found" % (prop, path))
                exit_code = 1
                n_viol += 1
    vlib.write_evidence(prop, tier, seed, coverage, gens.assumptions(prop), time.time() - t0, n_viol)
    print("%s %s: %d theorems (%d discharged), %d ops, %d agreed, %d nontrivial, %d corr, %d real, %.1fs -> %s" % (
        prop, tier, lean["obligations"], lean["discharged"], len(ops), stats["agreed"],
        stats["distinct_nontrivial"], len(corr), len(real), time.time() - t0,
        "OK" if exit_code == 0 else "FAIL"))
    if broken and exit_code:
        for b in broken[:5]:
            print("  broken:", b[:1500])
    return exit_code


def replay(prop, path):
    with open(path) as f:
        r = json.load(f)
    op = r.get("op")
    if not op:
        print(json.dumps(r, indent=1)[:4000])
        print("replay file names what no longer checks; re-run ./check %s quick" % prop)
        return 1
    vlib.build_exec()
    vlib.build_driver()
    meta = r.get("meta", {})
    model, impl, crashes, verrs = vlib.run_grouped([(op, meta)])
    for e in verrs:
        print("executor variant problem:", e[:500])
    print("variant:", meta.get("cfg", "host"))
    print("op:    ", op[:2000])
    print("model: ", model[0])
    print("impl:  ", impl[0] if not crashes else "CRASH status %s" % crashes[0][1])
    spec = PROPS[prop]
    real, corr, _ = analyse(prop, spec, [(op, r.get("meta", {}))], model, impl, crashes)
    if real or corr:
        print("still failing:", (real + corr)[0]["kind"])
        return 1
    print("no longer failing")
    return 0
