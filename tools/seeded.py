#!/usr/bin/env python3
"""seeded.py collect <worktree> <id> <property>   confirm a candidate mutation in its scratch
                                                  worktree and store it under seeded/<id>/
   seeded.py run <id> [<property> ...]            apply seeded/<id>/patch.diff to /repo, run the
                                                  quick checks, undo, record the outcome
   seeded.py runall                               run every stored mutation against its property
"""
import json, os, subprocess, sys, time

ROOT = os.path.dirname(os.path.dirname(os.path.abspath(__file__)))
SEED = os.path.join(ROOT, "seeded")


def sh(cmd, cwd=None, timeout=3600):
    p = subprocess.run(cmd, cwd=cwd, shell=isinstance(cmd, str), stdout=subprocess.PIPE,
                       stderr=subprocess.STDOUT, text=True, timeout=timeout)
    return p.returncode, p.stdout


def collect(wt, mid, prop):
    d = os.path.join(SEED, mid)
    os.makedirs(d, exist_ok=True)
    rc, diff = sh("git diff -- src Cargo.toml", cwd=wt)
    assert diff.strip(), "no source change in " + wt
    open(os.path.join(d, "patch.diff"), "w").write(diff)
    demos = [f for f in os.listdir(os.path.join(wt, "tests")) if f.startswith("demo_")] if os.path.isdir(os.path.join(wt, "tests")) else []
    assert demos, "no demo"
    demo = demos[0]
    sh(["cp", os.path.join(wt, "tests", demo), os.path.join(d, demo)])
    if os.path.exists(os.path.join(wt, "MUTATION.md")):
        sh(["cp", os.path.join(wt, "MUTATION.md"), os.path.join(d, "MUTATION.md")])
    name = demo[:-3]
    ran = []
    def step(label, cmd, expect_ok):
        rc, out = sh(cmd, cwd=wt)
        tail = [l for l in out.splitlines() if l.startswith("test result") or "error" in l.lower()][-3:]
        ok = (rc == 0) == expect_ok
        ran.append(dict(step=label, cmd=cmd, rc=rc, expected="pass" if expect_ok else "fail", confirmed=ok, tail=tail))
        print("  %-34s rc=%d %s" % (label, rc, "OK" if ok else "UNEXPECTED"))
        return ok
    good = True
    good &= step("with change: unit tests", "cargo test --offline --lib", True)
    good &= step("with change: doc tests", "cargo test --offline --doc", True)
    extra = os.environ.get("DEMO_ARGS", "")
    good &= step("with change: demo", "cargo test --offline %s --test %s" % (extra, name), False)
    # (no `git stash`: the stash is shared by all worktrees of /repo)
    pf = os.path.join(d, "patch.diff")
    rc, out = sh(["git", "apply", "-R", pf], cwd=wt)
    assert rc == 0, out
    try:
        good &= step("without change: demo", "cargo test --offline %s --test %s" % (extra, name), True)
    finally:
        sh(["git", "apply", pf], cwd=wt)
    meta = dict(id=mid, property=prop, confirmed=bool(good), demo=demo, ran=ran,
                needs=open(os.path.join(d, "MUTATION.md")).read()[:3000] if os.path.exists(os.path.join(d, "MUTATION.md")) else "")
    json.dump(meta, open(os.path.join(d, "meta.json"), "w"), indent=1)
    print(mid, "confirmed" if good else "NOT CONFIRMED")
    return good


def run(mid, props):
    d = os.path.join(SEED, mid)
    meta = json.load(open(os.path.join(d, "meta.json")))
    props = props or [meta["property"]]
    rc, out = sh(["git", "-C", "/repo", "status", "--porcelain"])
    assert not out.strip(), "/repo is dirty: " + out
    rc, out = sh(["git", "-C", "/repo", "apply", os.path.join(d, "patch.diff")])
    assert rc == 0, out
    results = {}
    try:
        for p in props:
            t = time.time()
            rc, out = sh([os.path.join(ROOT, "check"), p, "quick"], cwd=ROOT)
            viol = [l for l in out.splitlines() if l.startswith("VIOLATION")]
            summary = [l for l in out.splitlines() if l.startswith(p + " quick")]
            results[p] = dict(rc=rc, detected=bool(rc != 0 and viol), violation_lines=viol[:3],
                              with_input=any("no-failing-input-found" not in l for l in viol),
                              summary=summary[-1] if summary else out[-300:], wall=round(time.time() - t, 1))
            print("  %s on %s: rc=%d %s" % (mid, p, rc, viol[:1]))
    finally:
        sh(["git", "-C", "/repo", "checkout", "--", "."])
    meta.setdefault("check_runs", {}).update(results)
    json.dump(meta, open(os.path.join(d, "meta.json"), "w"), indent=1)
    return results


if __name__ == "__main__":
    a = sys.argv[1:]
    if a[0] == "collect":
        sys.exit(0 if collect(a[1], a[2], a[3]) else 1)
    elif a[0] == "run":
        run(a[1], a[2:])
    elif a[0] == "runall":
        for mid in sorted(os.listdir(SEED)):
            if os.path.exists(os.path.join(SEED, mid, "meta.json")):
                run(mid, [])
